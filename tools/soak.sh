#!/bin/bash
# tools/soak.sh <tier> <seed>...  — build, then run every check on the unchanged tree for each seed; prints one line per run
tier="$1"; shift
cd "$(dirname "$0")/.." || exit 2
./setup.sh >/dev/null 2>&1 || { echo "setup failed"; exit 2; }
for s in "$@"; do
  for i in 01 02 03 04 05 06 07 08 09 10 11 12 13 14 15 16 17 18 19 20; do
    ( VERIF_SEED=$s ./check C$i --tier "$tier" > soak_${tier}_${s}_C$i.log 2>&1; echo "seed=$s C$i exit=$? $(grep -c '^VIOLATION' soak_${tier}_${s}_C$i.log) violations; $(tail -1 soak_${tier}_${s}_C$i.log)" ) &
    # at most 5 at a time
    while [ "$(jobs -r | wc -l)" -ge 5 ]; do sleep 2; done
  done
done
wait
