#!/usr/bin/env python3
"""Regenerate MANIFEST.json from the property modules that exist (harness/props/cXX.py)."""
import importlib
import json
import os
import sys

VERIF = os.path.dirname(os.path.dirname(os.path.abspath(__file__)))
sys.path.insert(0, VERIF)

PENDING_REASON = "check not built yet in this round; the property is decidable by the technique (see DESIGN.md section 4)"


def main():
    props = [json.loads(l) for l in open(os.path.join(VERIF, "properties.jsonl"))]
    checks, na = [], []
    for p in props:
        pid = p["id"]
        path = os.path.join(VERIF, "harness", "props", pid.lower() + ".py")
        if not os.path.exists(path):
            na.append({"property_id": pid, "reason": PENDING_REASON})
            continue
        mod = importlib.import_module("harness.props." + pid.lower())
        checks.append({
            "property_id": pid,
            "quick_cmd": "./check %s --tier quick" % pid,
            "thorough_cmd": "./check %s --tier thorough" % pid,
            "evidence_file": "evidence/%s.json" % pid,
            "replay_cmd_template": "./check %s --replay {path}" % pid,
            "engine": "lean4-model+correspondence",
            "level_claimed": {
                "category": "proof",
                "text": getattr(mod, "LEVEL_TEXT", "Lean 4 theorems about the executable model of the code (all inputs, by induction), "
                                "tied to /repo by tables regenerated on every run (decide) and by differential execution of "
                                "model and implementation; the property oracle is also run on the implementation for every case."),
                "design_ref": "DESIGN.md section 4 (%s)" % pid,
            },
            "level_note": getattr(mod, "LEVEL_NOTE", "Trusted: Lean kernel (axioms propext, Classical.choice, Quot.sound only), the Spec "
                                  "definitions as a reading of the prose property, harness/extract.py + describe.py + generators; the theorems are "
                                  "about the model, the tie to the code is checked on generated inputs, not proved."),
            "technique": getattr(mod, "TECHNIQUE", "Lean 4 proof over an executable model + generated-table agreement (decide) + model/implementation differential" + (" (renderings, and call by call the builder methods: harness/trace.py)" if getattr(mod, "TRACE_BUILDER", False) else "") +
                         ("; frame / locality theorems of the builder model tied to the source's write and read sets (Agree/BuilderWrites, Agree/DDLWrites)"
                          if any("writes_agree" in a for a in getattr(mod, "AGREE", [])) else "")),
        })
    manifest = {
        "version": 1,
        "setup_cmd": "./setup.sh",
        "hooks": {
            "guard": "PYPIKA_VERIF",
            "enable": "no hooks are needed: every observation goes through the public API of /repo's working tree (PYTHONPATH=/repo); the builder-call recorder (harness/trace.py) wraps the library's methods inside the harness process at run time and changes nothing in /repo",
            "baseline_off_cmd": "cd /repo && /venv/bin/python -m pytest -ra -q -p no:cacheprovider --timeout=900 --continue-on-collection-errors",
            "source_commits": [],
            "add_only": True,
        },
        "engines": [{
            "name": "lean4-model+correspondence",
            "path": "lean/ (lake project Pypika, import-free model + Props/*.lean), harness/ (Python), check",
            "serves_properties": [c["property_id"] for c in checks],
            "kind_free_text": "Lean 4.33 proofs about a hand-written executable model; tables regenerated from /repo and checked by decide; "
                              "JSON-lines differential between the compiled model driver and the real library (statement renderings; every real builder call a check makes is also run through the Lean model of the method); property oracles on the implementation",
        }],
        "checks": checks,
        "not_applicable": na,
        "notes": "See DESIGN.md. known_findings.json lists open findings (suppressed by signature) and fixed entries (never suppress).",
    }
    with open(os.path.join(VERIF, "MANIFEST.json"), "w") as f:
        json.dump(manifest, f, indent=1)
    print("MANIFEST.json: %d checks, %d pending" % (len(checks), len(na)))


if __name__ == "__main__":
    main()
