import random, json, sys, collections
from harness import common, ns, genq, trace
drv = common.Driver()
reqs=[]; stats={}
rng=random.Random(int(sys.argv[1]) if len(sys.argv)>1 else 1)
N=int(sys.argv[2]) if len(sys.argv)>2 else 300
for i in range(N):
    g=genq.QG(rng)
    try:
        v=g.any_statement()
    except Exception as e:
        continue
    src=g.script()
    with trace.recording() as tr:
        try:
            ns.ex(src)
        except Exception as e:
            pass
    for r in tr.requests(stats):
        reqs.append((r,src))
ans=drv.ask([r[0][0] for r in reqs])
bad=0; c=collections.Counter()
for (r,src),got in zip(reqs,ans):
    req,exp,label=r
    if "star_tables" in got: got["star_tables"].sort(key=lambda x: json.dumps(x,sort_keys=True))
    if got!=exp:
        bad+=1; c[label]+=1
        if bad<=int(sys.argv[3]) if len(sys.argv)>3 else 6:
            print("----",label); print(src); print("call",json.dumps(req["calls"])[:600]); print("exp",exp); print("got",json.dumps(got)[:900])
print(len(reqs),"requests",bad,"bad"); print(c.most_common(20)); print(sorted(stats.items(), key=lambda x:-x[1])[:60])
