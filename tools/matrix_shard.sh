#!/bin/bash
# tools/matrix_shard.sh <name> [--own] <mutant-id>...  — run tools/seed_matrix.py against a private scratch worktree of /repo
# (meant for `vp run`: the snapshot has its own lean/ build directory, the worktree its own source tree, so several shards
# can run side by side without touching /repo). Prints the seed_matrix lines; results land in this checkout's seeded/*/meta.json.
name="$1"; shift
cd "$(dirname "$0")/.." || exit 2
wt="/tmp/matrix-wt-$name"
git -C /repo worktree remove --force "$wt" 2>/dev/null
git -C /repo worktree add --detach "$wt" HEAD >/dev/null 2>&1 || exit 2
trap 'git -C /repo worktree remove --force "$wt"' EXIT
export PYPIKA_REPO="$wt"
./setup.sh >/dev/null 2>&1 || { echo "setup failed"; exit 2; }
/venv/bin/python tools/seed_matrix.py "$@"
for m in "$@"; do [ -f "seeded/$m/meta.json" ] && { echo "=====META $m"; cat "seeded/$m/meta.json"; echo; echo "=====END"; }; done > "matrix-meta-$name.out"
