#!/usr/bin/env python3
"""tools/merge_shard_meta.py <vp-run-number> <key> — copy the `own_check_run` record that a background matrix shard
(tools/matrix_shard.sh under `vp run`) wrote into its own snapshot's seeded/<id>/meta.json into /verif/seeded/<id>/meta.json
under <key> (`first_contact_own_check` for the first run against a new change, `own_check_run` for a re-run)."""
import json
import os
import re
import subprocess
import sys

V = os.path.dirname(os.path.dirname(os.path.abspath(__file__)))
run, key = sys.argv[1], sys.argv[2]
rd = "/root/.vp/runs/%s" % run
log = open(os.path.join(rd, "log")).read()
ids = re.findall(r"^(C\d\d-m\d+) demo clean/changed", log, re.M)
commit = subprocess.run("git -C %s/verif rev-parse --short HEAD" % rd, shell=True, stdout=subprocess.PIPE, text=True).stdout.strip()
for mid in ids:
    src = os.path.join(rd, "verif", "seeded", mid, "meta.json")
    dst = os.path.join(V, "seeded", mid, "meta.json")
    if not (os.path.exists(src) and os.path.exists(dst)):
        print(mid, "missing")
        continue
    rec = json.load(open(src)).get("own_check_run")
    if not rec:
        print(mid, "no record")
        continue
    rec = dict(rec)
    rec["how"] += " (background shard against a scratch worktree of /repo HEAD, vp run %s, /verif at commit %s)" % (run, commit or "?")
    meta = json.load(open(dst))
    meta[key] = rec
    json.dump(meta, open(dst, "w"), indent=1)
    print(mid, key, "exit", rec["check_exit_code"])
