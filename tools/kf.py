#!/usr/bin/env python3
"""tools/kf.py add <PID> '<signature json>' '<what>' '<corpus case json>' <name>   — register a known finding + corpus replay"""
import json, os, sys
V = os.path.dirname(os.path.dirname(os.path.abspath(__file__)))
def main():
    cmd, pid, sig, what, case, name = sys.argv[1:7]
    assert cmd == "add"
    path = os.path.join(V, "known_findings.json")
    data = json.load(open(path))
    sig = json.loads(sig); case = json.loads(case)
    os.makedirs(os.path.join(V, "corpus", pid), exist_ok=True)
    rp = "corpus/%s/kf-%s.json" % (pid, name)
    json.dump(case, open(os.path.join(V, rp), "w"), indent=1)
    data["findings"] = [e for e in data["findings"] if not (e["property"] == pid and e.get("signature") == sig)]
    data["findings"].append({"status": "finding", "property": pid, "signature": sig, "what": what, "replay": rp})
    json.dump(data, open(path, "w"), indent=1)
    print("registered", pid, sig)
main()
