#!/usr/bin/env python3
"""Regenerate the theorem table of DESIGN.md §9.3 from harness/props/cXX.py (THEOREMS / AGREE), between the markers
<!-- THEOREMS:BEGIN --> and <!-- THEOREMS:END -->."""
import importlib
import os
import re
import sys

V = os.path.dirname(os.path.dirname(os.path.abspath(__file__)))
sys.path.insert(0, V)


def main():
    rows = ["| id | theorems (namespace `Pypika.`) | Agree tables | builder calls traced |", "|---|---|---|---|"]
    for i in range(1, 21):
        m = importlib.import_module("harness.props.c%02d" % i)
        th = ", ".join("`%s`" % t.replace("Pypika.", "") for t in m.THEOREMS)
        ag = ", ".join(a.split(".")[-1] for a in getattr(m, "AGREE", [])) or "—"
        rows.append("| C%02d | %s | %s | %s |" % (i, th, ag, "yes" if getattr(m, "TRACE_BUILDER", False) else "no"))
    p = os.path.join(V, "DESIGN.md")
    s = open(p).read()
    a, b = "<!-- THEOREMS:BEGIN -->", "<!-- THEOREMS:END -->"
    if a not in s:
        # first use: replace the hand-written table of 9.3
        i = s.index("| id | theorems (namespace `Pypika.`) | Agree tables |")
        j = s.index("\n\n", i)
        s = s[:i] + a + "\n" + b + s[j:]
    i, j = s.index(a), s.index(b)
    s = s[:i + len(a)] + "\n" + "\n".join(rows) + "\n" + s[j:]
    open(p, "w").write(s)
    print("theorem table:", sum(len(importlib.import_module("harness.props.c%02d" % i).THEOREMS) for i in range(1, 21)), "theorems")


main()
