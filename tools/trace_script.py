"""tools/trace_script.py FILE — run one script under builder tracing and print every model/implementation comparison"""
import json, sys
from harness import common, ns, trace
drv = common.Driver()
src = open(sys.argv[1]).read()
stats = {}
with trace.recording() as tr:
    ns.ex(src)
reqs = tr.requests(stats)
ans = drv.ask([r[0] for r in reqs])
for (req, exp, label), got in zip(reqs, ans):
    if "star_tables" in got:
        got["star_tables"].sort(key=lambda x: json.dumps(x, sort_keys=True))
    print("OK  " if got == exp else "DIFF", label, json.dumps(req["calls"])[:200])
    if got != exp:
        print("   expected", exp)
        print("   model   ", got)
print(stats)
