#!/bin/bash
# tools/soak_shard.sh <name> <tier> <seed>...  — tools/soak.sh against a private scratch worktree of /repo (for `vp run`)
name="$1"; shift
cd "$(dirname "$0")/.." || exit 2
wt="/tmp/soak-wt-$name"
git -C /repo worktree remove --force "$wt" 2>/dev/null
git -C /repo worktree add --detach "$wt" HEAD >/dev/null 2>&1 || exit 2
trap 'git -C /repo worktree remove --force "$wt"' EXIT
export PYPIKA_REPO="$wt"
bash tools/soak.sh "$@"
grep -h "^VIOLATION\|^HARNESS" soak_*.log | head -40
