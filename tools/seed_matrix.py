#!/usr/bin/env python3
"""tools/seed_matrix.py [<mutant-id> ...]  — for every seeded change under /verif/seeded/<id>/: confirm the demonstration
passes on the clean tree and fails with the change, apply the change to /repo, run every check (quick tier) and record
which ones report a violation, undo the change.  Writes seeded/<id>/meta.json["runs"] and seeded/matrix.json."""
import json
import os
import subprocess
import sys
from concurrent.futures import ThreadPoolExecutor

V = os.path.dirname(os.path.dirname(os.path.abspath(__file__)))
REPO = os.environ.get("PYPIKA_REPO", "/repo")   # a scratch checkout may stand in for /repo (the checks honour the same variable)
PIDS = ["C%02d" % i for i in range(1, 21)]


def sh(cmd, cwd=None, timeout=1800):
    p = subprocess.run(cmd, shell=True, cwd=cwd, stdout=subprocess.PIPE, stderr=subprocess.STDOUT, text=True, timeout=timeout)
    return p.returncode, p.stdout


def demo(d):
    rc, out = sh("/venv/bin/python %s/demo.py" % d, cwd=REPO)
    return rc, out[-400:]


def run_check(pid):
    rc, out = sh("%s/check %s" % (V, pid))
    lines = [l for l in out.split("\n") if l.startswith("VIOLATION")]
    return pid, rc, lines[:1]


def main():
    args = sys.argv[1:]
    own_only = "--own" in args          # run only the check of the property the change was written against
    args = [a for a in args if a != "--own"]
    ids = args or sorted(os.listdir(os.path.join(V, "seeded")))
    matrix_path = os.path.join(V, "seeded", "matrix.json")
    matrix = json.load(open(matrix_path)) if os.path.exists(matrix_path) else {}
    for mid in ids:
        d = os.path.join(V, "seeded", mid)
        if not os.path.isdir(d):
            continue
        assert sh("git status --porcelain", cwd=REPO)[1].strip() == "", "/repo not clean"
        meta = json.load(open(os.path.join(d, "meta.json")))
        clean_rc, _ = demo(d)
        rc, out = sh("git apply %s/patch.diff" % d, cwd=REPO)
        if rc != 0:
            print(mid, "patch does not apply:", out[:200])
            continue
        try:
            mut_rc, mut_out = demo(d)
            with ThreadPoolExecutor(max_workers=10) as ex:
                results = list(ex.map(run_check, [meta["property"]] if own_only else PIDS))
        finally:
            sh("git checkout -- .", cwd=REPO)
        caught = {pid: rc for pid, rc, _ in results}
        if own_only:
            meta["own_check_run"] = {"demonstration_on_clean_tree_exit": clean_rc, "demonstration_with_change_exit": mut_rc,
                                     "check_exit_code": caught[meta["property"]],
                                     "violation_line": next((l[0] for pid, rc, l in results if l), None),
                                     "how": "git -C %s apply seeded/%s/patch.diff; ./check %s (quick tier, seed 0); git checkout -- ." % (REPO, mid, meta["property"])}
            json.dump(meta, open(os.path.join(d, "meta.json"), "w"), indent=1)
            print(mid, "demo clean/changed = %d/%d" % (clean_rc, mut_rc), "own check exit", caught[meta["property"]], flush=True)
            continue
        meta["runs"] = {
            "demonstration_on_clean_tree_exit": clean_rc, "demonstration_with_change_exit": mut_rc,
            "demonstration_output_with_change": mut_out,
            "how": "git -C %s apply seeded/%s/patch.diff; ./check <id> (quick tier, seed 0) for every property; git -C %s checkout -- ." % (REPO, mid, REPO),
            "check_exit_codes": caught,
            "violation_lines": {pid: l[0] for pid, rc, l in results if l},
            "caught_by": [pid for pid in PIDS if caught.get(pid) == 1],
            "own_check_catches": caught.get(meta["property"]) == 1,
        }
        json.dump(meta, open(os.path.join(d, "meta.json"), "w"), indent=1)
        matrix[mid] = meta["runs"]["caught_by"]
        json.dump(matrix, open(matrix_path, "w"), indent=1, sort_keys=True)
        print(mid, "demo clean/changed = %d/%d" % (clean_rc, mut_rc), "caught by", meta["runs"]["caught_by"], flush=True)
    # leave the generated tables matching the clean tree
    sh("/venv/bin/python -m harness.extract", cwd=V)
    print("missed by own check:", [m for m in ids if os.path.isdir(os.path.join(V, "seeded", m)) and
                                     json.load(open(os.path.join(V, "seeded", m, "meta.json")))["property"] not in matrix.get(m, [])])


main()
