#!/usr/bin/env python3
"""tools/mk_matrix_md.py — rewrite the block between <!-- MATRIX:BEGIN --> and <!-- MATRIX:END --> in DESIGN.md from
seeded/*/meta.json (which checks report a violation with each seeded change applied)."""
import json
import os
import re

V = os.path.dirname(os.path.dirname(os.path.abspath(__file__)))


def main():
    rows = []
    for mid in sorted(os.listdir(os.path.join(V, "seeded"))):
        mp = os.path.join(V, "seeded", mid, "meta.json")
        if not os.path.exists(mp):
            continue
        m = json.load(open(mp))
        runs = m.get("runs") or {}
        caught = runs.get("caught_by")
        what = (m.get("summary") or "").replace("\n", " ").replace("|", "/")
        what = re.sub(r"\s+", " ", what)[:150]
        own = m.get("own_check_run")
        if own is not None:
            own_txt = "yes" if own.get("check_exit_code") == 1 else "NO"
        else:
            own_txt = "yes" if caught and m["property"] in caught else ("—" if caught is None else "NO")
        rows.append((mid, m["property"], "not yet run" if caught is None else (", ".join(caught) or "none"), own_txt, what))
    lines = ["| change | breaks | checks that report a violation (quick tier, seed 0) | own check | what it is |", "|---|---|---|---|---|"]
    for r in rows:
        lines.append("| %s | %s | %s | %s | %s |" % r)
    n = len(rows)
    own = sum(1 for r in rows if r[3] == "yes")
    anyc = sum(1 for r in rows if r[2] not in ("none", "not yet run") or r[3] == "yes")
    lines.append("")
    lines.append("%d seeded changes; %d caught by the check of the property they were written against, %d by at least one check." % (n, own, anyc))
    p = os.path.join(V, "DESIGN.md")
    s = open(p).read()
    s = re.sub(r"<!-- MATRIX:BEGIN -->.*?<!-- MATRIX:END -->", "<!-- MATRIX:BEGIN -->\n" + "\n".join(lines) + "\n<!-- MATRIX:END -->", s, flags=re.S)
    open(p, "w").write(s)
    print(n, own, anyc)


main()
