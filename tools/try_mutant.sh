#!/bin/sh
# tools/try_mutant.sh <patch> <property> [tier]  — apply a seeded change to /repo, run the check, undo it
patch="$1"; pid="$2"; tier="${3:-quick}"
git -C /repo apply "$patch" || { echo "patch does not apply"; exit 3; }
/verif/check "$pid" --tier "$tier"; rc=$?
git -C /repo checkout -- .
echo "exit=$rc"
exit $rc
