#!/usr/bin/env python3
"""tools/ingest_seed.py <Cxx> <a|b> <new-id>   e.g.  C01 a C01-m3

Confirms a change delivered by a sub-agent under /tmp/wt/out/<Cxx>/<a|b>/ in a scratch worktree of /repo
(never in /repo itself): demonstration exits 0 on the unchanged tree; the patch applies; the complete existing test
suite passes with it; the demonstration exits non-zero with it.  Only then is it stored as /verif/seeded/<new-id>/
(patch.diff, demo.py, meta.json).  The scratch worktree is removed afterwards."""
import json
import os
import re
import shutil
import subprocess
import sys

V = os.path.dirname(os.path.dirname(os.path.abspath(__file__)))


def sh(cmd, cwd=None, timeout=1800):
    p = subprocess.run(cmd, shell=True, cwd=cwd, stdout=subprocess.PIPE, stderr=subprocess.STDOUT, text=True, timeout=timeout)
    return p.returncode, p.stdout


def main():
    pid, which, new = sys.argv[1:4]
    src = "/tmp/wt/out/%s/%s" % (pid, which)
    for f in ("patch.diff", "demo.py"):
        if not os.path.exists(os.path.join(src, f)):
            print(new, "REJECTED: missing", f)
            return 1
    wt = "/tmp/wt/ingest-%s" % new
    sh("git -C /repo worktree remove --force %s" % wt)
    rc, out = sh("git -C /repo worktree add -q --detach %s HEAD" % wt)
    if rc != 0:
        print(new, "cannot create worktree", out)
        return 2
    try:
        c_rc, c_out = sh("/venv/bin/python %s/demo.py" % src, cwd=wt, timeout=600)
        a_rc, a_out = sh("git apply %s/patch.diff" % src, cwd=wt)
        if a_rc != 0:
            print(new, "REJECTED: patch does not apply:", a_out[:300])
            return 1
        _, stat = sh("git diff --stat", cwd=wt)
        touched = re.findall(r"^\s*(\S+)\s+\|", stat, re.M)
        if any("/tests/" in t for t in touched):
            print(new, "REJECTED: patch edits tests", touched)
            return 1
        t_rc, t_out = sh("/venv/bin/python -m pytest -q -p no:cacheprovider 2>&1 | tail -3", cwd=wt, timeout=1800)
        m = re.search(r"(\d+) passed", t_out)
        passed = int(m.group(1)) if m else 0
        failed = re.search(r"(\d+) failed", t_out)
        m_rc, m_out = sh("/venv/bin/python %s/demo.py" % src, cwd=wt, timeout=600)
        ok = c_rc == 0 and passed >= 1061 and not failed and m_rc != 0
        print(new, "demo clean=%d changed=%d; tests: %s" % (c_rc, m_rc, t_out.strip().split("\n")[-1]))
        if not ok:
            print(new, "REJECTED (needs: demo clean 0, demo changed !=0, 1061 passed, 0 failed)")
            if c_rc != 0:
                print(c_out[-600:])
            return 1
        dst = os.path.join(V, "seeded", new)
        os.makedirs(dst, exist_ok=True)
        shutil.copy(os.path.join(src, "patch.diff"), os.path.join(dst, "patch.diff"))
        shutil.copy(os.path.join(src, "demo.py"), os.path.join(dst, "demo.py"))
        notes = open(os.path.join(src, "notes.txt")).read().strip() if os.path.exists(os.path.join(src, "notes.txt")) else ""
        meta = {
            "property": pid,
            "summary": notes,
            "needs_to_manifest": notes,
            "produced_by": "a fresh sub-agent given only the property text and its own scratch worktree of /repo (round %s)" % os.environ.get("SEED_ROUND", "5"),
            "files_touched": touched,
            "existing_tests_pass_with_change": True,
            "confirmed": {
                "how": "tools/ingest_seed.py in a scratch worktree of /repo HEAD: demo on unchanged tree, git apply, full pytest suite, demo with change",
                "demonstration_on_clean_tree_exit": c_rc, "demonstration_with_change_exit": m_rc,
                "tests_with_change": t_out.strip().split("\n")[-1],
                "demonstration_output_with_change": m_out[-600:],
            },
        }
        json.dump(meta, open(os.path.join(dst, "meta.json"), "w"), indent=1)
        print(new, "STORED", dst)
        return 0
    finally:
        sh("git -C /repo worktree remove --force %s" % wt)


sys.exit(main())
