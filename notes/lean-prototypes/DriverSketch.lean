import Probe.Basic
open Lean
partial def loop (h : IO.FS.Stream) : IO Unit := do
  let line ← h.getLine
  if line.isEmpty then return ()
  match Json.parse line with
  | .ok j => IO.println (j.compress)
  | .error e => IO.println s!"bad {e}"
  loop h
def main : IO Unit := do loop (← IO.getStdin)
