/-! Prototype: proofs over a nested inductive Term (List children) via mutual structural recursion. -/
abbrev Str := List Char

inductive Piece | kw (s : Str) | ident (q : Option Str) (n : Str) | strLit (q : Str) (p : Str)
  deriving DecidableEq, Repr

inductive T where
  | field (n : Str)
  | str (v : Str)
  | neg (t : T)
  | bin (op : Str) (l r : T)
  | fn (name : Str) (args : List T)
  | case (whens : List (T × T)) (els : Option T)

structure Ctx where
  q : Option Str
  sq : Str

def sepBy (sep : List Piece) : List (List Piece) → List Piece
  | [] => []
  | [x] => x
  | x :: xs => x ++ sep ++ sepBy sep xs

mutual
def render (c : Ctx) : T → List Piece
  | .field n => [.ident c.q n]
  | .str v => [.strLit c.sq v]
  | .neg t => .kw ['-'] :: render c t
  | .bin op l r => render c l ++ .kw op :: render c r
  | .fn name args => .kw name :: .kw ['('] :: sepBy [.kw [',']] (renderL c args) ++ [.kw [')']]
  | .case ws e => .kw "CASE".toList :: renderW c ws ++ (match e with | some t => .kw " ELSE ".toList :: render c t | none => []) ++ [.kw " END".toList]
def renderL (c : Ctx) : List T → List (List Piece)
  | [] => []
  | t :: ts => render c t :: renderL c ts
def renderW (c : Ctx) : List (T × T) → List Piece
  | [] => []
  | (w, t) :: ws => .kw " WHEN ".toList :: render c w ++ .kw " THEN ".toList :: render c t ++ renderW c ws
end

/-- property: every identifier piece carries the context quote -/
def Uniform (c : Ctx) (d : List Piece) : Prop := ∀ p ∈ d, ∀ q n, p = .ident q n → q = c.q

theorem Uniform.nil (c) : Uniform c [] := by intro p hp; cases hp
theorem Uniform.append {c a b} (ha : Uniform c a) (hb : Uniform c b) : Uniform c (a ++ b) := by
  intro p hp; rcases List.mem_append.mp hp with h | h
  · exact ha p h
  · exact hb p h
theorem Uniform.kw {c s d} (h : Uniform c d) : Uniform c (.kw s :: d) := by
  intro p hp q n e
  rcases List.mem_cons.mp hp with h1 | h1
  · subst h1; cases e
  · exact h p h1 q n e
theorem Uniform.sepBy {c} {ds : List (List Piece)} (h : ∀ d ∈ ds, Uniform c d) (s : Str) :
    Uniform c (sepBy [.kw s] ds) := by
  induction ds with
  | nil => exact Uniform.nil c
  | cons d ds ih =>
    cases ds with
    | nil => simpa [_root_.sepBy] using h d (by simp)
    | cons d2 ds2 =>
      simp only [_root_.sepBy]
      refine Uniform.append (Uniform.append (h d (by simp)) (Uniform.kw (Uniform.nil c))) ?_
      exact ih (fun x hx => h x (by simp [hx]))

mutual
theorem render_uniform (c : Ctx) : ∀ t, Uniform c (render c t)
  | .field n => by intro p hp q m e; simp [render] at hp; subst hp; cases e; rfl
  | .str v => by intro p hp q m e; simp [render] at hp; subst hp; cases e
  | .neg t => by simpa [render] using Uniform.kw (render_uniform c t)
  | .bin op l r => by
      simp only [render]
      exact Uniform.append (render_uniform c l) (Uniform.kw (render_uniform c r))
  | .fn name args => by
      simp only [render]
      refine Uniform.kw (Uniform.kw (Uniform.append (Uniform.sepBy (renderL_uniform c args) _) (Uniform.kw (Uniform.nil c))))
  | .case ws e => by
      cases e with
      | none =>
        simp only [render]
        exact Uniform.kw (Uniform.append (Uniform.append (renderW_uniform c ws) (Uniform.nil c)) (Uniform.kw (Uniform.nil c)))
      | some t =>
        simp only [render]
        exact Uniform.kw (Uniform.append (Uniform.append (renderW_uniform c ws) (Uniform.kw (render_uniform c t))) (Uniform.kw (Uniform.nil c)))
theorem renderL_uniform (c : Ctx) : ∀ ts, ∀ d ∈ renderL c ts, Uniform c d
  | [] => by intro d hd; simp [renderL] at hd
  | t :: ts => by
      intro d hd
      simp only [renderL, List.mem_cons] at hd
      rcases hd with h | h
      · subst h; exact render_uniform c t
      · exact renderL_uniform c ts d h
theorem renderW_uniform (c : Ctx) : ∀ ws, Uniform c (renderW c ws)
  | [] => by simpa [renderW] using Uniform.nil c
  | (w, t) :: ws => by
      simp only [renderW]
      exact Uniform.append (Uniform.append (Uniform.kw (render_uniform c w)) (Uniform.kw (render_uniform c t))) (renderW_uniform c ws)
end

#print axioms render_uniform
