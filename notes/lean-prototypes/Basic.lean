import Lean.Data.Json
import Std.Data.String.ToNat
open Lean

inductive Op | add | sub | mul | div | shl | shr deriving DecidableEq, Repr

inductive T where
  | leaf (n : String)
  | neg (t : T)
  | bin (op : Op) (l r : T)
  | fn (name : String) (args : List T)
  deriving Repr

mutual
def render : T → String
  | .leaf n => "\"" ++ n ++ "\""
  | .neg t => "-" ++ render t
  | .bin _ l r => render l ++ "+" ++ render r
  | .fn n as => n ++ "(" ++ ",".intercalate (renderL as) ++ ")"
def renderL : List T → List String
  | [] => []
  | a :: as => render a :: renderL as
end

theorem render_leaf (n : String) : render (.leaf n) = "\"" ++ n ++ "\"" := by simp [render]


theorem t1 (n : Nat) : (Nat.repr n).toNat? = some n := Nat.toNat?_repr n
abbrev Str := List Char
def esc (q : Char) : Str → Str
  | [] => []
  | c :: cs => if c = q then q :: q :: esc q cs else c :: esc q cs

def unesc (q : Char) : Str → Option (Str × Str)
  | [] => none
  | [c] => if c = q then some ([], []) else none
  | c :: c2 :: cs =>
    if c = q then
      if c2 = q then (unesc q cs).map (fun (s, r) => (q :: s, r)) else some ([], c2 :: cs)
    else (unesc q (c2 :: cs)).map (fun (s, r) => (c :: s, r))
theorem unesc_esc (q : Char) (s rest : Str) (h : rest.head? ≠ some q) :
    unesc q (esc q s ++ q :: rest) = some (s, rest) := by
  induction s with
  | nil =>
    cases rest with
    | nil => simp [esc, unesc]
    | cons r rs =>
      have : r ≠ q := by simpa using h
      simp [esc, unesc, this]
  | cons c cs ih =>
    by_cases hc : c = q
    · subst hc; simp [esc, unesc, ih]
    · have : ∃ d ds, esc q cs ++ q :: rest = d :: ds := by
        cases h2 : esc q cs ++ q :: rest with
        | nil => simp at h2
        | cons d ds => exact ⟨d, ds, rfl⟩
      obtain ⟨d, ds, hd⟩ := this
      simp only [esc, hc, if_false, List.cons_append]
      rw [hd, unesc]
      simp only [hc, if_false]
      rw [← hd, ih]; rfl
#print axioms unesc_esc
