/-! Prototype: object store with shared container cells; copy-then-mutate frame theorem. -/
abbrev Obj := Nat
abbrev Cell := Nat
abbrev Attr := Nat

inductive Val | scalar (n : Nat) | ref (o : Obj) | cell (c : Cell)
  deriving DecidableEq, Repr

structure Heap where
  nObj : Nat                       -- objects 0..nObj-1 exist
  nCell : Nat                      -- cells 0..nCell-1 exist
  attrs : Obj → Attr → Option Val
  cells : Cell → List Val

/-- h' extends h: everything that existed is bit-for-bit unchanged -/
structure Ext (h h' : Heap) : Prop where
  objs : h.nObj ≤ h'.nObj
  cls : h.nCell ≤ h'.nCell
  attrs_eq : ∀ o, o < h.nObj → h'.attrs o = h.attrs o
  cells_eq : ∀ c, c < h.nCell → h'.cells c = h.cells c

theorem Ext.refl (h : Heap) : Ext h h := ⟨Nat.le_refl _, Nat.le_refl _, fun _ _ => rfl, fun _ _ => rfl⟩
theorem Ext.trans {a b c : Heap} (h1 : Ext a b) (h2 : Ext b c) : Ext a c :=
  ⟨Nat.le_trans h1.objs h2.objs, Nat.le_trans h1.cls h2.cls,
   fun o ho => by rw [h2.attrs_eq o (Nat.lt_of_lt_of_le ho h1.objs), h1.attrs_eq o ho],
   fun c hc => by rw [h2.cells_eq c (Nat.lt_of_lt_of_le hc h1.cls), h1.cells_eq c hc]⟩

/-- effects a builder body can have on the (copied) receiver `s` -/
inductive Eff
  | rebind (a : Attr) (v : Val)            -- self.a = v
  | rebindFresh (a : Attr) (items : List Val)   -- self.a = self.a + items  (new list)
  | inplace (a : Attr) (items : List Val)  -- self.a.append / += on a list
  | argwrite (o : Obj) (a : Attr) (v : Val) -- param.a = v

def setAttr (h : Heap) (o : Obj) (a : Attr) (v : Val) : Heap :=
  { h with attrs := fun o' a' => if o' = o ∧ a' = a then some v else h.attrs o' a' }

def newCell (h : Heap) (content : List Val) : Heap × Cell :=
  ({ h with nCell := h.nCell + 1, cells := fun c => if c = h.nCell then content else h.cells c }, h.nCell)

def cellOf (h : Heap) (o : Obj) (a : Attr) : Option Cell :=
  match h.attrs o a with | some (.cell c) => some c | _ => none

def applyEff (h : Heap) (s : Obj) : Eff → Heap
  | .rebind a v => setAttr h s a v
  | .rebindFresh a items =>
      match cellOf h s a with
      | some c => let (h1, c1) := newCell h (h.cells c ++ items); setAttr h1 s a (.cell c1)
      | none => h
  | .inplace a items =>
      match cellOf h s a with
      | some c => { h with cells := fun c' => if c' = c then h.cells c ++ items else h.cells c' }
      | none => h
  | .argwrite o a v => setAttr h o a v

/-- `copy.copy` with a `__copy__` that re-copies the attributes in `rc` (one level) -/
def recopy (h : Heap) (src dst : Obj) : List Attr → Heap
  | [] => h
  | a :: as =>
      match cellOf h src a with
      | some c => let (h1, c1) := newCell h (h.cells c); recopy (setAttr h1 dst a (.cell c1)) src dst as
      | none => recopy h src dst as

def copyObj (h : Heap) (src : Obj) (rc : List Attr) : Heap × Obj :=
  let dst := h.nObj
  let h1 : Heap := { h with nObj := h.nObj + 1, attrs := fun o a => if o = dst then h.attrs src a else h.attrs o a }
  (recopy h1 src dst rc, dst)

/-- an effect is safe for a receiver that is a fresh copy with re-copied attrs `rc` -/
def Eff.safe (rc : List Attr) : Eff → Bool
  | .rebind _ _ => true
  | .rebindFresh _ _ => true
  | .inplace a _ => rc.contains a
  | .argwrite _ _ _ => false

/-- invariant of a fresh copy `s` w.r.t. the old heap `h0`: it is new, and its re-copied attrs point to new cells -/
structure FreshCopy (h0 h : Heap) (s : Obj) (rc : List Attr) : Prop where
  ext : Ext h0 h
  isNew : h0.nObj ≤ s
  freshCells : ∀ a c, a ∈ rc → cellOf h s a = some c → h0.nCell ≤ c

theorem setAttr_ext {h0 h : Heap} {s : Obj} (e : Ext h0 h) (hs : h0.nObj ≤ s) (a v) : Ext h0 (setAttr h s a v) := by
  refine ⟨e.objs, e.cls, ?_, e.cells_eq⟩
  intro o ho
  funext a'
  have : o ≠ s := by omega
  simp [setAttr, this, e.attrs_eq o ho]

theorem applyEff_frame {h0 h : Heap} {s : Obj} {rc : List Attr} (inv : FreshCopy h0 h s rc)
    (e : Eff) (hsafe : e.safe rc = true) : Ext h0 (applyEff h s e) := by
  cases e with
  | rebind a v => exact setAttr_ext inv.ext inv.isNew a v
  | rebindFresh a items =>
    simp only [applyEff]
    cases hc : cellOf h s a with
    | none => exact inv.ext
    | some c =>
      simp only [newCell]
      apply setAttr_ext _ inv.isNew
      refine ⟨inv.ext.objs, Nat.le_succ_of_le inv.ext.cls, inv.ext.attrs_eq, ?_⟩
      intro c' hc'
      have : c' ≠ h.nCell := by have := inv.ext.cls; omega
      simp [this, inv.ext.cells_eq c' hc']
  | inplace a items =>
    simp only [applyEff]
    cases hc : cellOf h s a with
    | none => exact inv.ext
    | some c =>
      have ha : a ∈ rc := by simpa [Eff.safe] using hsafe
      have hfresh := inv.freshCells a c ha hc
      refine ⟨inv.ext.objs, inv.ext.cls, inv.ext.attrs_eq, ?_⟩
      intro c' hc'
      have : c' ≠ c := by omega
      simp [this, inv.ext.cells_eq c' hc']
  | argwrite o a v => simp [Eff.safe] at hsafe

#print axioms applyEff_frame
