inductive Op | add | sub | mul | div | shl | shr deriving DecidableEq, Repr
def Op.lvl : Op → Nat
  | .shl | .shr => 0 | .add | .sub => 1 | .mul | .div => 2

inductive Tree | leaf (a : Nat) | neg (t : Tree) | bin (o : Op) (l r : Tree) deriving Repr
inductive Tok | atom (a : Nat) | op (o : Op) | lp | rp deriving DecidableEq, Repr

inductive G : Nat → List Tok → Tree → Prop
  | atom (a) : G 3 [.atom a] (.leaf a)
  | paren {ts t} : G 0 ts t → G 3 (.lp :: ts ++ [.rp]) t
  | neg {ts t} : G 3 ts t → G 3 (.op .sub :: ts) (.neg t)
  | up {n ts t} : n < 3 → G (n+1) ts t → G n ts t
  | bin {n o l r tl tr} : o.lvl = n → G n l tl → G (n+1) r tr → G n (l ++ .op o :: r) (.bin o tl tr)

theorem G.lift {m ts t} (h : G m ts t) (hm : m ≤ 3) : ∀ k, k ≤ m → G (m - k) ts t := by
  intro k
  induction k with
  | zero => intro _; simpa using h
  | succ k ih =>
    intro hk
    have h1 := ih (by omega)
    have : m - k = (m - (k+1)) + 1 := by omega
    rw [this] at h1
    exact G.up (by omega) h1

theorem G.to {n m ts t} (h : G m ts t) (hnm : n ≤ m) (hm : m ≤ 3) : G n ts t := by
  have := G.lift h hm (m - n) (by omega)
  have e : m - (m - n) = n := by omega
  rwa [e] at this

/-- the algebra in which expressions are read: only the re-association identities pypika relies on -/
structure Alg (α : Type) where
  add : α → α → α
  sub : α → α → α
  mul : α → α → α
  div : α → α → α
  shl : α → α → α
  shr : α → α → α
  neg : α → α
  add_add : ∀ a b c, add a (add b c) = add (add a b) c
  add_sub : ∀ a b c, add a (sub b c) = sub (add a b) c
  mul_mul : ∀ a b c, mul a (mul b c) = mul (mul a b) c
  mul_div : ∀ a b c, mul a (div b c) = div (mul a b) c

def Alg.ap {α} (A : Alg α) : Op → α → α → α
  | .add => A.add | .sub => A.sub | .mul => A.mul | .div => A.div | .shl => A.shl | .shr => A.shr

def eval {α} (A : Alg α) (env : Nat → α) : Tree → α
  | .leaf a => env a
  | .neg t => A.neg (eval A env t)
  | .bin o l r => A.ap o (eval A env l) (eval A env r)

def topOp : Tree → Option Op | .bin o _ _ => some o | _ => none

/-- pypika's policy (with the shift / unary-minus repair) -/
def leftParens (c : Op) : Option Op → Bool
  | none => false
  | some l => if l.lvl = 0 then c.lvl ≠ 0 else if c.lvl = 1 then false else l.lvl = 1
def rightParens (c : Op) : Option Op → Bool
  | none => false
  | some r => if r.lvl = 0 then true else if c = .add then false else if c = .div then true else r.lvl = 1

def wrap (b : Bool) (ts : List Tok) : List Tok := if b then .lp :: ts ++ [.rp] else ts
def startsMinus : List Tok → Bool | .op .sub :: _ => true | _ => false

def render : Tree → List Tok
  | .leaf a => [.atom a]
  | .neg t => .op .sub :: wrap ((topOp t).isSome || startsMinus (render t)) (render t)
  | .bin o l r =>
      wrap (leftParens o (topOp l)) (render l) ++ .op o ::
        wrap (rightParens o (topOp r) || (o = .sub && startsMinus (render r))) (render r)

def lvlOf : Tree → Nat | .bin o _ _ => o.lvl | _ => 3

theorem lvl_le (o : Op) : o.lvl ≤ 2 := by cases o <;> simp [Op.lvl]
theorem lvlOf_le (t : Tree) : lvlOf t ≤ 3 := by
  cases t <;> simp [lvlOf]; rename_i o _ _; have := lvl_le o; omega

section
variable {α : Type} (A : Alg α) (env : Nat → α)

/-- appending an un-parenthesised additive chain to the right of `+` -/
theorem absorb_add {n r tr} (hr : G n r tr) : n = 1 → ∀ l tl, G 1 l tl →
    ∃ t', G 1 (l ++ .op .add :: r) t' ∧ eval A env t' = A.add (eval A env tl) (eval A env tr) := by
  induction hr with
  | atom a => intro h; omega
  | paren _ _ => intro h; omega
  | neg _ _ => intro h; omega
  | @up n ts t hn h2 _ =>
    intro hn1 l tl hl
    subst hn1
    exact ⟨_, G.bin rfl hl h2, rfl⟩
  | @bin n o r1 r2 t1 t2 ho h1 h2 ih1 _ =>
    intro hn1 l tl hl
    subst hn1
    obtain ⟨t1', g1, e1⟩ := ih1 rfl l tl hl
    refine ⟨.bin o t1' t2, ?_, ?_⟩
    · have := G.bin ho g1 h2
      simpa [List.append_assoc] using this
    · cases o <;> simp [Op.lvl] at ho <;> simp [eval, Alg.ap, e1, A.add_add, A.add_sub]

theorem absorb_mul {n r tr} (hr : G n r tr) : n = 2 → ∀ l tl, G 2 l tl →
    ∃ t', G 2 (l ++ .op .mul :: r) t' ∧ eval A env t' = A.mul (eval A env tl) (eval A env tr) := by
  induction hr with
  | atom a => intro h; omega
  | paren _ _ => intro h; omega
  | neg _ _ => intro h; omega
  | @up n ts t hn h2 _ =>
    intro hn1 l tl hl
    subst hn1
    exact ⟨_, G.bin rfl hl h2, rfl⟩
  | @bin n o r1 r2 t1 t2 ho h1 h2 ih1 _ =>
    intro hn1 l tl hl
    subst hn1
    obtain ⟨t1', g1, e1⟩ := ih1 rfl l tl hl
    refine ⟨.bin o t1' t2, ?_, ?_⟩
    · have := G.bin ho g1 h2
      simpa [List.append_assoc] using this
    · cases o <;> simp [Op.lvl] at ho <;> simp [eval, Alg.ap, e1, A.mul_mul, A.mul_div]
end

theorem wrap_G {ts t} (h : G 0 ts t) : G 3 (wrap true ts) t := by simpa [wrap] using G.paren h


theorem left_ok (o : Op) (l l' : Tree) (g : G (lvlOf l) (render l) l') :
    G o.lvl (wrap (leftParens o (topOp l)) (render l)) l' := by
  by_cases hp : leftParens o (topOp l) = true
  · rw [hp]; exact G.to (wrap_G (G.to g (Nat.zero_le _) (lvlOf_le l))) (by have := lvl_le o; omega) (Nat.le_refl _)
  · have hp' : leftParens o (topOp l) = false := by simpa using hp
    rw [hp']; simp only [wrap]
    refine G.to g ?_ (lvlOf_le l)
    cases l with
    | leaf a => simp [lvlOf]; have := lvl_le o; omega
    | neg t => simp [lvlOf]; have := lvl_le o; omega
    | bin lo a b =>
      simp [lvlOf, topOp, leftParens] at hp' ⊢
      cases o <;> cases lo <;> simp [Op.lvl] at hp' ⊢

theorem render_sound {α : Type} (A : Alg α) (env : Nat → α) :
    ∀ t, ∃ t', G (lvlOf t) (render t) t' ∧ eval A env t' = eval A env t := by
  intro t
  induction t with
  | leaf a => exact ⟨_, G.atom a, rfl⟩
  | neg t ih =>
    obtain ⟨t', g, e⟩ := ih
    by_cases hw : ((topOp t).isSome || startsMinus (render t)) = true
    · refine ⟨.neg t', ?_, by simp [eval, e]⟩
      simp only [render, hw, lvlOf]
      exact G.neg (wrap_G (G.to g (Nat.zero_le _) (lvlOf_le t)))
    · refine ⟨.neg t', ?_, by simp [eval, e]⟩
      have hw' : ((topOp t).isSome || startsMinus (render t)) = false := by simpa using hw
      have h3 : lvlOf t = 3 := by
        cases t <;> simp [topOp, lvlOf] at hw' ⊢
      simp only [render, hw', wrap, lvlOf]
      rw [h3] at g
      exact G.neg g
  | bin o l r ihl ihr =>
    obtain ⟨l', gl, el⟩ := ihl
    obtain ⟨r', gr, er⟩ := ihr
    have gL := left_ok o l l' gl
    simp only [render, lvlOf]
    by_cases hp : (rightParens o (topOp r) || (o = .sub && startsMinus (render r))) = true
    · rw [hp]
      have gR : G (o.lvl + 1) (wrap true (render r)) r' :=
        G.to (wrap_G (G.to gr (Nat.zero_le _) (lvlOf_le r))) (by have := lvl_le o; omega) (Nat.le_refl _)
      exact ⟨.bin o l' r', G.bin rfl gL gR, by simp [eval, el, er]⟩
    · have hp' : (rightParens o (topOp r) || (o = .sub && startsMinus (render r))) = false := by simpa using hp
      rw [hp']; simp only [wrap]
      have hrp : rightParens o (topOp r) = false := by
        cases h : rightParens o (topOp r) <;> simp [h] at hp' ⊢
      by_cases hdirect : o.lvl + 1 ≤ lvlOf r
      · exact ⟨.bin o l' r', G.bin rfl gL (G.to gr hdirect (lvlOf_le r)), by simp [eval, el, er]⟩
      · -- same-level right operand left un-parenthesised: only `+` over +/- and `*` over * and /
        cases r with
        | leaf a => simp [lvlOf] at hdirect; have := lvl_le o; omega
        | neg t => simp [lvlOf] at hdirect; have := lvl_le o; omega
        | bin ro a b =>
          simp only [lvlOf, topOp, rightParens] at hdirect hrp gr
          cases o <;> cases ro <;> simp [Op.lvl] at hdirect hrp gr
          all_goals first
            | (obtain ⟨t', g', e'⟩ := absorb_add A env gr rfl _ l' gL
               exact ⟨t', g', by simp [eval, Alg.ap, e', el, er]⟩)
            | (obtain ⟨t', g', e'⟩ := absorb_mul A env gr rfl _ l' gL
               exact ⟨t', g', by simp [eval, Alg.ap, e', el, er]⟩)

#print axioms render_sound

-- the unrepaired policy fails: witness
def renderOld : Tree → List Tok
  | .leaf a => [.atom a]
  | .neg t => .op .sub :: renderOld t
  | .bin o l r => renderOld l ++ .op o :: renderOld r
