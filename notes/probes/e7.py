from pypika import *
from pypika import functions as fn, analytics as an
from pypika.terms import *
from pypika.queries import *
from pypika.dialects import *
t=Table('t'); u=Table('u')
def show(label, f):
    try: print(label, '=>', f())
    except Exception as e: print(label, 'EXC', type(e).__name__, str(e)[:150])
q1=Query.from_(t).select(t.a); q2=Query.from_(u).select(u.a); q3=Query.from_(u).select(u.a,u.b)
# C11
show('chain mix', lambda: str(q1.union(q2).intersect(q1).minus(q2).except_of(q1).union_all(q2)))
show('ops', lambda: str((q1+q2)*q1-q2))
show('arity 2nd', lambda: str(q1.union(q2).union(q3)))
show('arity first', lambda: str(q3.union(q2)))
show('limit/offset/order', lambda: str(q1.union(q2).orderby(t.a).limit(0).offset(0)))
show('limit/offset/order2', lambda: str(q1.union(q2).orderby('a', order=Order.desc).limit(3).offset(2)))
show('operand with own limit', lambda: str(q1.limit(1).union(q2.orderby(u.a))))
show('nested setop operand', lambda: str(q1.union(q2.union(q1))))
show('setop + setop', lambda: str((q1+q2)+(q1*q2)))
show('IN container', lambda: str(Query.from_(t).select('*').where(t.a.isin(q1.union(q2)))))
show('CH', lambda: str(ClickHouseQuery.from_(t).select(t.a).union(ClickHouseQuery.from_(u).select(u.a)).limit(1)))
show('Oracle limit', lambda: str(OracleQuery.from_(t).select(t.a).union(OracleQuery.from_(u).select(u.a)).limit(1).offset(2)))
show('MSSQL limit', lambda: str(MSSQLQuery.from_(t).select(t.a).union(MSSQLQuery.from_(u).select(u.a)).limit(1).offset(2)))
show('sqlite', lambda: str(SQLLiteQuery.from_(t).select(t.a).union(SQLLiteQuery.from_(u).select(u.a))))
show('star arity', lambda: str(Query.from_(t).select('*').union(q3)))
# C12
for Q in [Query, MySQLQuery, PostgreSQLQuery, OracleQuery, MSSQLQuery, SQLLiteQuery, VerticaQuery, ClickHouseQuery, RedshiftQuery, SnowflakeQuery]:
    b=Q.from_(t).select(t.a).orderby(t.a)
    show(Q.__name__, lambda: [str(b.limit(0))[25:], str(b.offset(0))[25:], str(b.limit(3).offset(0))[25:], str(b.offset(5))[25:], str(b.limit(3).offset(5))[25:], str(b[5:3])[25:], str(b.limit(1).limit(2).offset(3).offset(4))[25:], str(b.offset(4).limit(2).for_update())[25:]])
show('mssql top', lambda: [str(MSSQLQuery.from_(t).select(t.a).top(0)), str(MSSQLQuery.from_(t).select(t.a).top(5).top(3)), str(MSSQLQuery.from_(t).select(t.a).top(5).limit(2)), str(MSSQLQuery.from_(t).select(t.a).top('7'))])
show('ch limit_by', lambda: [str(ClickHouseQuery.from_(t).select(t.a).limit_by(0,'a').limit(5).offset(1)), str(ClickHouseQuery.from_(t).select(t.a).limit_offset_by(2,3,'a',t.b).limit(0))])
show('update limit', lambda: str(MySQLQuery.update(t).set('a',1).limit(0)))
show('slice none', lambda: [str(Query.from_(t).select(t.a)[:3]), str(Query.from_(t).select(t.a)[2:]), str(Query.from_(t).select(t.a)[2:5])])
