from pypika import *
from pypika import functions as fn, analytics as an
from pypika.terms import *
from pypika.queries import *
from pypika.dialects import *
A=Table('a'); B=Table('b'); C=Table('c')
def show(label, f):
    try: print(label, '=>', f())
    except Exception as e: print(label, 'EXC', type(e).__name__, str(e)[:110].replace('\n',' '))
def rt(build):
    x=build(A); before=str(x); y=x.replace_table(A,B); return str(y)==str(build(B)), str(y), str(x)==before
cases = {
 'field': lambda T: T.x,
 'neg': lambda T: -T.x,
 'arith': lambda T: T.x+C.y*T.z,
 'basic': lambda T: T.x==T.y,
 'isin list': lambda T: T.x.isin([T.y, 1]),
 'isin sub': lambda T: C.x.isin(Query.from_(T).select(T.y)),
 'between': lambda T: C.x.between(T.lo, T.hi),
 'between term': lambda T: T.x.between(1,2),
 'null': lambda T: T.x.isnull(),
 'notnull': lambda T: T.x.isnotnull(),
 'not': lambda T: ~(T.x==1),
 'notin': lambda T: T.x.notin([T.y]),
 'complex': lambda T: (T.x==1)&(C.y==T.z),
 'case': lambda T: Case().when(T.x==1, T.y).else_(T.z),
 'func': lambda T: fn.Coalesce(T.x, C.y, T.z),
 'agg filter': lambda T: fn.Sum(C.x).filter(T.y==1),
 'analytic': lambda T: an.Sum(C.x).over(T.y).orderby(T.z),
 'extract': lambda T: fn.Extract('DAY', T.x),
 'cast': lambda T: fn.Cast(T.x, 'INT'),
 'tuple': lambda T: Tuple(T.x, C.y),
 'array': lambda T: Array(T.x, C.y),
 'bitand': lambda T: T.x.bitwiseand(3),
 'all': lambda T: T.x.all_(),
 'period': lambda T: T.x.from_to(1,2),
 'exists': lambda T: ExistsCriterion(Query.from_(T).select(T.x)),
 'star': lambda T: T.star,
 'json': lambda T: T.x.get_json_value('k'),
 'pow': lambda T: T.x**2,
 'nested not between': lambda T: ~(T.x[1:2]),
 'q select': lambda T: Query.from_(T).select(T.x, C.y).where(T.z==1).groupby(T.x).having(fn.Sum(T.w)>1).orderby(T.x),
 'q join item': lambda T: Query.from_(C).join(T).on(C.x==T.x).select(T.y),
 'q join using': lambda T: Query.from_(C).join(T).using('x').select(T.y),
 'q cross': lambda T: Query.from_(C).join(T).cross().select(T.y),
 'q insert': lambda T: Query.into(T).columns('x').insert(1),
 'q insert select': lambda T: Query.into(C).from_(T).select(T.x),
 'q update': lambda T: Query.update(T).set(T.x, T.y+1).where(T.z==1),
 'q sub from': lambda T: Query.from_(Query.from_(T).select(T.x).as_('s')).select('x'),
 'q sub join': lambda T: Query.from_(C).join(Query.from_(T).select(T.x).as_('s')).on(C.x==Field('x', table=AliasedQuery('s'))).select('x'),
 'q with': lambda T: Query.with_(Query.from_(T).select(T.x), 'w').from_(AliasedQuery('w')).select('x'),
 'q star tables': lambda T: Query.from_(T).join(C).on(T.x==C.x).select(T.star),
 'q prewhere': lambda T: ClickHouseQuery.from_(T).select(T.x).prewhere(T.y==1).limit_by(1, T.z),
 'q ch distinct on': lambda T: ClickHouseQuery.from_(T).select(T.x).distinct_on(T.y),
 'q pg returning': lambda T: PostgreSQLQuery.update(T).set('x',1).returning(T.y),
 'q pg on conflict': lambda T: PostgreSQLQuery.into(T).insert(1).on_conflict(T.x).do_update(T.y, 1),
 'q mysql dup': lambda T: MySQLQuery.into(T).insert(1).on_duplicate_key_update(T.y, Values(T.y)),
 'setop': lambda T: Query.from_(T).select(T.x).union(Query.from_(C).select(C.x)),
 'q delete': lambda T: Query.from_(T).delete().where(T.x==1),
 'aliased A': None,
}
for k,b in cases.items():
    if b: show(k, lambda: rt(b))
# alias equality: replace only unaliased A
show('aliased other untouched', lambda: str(Query.from_(A.as_('q')).select(A.as_('q').x).replace_table(A,B)))
show('replace to None', lambda: str((A.x==1).replace_table(A,None)))
