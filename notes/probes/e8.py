from pypika import *
from pypika import functions as fn, analytics as an
from pypika.terms import *
from pypika.queries import *
from pypika.dialects import *
t=Table('t'); u=Table('u')
def show(label, f):
    try: print(label, '=>', f())
    except Exception as e: print(label, 'EXC', type(e).__name__, str(e)[:150])
# C13 aliases
terms = {
 'field': t.a.as_('al'),
 'arith': (t.a+1).as_('al'),
 'func': fn.Upper(t.a).as_('al'),
 'agg': fn.Sum(t.a).as_('al'),
 'analytic': an.Rank().over(t.a).as_('al'),
 'case': Case().when(t.a==1,2).else_(3).as_('al'),
 'sub': Query.from_(u).select(u.a).as_('al'),
 'crit': (t.a==1).as_('al'),
 'value': ValueWrapper(5).as_('al'),
 'neg': (-t.a).as_('al'),
 'not': Not(t.a==1).as_('al'),
 'between': t.a.between(1,2).as_('al'),
 'isin': t.a.isin([1]).as_('al'),
 'isnull': t.a.isnull().as_('al'),
 'complex': ((t.a==1)&(t.b==2)).as_('al'),
 'tuple': Tuple(t.a,1).as_('al'),
 'null': NullValue().as_('al'),
 'bitand': t.a.bitwiseand(1).as_('al'),
 'interval?': None,
 'pow': (t.a**2).as_('al'),
 'cast': fn.Cast(t.a,'INT').as_('al'),
 'json': t.a.get_json_value('k').as_('al'),
}
for k,v in terms.items():
    if v is None: continue
    show(k+' select', lambda: str(Query.from_(t).select(v)))
    show(k+' where/having/arg/larger', lambda: [str(Query.from_(t).select(t.x).where(v==1))[25:] if k not in('sub',) else '', str(fn.Coalesce(v,0)), str(v+1) if hasattr(v,'__add__') else None])
    show(k+' group/order selected', lambda: str(Query.from_(t).select(v).groupby(v).orderby(v))[15:])
    show(k+' group/order NOT selected', lambda: str(Query.from_(t).select(t.x).groupby(v).orderby(v))[15:])
show('oracle group selected', lambda: str(OracleQuery.from_(t).select(terms['func']).groupby(terms['func']).orderby(terms['func'])))
show('same alias different expr', lambda: str(Query.from_(t).select(t.a.as_('al')).groupby(t.b.as_('al'))))
show('ON alias', lambda: str(Query.from_(t).join(u).on(t.a.as_('al')==u.a).select(t.a.as_('al'))))
show('pg distinct on alias', lambda: str(PostgreSQLQuery.from_(t).select(t.a).distinct_on(t.a.as_('al'))))
show('insert values alias', lambda: str(Query.into(t).insert(ValueWrapper(1).as_('al'))))
show('returning alias', lambda: str(PostgreSQLQuery.into(t).insert(1).returning(t.a.as_('al'))))
show('orderby alias in setop', lambda: str(Query.from_(t).select(t.a.as_('al')).union(Query.from_(u).select(u.a)).orderby(t.a.as_('al'))))
show('rollup alias', lambda: str(Query.from_(t).select(t.a.as_('al')).rollup(t.a.as_('al'))))
show('CH limit by alias', lambda: str(ClickHouseQuery.from_(t).select(t.a.as_('al')).limit_by(1, t.a.as_('al'))))
show('set value alias', lambda: str(Query.update(t).set(t.a, ValueWrapper(1).as_('al'))))
show('in tuple alias', lambda: str(t.a.isin([t.b.as_('al')])))
show('case branches alias', lambda: str(Query.from_(t).select(Case().when(t.a.as_('x')==1, t.b.as_('y')).else_(t.c.as_('z')))))
show('analytic partition alias', lambda: str(Query.from_(t).select(an.Sum(t.a.as_('x')).over(t.b.as_('y')).orderby(t.c.as_('z')))))
