from pypika import *
from pypika import functions as fn, analytics as an
from pypika.terms import *
from pypika.queries import *
from pypika.dialects import *
t=Table('t')
def show(label, f):
    try: print(label, '=>', f())
    except Exception as e: print(label, 'EXC', type(e).__name__, str(e)[:110].replace('\n',' '))
# C16
t1=Table('t'); t2=Table('t').for_(Field('x')==1)
show('for eq/hash', lambda: (t1==t2, hash(t1)==hash(t2), t1 in [t2], t1 in {t2}))
show('schema hash', lambda: hash(Schema('s')))
show('schema routes', lambda: (Table('t',schema='s')==Table('t',schema=Schema('s')), Table('t',schema=('d','s'))==Table('t',schema=Schema('s',parent=Database('d'))), Table('t',schema=('d','s'))==Database('d').s.t, hash(Table('t',schema=('d','s')))==hash(Database('d').s.t)))
show('db vs schema eq', lambda: (Schema('s')==Database('s'), Database('s')==Schema('s')))
show('table vs other', lambda: (t1=='t', t1!= 't', t1==None))
show('alias', lambda: (Table('t',alias='a')==Table('t',alias='a'), Table('t',alias='a')==Table('t'), hash(Table('t',alias='a'))==hash(Table('t',alias='a'))))
show('query_cls ignored', lambda: (Table('t',query_cls=MySQLQuery)==Table('t'), hash(Table('t',query_cls=MySQLQuery))==hash(Table('t'))))
show('hash collision name with quote', lambda: (Table('a"."b')==Table('b',schema='a'), hash(Table('a"."b'))==hash(Table('b',schema='a'))))
show('aliasedquery', lambda: (AliasedQuery('a')==AliasedQuery('a', Query.from_(t).select('*')), hash(AliasedQuery('a'))==hash(AliasedQuery('a',1)), AliasedQuery('a')!=AliasedQuery('a'), AliasedQuery('a')!=AliasedQuery('b')))
q1=Query.from_(t).select('a'); q2=Query.from_(Table('u')).select('b')
show('querybuilder eq', lambda: (q1==q2, hash(q1)==hash(q2), q1!=q2))
show('schema ne', lambda: (Schema('a')!=Schema('a'), Schema('a')!=Schema('b'), Schema('a',Schema('p'))==Schema('a',Schema('q'))))
show('table alias empty vs none', lambda: (Table('t',alias='')==Table('t'), hash(Table('t',alias=''))==hash(Table('t'))))
show('table eq subclass/setop', lambda: (t1==q1, q1==t1))
show('for_portion eq', lambda: (t1.for_portion(SYSTEM_TIME.from_to(1,2))==t1))
# C17
show('create full', lambda: str(Query.create_table(Table('x',schema='s')).columns(Column('a','INT',nullable=False,default=0), Column('b','TEXT',nullable=True,default="it's"), Column('c'), ('d','REAL')).unique('a','b').unique('c').primary_key('a').foreign_key(['b'],Table('y'),['z'],on_delete=ReferenceOption.cascade,on_update=ReferenceOption.set_null).period_for('p','a','b').with_system_versioning().if_not_exists().temporary()))
show('unlogged+temporary', lambda: str(Query.create_table('x').columns('a').unlogged().temporary()))
show('default 0 / False / None', lambda: str(Query.create_table('x').columns(Column('a','INT',default=0), Column('b','BOOL',default=False), Column('c','INT',default=None), Column('d','INT',default=ValueWrapper(0)), Column('e','T',default=fn.Now()))))
show('as select', lambda: str(Query.create_table('x').as_select(Query.from_(t).select('*')).if_not_exists()))
show('fk str table', lambda: str(Query.create_table('x').columns('a').foreign_key(['a'],'y',['b'])))
show('mysql create', lambda: str(MySQLQuery.create_table('x').columns(Column('a','INT',default='s'))))
show('snow create', lambda: str(SnowflakeQuery.create_table('x').columns(Column('a','INT'))))
show('vertica', lambda: str(VerticaQuery.create_table('x').temporary().if_not_exists().columns('a')))
show('index', lambda: str(Query.create_index('i').on(Table('x')).columns('a','b').unique().if_not_exists().where(Field('a')>1)))
show('index Index obj', lambda: str(Query.create_index(Index('i')).on('my  table').columns('a')))
show('drops', lambda: [str(Query.drop_table(Table('x',schema='s')).if_exists()), str(Query.drop_database('d')), str(Query.drop_user('u')), str(Query.drop_view('v')), str(Query.drop_index('i')), str(MySQLQuery.drop_table('x')), str(SnowflakeQuery.drop_table('x')), str(ClickHouseQuery.drop_table('x').on_cluster('c').if_exists()), str(ClickHouseQuery.drop_dictionary('d').on_cluster('c')), str(ClickHouseQuery.drop_quota('q'))])
show('mysql drop user', lambda: str(MySQLQuery.drop_table('x').if_exists()))
show('drop index Index', lambda: str(Query.drop_index(Index('i'))))
show('dup column', lambda: str(Query.create_table('x').columns('a').columns('a')))
