from pypika import *
from pypika import functions as fn, analytics as an
from pypika.terms import *
from pypika.queries import *
from pypika.dialects import *
import inspect
t=Table('t')
def show(label, f):
    try: print(label, '=>', f())
    except Exception as e: print(label, 'EXC', type(e).__name__, str(e)[:110].replace('\n',' '))
# C18
show('frames', lambda: [str(an.Sum(t.a).over(t.b).orderby(t.c).rows(an.Preceding(n), an.Following(m))) for n,m in [(0,0),(1,2),(None,None),(10,0)]])
show('frame single', lambda: [str(an.Sum(t.a).over(t.b).rows(an.Preceding(0))), str(an.Sum(t.a).over(t.b).range(an.CURRENT_ROW)), str(an.Sum(t.a).rows(an.Preceding(3), an.CURRENT_ROW))])
show('frame without over', lambda: str(an.Sum(t.a).rows(an.Preceding(1))))
show('all clauses', lambda: str(an.FirstValue(t.a, t.b).filter(t.c==1).over(t.d).orderby(t.e, order=Order.desc).rows(an.Preceding(1), an.Following(2)).ignore_nulls().as_('x')))
show('distinct', lambda: [str(fn.Count(t.a).distinct()), str(fn.Count('*').distinct()), str(fn.Sum(t.a).distinct().filter(t.b==1)), str(fn.Count(t.a, 'al').distinct())])
show('distinct w/ schema', lambda: str(fn.Count(t.a).distinct()))
show('cast', lambda: [str(fn.Cast(t.a, 'int')), str(fn.Cast(t.a, SqlTypes.VARCHAR(10))), str(fn.Signed(t.a)), str(fn.Cast(t.a, SqlTypes.VARCHAR))])
show('extract', lambda: [str(fn.Extract(DatePart.year, t.a)), str(fn.Extract('DAY', fn.Now()))])
show('convert', lambda: str(fn.Convert(t.a, SqlTypes) ) )
show('approx', lambda: str(fn.ApproximatePercentile(t.a, 0.5)))
show('filter empty', lambda: str(fn.Sum(t.a).filter()))
show('over empty', lambda: str(an.Rank().over()))
show('orderby only', lambda: str(an.Rank().orderby(t.a)))
show('nested', lambda: str(fn.Coalesce(fn.Sum(fn.Abs(t.a)), fn.Max(t.b, 'inner'), 0)))
show('custom', lambda: str(CustomFunction('f',['a','b'])(t.a, 'x')))
show('fn schema', lambda: str(Function('f', t.a, schema=Schema('s'))))
show('date_add', lambda: str(fn.DateAdd(DatePart.day, 1, t.a)))
show('regexp none', lambda: str(fn.RegexpLike(t.a, 'p')))
show('pow mod rollup', lambda: [str(t.a**2), str(t.a%3), str(Rollup(t.a, t.b)), str(Pow(t.a, t.b+1))])
show('curts', lambda: [str(fn.CurTimestamp()), str(fn.CurDate()), str(fn.Now())])
show('count star', lambda: str(fn.Count('*')))
show('func with str arg star', lambda: str(fn.Sum('*')))
show('ntile/lag', lambda: [str(an.NTile(4).over(t.a)), str(an.Lag(t.a, 1, 0).over(t.b).orderby(t.c))])
import pypika.functions as F, pypika.analytics as AN
names=[n for n,c in inspect.getmembers(F, inspect.isclass) if issubclass(c, Function) and c.__module__=='pypika.functions']
print(len(names), names)
names=[n for n,c in inspect.getmembers(AN, inspect.isclass) if issubclass(c, Function) and c.__module__=='pypika.analytics']
print(len(names), names)
# C19
E=EmptyCriterion()
a=t.a==1; b=t.b==2; c=t.c==3
show('empty ops', lambda: [str(E&a), str(a&E), str(E|a), str(a|E), str(E^a), str(a^E), (~E) is E, (E&E).__class__.__name__])
show('all/any', lambda: [str(Criterion.all([a,E,b,E,c])), str(Criterion.any([E,a,b])), Criterion.all([]).__class__.__name__, str(Criterion.all([Criterion.any([a,b]), c])), str(Criterion.any([Criterion.all([a,b]), c]))])
show('where empty', lambda: [str(Query.from_(t).select('a').where(E)), str(Query.from_(t).select('a').where(E).where(a).where(E).where(b).having(E))])
show('where E&E', lambda: str(Query.from_(t).select('a').where(Criterion.all([]))))
show('where or-split', lambda: [str(Query.from_(t).select('a').where(a|b).where(c)), str(Query.from_(t).select('a').where(a).where(b|c)), str(Query.from_(t).select('a').where(a&(b|c)))])
show('having or', lambda: str(Query.from_(t).select('a').having(a|b).having(c)))
show('where non-criterion', lambda: str(Query.from_(t).select('a').where(t.a).where(t.b)))
show('all with fields', lambda: str(Criterion.all([t.a, t.b])))
show('prewhere empty', lambda: str(ClickHouseQuery.from_(t).select('a').prewhere(E)))
show('join on empty', lambda: str(Query.from_(t).join(Table('u')).on(E).select('a')))
show('filter empty crit', lambda: str(fn.Sum(t.a).filter(E)))
show('case when empty', lambda: str(Case().when(E, 1)))
show('not empty', lambda: str(Not(E)))
show('E negate', lambda: str(E.negate()))
show('index where empty', lambda: str(Query.create_index('i').on('t').columns('a').where(E)))
show('pg conflict where empty', lambda: str(PostgreSQLQuery.into(t).insert(1).on_conflict('a').do_update('a',1).where(E)))
show('any xor', lambda: str(a ^ b ^ c) + ' | ' + str(a ^ (b ^ c))+ ' | ' + str(a ^ (b & c)))
show('empty str', lambda: str(E))
