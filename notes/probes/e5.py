from pypika import *
from pypika import functions as fn, analytics as an
from pypika.terms import *
from pypika.queries import *
from pypika.dialects import *
t=Table('t'); u=Table('u')
def show(label, f):
    try: print(label, '=>', f())
    except Exception as e: print(label, 'EXC', type(e).__name__, e)
# C07 nested contexts
sub = Query.from_(u).select(u.b.as_('bb')).where(u.c=='s')
sub2 = PostgreSQLQuery.from_(u).select(u.b.as_('bb'))
for Q in [Query, MySQLQuery, PostgreSQLQuery, OracleQuery, MSSQLQuery, SQLLiteQuery, VerticaQuery, ClickHouseQuery, RedshiftQuery, SnowflakeQuery]:
    show(Q.__name__+' nested', lambda: str(Q.from_(t).join(sub).on(t.a==sub.bb).select(t.a.as_('x'), fn.Coalesce(t.b, sub.bb).as_('y'), Case().when(t.a.isin(sub2), t.c).else_(t.d).as_('z'), (t.a+1).as_('w')).where(t.e.isin(Query.from_(u).select(u.q))).groupby(t.a.as_('x')).orderby(t.b.as_('y'))))
for Q in [Query, MySQLQuery, PostgreSQLQuery, ClickHouseQuery, OracleQuery]:
    show(Q.__name__+' setop', lambda: str(Q.from_(t).select(t.a.as_('x')).union(MySQLQuery.from_(u).select(u.a)).orderby(t.a)))
    show(Q.__name__+' setop as sub', lambda: str(Q.from_(Q.from_(t).select(t.a).union(Q.from_(u).select(u.a))).select('a')))
    show(Q.__name__+' array/interval', lambda: str(Q.from_(t).select(Array(1,2), t.a+Interval(days=1), Tuple(1,2))))
    show(Q.__name__+' fn in fn alias', lambda: str(Q.from_(t).select(fn.Sum(fn.Coalesce(t.a.as_('inner'),0)).as_('s'))))
    show(Q.__name__+' subquery in function arg', lambda: str(Q.from_(t).select(fn.Coalesce(Query.from_(u).select(u.a).as_('sq'), 0))))
    show(Q.__name__+' analytic', lambda: str(Q.from_(t).select(an.Sum(t.a).over(t.b).orderby(t.c).as_('r'))))
    show(Q.__name__+' bitwiseand', lambda: str(Q.from_(t).select(t.a).where(t.a.bitwiseand(t.b))))
    show(Q.__name__+' with', lambda: str(Q.with_(Query.from_(u).select(u.a), 'an').from_(AliasedQuery('an')).select('a')))
    show(Q.__name__+' for table', lambda: str(Q.from_(t.for_(SYSTEM_TIME.as_of('2020'))).select('a')))
    show(Q.__name__+' update join', lambda: str(Q.update(t).join(u).on(t.a==u.a).set(t.b, u.b).where(u.c==1)))
show('mysql for update of', lambda: str(MySQLQuery.from_(t).select(t.a).for_update(of=('t','u'))))
show('snowflake subquery alias', lambda: str(SnowflakeQuery.from_(SnowflakeQuery.from_(t).select(t.a).as_('s')).select('a')))
show('pg subquery alias', lambda: str(PostgreSQLQuery.from_(PostgreSQLQuery.from_(t).select(t.a).as_('s')).select('a')))
show('pg outer w/ generic sub alias', lambda: str(PostgreSQLQuery.from_(Query.from_(t).select(t.a).as_('s')).select('a')))
show('generic outer w/ pg sub alias', lambda: str(Query.from_(PostgreSQLQuery.from_(t).select(t.a).as_('s')).select('a')))
show('mysql outer w/ snowflake sub', lambda: str(MySQLQuery.from_(SnowflakeQuery.from_(t).select(t.a.as_('q')).as_('s')).select('a')))
show('snowflake outer w/ mysql sub', lambda: str(SnowflakeQuery.from_(MySQLQuery.from_(t).select(t.a.as_('q')).as_('s')).select('a')))
show('oracle sub groupby alias in generic', lambda: str(Query.from_(OracleQuery.from_(t).select(t.a.as_('q')).groupby(t.a.as_('q')).as_('s')).select('a').groupby(Field('a').as_('a'))))
show('generic sub in oracle groupby alias', lambda: str(OracleQuery.from_(Query.from_(t).select(t.a.as_('q')).groupby(t.a.as_('q')).as_('s')).select('a')))
