from pypika import *
from pypika.terms import *
from pypika.enums import Dialects
import itertools, re, random
def show(label, f):
    try: print(label, '=>', f())
    except Exception as e: print(label, 'EXC', type(e).__name__, str(e)[:110].replace('\n',' '))
units=["years","months","days","hours","minutes","seconds","microseconds"]
labels=["YEAR","MONTH","DAY","HOUR","MINUTE","SECOND","MICROSECOND"]
seps=['-','-',' ',':',':','.']
def expected(vals):
    nz=[i for i,v in enumerate(vals) if v]
    if not nz: return None
    lo,hi=nz[0],nz[-1]
    s=str(abs(vals[lo]))
    for i in range(lo+1,hi+1): s+=seps[i-1]+str(abs(vals[i]))
    unit=labels[lo] if lo==hi else labels[lo]+'_'+labels[hi]
    if vals[lo]<0: s='-'+s
    return "INTERVAL '%s %s'"%(s,unit)
bad=[]
random.seed(1)
pool=[0,0,0,1,5,10,100,20,101,1000,7,30]
n=0
for _ in range(200000):
    vals=[random.choice(pool) for _ in range(7)]
    if not any(vals): continue
    n+=1
    got=str(Interval(**dict(zip(units,vals))))
    exp=expected(vals)
    if got!=exp: bad.append((vals,got,exp))
print(n, len(bad)); print(bad[:8])
show('neg micro', lambda: str(Interval(microseconds=-5)))
show('neg days', lambda: str(Interval(days=-5, hours=-3)))
show('quarters weeks', lambda: [str(Interval(quarters=2)), str(Interval(weeks=-3)), str(Interval(quarters=1, days=5))])
show('dialects', lambda: [Interval(days=1,hours=2).get_sql(dialect=d) for d in Dialects])
show('all zero', lambda: str(Interval()))
show('float/str', lambda: [str(Interval(days=1.5)), str(Interval(days='3'))])
show('json', lambda: [JSON(v).get_sql() for v in [{"a":1}, [1,2.5,"x"], "plain", 5, True, None, {"k":{"n":[{"z":"q"}]}}, {"a":"q\"uote"}, {"a":"back\\slash"}, {"a":"sq'"}, {1:2}, {"a": True, "b": None}, {"u":"é\n"}]])
show('array', lambda: [Array().get_sql(), Array().get_sql(dialect=Dialects.POSTGRESQL), Array(1,'a',Array(2)).get_sql(dialect=Dialects.POSTGRESQL), Array(1,[2,3],(4,5)).get_sql(), Tuple().get_sql(), Tuple(1,(2,3)).get_sql(), Array('x').get_sql(dialect=Dialects.REDSHIFT, secondary_quote_char="'")])
show('array empty str', lambda: Array('').get_sql(dialect=Dialects.POSTGRESQL))
show('bracket', lambda: str(Bracket(Field('a')+1)))
