from pypika import *
from pypika import functions as fn, analytics as an
from pypika.terms import *
from pypika.queries import *
from pypika.dialects import *
import datetime, uuid, decimal, enum
t=Table('t'); u=Table('u')
def show(label, f):
    try: print(label, '=>', f())
    except Exception as e: print(label, 'EXC', type(e).__name__, e)
# C03
for Q in [Query, MySQLQuery, PostgreSQLQuery, OracleQuery, MSSQLQuery, SQLLiteQuery, VerticaQuery, ClickHouseQuery, RedshiftQuery, SnowflakeQuery]:
    show(Q.__name__, lambda: str(Q.from_(t).select(t.a, ValueWrapper("x'y").as_('al')).where((t.a=="it's \\ \"q\" `b`") & t.b.isin(["a'"]) & (fn.Upper("o'k")=='x'))))
show('insert', lambda: str(MySQLQuery.into(t).insert("a'b", 'c\\', None, True, 1.5, decimal.Decimal('1.10'), datetime.date(2020,1,2), uuid.UUID(int=5))))
show('on dup', lambda: str(MySQLQuery.into(t).insert(1).on_duplicate_key_update('a', "x'y")))
show('pg conflict', lambda: str(PostgreSQLQuery.into(t).insert(1).on_conflict('a').do_update('a', "x'y")))
show('column default', lambda: str(Query.create_table('x').columns(Column('a','TEXT',default="x'y"))))
show('set', lambda: str(Query.update(t).set('a', "x'y")))
show('case', lambda: str(Case().when(t.a=="x'y", "p'q").else_("r's")))
show('like', lambda: str(t.a.like("%'%")))
show('between', lambda: str(t.a.between("a'", "b'")))
show('float nan', lambda: str(ValueWrapper(float('nan'))) + ' ' + str(ValueWrapper(float('inf')))+ ' ' + str(ValueWrapper(1e100)))
class E(enum.Enum):
    A="x'y"
show('enum', lambda: str(ValueWrapper(E.A)))
show('bytes', lambda: str(ValueWrapper(b"ab'c")))
show('datetime', lambda: str(ValueWrapper(datetime.datetime(2020,1,2,3,4,5))))
show('secondary none', lambda: ValueWrapper("x'y").get_sql(secondary_quote_char=None))
show('get_sql default', lambda: Query.from_(t).select(t.a).where(t.a=="x'y").get_sql())
show('get_sql quote_char None', lambda: Query.from_(t).select(t.a).where(t.a=="x'y").get_sql(quote_char=None))
show('term get_sql no kwargs', lambda: (t.a=="x'y").get_sql())
show('bitwiseand', lambda: str(MySQLQuery.from_(t).select(t.a).where(t.a.bitwiseand(5))))
show('bitwiseand str', lambda: str(MySQLQuery.from_(t).select(t.a).where(t.a.bitwiseand("x'y"))))
show('json', lambda: str(PostgreSQLQuery.from_(t).select(JSON({"a":"b'c", "d":[1,True,None,'x"y']}))))
show('json2', lambda: str(t.j.contains({"a":"it's"})))
show('AtTimezone', lambda: str(AtTimezone('a', "US'/E")))
show('createindex where', lambda: str(Query.create_index('i').on('x').columns('a').where(Field('a')=="two  spaces")))
show('toplevel alias valuewrapper', lambda: str(Query.from_(t).select(ValueWrapper("v").as_("a'b"))))
