import itertools, random
from pypika import *
from pypika import functions as fn
from pypika.dialects import *
t=Table('t'); u=Table('u'); v=Table('v')
def calls_select(Q):
    sub=lambda: Q.from_(v).select(v.a)
    return [
     ('select', lambda q: q.select(t.a, fn.Sum(u.b).as_('s'))),
     ('select', lambda q: q.select('c')),
     ('join', lambda q: q.join(u).on(t.a==u.a)),
     ('join', lambda q: q.join(v, JoinType.left).on(v.a==u.a)),
     ('where', lambda q: q.where(u.c==1)),
     ('where', lambda q: q.where(t.d.isin([1,2]) | (v.e=='x'))),
     ('groupby', lambda q: q.groupby(t.a)),
     ('groupby', lambda q: q.groupby('c')),
     ('having', lambda q: q.having(fn.Sum(u.b)>1)),
     ('having', lambda q: q.having(fn.Count('*')<9)),
     ('orderby', lambda q: q.orderby(t.a, order=Order.desc)),
     ('orderby', lambda q: q.orderby('c')),
     ('limit', lambda q: q.limit(5)),
     ('offset', lambda q: q.offset(2)),
     ('distinct', lambda q: q.distinct()),
     ('for_update', lambda q: q.for_update()),
     ('with', lambda q: q.with_(Q.from_(v).select(v.z), 'w1')),
     ('force_index', lambda q: q.force_index('i1')),
     ('use_index', lambda q: q.use_index('i2')),
    ]
def run(Q, base, calls, trials, rng):
    kinds=[k for k,_ in calls]
    outs={}
    for _ in range(trials):
        # random interleaving preserving same-kind order
        idx=list(range(len(calls)))
        rng.shuffle(idx)
        # restore relative order within kind
        pos_by_kind={}
        for p,i in enumerate(idx): pos_by_kind.setdefault(kinds[i],[]).append(p)
        new=[None]*len(idx)
        for k,ps in pos_by_kind.items():
            members=sorted(i for i in range(len(calls)) if kinds[i]==k)
            for p,i in zip(sorted(ps),members): new[p]=i
        q=base()
        for i in new: q=calls[i][1](q)
        s=str(q)
        outs.setdefault(s,[]).append(tuple(kinds[i]+str(i) for i in new))
    return outs
rng=random.Random(5)
for Q in [Query, MySQLQuery, PostgreSQLQuery, OracleQuery, MSSQLQuery, SQLLiteQuery, VerticaQuery, ClickHouseQuery, RedshiftQuery, SnowflakeQuery]:
    outs=run(Q, lambda: Q.from_(t), calls_select(Q), 300, rng)
    print(Q.__name__, len(outs))
    if len(outs)>1:
        for s,orders in list(outs.items())[:3]: print('   ', s[:400], '\n      e.g.', orders[0])
# update
def calls_update(Q): return [
 ('set', lambda q: q.set(t.a, 1)), ('set', lambda q: q.set('b', u.b)),
 ('join', lambda q: q.join(u).on(t.a==u.a)),
 ('where', lambda q: q.where(u.c==1)), ('where', lambda q: q.where(t.d==2)),
 ('limit', lambda q: q.limit(3)), ('with', lambda q: q.with_(Q.from_(v).select(v.z),'w1')),
]
for Q in [Query, MySQLQuery, PostgreSQLQuery, ClickHouseQuery]:
    outs=run(Q, lambda: Q.update(t), calls_update(Q), 200, rng)
    print('UPDATE', Q.__name__, len(outs))
    if len(outs)>1:
        for s,orders in list(outs.items())[:3]: print('   ', s[:300], '\n      e.g.', orders[0])
def calls_insert(Q): return [
 ('columns', lambda q: q.columns('a','b')), ('insert', lambda q: q.insert(1,'x')), ('insert', lambda q: q.insert(2,'y')),
 ('with', lambda q: q.with_(Q.from_(v).select(v.z),'w1')), ('ignore', lambda q: q.ignore()),
]
for Q in [Query, MySQLQuery, PostgreSQLQuery, SQLLiteQuery]:
    outs=run(Q, lambda: Q.into(t), calls_insert(Q), 100, rng)
    print('INSERT', Q.__name__, len(outs))
    if len(outs)>1:
        for s,orders in list(outs.items())[:3]: print('   ', s[:300], '\n      e.g.', orders[0])
# foreign-table flag probe: single-table query where where() mentions u then nothing else
print(str(Query.from_(t).where(u.c==1).select(t.a)), '|', str(Query.from_(t).select(t.a).where(u.c==1)))
# where before join of subquery w/ alias counters
s1=Query.from_(v).select(v.a); s2=Query.from_(v).select(v.b)
print(str(Query.from_(t).join(s1).on(s1.a==t.a).join(s2).on(s2.b==t.b).select('*')))
