from pypika import *
from pypika import functions as fn, analytics as an
from pypika.terms import *
from pypika.queries import *
from pypika.dialects import *
t=Table('t'); u=Table('u')
def show(label, f):
    try: print(label, '=>', f())
    except Exception as e: print(label, 'EXC', type(e).__name__, e)
# C09 purity
q=Query.from_(t).join(u).on(t.a==u.a).select(t.a, fn.Sum(u.b).as_('s')).where(~(t.c==1)).groupby(t.a)
s0=str(q)
kw={'quote_char':'`'}
q.get_sql(**kw); print('kwargs after', kw)
d={'quote_char':'`'}
print(OracleQuery.from_(t).select(t.a.as_('x')).groupby(t.a.as_('x')).get_sql(**d), d)
print(str(q)==s0, hash(q), q==q, q.fields_(), q.tables_ if hasattr(q,'tables_') else None)
f=Field('a', table=t)
k={'with_alias':True,'quote_char':'"'}
f.get_sql(**k); print('field kwargs', k)
n=Not(t.a==1); k={}; n.get_sql(**k); print('not kwargs', k)
fu=fn.Sum(t.a); k={'quote_char':'"','dialect':None}; fu.get_sql(**k); print('fn kwargs',k)
# hash seed
import subprocess,sys
code="from pypika import *; t=Table('t'); print(MySQLQuery.from_(t).select(t.a).for_update(of=('t','u','v','w')))"
outs=set()
for seed in range(6):
    outs.add(subprocess.run([sys.executable,'-c',code],env={'PYTHONHASHSEED':str(seed),'PATH':'/usr/bin'},capture_output=True,text=True).stdout.strip())
print(outs)
# tables_ / fields_ ordering irrelevant (sets). JoinOn.validate error message order of missing tables uses set
# C10
sub1=Query.from_(t).select(t.a); sub2=Query.from_(u).select(u.a)
show('two subq', lambda: str(Query.from_(sub1).from_(sub2).select(sub1.a, sub2.a)))
sub1=Query.from_(t).select(t.a); sub2=Query.from_(u).select(u.a); sub3=Query.from_(u).select(u.b)
show('from sub + join sub', lambda: str(Query.from_(sub1).join(sub2).on(sub1.a==sub2.a).select(sub1.a, sub2.a)))
sub1=Query.from_(t).select(t.a); sub2=Query.from_(u).select(u.a); sub3=Query.from_(u).select(u.b)
show('join sub, join sub', lambda: str(Query.from_(t).join(sub1).on(sub1.a==t.a).join(sub2).on(sub2.a==t.a).select(sub1.a, sub2.a)))
sub1=Query.from_(t).select(t.a); sub2=Query.from_(u).select(u.a)
show('join sub then from sub', lambda: str(Query.from_(t).join(sub1).on(sub1.a==t.a).from_(sub2).select(sub1.a, sub2.a)))
sub1=Query.from_(t).select(t.a)
qa=Query.from_(sub1).select(sub1.a)
sub2=Query.from_(u).select(u.a)
show('reuse sub across: sub1 has sq0; new query joins sub2 then from sub1', lambda: str(Query.from_(t).join(sub2).on(sub2.a==t.a).from_(sub1).select(sub1.a, sub2.a)))
inner=Query.from_(t).select(t.a); mid=Query.from_(inner).select(inner.a); 
show('nested', lambda: str(Query.from_(mid).select(mid.a)))
inner=Query.from_(t).select(t.a); mid=Query.from_(inner).select(inner.a); other=Query.from_(u).select(u.a)
show('nested + sibling', lambda: str(Query.from_(mid).from_(other).select(mid.a, other.a)))
so=Query.from_(t).select(t.a).union(Query.from_(u).select(u.a)); so2=Query.from_(t).select(t.b).union(Query.from_(u).select(u.b))
show('two setops', lambda: str(Query.from_(so).from_(so2).select(so.a, so2.b)))
so=Query.from_(t).select(t.a).union(Query.from_(u).select(u.a)); sb=Query.from_(t).select(t.b)
show('join setop', lambda: str(Query.from_(sb).join(so).on(so.a==sb.b).select(so.a)))
show('single table where field of other (correlated)', lambda: str(Query.from_(t).select(t.a).where(t.a.isin(Query.from_(u).select(u.a).where(u.b==t.b)))))
show('having/orderby qualified', lambda: str(Query.from_(t).join(u).on(t.a==u.a).select(t.a).groupby(t.a).having(fn.Sum(u.b)>1).orderby(u.c)))
show('groupby str', lambda: str(Query.from_(t).join(u).on(t.a==u.a).select('a').groupby('a').orderby('a')))
show('update from', lambda: str(PostgreSQLQuery.update(t).from_(u).set(t.a, u.a).where(t.id==u.id)))
show('schema', lambda: str(Query.from_(Table('x', schema=('db','sc'))).join(u).on(Table('x', schema=('db','sc')).a==u.a).select('*')))
show('aliased table single', lambda: str(Query.from_(t.as_('al')).select(t.as_('al').a, Field('b'))))
show('delete multi', lambda: str(Query.from_(t).delete().where(t.a==1)))
show('field of unaliased table in single-table q w/ explicit table', lambda: str(Query.from_(t).select(u.a)))
show('select foreign field, no where', lambda: str(Query.from_(t).select(u.a).where(t.a==1)))
show('orderby foreign', lambda: str(Query.from_(t).select(t.a).orderby(u.a)))
show('insert select from', lambda: str(Query.into(t).from_(u).select(u.a).where(u.b==1)))
show('using', lambda: str(Query.from_(t).join(u).using('a').select(t.b)))
