from pypika import *
from pypika import functions as fn, analytics as an
from pypika.terms import *
from pypika.queries import *
from pypika.dialects import *
t=Table('t'); u=Table('u')
def show(label, f):
    try: print(label, '=>', f())
    except Exception as e: print(label, 'EXC', type(e).__name__, e)
# C01
def case_share():
    c=Case().when(t.a==1,1); s0=str(c); c1=c.when(t.a==2,2); c2=c.when(t.a==3,3); return s0, str(c), str(c1), str(c2)
show('case share', case_share)
def setop_share():
    q1=Query.from_(t).select(t.a); q2=Query.from_(u).select(u.a)
    s=q1.union(q2); s0=str(s); s1=s.union(q1); s2=s.intersect(q2); return s0,str(s),str(s1),str(s2)
show('setop share', setop_share)
def setop_order():
    q1=Query.from_(t).select(t.a); q2=Query.from_(u).select(u.a)
    s=q1.union(q2); s1=s.orderby(t.a); return str(s), str(s1)
show('setop orderby share', setop_order)
def agg_filter():
    f=fn.Sum(t.a).filter(t.b==1); s0=str(f); f1=f.filter(t.c==2); return s0,str(f),str(f1)
show('agg filter share', agg_filter)
def an_over():
    f=an.Sum(t.a).over(t.b); s0=str(f); f1=f.over(t.c); f2=f.orderby(t.d); return s0,str(f),str(f1),str(f2)
show('analytic over share', an_over)
def create_share():
    c=Query.create_table('x').columns(Column('a','INT')); s0=str(c); c1=c.columns(Column('b','INT')); c2=c.unique('a'); return s0,str(c),str(c1),str(c2)
show('create share', create_share)
def createidx_share():
    c=Query.create_index('i').on('x').columns('a'); s0=str(c); c1=c.columns('b'); return s0,str(c),str(c1)
show('createidx share', createidx_share)
def rollup_share():
    q=Query.from_(t).select(t.a).rollup(t.a); s0=str(q); q1=q.rollup(t.b); return s0,str(q),str(q1)
show('rollup share', rollup_share)
def mysql_mod():
    q=MySQLQuery.from_(t).select(t.a).modifier('X'); s0=str(q); q1=q.modifier('Y'); return s0,str(q),str(q1)
show('mysql modifier share', mysql_mod)
def pg_conf():
    q=PostgreSQLQuery.into(t).insert(1).on_conflict('a'); s0=q._on_conflict_fields[:]; q1=q.on_conflict('b'); return len(s0),len(q._on_conflict_fields)
show('pg on_conflict share', pg_conf)
def pg_distinct_on():
    q=PostgreSQLQuery.from_(t).select(t.a).distinct_on('a'); s0=str(q); q1=q.distinct_on('b'); return s0,str(q),str(q1)
show('pg distinct_on share', pg_distinct_on)
def pg_using():
    q=PostgreSQLQuery.from_(t).delete().using(u); s0=str(q); q1=q.using('v'); return s0,str(q),str(q1)
show('pg using share', pg_using)
def ch_distinct_on():
    q=ClickHouseQuery.from_(t).select(t.a).distinct_on('a'); s0=str(q); q1=q.distinct_on('b'); return s0,str(q),str(q1)
show('ch distinct_on share', ch_distinct_on)
def join_alias():
    t2=Table('t'); s0=str(t2); q=Query.from_(t).join(t2).on(t.a==t2.a).select('*'); return s0,str(t2),str(q)
show('join same-name alias writes arg', join_alias)
def sub_alias():
    sub=Query.from_(t).select(t.a); f=sub.a; s0=str(f); q=Query.from_(sub).select(sub.a); return s0,str(f),sub.alias,str(q)
show('subquery autoalias writes arg', sub_alias)
def immut_false():
    q=Query.from_(t, immutable=False); q2=q.select(t.a); q3=q.where(t.a==1); return q is q2 is q3, str(q)
show('immutable False', immut_false)
def where_share():
    q=Query.from_(t).select(t.a).where(t.a==1); s0=str(q); q1=q.where(t.b==2); q2=q.where(t.c==3); return s0,str(q),str(q1),str(q2)
show('where share', where_share)
def exists_negate():
    e=ExistsCriterion(Query.from_(t).select(t.a)); s0=str(e); n=e.negate(); return s0,str(e), n is e
show('exists negate mutates', exists_negate)
def select_star_tables():
    q=Query.from_(t).join(u).on(t.a==u.a).select(t.a); q1=q.select(t.star); q2=q.select(t.b); return str(q),str(q1),str(q2)
show('select star tables', select_star_tables)
def joiner_reuse():
    q=Query.from_(t).select(t.a); j=q.join(u); q1=j.on(t.a==u.a); q2=j.on(t.b==u.b); return str(q),str(q1),str(q2), q1 is q2
show('joiner reuse', joiner_reuse)
def table_for():
    t1=Table('t'); t2=t1.for_(t1.x==1); return str(t1), str(t2)
show('table for_', table_for)
def limit_by_share():
    q=ClickHouseQuery.from_(t).select(t.a).limit_by(1,'a'); q1=q.limit_by(2,'b'); return str(q),str(q1)
show('limit_by', limit_by_share)
