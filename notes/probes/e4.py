from pypika import *
from pypika import functions as fn, analytics as an
from pypika.terms import *
from pypika.queries import *
from pypika.dialects import *
t=Table('t'); u=Table('u')
def show(label, f):
    try: print(label, '=>', f())
    except Exception as e: print(label, 'EXC', type(e).__name__, e)
# C06
def par(P, q):
    p=P(); return q.get_sql(parameter=p), p.get_parameters()
sub=Query.from_(u).select(u.b).where(u.c=='s1')
q=Query.from_(t).join(u).on((t.a==u.a)&(u.x=='j1')).select(t.a, ValueWrapper('v0'), Case().when(t.a==1,'c1').else_('c2'), fn.Upper('f1')).where((t.b=='w1')&t.c.isin(['i1','i2'])&t.d.isin(sub)&t.e.between(1,2.5)).groupby(t.a).having(fn.Count('*')>5)
for P in [QmarkParameter, NumericParameter, FormatParameter, NamedParameter, PyformatParameter]:
    show(P.__name__, lambda: par(P,q))
show('insert', lambda: par(QmarkParameter, Query.into(t).insert(1,'a',None,True).insert(2,'b',None,False)))
show('update', lambda: par(NamedParameter, Query.update(t).set('a',1).set('b','x').where(t.c=='y')))
show('setop', lambda: par(NumericParameter, Query.from_(t).select(t.a).where(t.a=='l').union(Query.from_(u).select(u.a).where(u.a=='r'))))
show('explicit Parameter mix', lambda: par(QmarkParameter, Query.from_(t).select(t.a).where((t.a==Parameter('?'))&(t.b=='x'))))
show('explicit Numeric mix', lambda: par(NumericParameter, Query.from_(t).select(t.a).where((t.a==Parameter(':1'))&(t.b=='x'))))
show('date', lambda: par(QmarkParameter, Query.from_(t).select(t.a).where(t.a==__import__('datetime').date(2020,1,1))))
show('bool/None', lambda: par(QmarkParameter, Query.from_(t).select(t.a).where((t.a==True)&(t.b==None))))
show('str with quote', lambda: par(QmarkParameter, Query.from_(t).select(t.a).where(t.a=="x'y")))
show('mysql str', lambda: par(QmarkParameter, MySQLQuery.from_(t).select(t.a).where(t.a=="x'y")))
show('reuse collector', lambda: (lambda p: (q.get_sql(parameter=p)[-40:], Query.from_(t).select(t.a).where(t.a=='zz').get_sql(parameter=p), p.get_parameters()))(NumericParameter()))
show('dict same value twice', lambda: par(NamedParameter, Query.from_(t).select(t.a).where((t.a=='x')&(t.b=='x'))))
show('limit', lambda: par(QmarkParameter, Query.from_(t).select(t.a).limit(5).offset(2)))
show('ParameterValueWrapper', lambda: par(NamedParameter, Query.from_(t).select(t.a).where(t.a==ParameterValueWrapper(NamedParameter('foo'),'v'))))
show('negative', lambda: par(QmarkParameter, Query.from_(t).select(-ValueWrapper(3), t.a-(-2))))
show('pg on conflict', lambda: par(QmarkParameter, PostgreSQLQuery.into(t).insert(1,'a').on_conflict('a').do_update('b','u').returning('a')))
show('mysql on dup', lambda: par(QmarkParameter, MySQLQuery.into(t).insert(1,'a').on_duplicate_key_update('b','u')))
show('array/tuple', lambda: par(QmarkParameter, Query.from_(t).select(Tuple(1,'a'), Array(2,'b'))))
show('analytic', lambda: par(QmarkParameter, Query.from_(t).select(an.Sum(t.a).over(t.b).orderby(t.c).filter(t.d=='f'))))
show('interval', lambda: par(QmarkParameter, Query.from_(t).select(t.a+Interval(days=1))))
show('json', lambda: par(QmarkParameter, Query.from_(t).select(t.a).where(t.j.contains({'a':1}))))
