"""Prototype of table G4: per-class container attrs, __copy__ re-copies, per-@builder-method effects."""
import ast, sys, json, collections
SRC = {m: open(f'/repo/pypika/{m}.py').read() for m in ['utils','terms','queries','dialects','functions','analytics']}
classes = {}  # name -> dict(module, bases, methods{name: FunctionDef}, node)
for mod, src in SRC.items():
    tree = ast.parse(src)
    def visit(body, prefix=''):
        for n in body:
            if isinstance(n, ast.ClassDef):
                name = prefix + n.name
                key = name if name not in classes else f'{mod}.{name}'
                bases = [ast.unparse(b) for b in n.bases]
                classes[key] = dict(module=mod, bases=bases, methods={f.name: f for f in n.body if isinstance(f, ast.FunctionDef)}, node=n)
                visit(n.body, prefix=name + '.')
    visit(tree.body)

def mro(name, seen=None):
    out = [name]
    for b in classes[name]['bases']:
        b = b.split('.')[-1] if b not in classes else b
        if b in classes and b not in out:
            for x in mro(b):
                if x not in out: out.append(x)
    return out

def find_method(cls, m):
    for c in mro(cls):
        if m in classes[c]['methods']:
            return c, classes[c]['methods'][m]
    return None, None

def is_builder(fn):
    return any(ast.unparse(d) == 'builder' for d in fn.decorator_list)

MUT = {'append','extend','add','remove','insert','pop','clear','update','discard','sort','reverse','setdefault'}

def root_and_path(node):
    """a.b.c[...] -> ('a', ['b','c'])"""
    path = []
    while True:
        if isinstance(node, ast.Attribute): path.append(node.attr); node = node.value
        elif isinstance(node, ast.Subscript): path.append('[]'); node = node.value
        elif isinstance(node, ast.Name): return node.id, list(reversed(path))
        else: return None, None

def effects_of(cls, fn, depth=0, seen=None):
    seen = seen or set()
    if (cls, fn.name) in seen or depth > 4: return []
    seen.add((cls, fn.name))
    params = [a.arg for a in fn.args.args[1:]] + ([fn.args.vararg.arg] if fn.args.vararg else []) + [a.arg for a in fn.args.kwonlyargs]
    # simple alias tracking: local = param-derived element  (for x in terms: ...)
    eff = []
    for n in ast.walk(fn):
        if isinstance(n, ast.Assign) or isinstance(n, ast.AnnAssign):
            targets = n.targets if isinstance(n, ast.Assign) else [n.target]
            for t in targets:
                r, p = root_and_path(t)
                if r == 'self' and p:
                    if len(p) == 1: eff.append(('rebind', p[0]))
                    else: eff.append(('nested-assign', '.'.join(p)))
                elif r in params and p:
                    eff.append(('argwrite', f'{r}.' + '.'.join(p)))
                elif r is not None and p and r not in ('kwargs',) and p != []:
                    eff.append(('localobj-write', f'{r}.' + '.'.join(p)))
        elif isinstance(n, ast.AugAssign):
            r, p = root_and_path(n.target)
            if r == 'self' and p:
                kind = 'inplace-aug' if len(p) == 1 else 'nested-aug'
                eff.append((kind, '.'.join(p) + ' ' + type(n.op).__name__))
            elif r in params and p:
                eff.append(('argwrite-aug', f'{r}.' + '.'.join(p)))
        elif isinstance(n, ast.Call) and isinstance(n.func, ast.Attribute):
            if n.func.attr in MUT:
                r, p = root_and_path(n.func.value)
                if r == 'self' and p:
                    eff.append(('inplace-call' if len(p) == 1 else 'nested-call', '.'.join(p) + '.' + n.func.attr))
                elif r in params and p is not None:
                    eff.append(('arg-inplace-call', f'{r}.' + '.'.join(p) + '.' + n.func.attr))
            # self.helper(...)
            r, p = root_and_path(n.func)
            if r == 'self' and p and len(p) == 1:
                c2, f2 = find_method(cls, p[0])
                if f2 is not None and not is_builder(f2):
                    eff += [(k, v + f'  <via {p[0]}>') for k, v in effects_of(cls, f2, depth + 1, seen)]
            if r == 'super()' :
                pass
        if isinstance(n, ast.Call) and isinstance(n.func, ast.Attribute) and isinstance(n.func.value, ast.Call) and ast.unparse(n.func.value.func) == 'super':
            m = n.func.attr
            for c in mro(cls)[1:]:
                if m in classes[c]['methods']:
                    f2 = classes[c]['methods'][m]
                    eff += [(k, v + f'  <via super().{m}>') for k, v in effects_of(c, f2, depth + 1, seen)]
                    break
    return eff

def init_containers(cls):
    out = {}
    for c in reversed(mro(cls)):
        f = classes[c]['methods'].get('__init__')
        if not f: continue
        for n in ast.walk(f):
            if isinstance(n, ast.Assign):
                for t in n.targets:
                    r, p = root_and_path(t)
                    if r == 'self' and p and len(p) == 1:
                        v = n.value
                        kind = None
                        if isinstance(v, ast.List): kind = 'list'
                        elif isinstance(v, ast.Dict): kind = 'dict'
                        elif isinstance(v, ast.Call) and ast.unparse(v.func) in ('set','list','dict'): kind = ast.unparse(v.func)
                        elif isinstance(v, ast.ListComp): kind = 'list'
                        if kind: out[p[0]] = kind
    return out

def recopied(cls):
    out = set()
    for c in mro(cls):
        f = classes[c]['methods'].get('__copy__')
        if f:
            for n in ast.walk(f):
                if isinstance(n, ast.Assign):
                    for t in n.targets:
                        r, p = root_and_path(t)
                        if r == 'newone' and p and len(p) == 1: out.add(p[0])
    return out

report = {}
for cls in classes:
    bm = {}
    for c in mro(cls):
        for m, f in classes[c]['methods'].items():
            if is_builder(f) and m not in bm: bm[m] = (c, f)
    if not bm: continue
    cont = init_containers(cls); rc = recopied(cls)
    rows = {}
    for m, (c, f) in sorted(bm.items()):
        eff = effects_of(cls, f)
        bad = [e for e in eff if (e[0] in ('inplace-call','inplace-aug') and e[1].split('.')[0].split(' ')[0] not in rc) or e[0] in ('nested-call','nested-aug','nested-assign','argwrite','argwrite-aug','arg-inplace-call','localobj-write')]
        rows[m] = dict(defined_in=c, effects=eff, unsafe=bad)
    report[cls] = dict(containers=cont, recopied=sorted(rc), methods=rows)
for cls, r in report.items():
    unsafe = {m: v['unsafe'] for m, v in r['methods'].items() if v['unsafe']}
    print(f"{cls:32s} containers={sorted(r['containers'])} recopied={r['recopied']}")
    for m, u in unsafe.items(): print('      UNSAFE', m, u)
