import sqlite3
from pypika import *
from pypika.enums import ReferenceOption
from pypika.terms import ValueWrapper
from pypika.dialects import SQLLiteQuery as S
from pypika import functions as fn
t=Table('t'); u=Table('u')
def db():
    c=sqlite3.connect(':memory:')
    c.execute('create table t(a INTEGER,b TEXT,c REAL)'); c.execute('create table u(a INTEGER,b TEXT,c REAL)')
    c.executemany('insert into t values (?,?,?)',[(1,'x',1.5),(2,None,2.5),(2,'y',None)])
    c.executemany('insert into u values (?,?,?)',[(2,'p',9.0),(3,'q',8.0)])
    return c
def run(label, q, show='t'):
    c=db(); sql=str(q)
    try:
        c.execute(sql); print('OK ', label, '|', sql, '->', c.execute(f'select * from {show} order by rowid').fetchall())
    except Exception as e: print('ERR', label, '|', sql, '->', e)
run('insert row', S.into(t).insert(5,"it's",None))
run('insert multi', S.into(t).insert((5,'a',1.0),(6,'b',2.0)))
run('insert chained', S.into(t).insert(5,'a',1.0).insert(6,'b',2.0))
run('insert columns', S.into(t).columns('b','a').insert('z',9))
run('insert columns fields', S.into(t).columns(t.b,t.a).insert('z',9))
run('insert select', S.into(t).from_(u).select(u.a,u.b,u.c).where(u.a>2))
run('insert select cols', S.into(t).columns('a','b').from_(u).select(u.a,u.b))
run('insert or replace', S.into(t).insert_or_replace(1,'r',0.0))
run('replace', S.into(t).replace(1,'r',0.0))
run('insert bool', S.into(t).insert(True,False,None))
run('insert neg', S.into(t).insert(-1,'-- x',-2.5))
run('insert ignore', S.into(t).ignore().insert(1,'a',1.0))
run('update', S.update(t).set(t.b,'k').set('c', t.c*2).where(t.a==2))
run('update expr self', S.update(t).set(t.a, t.a+1))
run('update from', S.update(t).from_(u).set(t.b,u.b).where(t.a==u.a))
run('update join', S.update(t).join(u).on(t.a==u.a).set(t.b,u.b))
run('update limit', S.update(t).set(t.b,'k').limit(1))
run('update bool', S.update(t).set(t.a, True))
run('delete', S.from_(t).delete().where(t.a==2))
run('delete all', S.from_(t).delete())
run('delete sub', S.from_(t).delete().where(t.a.isin(S.from_(u).select(u.a))))
run('insert with', S.with_(S.from_(u).select(u.a,u.b,u.c),'w').into(t).from_(AliasedQuery('w')).select('a','b','c'))
# DDL
def runddl(label, q, table='x'):
    c=sqlite3.connect(':memory:'); c.execute('create table y(z integer primary key)')
    sql=str(q)
    try:
        c.execute(sql); print('OK ', label, '|', sql, '->', c.execute(f"pragma table_info({table})").fetchall(), c.execute(f"pragma index_list({table})").fetchall(), c.execute(f"pragma foreign_key_list({table})").fetchall())
    except Exception as e: print('ERR', label, '|', sql, '->', e)
runddl('create', S.create_table('x').columns(Column('a','INTEGER',nullable=False,default=0), Column('b','TEXT',nullable=True,default="it's"), Column('c'), ('d','REAL')).unique('a','b').unique('c').primary_key('a').foreign_key(['d'],Table('y'),['z'],on_delete=ReferenceOption.cascade,on_update=ReferenceOption.set_null))
runddl('temp ine', S.create_table('x').columns(Column('a','INT')).temporary().if_not_exists())
runddl('as select', S.create_table('x').as_select(S.from_(Table('y')).select('*')))
runddl('period', S.create_table('x').columns(Column('a','INT'),Column('b','INT')).period_for('p','a','b'))
runddl('versioning', S.create_table('x').columns(Column('a','INT')).with_system_versioning())
runddl('unlogged', S.create_table('x').columns(Column('a','INT')).unlogged())
runddl('default fn', S.create_table('x').columns(Column('a','INT',default=fn.Now())))
runddl('default neg', S.create_table('x').columns(Column('a','INT',default=-1)))
runddl('default expr', S.create_table('x').columns(Column('a','INT',default=ValueWrapper(1)+2)))
c=sqlite3.connect(':memory:'); c.execute('create table x(a,b)')
for q in [Query.create_index('i').on('x').columns('a','b').unique().if_not_exists(), Query.create_index('i').on(Table('x')).columns('a').where(Field('a')>1), Query.drop_index('i'), Query.drop_table('x').if_exists(), Query.drop_view('v').if_exists()]:
    try: c.execute(str(q)); print('OK ', str(q), c.execute("select name from sqlite_master").fetchall())
    except Exception as e: print('ERR', str(q), e)
