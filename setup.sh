#!/bin/sh
# Offline setup: regenerate tables from /repo and build the Lean model, every property file, the table agreements and
# the driver (each check rebuilds only what changed).
cd "$(dirname "$0")" || exit 1
export PYTHONDONTWRITEBYTECODE=1
/venv/bin/python -m harness.extract || exit 1
cd lean || exit 1
# every module of the project: property files and whole-tree proofs are not imported by the library root
mods=$(find Pypika -name '*.lean' | sed 's/\.lean$//; s#/#.#g' | tr '\n' ' ')
mkdir -p .lake
lake build Pypika driver $mods > .lake/setup-build.log 2>&1
rc=$?
tail -5 .lake/setup-build.log
test -x .lake/build/bin/driver || exit 1
exit $rc
