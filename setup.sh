#!/bin/sh
# Offline setup: regenerate tables from /repo and build the Lean model, proofs and driver.
cd "$(dirname "$0")" || exit 1
export PYTHONDONTWRITEBYTECODE=1
/venv/bin/python -m harness.extract || exit 1
cd lean && lake build Pypika driver 2>&1 | tail -5
test -x .lake/build/bin/driver
