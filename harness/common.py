"""Shared plumbing: paths, lean build + audit, driver protocol, verdict, evidence."""
import fcntl
import hashlib
import json
import os
import re
import subprocess
import sys
import time

VERIF = os.path.dirname(os.path.dirname(os.path.abspath(__file__)))
REPO = os.environ.get("PYPIKA_REPO", "/repo")
LEAN = os.path.join(VERIF, "lean")
DRIVER = os.path.join(LEAN, ".lake", "build", "bin", "driver")
EVIDENCE = os.path.join(VERIF, "evidence")
REPLAYS = os.path.join(VERIF, "replays")
KF_FILE = os.path.join(VERIF, "known_findings.json")
ALLOWED_AXIOMS = {"propext", "Classical.choice", "Quot.sound"}

# the implementation under check is always /repo's working tree
if REPO not in sys.path:
    sys.path.insert(0, REPO)


class HarnessError(Exception):
    """infrastructure failure: exit 2, never a VIOLATION"""


def seed():
    try:
        return int(os.environ.get("VERIF_SEED", "0"))
    except ValueError:
        return 0


def run(cmd, cwd=None, timeout=3600, env=None):
    p = subprocess.run(cmd, cwd=cwd, stdout=subprocess.PIPE, stderr=subprocess.STDOUT, text=True, timeout=timeout,
                       env=env)
    return p.returncode, p.stdout


class BuildResult:
    def __init__(self):
        self.ok = True
        self.failed_modules = []     # lean modules that did not build
        self.failed_theorems = []    # names mentioned in error messages
        self.log = ""
        self.axioms = {}             # theorem -> [axioms]
        self.source_flags = []       # forbidden tokens found in sources
        self.wall = 0.0


AGREE_MODULE = {}
for _t, _names in {
    "Classes": ["classes_complete", "class_quotes", "secondary_quote"],
    "Ops": ["arith_text", "bool_text", "order_text", "left_parens", "right_parens", "needs_brackets"],
    "Pagination": ["pagination", "setop_pagination"],
    "Edges": ["edges"],
    "FormatAlias": ["format_alias"],
    "Placeholders": ["placeholders"],
    "TermWrites": ["term_writes_agree"],
    "SetWrites": ["setop_writes_agree"],
    "DDLWrites": ["ddl_writes_agree", "ddl_reads_agree", "ddl_methods_covered"],
    "BuilderWrites": ["writes_agree", "reads_agree", "methods_covered", "setops_write_nothing"],
    "Interval": ["interval_templates", "interval_labels", "interval_pattern", "interval_grid"],
}.items():
    for _n in _names:
        AGREE_MODULE[_n] = "Pypika.Agree." + _t


def _lock():
    os.makedirs(os.path.join(LEAN, ".lake"), exist_ok=True)
    f = open(os.path.join(LEAN, ".lake", "verif.lock"), "w")
    fcntl.flock(f, fcntl.LOCK_EX)
    return f


_FORBIDDEN = re.compile(r"\bsorry\b|\badmit\b|^axiom\s|\bnative_decide\b|\bbv_decide\b|implemented_by|\bunsafe\s|maxHeartbeats\s+0")


def strip_comments(src):
    # remove /- ... -/ (nested) and -- ... comments
    out = []
    i, depth, n = 0, 0, len(src)
    while i < n:
        if src.startswith("/-", i):
            depth += 1
            i += 2
        elif depth and src.startswith("-/", i):
            depth -= 1
            i += 2
        elif depth:
            i += 1
        elif src.startswith("--", i):
            j = src.find("\n", i)
            i = n if j < 0 else j
        else:
            out.append(src[i])
            i += 1
    return "".join(out)


def scan_sources():
    flags = []
    for root, _dirs, files in os.walk(LEAN):
        if ".lake" in root:
            continue
        for fn in files:
            if fn.endswith(".lean"):
                p = os.path.join(root, fn)
                txt = strip_comments(open(p, encoding="utf-8").read())
                for ln, line in enumerate(txt.split("\n"), 1):
                    if _FORBIDDEN.search(line):
                        flags.append("%s:%d: %s" % (os.path.relpath(p, VERIF), ln, line.strip()[:120]))
    return flags


def lean_build(modules, need_driver=True, clean=False):
    """(re)generate tables, build the given modules (+ driver) under a lock, collect axioms."""
    t0 = time.time()
    res = BuildResult()
    lock = _lock()
    try:
        from harness import extract
        extract.generate()
        targets = list(modules) + (["driver"] if need_driver else [])
        if clean:
            for m in modules:
                for ext in (".olean", ".ilean", ".trace", ".hash"):
                    p = os.path.join(LEAN, ".lake", "build", "lib", "lean", m.replace(".", "/") + ext)
                    if os.path.exists(p):
                        os.remove(p)
        rc, out = run(["lake", "build"] + targets, cwd=LEAN, timeout=3000)
        res.log = out
        if rc != 0:
            res.ok = False
            for m in re.findall(r"^- (\S+)", out, re.M):
                res.failed_modules.append(m)
            for m in re.findall(r"error: (\S+\.lean):(\d+):", out):
                res.failed_theorems.append("%s:%s" % m)
    finally:
        lock.close()
    res.source_flags = scan_sources()
    res.wall = time.time() - t0
    return res


def collect_axioms(theorems, imports):
    """`#print axioms` for each theorem -> {name: [axioms]} ; missing theorem -> None"""
    if not theorems:
        return {}
    src = "".join("import %s\n" % m for m in imports)
    src += "open Pypika\n"
    for t in theorems:
        src += "#print axioms %s\n" % t
    path = os.path.join(LEAN, ".lake", "audit_%d.lean" % os.getpid())
    open(path, "w").write(src)
    try:
        rc, out = run(["lake", "env", "lean", path], cwd=LEAN, timeout=1200)
    finally:
        os.remove(path)
    res = {t: None for t in theorems}
    # messages: "'name' depends on axioms: [a, b]" / "'name' does not depend on any axioms"
    for m in re.finditer(r"'([^']+)' depends on axioms: \[([^\]]*)\]", out.replace("\n", " ")):
        name = m.group(1)
        ax = [a.strip() for a in m.group(2).split(",") if a.strip()]
        for t in theorems:
            if t == name or name.endswith("." + t) or t.endswith("." + name):
                res[t] = ax
    for m in re.finditer(r"'([^']+)' does not depend on any axioms", out):
        name = m.group(1)
        for t in theorems:
            if t == name or name.endswith("." + t) or t.endswith("." + name):
                res[t] = []
    return res


class Driver:
    """batch use of the compiled model driver"""

    def __init__(self):
        if not os.path.exists(DRIVER):
            raise HarnessError("driver executable missing: %s" % DRIVER)

    def ask(self, requests, chunk=20000):
        out = []
        for i in range(0, len(requests), chunk):
            data = "".join(json.dumps(r, ensure_ascii=False) + "\n" for r in requests[i:i + chunk])
            p = subprocess.run([DRIVER], input=data.encode("utf-8"), stdout=subprocess.PIPE, stderr=subprocess.PIPE,
                               timeout=1800)
            if p.returncode != 0:
                raise HarnessError("driver failed: %s" % p.stderr.decode("utf-8", "replace")[:400])
            lines = p.stdout.decode("utf-8").split("\n")
            lines = [l for l in lines if l]
            if len(lines) != len(requests[i:i + chunk]):
                raise HarnessError("driver answered %d lines for %d requests" % (len(lines), len(requests[i:i + chunk])))
            out.extend(json.loads(l) for l in lines)
        return out


def load_kf(pid):
    if not os.path.exists(KF_FILE):
        return []
    data = json.load(open(KF_FILE))
    return [e for e in data.get("findings", []) if e.get("property") == pid]


def sig_key(sig):
    return json.dumps(sig, sort_keys=True)


def struct_hash(obj):
    return hashlib.sha1(json.dumps(obj, sort_keys=True, default=str).encode()).hexdigest()[:16]
