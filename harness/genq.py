"""Random statement builders: recipes are small Python scripts ending with a variable `q`."""
from harness import gen
from harness.ns import QNAMES

CLASSES = list(QNAMES)
JOINS = ["inner", "left", "right", "outer", "left_outer", "right_outer", "full_outer", "cross", "hash"]


class QG:
    def __init__(self, rng, cls=None, sqlite_ok=False, strings="plain", allow_params=False, max_depth=2, portable=False,
                 inner_same=False, vendor_terms=False):
        self.r = rng
        self.cls = cls
        self.sqlite_ok = sqlite_ok      # restrict to constructs SQLite executes
        self.strings = strings
        self.allow_params = allow_params
        self.max_depth = max_depth
        self.portable = portable          # no pagination / vendor clauses: the same script is meaningful for every class
        self.inner_same = inner_same      # sub-queries use the same class as the outer statement
        self.vendor_terms = vendor_terms  # put Array / Interval terms into select lists
        self.lines = []
        self.nvar = 0

    def var(self, prefix):
        self.nvar += 1
        return "%s%d" % (prefix, self.nvar)

    def emit(self, line):
        self.lines.append(line)

    def script(self):
        return "\n".join(self.lines)

    # -- tables
    def new_table(self, names=("t", "u", "v", "w")):
        r = self.r
        name = r.choice(names)
        v = self.var("t")
        x = r.random()
        if x < 0.55 or self.sqlite_ok and x < 0.8:
            self.emit("%s = T(%r)" % (v, name))
        elif x < 0.8:
            self.emit("%s = T(%r).as_(%r)" % (v, name, name[0] + str(self.nvar)))
        elif x < 0.9:
            self.emit("%s = T(%r, schema=%r)" % (v, name, r.choice(["s1", "s2"])))
        else:
            self.emit("%s = T(%r, schema=(%r, %r)).as_(%r)" % (v, name, "db", "s1", "a" + str(self.nvar)))
        return v

    def class_table(self, cls, names=("t", "u", "v", "w")):
        """a table created through the query class (`MySQLQuery.Table('t')`): its select() / update() / insert() start a
        statement of that class"""
        name = self.r.choice(names)
        v = self.var("t")
        self.emit("%s = %s.Table(%r)" % (v, QNAMES[cls], name))
        return v

    def eg(self, pool):
        g = gen.G(self.r, tables=False, strings=self.strings, allow_params=self.allow_params,
                  allow_shift=not self.sqlite_ok)
        g.field = lambda: self.r.choice(pool)
        return g

    def fields_of(self, tv, cols=("a", "b", "c", "x")):
        if tv.startswith("q") and self.r.random() < 0.3:
            # the other spellings of a column of a sub-query
            return [self.r.choice(["%s[%r]", "%s.field(%r)"]) % (tv, c) for c in cols]
        return ["%s.%s" % (tv, c) for c in cols]

    # -- SELECT
    def select(self, depth=0, cls=None, want_alias=False):
        r = self.r
        cls = cls or self.cls or r.choice(CLASSES)
        qn = QNAMES[cls]
        srcs = []
        pool = []
        nfrom = 1 if r.random() < 0.8 else 2
        chain = []
        for _ in range(nfrom):
            if depth < self.max_depth and r.random() < 0.2:
                sub = self.select(depth + 1, cls=cls if self.inner_same else (r.choice(CLASSES) if r.random() < 0.3 else cls))
                if r.random() < 0.5:
                    self.emit("%s = %s.as_(%r)" % (sub, sub, "sq_" + sub))
                srcs.append(sub)
                pool += self.fields_of(sub, ("a", "b"))
            else:
                tv = self.new_table()
                srcs.append(tv)
                pool += self.fields_of(tv)
        head = "%s.from_(%s)" % (qn, srcs[0])
        if depth == 0 and r.random() < 0.12:
            # a WITH entry (with a data value of its own) in front of the statement
            wt = self.new_table(("w",))
            gw = self.eg(self.fields_of(wt))
            head = "%s.with_(%s.from_(%s).select(%s.a).where(%s.b == %s), %r).from_(%s)" % (
                qn, qn, wt, wt, wt, gw.string() if r.random() < 0.7 else gw.pynum(), "cte%d" % (self.nvar + 1), srcs[0])
        table_entry = None
        if nfrom == 1 and srcs[0].startswith("t") and r.random() < 0.1 and not self.portable and ".with_(" not in head:
            # Table.select(...): the statement starts from a table created through the query class
            table_entry = self.class_table(cls)
            pool = self.fields_of(table_entry)
            srcs = [table_entry]
            head = None
        for s in srcs[1:]:
            chain.append(".from_(%s)" % s)
        # joins
        njoin = r.choice([0, 0, 1, 1, 2])
        for _ in range(njoin):
            if depth < self.max_depth and r.random() < 0.15:
                jt = self.select(depth + 1, cls=cls)
                jpool = self.fields_of(jt, ("a", "b"))
            else:
                jt = self.new_table(("u", "v", "w", "j"))
                jpool = self.fields_of(jt)
            how = r.choice(JOINS)
            g = self.eg(pool + jpool)
            x = r.random()
            if how == "cross" or x < 0.1:
                chain.append(".join(%s, JoinType.%s).cross()" % (jt, how))
            elif x < 0.75:
                crit = "(%s == %s)" % (r.choice(pool), r.choice(jpool))
                if r.random() < 0.3:
                    crit = "(%s & %s)" % (crit, g.crit(1))
                if r.random() < 0.25 and how != "cross":
                    # the shortcut methods (inner_join, left_join, … hash_join)
                    chain.append(".%s_join(%s).on(%s)" % (how, jt, crit))
                else:
                    chain.append(".join(%s, JoinType.%s).on(%s)" % (jt, how, crit))
            elif x < 0.9:
                chain.append(".join(%s, JoinType.%s).using(%r)" % (jt, how, r.choice(["a", "b"])))
            else:
                chain.append(".join(%s, JoinType.%s).on_field(%r)" % (jt, how, r.choice(["a", "b"])))
            pool += jpool
        g = self.eg(pool)
        # select list
        nsel = r.randint(1, 4)
        sel = []
        aliases = []
        for i in range(nsel):
            x = r.random()
            if x < 0.4:
                e = r.choice(pool)
            elif x < 0.6:
                e = g.num(2)
            elif x < 0.75:
                e = "%s(%s)" % (r.choice(["fn.Sum", "fn.Count", "fn.Max", "fn.Avg"]), r.choice(pool))
            elif x < 0.85:
                e = g.crit(1)
            elif x < 0.92:
                e = repr(r.choice([1, 2.5, "lit", True, None]))
            elif x < 0.96 and self.vendor_terms:
                e = r.choice(["Array(1, 2)", "(%s + Interval(days=1))" % r.choice(pool), "Array('x', %s)" % r.choice(pool),
                              "(%s - Interval(hours=2, minutes=5))" % r.choice(pool)])
            else:
                e = "%r" % r.choice(["a", "b"])      # string select -> Field on first FROM
            if r.random() < 0.4 and not e.startswith("'") and not e[0].isdigit() and e not in ("True", "None") \
                    and not e.startswith("Interval("):
                al = "al%d" % i if r.random() < 0.8 else r.choice(["a", "my col"])
                e = "(%s).as_(%r)" % (e, al)
                aliases.append(e)
            sel.append(e)
        if r.random() < 0.08:
            sel = ["'*'"] if r.random() < 0.5 else ["%s.star" % srcs[0]]
        if head is None:
            head = "%s.select(%s)" % (table_entry, sel[0])
            if sel[1:]:
                chain.append(".select(%s)" % ", ".join(sel[1:]))
        else:
            chain.append(".select(%s)" % ", ".join(sel))
        if r.random() < 0.5:
            chain.append(".where(%s)" % g.crit(2))
        if r.random() < 0.2:
            chain.append(".where(%s)" % g.crit(1))
        if self.vendor_terms and not self.sqlite_ok and r.random() < 0.12:
            # PREWHERE is a clause of the generic builder (ClickHouse syntax): identifiers in it follow the statement like all others
            chain.append(".prewhere(%s)" % g.crit(1))
        if r.random() < 0.35:
            gb = [r.choice(aliases)] if aliases and r.random() < 0.5 else [r.choice(pool)]
            if r.random() < 0.3:
                gb.append(r.choice(pool))
            if r.random() < 0.08:
                gb.append("1")          # GROUP BY <position>
            chain.append(".groupby(%s)" % ", ".join(gb))
            if r.random() < 0.5:
                chain.append(".having(%s(%s) %s %s)" % (r.choice(["fn.Sum", "fn.Count"]), r.choice(pool),
                                                      r.choice(gen.CMP), g.pyint()))
        if r.random() < 0.4:
            ob = r.choice(aliases) if aliases and r.random() < 0.5 else r.choice(pool)
            order = r.choice(["", ", order=Order.asc", ", order=Order.desc"])
            chain.append(".orderby(%s%s)" % (ob, order))
        if r.random() < 0.3:
            chain.append(".distinct()")
        if r.random() < 0.4 and not self.portable:
            x = r.random()
            if x < 0.4:
                chain.append(".limit(%d)" % r.randint(0, 5))
            elif x < 0.6:
                chain.append(".offset(%d)" % r.randint(0, 5))
            elif x < 0.8:
                chain.append(".limit(%d).offset(%d)" % (r.randint(0, 5), r.randint(0, 5)))
            else:
                chain.append("[%d:%d]" % (r.randint(0, 3), r.randint(0, 9)))
        if not self.sqlite_ok and not self.portable:
            chain += self.extras(cls, pool)
        r.shuffle(chain) if False else None
        v = self.var("q")
        self.emit("%s = %s%s" % (v, head, "".join(chain)))
        return v

    def extras(self, cls, pool):
        r = self.r
        out = []
        if r.random() < 0.15:
            out.append(".for_update()")
        if r.random() < 0.08:
            out.append(r.choice([".force_index(terms.Index('ix1'), 'ix2')", ".use_index('ix3')", ".use_index(terms.Index('ix4'))"]))
        if r.random() < 0.05:
            out.append(".pipe(lambda q_, n_: q_.limit(n_), %d)" % r.randint(0, 4))
        if cls == "mysql":
            if r.random() < 0.3:
                out.append(".modifier(%r)" % r.choice(["SQL_CALC_FOUND_ROWS", "HIGH_PRIORITY"]))
            if r.random() < 0.2:
                out.append(".for_update(nowait=%r, skip_locked=%r, of=(%s))" % (
                    r.random() < 0.5, r.random() < 0.5, "".join(repr(x) + ", " for x in r.sample(["t", "u", "v"], r.randint(0, 3)))))
        if cls == "postgresql":
            if r.random() < 0.2:
                out.append(".distinct_on(%s)" % r.choice(pool))
            if r.random() < 0.2:
                out.append(".for_update(nowait=%r, skip_locked=%r, of=(%s))" % (
                    r.random() < 0.5, r.random() < 0.5, "".join(repr(x) + ", " for x in r.sample(["t", "u", "v"], r.randint(0, 3)))))
        if cls == "mssql" and r.random() < 0.4:
            out.append(".top(%d%s)" % (r.randint(0, 20), r.choice(["", ", percent=True", ", with_ties=True"])))
        if cls == "clickhouse":
            if r.random() < 0.2:
                out.append(".final()")
            if r.random() < 0.2:
                out.append(".sample(%d%s)" % (r.randint(1, 9), r.choice(["", ", %d" % r.randint(0, 5)])))
            if r.random() < 0.2:
                out.append(".distinct_on(%s)" % r.choice(pool))
            if r.random() < 0.3:
                if r.random() < 0.5:
                    out.append(".limit_by(%d, %s)" % (r.randint(0, 5), r.choice(pool)))
                else:
                    out.append(".limit_offset_by(%d, %d, %s)" % (r.randint(0, 5), r.randint(0, 5), r.choice(pool)))
        if cls == "vertica" and r.random() < 0.3:
            out.append(".hint(%r)" % r.choice(["lbl", "test_label"]))
        return out

    # -- DML
    def value(self, g):
        r = self.r
        x = r.random()
        if x < 0.35:
            return g.pynum()
        if x < 0.65:
            return g.string()
        if x < 0.75:
            return repr(r.choice([None, True, False]))
        if x < 0.85:
            return r.choice(["date(2020, 1, 31)", "dt(2020, 1, 2, 3, 4, 5)", "UUID('12345678-1234-5678-1234-567812345678')"])
        return g.num(1)

    def insert(self, cls=None):
        r = self.r
        cls = cls or self.cls or r.choice(CLASSES)
        qn = QNAMES[cls]
        tv = self.new_table()
        g = self.eg(["F('a')"])
        g.allow_funcs = True
        ncol = r.randint(1, 4)
        cols = ["a", "b", "c", "x"][:ncol]
        chain = [".into(%s)" % tv]
        if r.random() < 0.7:
            if r.random() < 0.2:
                chain.append(".columns([%s])" % ", ".join(repr(c) for c in cols))      # the columns given as one list
            else:
                chain.append(".columns(%s)" % ", ".join(repr(c) for c in cols))
        kind = r.random()
        meth = "insert"
        if r.random() < 0.15:
            meth = "replace"
        if cls == "sqlite" and r.random() < 0.3:
            meth = "insert_or_replace"
        if kind < 0.75:
            for _ in range(r.randint(1, 2)):
                nrows = r.randint(1, 3)
                if nrows == 1 and r.random() < 0.5:
                    chain.append(".%s(%s)" % (meth, ", ".join(self.value(gen.G(r, tables=False, strings=self.strings)) for _ in cols)))
                else:
                    rows = ["(%s,)" % ", ".join(self.value(gen.G(r, tables=False, strings=self.strings)) for _ in cols)
                            for _ in range(nrows)]
                    chain.append(".%s(%s)" % (meth, ", ".join(rows)))
        else:
            sv = self.new_table(("src",))
            chain.append(".from_(%s).select(%s)" % (sv, ", ".join("%s.%s" % (sv, c) for c in cols)))
            if r.random() < 0.5:
                chain.append(".where(%s.a > %s)" % (sv, g.pyint()))
        if cls == "mysql" and kind < 0.75:
            x = r.random()
            if x < 0.25:
                chain.append(".on_duplicate_key_update(%s.%s, %s)" % (tv, r.choice(cols), self.value(g)))
            elif x < 0.35:
                chain.append(".on_duplicate_key_ignore()")
            if r.random() < 0.2:
                chain.append(".ignore()")
        if cls == "postgresql" and kind < 0.75:
            x = r.random()
            if x < 0.2:
                chain.append(".on_conflict(%r).do_nothing()" % cols[0])
            elif x < 0.45:
                chain.append(".on_conflict(%r).do_update(%r, %s)" % (cols[0], r.choice(cols), self.value(g)))
            elif x < 0.55:
                chain.append(".on_conflict(%s.%s).do_update(%r)" % (tv, cols[0], r.choice(cols)))
            elif x < 0.8:
                # partial-index arbiter predicate and / or DO UPDATE … WHERE, each with data values of its own
                pred = ".where(%s.%s %s %s)" % (tv, r.choice(cols), r.choice(gen.CMP), self.value(g)) if r.random() < 0.75 else ""
                upd = ".do_update(%r, %s)" % (r.choice(cols), self.value(g))
                post = ".where(%s.%s %s %s)" % (tv, r.choice(cols), r.choice(gen.CMP), self.value(g)) if r.random() < 0.5 else ""
                chain.append(".on_conflict(%r)%s%s%s" % (cols[0], pred, upd if r.random() < 0.8 else ".do_nothing()" if not post else upd, post))
            if r.random() < 0.3:
                chain.append(".returning(%s)" % r.choice(["'*'", repr(cols[0]), "%s.%s" % (tv, cols[0])]))
        v = self.var("q")
        self.emit("%s = %s%s" % (v, qn, "".join(chain)))
        return v

    def update(self, cls=None):
        r = self.r
        cls = cls or self.cls or r.choice(CLASSES)
        qn = QNAMES[cls]
        tv = self.new_table()
        pool = self.fields_of(tv)
        g = self.eg(pool)
        chain = [".update(%s)" % tv]
        entry = None
        if r.random() < 0.1 and not self.portable:
            entry = self.class_table(cls)
            tv = entry
            pool = self.fields_of(tv)
            g = self.eg(pool)
            chain = [".update()"]
        for _ in range(r.randint(1, 3)):
            fld = r.choice(pool) if r.random() < 0.6 else repr(r.choice(["a", "b", "c"]))
            chain.append(".set(%s, %s)" % (fld, self.value(g)))
        if r.random() < 0.7:
            chain.append(".where(%s)" % g.crit(1))
        if not self.sqlite_ok:
            if r.random() < 0.15:
                jt = self.new_table(("u", "v"))
                chain.insert(1, ".join(%s).on(%s.a == %s.a)" % (jt, tv, jt))
            if r.random() < 0.15:
                ft = self.new_table(("u", "v"))
                chain.append(".from_(%s)" % ft)
            if r.random() < 0.15:
                chain.append(".limit(%d)" % r.randint(0, 3))
            if cls == "postgresql" and r.random() < 0.2:
                chain.append(".returning(%s)" % r.choice(pool + ["'*'", "%s.star" % tv, "'a'", "1", "fn.Upper(%s)" % r.choice(pool)]))
                if r.random() < 0.3:
                    chain.append(".returning(%s)" % r.choice(pool))
        v = self.var("q")
        self.emit("%s = %s%s" % (v, entry if entry else qn, "".join(chain)))
        return v

    def delete(self, cls=None):
        r = self.r
        cls = cls or self.cls or r.choice(CLASSES)
        qn = QNAMES[cls]
        tv = self.new_table()
        pool = self.fields_of(tv)
        g = self.eg(pool)
        chain = [".from_(%s).delete()" % tv]
        if r.random() < 0.8:
            chain.append(".where(%s)" % g.crit(1))
        v = self.var("q")
        self.emit("%s = %s%s" % (v, qn, "".join(chain)))
        return v

    def setop(self, cls=None, depth=0):
        r = self.r
        cls = cls or self.cls or r.choice(CLASSES)
        n = r.randint(2, 4)
        ops = []
        extra = r.choice([None, "(%s.a + Interval(days=1))", "Array(1, %s.b)"]) if self.vendor_terms else None
        for _ in range(n):
            ops.append(self.simple_select(cls, extra=extra))
        expr = ops[0]
        for o in ops[1:]:
            m = r.choice(["union", "union_all", "intersect", "except_of", "minus", "+", "*", "-"])
            if m in "+*-":
                expr = "(%s %s %s)" % (expr, m, o)
            else:
                expr = "%s.%s(%s)" % (expr, m, o)
        if r.random() < 0.4:
            expr += ".orderby(%r)" % r.choice(["a", "b"])
        if r.random() < 0.4:
            expr += ".limit(%d)" % r.randint(0, 4)
        if r.random() < 0.3:
            expr += ".offset(%d)" % r.randint(0, 4)
        v = self.var("s")
        self.emit("%s = %s" % (v, expr))
        return v

    def simple_select(self, cls, ncols=None, extra=None):
        r = self.r
        qn = QNAMES[cls]
        tv = self.new_table()
        n = ncols or 2
        cols = ", ".join("%s.%s" % (tv, c) for c in ["a", "b", "c"][:n])
        if extra:
            cols += ", " + extra % tv
        s = "%s.from_(%s).select(%s)" % (qn, tv, cols)
        if r.random() < 0.4:
            s += ".where(%s.a %s %d)" % (tv, r.choice(gen.CMP), r.randint(0, 5))
        return s

    def any_statement(self, cls=None):
        x = self.r.random()
        if x < 0.55:
            return self.select(cls=cls)
        if x < 0.7:
            return self.insert(cls)
        if x < 0.82:
            return self.update(cls)
        if x < 0.9:
            return self.delete(cls)
        return self.setop(cls)
