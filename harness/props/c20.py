"""C20 INTERVAL, JSON and array/tuple literals denote the value they were built from."""
import itertools
import json
import re

from harness import describe, gen, ns, sqlspec
from harness.describe import Unsupported
from harness.run import Result
from harness.common import struct_hash

ID = "C20"
LEAN_MODULES = ["Pypika.Props.C20"]
THEOREMS = ["Pypika.C20.json_one_literal", "Pypika.C20.json_sql_roundtrip", "Pypika.C20.tuple_layout",
            "Pypika.C20.array_layout_pg", "Pypika.C20.array_layout_other", "Pypika.C20.interval_template",
            "Pypika.C20.quarter_week", "Pypika.C20.micro_only_pos", "Pypika.C20.micro_only_neg"]
AGREE = ["Pypika.Agree.interval_templates", "Pypika.Agree.interval_labels", "Pypika.Agree.interval_pattern",
         "Pypika.Agree.interval_grid"]
TRUSTED = [
    "Spec: an interval expression is read as the fields largest..smallest of the unit it names, separated by - : . or blank; "
    "json.loads as the JSON reader",
    "the character-level trimming regular expression is modelled by intervalTrim and tied by Agree.interval_pattern (pattern "
    "text), Agree.interval_grid (211 field tuples, decide) and the differential — it is not proved equivalent for all digit strings",
]
RULE = ("interval field tuples from the digit-pattern pool {0,1,5,9,10,11,100,101,999,1000,10^6} in all 7 positions (quick: "
        "sampled; thorough: every tuple with <= 3 non-zero fields), both signs, quarters/weeks, x 9 dialects + none; JSON "
        "values from a recursive generator (depth <= 4, hostile strings); arrays/tuples of 0-5 elements x dialects; "
        "non-trivial = >= 2 non-zero interval fields / JSON containing a string with a quote or backslash / >= 2 elements")

POOL = [0, 1, 5, 9, 10, 11, 100, 101, 999, 1000, 1000000]
UNITS = ["years", "months", "days", "hours", "minutes", "seconds", "microseconds"]
LABELS = ["YEAR", "MONTH", "DAY", "HOUR", "MINUTE", "SECOND", "MICROSECOND"]
DIALECTS = [None, "VERTICA", "CLICKHOUSE", "ORACLE", "MSSQL", "MYSQL", "POSTGRESQL", "REDSHIFT", "SQLLITE", "SNOWFLAKE"]
UNIT_OUTSIDE = {"ORACLE", "MYSQL"}


def counts(tier):
    return 6000 if tier == "quick" else 30000


def generate(rng, n, tier):
    if tier == "thorough":
        for k in (1, 2, 3):
            for pos in itertools.combinations(range(7), k):
                for vals in itertools.product(POOL[1:], repeat=k):
                    f = [0] * 7
                    for p, v in zip(pos, vals):
                        f[p] = v
                    yield {"kind": "interval", "fields": f, "neg": False, "dialect": None, "via": "ctx"}
    # boundary: every single field and adjacent pair, both signs, every dialect
    for d in DIALECTS:
        for i in range(7):
            for v in (1, 10, 101):
                for neg in (False, True):
                    f = [0] * 7
                    f[i] = v
                    yield {"kind": "interval", "fields": f, "neg": neg, "dialect": d, "via": "ctx"}
        yield {"kind": "interval", "fields": [0] * 7, "neg": False, "dialect": d, "via": "ctx"}
        for extra in ({"quarters": 3}, {"weeks": 2}, {"quarters": -1}, {"weeks": -10}):
            yield {"kind": "interval", "fields": [0] * 7, "neg": False, "dialect": d, "via": "own", "extra": extra}
    for _ in range(n):
        x = rng.random()
        if x < 0.5:
            f = [rng.choice(POOL) if rng.random() < 0.45 else 0 for _ in range(7)]
            yield {"kind": "interval", "fields": f, "neg": rng.random() < 0.3, "dialect": rng.choice(DIALECTS),
                   "via": rng.choice(["ctx", "own", "query"])}
        elif x < 0.72:
            yield {"kind": "json", "value": json_value(rng, 0), "dialect": rng.choice(DIALECTS), "alias": rng.random() < 0.3}
        elif x < 0.8:
            # the JSON operators of a column (or of a JSON term): `left <op> right`, the right-hand side one literal
            op = rng.choice(["get_json_value", "get_text_value", "get_path_json_value", "get_path_text_value", "has_key", "contains",
                             "contained_by", "has_keys", "has_any_keys"])
            if op in ("get_json_value", "get_text_value"):
                arg = rng.choice([rng.choice(["k", "it's", "a b"]), rng.randint(0, 5)])
            elif op in ("get_path_json_value", "get_path_text_value"):
                arg = rng.choice(["{a,b}", "{a,'q'}", "{0}"])
            elif op == "has_key":
                arg = rng.choice(["k", "it's", "x\"y"])
            elif op in ("contains", "contained_by"):
                arg = rng.choice([{"a": json_value(rng, 3)}, {"k": [json_value(rng, 3)], "it's": 1}, [1, "two"], [json_value(rng, 3)], "plain"])
            else:
                arg = [rng.choice(["k", "it's", "a b", "z"]) for _ in range(rng.randint(1, 3))]
            yield {"kind": "json_op", "op": op, "arg": arg, "left": rng.choice(["F('j')", "T('t').doc", "JSON({'a': [1, 2]})"])}
        else:
            yield {"kind": rng.choice(["array", "tuple"]), "n": rng.randint(0, 5), "dialect": rng.choice(DIALECTS),
                   "seed": rng.randrange(10 ** 6)}


def json_value(rng, d):
    x = rng.random()
    if d >= 4 or x < 0.45:
        y = rng.random()
        if y < 0.4:
            return rng.choice(gen.HOSTILE + ["plain", "a\"b", "c\\d", "it's", "tab\there", "nl\nx", "é日", "\x01ctl", "/"])
        if y < 0.6:
            return rng.choice([0, 1, -7, 123456789, 2 ** 40])
        if y < 0.75:
            return rng.choice([1.5, -0.25, 1e-07, 1e+20, 3.0])
        if y < 0.9:
            return rng.choice([True, False])
        return None
    if x < 0.75:
        return {rng.choice(["k", "a b", 'q"', "it's", "back\\slash", "", "é"]) + str(i): json_value(rng, d + 1)
                for i in range(rng.randint(0, 3))}
    return [json_value(rng, d + 1) for _ in range(rng.randint(0, 3))]


def expect_interval(case):
    """(sign, field list, unit) the property asks for"""
    f = case["fields"]
    ex = case.get("extra")
    if ex:
        (k, v), = ex.items()
        return ("-" if v < 0 else "", [abs(v)], k[:-1].upper())
    nz = [i for i, v in enumerate(f) if v]
    if not nz:
        return ("", [0], "DAY")
    lo, hi = nz[0], nz[-1]
    unit = LABELS[lo] if lo == hi else "%s_%s" % (LABELS[lo], LABELS[hi])
    return ("-" if case["neg"] else "", f[lo:hi + 1], unit)


def interval_src(case):
    f = case["fields"]
    kw = {}
    first = True
    for u, v in zip(UNITS, f):
        if v:
            kw[u] = -v if (case["neg"] and first) else v
            first = False
    kw.update(case.get("extra") or {})
    args = ["%s=%d" % (k, v) for k, v in kw.items()]
    if case["via"] == "own" and case["dialect"]:
        args.append("dialect=Dialects.%s" % case["dialect"])
    return "Interval(%s)" % ", ".join(args)


def examine(case):
    res = Result()
    kind = case["kind"]

    def F(k, what, **sig):
        res.findings.append({"sig": dict({"kind": k}, **sig), "what": what + " | " + str(case.get("recipe"))})

    if kind == "interval":
        src = interval_src(case)
        case["recipe"] = src
        obj = ns.ev(src)
        d = case["dialect"]
        dial = getattr(ns.Dialects, d) if d else None
        kw = {"dialect": dial} if case["via"] != "own" else {}
        if case["via"] == "query" and d and d.lower() in {"mysql": 1, "postgresql": 1, "oracle": 1, "vertica": 1, "redshift": 1, "mssql": 1, "clickhouse": 1}:
            qc = {"MYSQL": "mysql", "POSTGRESQL": "postgresql", "ORACLE": "oracle", "VERTICA": "vertica", "REDSHIFT": "redshift",
                  "MSSQL": "mssql", "CLICKHOUSE": "clickhouse"}[d]
            q = ns.QUERY_CLASSES[qc].from_(ns.Table("t")).select(ns.Field("a") + obj)
            stmt = str(q)
            inner = obj.get_sql(dialect=dial)
            if inner not in stmt:
                F("interval-in-statement", "interval renders %r alone but the %s statement is %s" % (inner, qc, stmt), dialect=d)
            try:
                res.requests.append(({"op": "render", "ctx": describe.d_ctx({"dialect": q.dialect}), "term": describe.describe(q)},
                                     {"sql": stmt}, "str(statement with interval)"))
            except Unsupported as e:
                res.skipped = str(e)[:40]
        if case["via"] != "own" and struct_hash([case["fields"], d])[0] in "01234567":
            # the same Interval object was rendered for another dialect (of the other template family) before: the literal
            # it writes now is still the one of the dialect it is rendered for
            other = ns.Dialects.POSTGRESQL if d in ("MYSQL", "ORACLE") else ns.Dialects.MYSQL
            obj.get_sql(dialect=other)
            str(ns.QUERY_CLASSES["mysql" if other is ns.Dialects.MYSQL else "postgresql"].from_(ns.Table("t")).select(ns.Field("a") + obj))
        text = obj.get_sql(**kw)
        nzc = sum(1 for v in case["fields"] if v)
        res.nontrivial = nzc >= 2
        res.key = struct_hash([case["fields"], case["neg"], d, case["via"], case.get("extra")])
        res.tags = ["kind=interval", "nonzero=%d" % min(nzc, 4), "dialect=%s" % d]
        try:
            res.requests.append(({"op": "render", "ctx": describe.d_ctx(kw), "term": describe.describe(obj)}, {"sql": text},
                                 "Interval.get_sql"))
        except Unsupported as e:
            res.skipped = str(e)[:40]
        outside = d in UNIT_OUTSIDE
        m = re.fullmatch(r"INTERVAL '([^' ]*(?: [^' ]+)?)' (\w+)" if outside else r"INTERVAL '(.*) (\w+)'", text)
        if not m:
            F("interval-template", "%r is not in the %s interval template" % (text, d), dialect=str(d))
            return res
        expr, unit = m.group(1), m.group(2)
        sign, fields, wunit = expect_interval(case)
        gsign = "-" if expr.startswith("-") else ""
        body = expr[1:] if gsign else expr
        parts = re.split(r"[-: .]", body)
        try:
            got = [int(p) for p in parts]
        except ValueError:
            got = parts
        if unit != wunit or got != fields or gsign != sign:
            F("interval-readback", "built %s%s %s but the literal reads %s%s %s: %s" % (sign, fields, wunit, gsign, got, unit, text))
        return res
    if kind == "json_op":
        src = "%s.%s(%r)" % (case["left"], case["op"], case["arg"])
        case["recipe"] = src
        obj = ns.ev(src)
        kw = {"quote_char": '"', "secondary_quote_char": "'"}
        text = obj.get_sql(**kw)
        sym = getattr(ns.pypika.enums.JSONOperators, {"get_json_value": "GET_JSON_VALUE", "get_text_value": "GET_TEXT_VALUE",
              "get_path_json_value": "GET_PATH_JSON_VALUE", "get_path_text_value": "GET_PATH_TEXT_VALUE", "has_key": "HAS_KEY",
              "contains": "CONTAINS", "contained_by": "CONTAINED_BY", "has_keys": "HAS_KEYS", "has_any_keys": "HAS_ANY_KEYS"}[case["op"]]).value
        res.nontrivial = True
        res.key = struct_hash(["json_op", src])
        res.tags = ["kind=json_op", "op=" + case["op"]]
        try:
            res.requests.append(({"op": "render", "ctx": describe.d_ctx(kw), "term": describe.describe(obj)}, {"sql": text}, "get_sql"))
        except Unsupported as e:
            res.skipped = str(e)[:40]
        left = ns.ev(case["left"]).get_sql(**kw)
        a = case["arg"]
        # the right-hand side the property asks for: one literal (a number, a string, a JSON document) or a list of strings
        if case["op"] in ("has_keys", "has_any_keys"):
            right = "[" + ",".join("'" + x.replace("'", "''") + "'" for x in a) + "]"
        elif isinstance(a, (dict, list)):
            right = "'" + json.dumps(a, ensure_ascii=False, separators=(",", ":")).replace("'", "''") + "'"
        elif isinstance(a, str):
            right = "'" + a.replace("'", "''") + "'"
        else:
            right = str(a)
        if text != left + sym + right:
            F("json-operator", "%s renders %s, expected %s%s%s" % (src, text, left, sym, right))
        return res
    if kind == "json":
        v = case["value"]
        src = "JSON(%r)%s" % (v, ".as_('j')" if case.get("alias") else "")
        case["recipe"] = src
        obj = ns.ev(src)
        text = obj.get_sql()
        s = json.dumps(v)
        res.nontrivial = any(c in s for c in ("\\\"", "\\\\", "'"))
        res.key = struct_hash(["json", s])
        res.tags = ["kind=json"]
        try:
            res.requests.append(({"op": "render", "ctx": describe.d_ctx({}), "term": describe.describe(obj)}, {"sql": text}, "JSON.get_sql"))
        except Unsupported as e:
            res.skipped = str(e)[:40]
        try:
            toks = sqlspec.lex(text)
        except sqlspec.LexError as e:
            F("json-literal", "JSON term is not one SQL string literal: %s: %s" % (e, text))
            return res
        want = 1 + (1 if case.get("alias") else 0)
        if len(toks) != want or toks[0].kind != "str":
            F("json-literal", "JSON term renders %d tokens, expected one string literal: %s" % (len(toks), text))
            return res
        try:
            back = json.loads(toks[0].val)
        except ValueError as e:
            F("json-invalid", "literal content is not valid JSON (%s): %s" % (e, toks[0].val))
            return res
        if back != v:
            F("json-value", "JSON reads back as %r, built from %r" % (back, v))
        return res
    # array / tuple
    import random
    r2 = random.Random(case["seed"])
    g = gen.G(r2, tables=False, strings="hostile")
    # element specifications: a column, a number, a string, or — nested — a Python list / tuple (which wrap_constant turns
    # into an Array / Tuple) or an explicit Array(...) / Tuple(...); singletons of nested elements included
    counter = [0]

    def spec(depth):
        x = r2.random()
        if depth < 2 and x < 0.22:
            k = r2.choice(["list", "tuple", "Array", "Tuple"])
            n = r2.choice([1, 1, 2, 3, 0])
            return (k, [spec(depth + 1) for _ in range(n)])
        counter[0] += 1
        if x < 0.5:
            return ("f", "F('e%d')" % counter[0])
        return ("v", g.pynum() if x < 0.75 else g.string())

    def src_of(e):
        k, v = e
        if k in ("f", "v"):
            return v
        inner_src = ", ".join(src_of(y) for y in v)
        if k == "list":
            return "[%s]" % inner_src
        if k == "tuple":
            return "(%s)" % (inner_src + ("," if len(v) == 1 else ""))
        return "%s(%s)" % (k, inner_src)

    especs = [spec(0) for _ in range(case["n"])]
    elems = [src_of(e) for e in especs]
    src = ("Array(%s)" if kind == "array" else "Tuple(%s)") % ", ".join(elems)
    case["recipe"] = src
    obj = ns.ev(src)
    d = case["dialect"]
    dial = getattr(ns.Dialects, d) if d else None
    kw = {"quote_char": '"', "dialect": dial}
    text = obj.get_sql(**kw)
    res.nontrivial = case["n"] >= 2
    res.key = struct_hash([kind, elems, d])
    res.tags = ["kind=" + kind, "n=%d" % case["n"]]
    try:
        res.requests.append(({"op": "render", "ctx": describe.d_ctx(kw), "term": describe.describe(obj)}, {"sql": text}, "get_sql"))
    except Unsupported as e:
        res.skipped = str(e)[:40]
    def bracket(k, inner_text, empty):
        if k in ("tuple", "Tuple"):
            return "(%s)" % inner_text
        if d in ("POSTGRESQL", "REDSHIFT"):
            return "ARRAY[%s]" % inner_text if not empty else "'{}'"
        return "[%s]" % inner_text

    def ref_of(e):
        k, v = e
        if k == "f":
            return ns.ev(v).get_sql(**kw)
        if k == "v":
            return ns.ev("VW(%s)" % v).get_sql(**kw)
        return bracket(k, ",".join(ref_of(y) for y in v), not v)

    def values_of(e):
        k, v = e
        if k == "f":
            return []
        if k == "v":
            return [ns.ev(v)]
        return [z for y in v for z in values_of(y)]

    ref = bracket("Tuple" if kind == "tuple" else "Array", ",".join(ref_of(e) for e in especs), not especs)
    if text != ref:
        F("elements", "%s renders %s, the elements in order give %s" % (kind, text, ref), form=kind)
    # under a parameter collector: every data element is collected exactly once, in order, one placeholder each
    P = ns.QmarkParameter()
    ptext = obj.get_sql(parameter=P, **kw)
    got = list(P.get_parameters())
    import enum as _enum
    want = [z for e in especs for z in values_of(e)]
    want = [w.value if isinstance(w, _enum.Enum) else w for w in want]       # an Enum member stands for its value
    try:
        nph = sum(1 for t in sqlspec.lex(ptext) if t.kind == "ph")
    except sqlspec.LexError:
        nph = len(want)
    if [repr(x) for x in got] != [repr(x) for x in want] or nph != len(want):
        F("elements-collected", "%s under a collector renders %s with values %r, the elements give %r" % (kind, ptext, got, want), form=kind)
    return res
