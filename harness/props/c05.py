"""C05 INSERT, UPDATE and DELETE statements have exactly the intended effect."""
import datetime
import decimal
import random
import sqlite3

from harness import describe, ns, sqlitespec as S
from harness.describe import Unsupported
from harness.run import Result
from harness.common import struct_hash

ID = "C05"
LEVEL_TEXT = ('Lean 4 theorems about the executable model of the code (all inputs, by induction), tied to /repo by tables regenerated on every run (decide) and by differential execution of model and implementation; the property oracle is also run on the implementation for every case. PARTIAL: what is proved is the placement of every value / SET pair / target in the rendered statement; that executing it leaves the database in the state the reference statement produces is EXECUTED on SQLite, not proved.')
LEAN_MODULES = ["Pypika.Props.C05", "Pypika.Props.Builder"]
TRACE_BUILDER = True   # builder calls made by this check are also run through Pypika.B.step (harness/trace.py)
THEOREMS = ["Pypika.C05.values_grid", "Pypika.C05.set_pairs_in_order", "Pypika.C05.insert_layout", "Pypika.C05.insert_head_forms",
            "Pypika.C05.update_layout", "Pypika.C05.delete_layout", "Pypika.C05.insert_select_layout",
            "Pypika.C05.row_cell", "Pypika.C05.columns_in_order",
            # concrete builder model (Builder.lean, tied call by call through harness/trace.py)
            "Pypika.B.set_appends", "Pypika.B.insert_needs_target", "Pypika.B.insert_row_appends"]
AGREE = []
TRUSTED = [
    "sqlite3 %s (the engine applying both statements)" % sqlite3.sqlite_version,
    "harness/sqlitespec.py + this file: the DML specification language and its reference statements (explicit SQL, literal "
    "values passed as bound parameters, so that no literal rendering is shared with pypika)",
]
RULE = ("random DML specifications on keyed tables: INSERT of 1-4 rows x 1-5 columns in 1-3 insert() calls, with / without a "
        "column list (subsets, permutations), values of every type (NULL, negative / large ints, floats, Decimal, bool, date, "
        "hostile strings, expressions), REPLACE and INSERT OR REPLACE on conflicting keys, INSERT ... SELECT; UPDATE with 1-4 "
        "SET pairs (expressions over the old row) and WHERE trees incl. correlated sub-queries in one or two where() calls; "
        "DELETE likewise; each also built as one branch of a shared builder prefix whose sibling adds other columns / pairs / "
        "criteria; both statements applied to copies of 2 random databases and all tables compared row by row in rowid order; "
        "non-trivial = >= 2 rows, pairs or criteria; distinct by specification")
ASSUMPTIONS = ["string values exclude NUL (the sqlite3 module does not accept it in statement text; C03 covers it)"]

HOSTILE = ["it's", "a''b", 'say "hi"', "x');DROP TABLE t;--", "--c", "/*c*/", "back\\slash", "new\nline", "tab\t", "ünï©ødé",
           "%s", "?", ":a", "100%", "", " ", "NULL", "'", "''", "\\'", "a,b", "(1)", "true", "1e3", "☃"]
COLS = ["a", "b", "c", "s"]


def counts(tier):
    return 1500 if tier == "quick" else 30000


def generate(rng, n, tier):
    for i in range(n):
        yield {"seed": rng.randrange(10 ** 9), "dbs": [rng.randrange(40), rng.randrange(40)]}


def value(r):
    x = r.random()
    if x < 0.12:
        return ("lit", None)
    if x < 0.35:
        return ("lit", r.choice([0, 1, -1, 5, -7, 2 ** 40, -(2 ** 62), 123456789]))
    if x < 0.45:
        return ("lit", r.choice([2.5, -0.5, 1e10, 1e-7, 0.1, -3.0]))
    if x < 0.5:
        return ("lit", r.choice([True, False]))
    if x < 0.55:
        return ("lit", r.choice([decimal.Decimal("1.50"), decimal.Decimal("-2"), datetime.date(2020, 1, 2)]))
    if x < 0.85:
        return ("lit", r.choice(HOSTILE) if r.random() < 0.7 else r.choice(["x", "y", "abc"]))
    y = r.random()
    if y < 0.4:
        return ("bin", r.choice(["+", "-", "*"]), ("lit", r.choice([1, -2, 3])), ("lit", r.choice([-1, 2, 10])))
    if y < 0.6:
        return ("neg", ("lit", r.choice([1, 5, -3])))
    if y < 0.8:
        return ("func", r.choice(["Upper", "Length"]), [("lit", r.choice(["it's", "ab", "x y"]))])
    return ("func", "Abs", [("lit", r.choice([-3, 2, -2.5]))])


def gen_spec(r):
    t = S.Src(r.choice(list(S.TABLES)), None)
    g = S.SpecGen(r)
    kind = r.choice(["insert", "insert", "insert", "insert_select", "update", "update", "delete"])
    spec = {"kind": kind, "t": t, "branch": r.random() < 0.35}
    where = None
    if kind in ("update", "delete", "insert_select") and r.random() < 0.85:
        src = t
        if kind == "insert_select":
            src = S.Src(r.choice([x for x in S.TABLES if x != t.table]), None)
            spec["src"] = src
        where = g.crit([src], 2)
        if kind != "insert_select" and r.random() < 0.4:
            sub = S.SpecGen(r, 1)
            if r.random() < 0.5:
                where = ("and", where, ("exists", sub.correlated_sub(t), r.random() < 0.3))
            else:
                where = ("and", ("insub", ("col", t.name, "a", t), sub.simple_sub(), r.random() < 0.3), where)
        spec["split_where"] = where[0] == "and" and r.random() < 0.5
    elif kind == "insert_select":
        spec["src"] = S.Src(r.choice([x for x in S.TABLES if x != t.table]), None)
    spec["where"] = where
    if kind == "insert":
        spec["form"] = r.choice(["insert", "insert", "insert", "replace", "insert_or_replace"])
        if r.random() < 0.75:
            cols = r.sample(COLS + ["id"], r.randint(1, 5))
        else:
            cols = None
        spec["columns"] = cols
        width = len(cols) if cols else 5
        nrows = r.choice([1, 1, 2, 3, 4])
        rows = []
        for i in range(nrows):
            row = [value(r) for _ in range(width)]
            idpos = cols.index("id") if cols and "id" in cols else (0 if cols is None else None)
            if idpos is not None:
                # keys: fresh, conflicting with existing rows, or NULL (assigned by the engine)
                row[idpos] = ("lit", r.choice([None, 100 + i, 100 + i, r.randint(1, 4)]))
            rows.append(row)
        spec["rows"] = rows
        # how the rows are spread over insert() calls
        calls, rest = [], nrows
        while rest:
            k = r.randint(1, rest)
            calls.append(k)
            rest -= k
        spec["calls"] = calls
        spec["colcalls"] = r.random() < 0.4     # columns given in several columns() calls
        spec["shortcut"] = r.random() < 0.3     # the statement is opened by the Table.insert(...) shortcut (no column list)
    elif kind == "insert_select":
        src = spec["src"]
        cols = r.sample(COLS, r.randint(1, 4))
        spec["columns"] = cols
        spec["select"] = [g.num([src], 1) if r.random() < 0.6 else ("col", src.name, r.choice(COLS), src) for _ in cols]
        # the statement kind given by a row-less insert() / replace() / insert_or_replace() before the SELECT source
        spec["form"] = r.choice([None, None, "insert", "replace", "insert_or_replace"])
        # a row window on the selected rows (ordered by the source key so that the window is determined): limit 0 included
        spec["window"] = (r.choice([0, 0, 1, 2, 5]), r.choice([None, None, 0, 1, 3])) if r.random() < 0.4 else None
        if spec["form"] in ("replace", "insert_or_replace") and "id" not in cols and r.random() < 0.7:
            spec["columns"] = cols = ["id"] + cols[:3]          # keys that collide with existing rows
            spec["select"] = [("col", src.name, "id", src)] + spec["select"][:len(cols) - 1]
    elif kind == "update":
        sets = []
        for c in r.sample(COLS, r.randint(1, 4)):
            x = r.random()
            if x < 0.4:
                e = value(r)
            elif x < 0.8:
                e = g.num([t], 2)
            else:
                e = ("func", "Upper", [("col", t.name, "s", t)])
            sets.append((c, e, r.random() < 0.5))
        if len(sets) >= 1 and r.random() < 0.15:
            # the same column assigned again by a later set() call (a shared base statement refined later): every call
            # adds its pair, in call order — the engine's rule for repeated assignments then applies to the reference alike
            c0 = sets[0][0]
            sets.append((c0, value(r), r.random() < 0.5))
        spec["sets"] = sets
    return spec


def py_value(e, Q):
    if e[0] == "lit":
        return S.py_lit(e[1])
    return S.py_expr(e, Q)


def py_where(spec, Q):
    w = spec["where"]
    if w is None:
        return ""
    if spec.get("split_where"):
        return ".where(%s).where(%s)" % (S.py_expr(w[1], Q), S.py_expr(w[2], Q))
    return ".where(%s)" % S.py_expr(w, Q)


def where_srcs(w, acc):
    def walk(e):
        if isinstance(e, tuple):
            if e and e[0] == "insub":
                acc.extend(S.all_srcs(e[2]))
            if e and e[0] == "exists":
                acc.extend(S.all_srcs(e[1]))
            for x in e:
                walk(x)
        elif isinstance(e, list):
            for x in e:
                walk(x)
    walk(w)


def to_py(spec):
    Q = "SQLLiteQuery"
    t = spec["t"]
    srcs = [t] + ([spec["src"]] if "src" in spec else [])
    where_srcs(spec["where"], srcs)
    lines, seen = [], set()
    for s in srcs:
        if s.name not in seen:
            seen.add(s.name)
            lines.append("%s = T(%r)%s" % (S.src_var(s), s.table, ".as_(%r)" % s.alias if s.alias else ""))
    tv = S.src_var(t)
    k = spec["kind"]
    br = spec["branch"]
    if k == "insert":
        head = "%s.into(%s)" % (Q, tv)
        cols = spec["columns"]
        colpart, first = "", ""
        if cols:
            if spec["colcalls"] and len(cols) > 1:
                first = ".columns(%r)" % cols[0]
                colpart = "".join(".columns(%r)" % c for c in cols[1:])
            else:
                colpart = ".columns(%s)" % ", ".join(repr(c) for c in cols)
        body, i = "", 0
        for n in spec["calls"]:
            rows = spec["rows"][i:i + n]
            i += n
            meth = spec["form"]     # chained calls repeat the same method: the last call decides the statement form
            if len(rows) == 1:
                body += ".%s(%s)" % (meth, ", ".join(py_value(e, Q) for e in rows[0]))
            else:
                body += ".%s(%s)" % (meth, ", ".join("(%s,)" % ", ".join(py_value(e, Q) for e in row) for row in rows))
        if spec.get("shortcut") and not cols and not br and spec["form"] == "insert":
            head = "T(%r, query_cls=%s)" % (t.table, Q)      # Table.insert(*rows) == Query.into(table).insert(*rows)
        if br:
            lines.append("p = %s%s" % (head, first))
            lines.append("sibling = p.columns('zz', 'yy').insert(1, 2)")
            lines.append("q = p%s%s" % (colpart, body))
            lines.append("sibling2 = q.insert(%s)" % ", ".join(["0"] * len(spec["rows"][0])))
        else:
            lines.append("q = %s%s%s%s" % (head, first, colpart, body))
    elif k == "insert_select":
        sv = S.src_var(spec["src"])
        sel = ".select(%s)" % ", ".join(S.py_expr(e, Q) for e in spec["select"])
        cols = ".columns(%s)" % ", ".join(repr(c) for c in spec["columns"])
        if spec.get("form"):
            cols += ".%s()" % spec["form"]
        if spec.get("window"):
            lim, off = spec["window"]
            sel += ".orderby(%s.id).limit(%d)" % (sv, lim) + ("" if off is None else ".offset(%d)" % off)
        if br:
            lines.append("p = %s.into(%s)%s.from_(%s)" % (Q, tv, cols, sv))
            lines.append("sibling = p.select(%s.id).where(%s.id == 1)" % (sv, sv))
            lines.append("q = p%s%s" % (sel, py_where(spec, Q)))
        else:
            lines.append("q = %s.into(%s)%s.from_(%s)%s%s" % (Q, tv, cols, sv, sel, py_where(spec, Q)))
    elif k == "update":
        sets = spec["sets"]
        calls = [".set(%s, %s)" % ("%s.%s" % (tv, c) if asfield else repr(c), py_value(e, Q)) for c, e, asfield in sets]
        if br:
            lines.append("p = %s.update(%s)%s" % (Q, tv, calls[0]))
            lines.append("sibling = p.set('id', 0).where(%s.id < 0)" % tv)
            lines.append("q = p%s%s" % ("".join(calls[1:]), py_where(spec, Q)))
            lines.append("sibling2 = q.set('id', 1).where(%s.id == 1)" % tv)
        else:
            lines.append("q = %s.update(%s)%s%s" % (Q, tv, "".join(calls), py_where(spec, Q)))
    else:
        if br:
            lines.append("p = %s.from_(%s).delete()" % (Q, tv))
            lines.append("sibling = p.where(%s.id == 1)" % tv)
            lines.append("q = p%s" % py_where(spec, Q))
            lines.append("sibling2 = q.where(%s.id == 2)" % tv)
        else:
            lines.append("q = %s.from_(%s).delete()%s" % (Q, tv, py_where(spec, Q)))
    return "\n".join(lines)


def to_ref(spec):
    """(sql, params): the explicit reference statement"""
    S.BIND[0] = []
    S.COMPENSATE_MUL_DIV[0] = True
    try:
        t = spec["t"]
        k = spec["kind"]
        if k == "insert":
            head = {"insert": "INSERT INTO", "replace": "REPLACE INTO", "insert_or_replace": "INSERT OR REPLACE INTO"}[spec["form"]]
            cols = spec["columns"]
            sql = '%s "%s"' % (head, t.table)
            if cols:
                sql += " (%s)" % ", ".join('"%s"' % c for c in cols)
            sql += " VALUES " + ", ".join("(%s)" % ", ".join(S.sql_expr(e) for e in row) for row in spec["rows"])
        elif k == "insert_select":
            src = spec["src"]
            head = {"replace": "REPLACE", "insert_or_replace": "INSERT OR REPLACE"}.get(spec.get("form"), "INSERT")
            sql = head + ' INTO "%s" (%s) SELECT %s FROM "%s"' % (t.table, ", ".join('"%s"' % c for c in spec["columns"]),
                                                              ", ".join(S.sql_expr(e) for e in spec["select"]), src.table)
            if spec["where"] is not None:
                sql += " WHERE " + S.sql_expr(spec["where"])
            if spec.get("window"):
                lim, off = spec["window"]
                sql += ' ORDER BY "%s"."id" LIMIT %d' % (src.table, lim) + ("" if off is None else " OFFSET %d" % off)
        elif k == "update":
            sql = 'UPDATE "%s" SET %s' % (t.table, ", ".join('"%s" = %s' % (c, S.sql_expr(e)) for c, e, _ in spec["sets"]))
            if spec["where"] is not None:
                sql += " WHERE " + S.sql_expr(spec["where"])
        else:
            sql = 'DELETE FROM "%s"' % t.table
            if spec["where"] is not None:
                sql += " WHERE " + S.sql_expr(spec["where"])
        return sql, list(S.BIND[0])
    finally:
        S.BIND[0] = None


def state(con, ordered=True):
    out = {}
    for t in S.TABLES:
        rows = con.execute("select * from %s order by rowid" % t).fetchall()
        # REAL values up to the sign of a zero and the last digits (re-association of * and + in IEEE arithmetic)
        rows = [tuple((type(v).__name__, (0.0 if v == 0 else float("%.11g" % v)) if isinstance(v, float) else v) for v in row)
                for row in rows]
        out[t] = rows
    return out


def apply(seed, sql, params=()):
    con = S.make_db2(seed)
    try:
        con.execute(sql, params)
        con.commit()
        err = None
    except sqlite3.Error as e:
        err = type(e).__name__ + ": " + str(e)
    except (ValueError, sqlite3.Warning) as e:
        err = type(e).__name__ + ": " + str(e)
    st = state(con)
    con.close()
    return st, err


def examine(case):
    res = Result()
    r = random.Random(case["seed"])
    spec = gen_spec(r)
    src = to_py(spec)
    ref, params = to_ref(spec)
    case["recipe"] = src + "\n# reference: %s with %r" % (ref, params)
    env = ns.ex(src)
    q = env["q"]
    sql = str(q)
    k = spec["kind"]
    size = len(spec.get("rows", [])) * len((spec.get("rows") or [[]])[0]) if k == "insert" else \
        (len(spec.get("sets", [])) + (1 if spec["where"] else 0) + (1 if spec.get("split_where") else 0) + len(spec.get("select", [])))
    res.nontrivial = size >= 2
    res.key = struct_hash([src])
    res.tags = ["kind=" + k + (":" + spec["form"] if k == "insert" else ""), "branch=%s" % spec["branch"],
                "cols=%s" % ("none" if spec.get("columns") is None else len(spec["columns"]))]
    if k == "insert":
        res.tags.append("rows=%d/calls=%d" % (len(spec["rows"]), len(spec["calls"])))
    for dseed in case["dbs"]:
        want, werr = apply(dseed, ref, params)
        got, gerr = apply(dseed, sql)
        if k == "insert_select":
            # the engine chooses the order in which selected rows arrive; compare without the assigned keys
            norm = lambda st: {t: sorted((row[1:] for row in rows), key=repr) for t, rows in st.items()}
            want, got = norm(want), norm(got)
        if (werr is None) != (gerr is None):
            res.findings.append({"sig": {"kind": "accepted-differently", "stmt": k},
                                 "what": "database %d: %s -> %s; reference %s %r -> %s\n%s" % (dseed, sql, gerr, ref, params, werr, src)})
            return res
        if werr is not None:
            res.tags.append("both-rejected=" + werr.split(":")[0])
            if werr.split(":")[0] != gerr.split(":")[0]:
                res.findings.append({"sig": {"kind": "different-error", "stmt": k},
                                     "what": "database %d: %s -> %s; reference -> %s" % (dseed, sql, gerr, werr)})
                return res
        if got != want:
            diff = [(t, [x for x in got[t] if x not in want[t]][:3], [x for x in want[t] if x not in got[t]][:3]) for t in got if got[t] != want[t]]
            res.findings.append({"sig": {"kind": "different-state", "stmt": k},
                                 "what": "database %d: after %s the tables differ from those after %s %r: %r\n%s"
                                         % (dseed, sql, ref, params, diff, src)})
            return res
    try:
        res.requests.append(({"op": "render", "ctx": describe.d_ctx({"dialect": q.dialect}), "term": describe.describe(q)},
                             {"sql": sql}, "str(q)"))
    except Unsupported as ex:
        res.skipped = str(ex)[:40]
    return res
