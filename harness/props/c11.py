"""C11 Set operations compose operands in order with the documented arity check."""
import sqlite3

from harness import describe, ns
from harness.describe import Unsupported
from harness.run import Result
from harness.common import struct_hash
from harness.ns import QNAMES

ID = "C11"
LEVEL_TEXT = ("Lean 4 theorems about the executable model of the code (all inputs, by induction), tied to /repo by tables regenerated on every run (decide) and by differential execution of model and implementation; the property oracle is also run on the implementation for every case. Composition, arity guard and wrapping are proved; 'the chain returns the left-to-right set algebra of its operands' is executed on SQLite.")
LEAN_MODULES = ["Pypika.Props.C11", "Pypika.Props.Builder", "Pypika.SetFrame"]
TRACE_BUILDER = True   # builder calls made by this check are also run through Pypika.B.step (harness/trace.py)
THEOREMS = ["Pypika.C11.ops_in_order", "Pypika.C11.arity_mismatch_raises", "Pypika.C11.arity_ok_no_raise",
            "Pypika.C11.setop_layout", "Pypika.C11.operand_wrapped_iff",
            # set-operation builder (Builder.lean stepS / mkSetOp, tied call by call through harness/trace.py)
            "Pypika.B.setop_ops_in_call_order", "Pypika.B.mkSetOp_shape", "Pypika.B.setop_ops_frame",
            "Pypika.B.stepS_frame"]
AGREE = ["Pypika.Agree.setop_pagination", "Pypika.Agree.classes_complete", "Pypika.Agree.setop_writes_agree"]
TRUSTED = ["sqlite3 3.40 for the execution clause; Python list/set algebra as the reference for UNION / UNION ALL / INTERSECT / EXCEPT"]
RULE = ("chains of 2-8 operands over every mix of union / union_all / intersect / except_of / minus and the + * - operators, "
        "operands of 1-3 selected terms (equal or deliberately unequal arity), trailing ORDER BY / LIMIT / OFFSET, the chain "
        "used top-level, as FROM source and as IN container, all 10 classes; non-trivial = >= 3 operands or mixed operators; "
        "distinct by the whole recipe")
METHODS = {"union": "UNION", "union_all": "UNION ALL", "intersect": "INTERSECT", "except_of": "EXCEPT", "minus": "MINUS",
           "+": "UNION", "*": "UNION ALL", "-": "MINUS"}
SQLITE_OK = {"union", "union_all", "intersect", "except_of", "+", "*"}


def counts(tier):
    return 2000 if tier == "quick" else 40000


def generate(rng, n, tier):
    classes = list(QNAMES)
    for i in range(n):
        cls = "sqlite" if i % 3 == 0 else rng.choice(classes)
        k = rng.choice([2, 2, 3, 3, 4, 5, 8])
        base_ar = rng.randint(1, 3)
        mismatch = rng.random() < 0.2
        ops = []
        for j in range(k):
            ar = base_ar
            if mismatch and j > 0 and rng.random() < 0.5:
                ar = rng.choice([x for x in (1, 2, 3) if x != base_ar])
            tbl = rng.choice(["t", "u", "v"])
            where = rng.choice([None, [rng.choice(["a", "b"]), rng.choice(["<", ">", "==", "!="]), rng.randint(0, 4)]])
            op = {"tbl": tbl, "arity": ar, "where": where, "distinct": rng.random() < 0.2}
            if rng.random() < 0.15:
                # an operand with trailing clauses of its own: still its own text, wrapped iff the dialect asks for it
                op["tail"] = rng.choice([".orderby(T('%s').a)" % tbl, ".limit(2)", ".limit(0)", ".offset(1)",
                                         ".orderby(T('%s').a, order=Order.desc).limit(2)" % tbl, "[1:3]"])
            if cls == "vertica" and rng.random() < 0.4:
                op["tail"] = op.get("tail", "") + ".hint('lbl%d')" % j     # a hinted operand is still its own text, in parentheses
            if rng.random() < 0.08:
                # `SELECT *`: ONE select term as far as the documented arity check is concerned
                op["star"] = True
                op["arity"] = 1
            ops.append(op)
        allowed = list(SQLITE_OK) if cls == "sqlite" else list(METHODS)
        meths = [rng.choice(allowed) for _ in range(k - 1)]
        yield {"cls": cls, "ops": ops, "meths": meths, "orderby": rng.random() < 0.4, "limit": rng.choice([None, None, 0, 2, 5]),
               "offset": rng.choice([None, None, 1]), "use": rng.choice(["top", "top", "from", "in"]),
               "wrap": None if cls in ("sqlite", "clickhouse") else rng.choice([None, None, True, False])}
    # an operand that is itself a set operation
    yield {"cls": "generic", "nested": True, "ops": [], "meths": []}


def operand_src(cls, op, wrapkw=""):
    qn = QNAMES[cls]
    cols = "'*'" if op.get("star") else ", ".join("T('%s').%s" % (op["tbl"], c) for c in ["a", "b", "c"][:op["arity"]])
    s = "%s.from_(T('%s')%s).select(%s)" % (qn, op["tbl"], wrapkw, cols)
    if op["where"]:
        c, o, v = op["where"]
        s += ".where(T('%s').%s %s %d)" % (op["tbl"], c, o, v)
    if op["distinct"]:
        s += ".distinct()"
    return s + op.get("tail", "")


def build(case):
    cls = case["cls"]
    wrapkw = "" if case.get("wrap") is None else ", wrap_set_operation_queries=%r" % case["wrap"]
    srcs = [operand_src(cls, o, wrapkw if i == 0 else "") for i, o in enumerate(case["ops"])]
    expr = srcs[0]
    for m, s in zip(case["meths"], srcs[1:]):
        expr = "(%s %s %s)" % (expr, m, s) if m in "+*-" else "%s.%s(%s)" % (expr, m, s)
    if case.get("orderby"):
        expr += ".orderby('a')"
    if case.get("limit") is not None:
        expr += ".limit(%d)" % case["limit"]
    if case.get("offset") is not None:
        expr += ".offset(%d)" % case["offset"]
    return expr, srcs


_db = None


def db():
    global _db
    if _db is None:
        _db = sqlite3.connect(":memory:")
        import random
        r = random.Random(7)
        for t in ("t", "u", "v"):
            _db.execute("create table %s(a, b, c)" % t)
            _db.executemany("insert into %s values (?,?,?)" % t, [(r.randint(0, 4), r.randint(0, 2), r.randint(0, 1)) for _ in range(9)])
    return _db


def examine(case):
    res = Result()

    def F(kind, what):
        res.findings.append({"sig": {"kind": kind}, "what": what})

    if case.get("nested"):
        src = "Query.from_(T('t')).select(T('t').a).union(Query.from_(T('u')).select(T('u').a).union(Query.from_(T('v')).select(T('v').a)))"
        case["recipe"] = src
        res.key = "nested"
        try:
            str(ns.ev(src))
        except Exception as e:
            F("nested-setop-operand", "a set operation used as an operand of another raises %s: %s" % (type(e).__name__, src))
        return res
    cls = case["cls"]
    src, opsrcs = build(case)
    case["recipe"] = src
    chain = ns.ev(src)
    base = chain.base_query
    wrap = base.wrap_set_operation_queries
    ar = [o["arity"] for o in case["ops"]]
    mismatch = any(a != ar[0] for a in ar)
    res.nontrivial = len(ar) >= 3 or len(set(case["meths"])) > 1
    res.key = struct_hash([src, case["use"]])
    res.tags = ["cls=" + cls, "n=%d" % len(ar), "use=" + case["use"], "mismatch=%s" % mismatch, "wrap=%s" % wrap]
    use = case["use"]
    stmt = chain
    try:
        if use == "from":
            stmt = ns.QUERY_CLASSES[cls].from_(chain.as_("so")).select("a")     # hashing the source renders it
        elif use == "in":
            stmt = ns.QUERY_CLASSES[cls].from_(ns.Table("w")).select("a").where(ns.Field("a").isin(chain))
        text = str(stmt)
        exc = None
    except Exception as e:
        text, exc = None, type(e).__name__
    if mismatch != (exc == "SetOperationException"):
        F("arity-guard", "arities %s: %s | %s" % (ar, "raised " + str(exc) if exc else "no SetOperationException", src))
    if exc not in (None, "SetOperationException"):
        F("unexpected-exception", "rendering raised %s | %s" % (exc, src))
    try:
        if exc is not None and stmt is chain and use != "top":
            raise Unsupported("statement could not be built")
        kw = {"dialect": stmt.dialect} if isinstance(stmt, ns.queries.QueryBuilder) else {}
        res.requests.append(({"op": "render", "ctx": describe.d_ctx(kw), "term": describe.describe(stmt)},
                             {"sql": text} if exc is None else {"exc": exc}, "str(%s)" % use))
    except Unsupported as ex:
        res.skipped = str(ex)[:40]
    if exc is not None:
        return res
    # --- operands in order, each its own text, wrapped iff the dialect asks for it
    kwq = {"quote_char": base.QUOTE_CHAR, "dialect": base.dialect, "alias_quote_char": base.ALIAS_QUOTE_CHAR,
           "as_keyword": base.as_keyword, "secondary_quote_char": "'"}
    own = [ns.ev(s).get_sql(subquery=wrap, **kwq) for s in opsrcs]
    # an operand inside the chain is its own statement text, in parentheses iff the dialect wraps operands
    for s_, o in zip(opsrcs, own):
        plain = ns.ev(s_).get_sql(subquery=False, **kwq)
        if o != ("(%s)" % plain if wrap else plain):
            F("operand-text", "operand renders %s inside the chain but %s on its own | %s" % (o, plain, s_))
            break
    exp = own[0]
    for m, o in zip(case["meths"], own[1:]):
        exp += " %s %s" % (METHODS[m], o)
    if case.get("orderby"):
        exp += " ORDER BY %s" % ns.Field("a").get_sql(quote_char=base.QUOTE_CHAR)
    if case.get("limit") is not None:
        exp += " LIMIT %d" % case["limit"]
    if case.get("offset"):
        exp += " OFFSET %d" % case["offset"]
    ctext = str(chain)
    if ctext != exp:
        F("composition", "chain renders %s but operands in call order with trailing clauses give %s" % (ctext, exp))
    # operands are the ones THIS chain was given: continuing an intermediate chain elsewhere adds nothing to it
    import operator
    OPS = {"+": operator.add, "*": operator.mul, "-": operator.sub}
    cur = ns.ev(opsrcs[0])
    for m, s_ in zip(case["meths"], opsrcs[1:]):
        o_ = ns.ev(s_)
        nxt = OPS[m](cur, o_) if m in OPS else getattr(cur, m)(o_)
        if isinstance(cur, ns.queries._SetOperation):
            cur.union_all(ns.ev(opsrcs[0]))          # a sibling continuation of the same receiver, discarded
        cur = nxt
    if case.get("orderby"):
        cur = cur.orderby("a")
    if case.get("limit") is not None:
        cur = cur.limit(case["limit"])
    if case.get("offset") is not None:
        cur = cur.offset(case["offset"])
    if str(cur) != ctext:
        F("foreign-operand", "the chain built next to sibling continuations renders %s, alone it renders %s" % (str(cur), ctext))
    for o in own:
        if wrap != (o.startswith("(") and o.endswith(")")):
            F("wrapping", "operand %s, wrap_set_operation_queries=%r" % (o, wrap))
            break
    if use in ("from", "in") and "(" + ctext + ")" not in text:
        F("nested-use", "the chain is not parenthesised as a whole when used as %s: %s" % (use, text))
    # --- SQLite: rows of the left-to-right set expression
    if cls == "sqlite" and use == "top" and not (case.get("offset") and case.get("limit") is None) and \
            not any(o.get("star") or o.get("tail") for o in case["ops"]):
        try:
            got = db().execute(ctext).fetchall()
        except sqlite3.Error as e:
            F("sqlite-rejects", "SQLite rejects %s: %s" % (ctext, e))
            return res
        rows = [db().execute(ns.ev(s).get_sql(quote_char='"')).fetchall() for s in opsrcs]
        acc = rows[0]
        for m, r in zip(case["meths"], rows[1:]):
            op = METHODS[m]
            if op == "UNION ALL":
                acc = acc + r
            elif op == "UNION":
                acc = list(dict.fromkeys(acc + r))
            elif op == "INTERSECT":
                acc = [x for x in dict.fromkeys(acc) if x in r]
            else:
                acc = [x for x in dict.fromkeys(acc) if x not in r]
        if case.get("orderby"):
            acc = sorted(acc, key=lambda x: x[0])
            lim, off = case.get("limit"), case.get("offset") or 0
            want = acc[off:] if lim is None else acc[off:off + lim]
            if [x[0] for x in got] != [x[0] for x in want]:
                F("sqlite-rows", "SQLite returns %r, the left-to-right set expression gives %r | %s" % (got[:6], want[:6], ctext))
        elif case.get("limit") is None and not case.get("offset"):
            if sorted(got) != sorted(acc):
                F("sqlite-rows", "SQLite returns %d rows, the left-to-right set expression gives %d | %s" % (len(got), len(acc), ctext))
    return res
