"""C19 Empty criteria are neutral and all/any fold filters in order."""
from harness import describe, gen, ns
from harness.describe import Unsupported
from harness.run import Result
from harness.common import struct_hash
from harness.ns import QNAMES

ID = "C19"
LEAN_MODULES = ["Pypika.Props.C19", "Pypika.Props.Builder"]
TRACE_BUILDER = True   # builder calls made by this check are also run through Pypika.B.step (harness/trace.py)
THEOREMS = ["Pypika.C19.empty_left", "Pypika.C19.empty_right", "Pypika.C19.invert_empty", "Pypika.C19.all_eq_fold",
            "Pypika.C19.any_eq_fold", "Pypika.C19.fold_nonempty", "Pypika.C19.insert_empty", "Pypika.C19.where_never_empty",
            "Pypika.C19.where_all",
            # concrete builder model (Builder.lean, tied call by call through harness/trace.py)
            "Pypika.B.where_empty_neutral", "Pypika.B.having_empty_neutral", "Pypika.B.run_drop_neutral", "Pypika.B.where_accumulates"]
AGREE = ["Pypika.Agree.bool_text", "Pypika.Agree.needs_brackets"]
TRUSTED = ["Python operator dispatch (`a & b` calls type(a).__and__; `crit &= t` rebinds)"]
RULE = ("criterion lists of length 0-8 with empty criteria at arbitrary positions (all subsets of positions up to length 5 in "
        "the thorough tier), all/any nested to depth 3, every split of the list over where()/having() calls, all 10 classes; "
        "non-trivial = at least one empty and one non-empty member; distinct by the list of recipes and the shape")
EMPTY_FORMS = ["EmptyCriterion()", "Criterion.all([])", "Criterion.any(())", "~EmptyCriterion()", "EmptyCriterion().negate()",
               "(EmptyCriterion() & EmptyCriterion())", "Criterion.all([EmptyCriterion(), Criterion.any([])])"]


def counts(tier):
    return 3000 if tier == "quick" else 50000


def crit_src(rng):
    g = gen.G(rng, tables=False, allow_funcs=False, allow_case=False)
    if rng.random() < 0.08:
        # a criterion that refers to a table outside the statement (correlated use): switches qualification on for the
        # whole statement, whichever where() call it arrives in
        return rng.choice(["(T('t').a == T('outer_t').k)", "(F('b') > T('outer_t').k)"])
    return g.crit(rng.choice([0, 0, 1, 2]))


def generate(rng, n, tier):
    if tier == "thorough":
        base = ["(F('a') == 1)", "(F('b') > 2)", "F('c').isnull()", "((F('d') == 4) | (F('e') == 5))", "F('f').like('x%')"]
        for ln in range(0, 6):
            for mask in range(1 << ln):
                items = [("E" if mask >> i & 1 else base[i]) for i in range(ln)]
                for kind in ("all", "any", "where", "having"):
                    yield {"kind": kind, "items": items, "cls": "generic", "eform": 0}
    # long filter lists (the fold must be the same fold at every length): a few hundred members, empties sprinkled in
    for ln in (201, 260):
        for kind in ("all", "any", "where"):
            items = [("E" if (i % 37 == 5) else "(F('f%d') == %d)" % (i, i)) for i in range(ln)]
            yield {"kind": kind, "items": items, "cls": "generic", "eform": 0}
    for _ in range(n):
        ln = rng.choice([0, 1, 2, 2, 3, 3, 4, 5, 6, 8])
        items = []
        for _ in range(ln):
            x = rng.random()
            if x < 0.35:
                items.append("E")
            elif x < 0.45:
                # nested all/any
                inner = ["E" if rng.random() < 0.4 else crit_src(rng) for _ in range(rng.randint(0, 3))]
                items.append({"nest": rng.choice(["all", "any"]), "items": inner})
            else:
                items.append(crit_src(rng))
        yield {"kind": rng.choice(["all", "any", "where", "having", "where_split", "ops", "pg_conflict", "index_where"]), "items": items,
               "cls": rng.choice(list(QNAMES)), "eform": rng.randrange(len(EMPTY_FORMS)),
               "split": [rng.random() < 0.5 for _ in range(ln)], "op": rng.choice(["&", "|", "^"])}


def item_src(it, eform, drop_empty=False):
    if it == "E":
        return None if drop_empty else EMPTY_FORMS[eform]
    if isinstance(it, dict):
        inner = [item_src(x, eform, drop_empty) for x in it["items"]]
        inner = [x for x in inner if x is not None]
        if drop_empty and not inner:
            return None
        return "Criterion.%s([%s])" % (it["nest"], ", ".join(inner))
    return it


def sql_of(obj):
    try:
        return {"sql": obj.get_sql(quote_char='"')}
    except Exception as e:
        return {"exc": type(e).__name__}


def examine(case):
    res = Result()
    ef = case.get("eform", 0)
    items = case["items"]
    with_e = [item_src(i, ef) for i in items]
    without = [x for x in (item_src(i, ef, True) for i in items) if x is not None]
    kind = case["kind"]
    qn = QNAMES[case["cls"]]
    nE = sum(1 for i in items if i == "E")
    res.nontrivial = nE > 0 and nE < len(items)
    res.key = struct_hash([kind, items, case["cls"], case.get("split"), case.get("op")])
    res.tags = ["kind=" + kind, "len=%d" % len(items), "empties=%d" % min(nE, 3)]

    def F(k, what):
        res.findings.append({"sig": {"kind": k, "form": kind}, "what": what})

    ctx = describe.d_ctx({"quote_char": '"'})
    if kind in ("all", "any"):
        src_e = "Criterion.%s([%s])" % (kind, ", ".join(with_e))
        src_n = "Criterion.%s([%s])" % (kind, ", ".join(without))
        case["recipe"] = src_e
        a, b = ns.ev(src_e), ns.ev(src_n)
        ra, rb = sql_of(a), sql_of(b)
        if ra != rb:
            F("empty-not-neutral", "%s renders %s but without the empty members %s" % (src_e, ra, rb))
        # any iterable is accepted, also a lazy one (generator, iterator, tuple) — including an empty one
        for form, wrap in (("generator", "(x for x in [%s])"), ("iterator", "iter([%s])"), ("tuple", "tuple([%s])")):
            try:
                rl = sql_of(ns.ev("Criterion.%s(%s)" % (kind, wrap % ", ".join(with_e))))
            except Exception as e:
                rl = "raises %s" % type(e).__name__
            if rl != ra:
                F("iterable-form", "Criterion.%s over a %s of the same members gives %s, over a list %s" % (kind, form, rl, ra))
                break
        # equivalent to the left-to-right chain of the non-empty members
        if without:
            op = "&" if kind == "all" else "|"
            # built with the Python operators, member by member (nested source text hits the parser's nesting limit)
            members = [ns.ev(w) for w in without]
            chain = members[0]
            for m in members[1:]:
                chain = (chain & m) if op == "&" else (chain | m)
            rc = sql_of(chain)
            if rc != rb:
                F("fold-order", "%s renders %s but the left-to-right chain renders %s" % (src_n, rb, rc))
        elif not isinstance(a, ns.EmptyCriterion):
            F("all-empty", "%s of only empty criteria is not the empty criterion" % kind)
        # model: fold of the described members
        try:
            terms = [describe.describe(ns.ev(w)) for w in with_e]
            res.requests.append(({"op": "critfold", "kind": kind, "ctx": ctx, "terms": terms}, ra, "Criterion.%s" % kind))
        except Unsupported as e:
            res.skipped = str(e)[:40]
    elif kind in ("where", "having", "where_split", "index_where"):
        meth = "having" if kind == "having" else "where"
        base = "%s.from_(T('t')).select(T('t').a)" % qn + (".groupby(T('t').a)" if meth == "having" else "")
        if kind == "index_where":
            # the partial-index predicate of CREATE INDEX is built by where() calls too
            base = "Query.create_index('ix').on(T('t')).columns('a')"
        if kind == "where_split":
            # the same conjunction split over calls in an arbitrary way: groups joined by Criterion.all
            groups, cur = [], []
            for w, cut in zip(with_e, case.get("split") or []):
                cur.append(w)
                if cut:
                    groups.append(cur)
                    cur = []
            if cur:
                groups.append(cur)
            src_e = base + "".join(".%s(Criterion.all([%s]))" % (meth, ", ".join(g)) for g in groups)
        else:
            src_e = base + "".join(".%s(%s)" % (meth, w) for w in with_e)
        src_n = base + "".join(".%s(%s)" % (meth, w) for w in without)
        src_one = base + (".%s(Criterion.all([%s]))" % (meth, ", ".join(without)) if without else "")
        case["recipe"] = src_e
        qa, qb, qc = ns.ev(src_e), ns.ev(src_n), ns.ev(src_one)
        ta, tb, tc = text_of(qa), text_of(qb), text_of(qc)
        if ta != tb:
            F("empty-changes-statement", "%s renders %s but without the empty criteria %s" % (src_e, ta, tb))
        if tb != tc:
            F("repeated-calls", "successive %s() calls render %s, one call with the conjunction renders %s" % (meth, tb, tc))
        kw = " HAVING" if meth == "having" else " WHERE"
        if not without and kw in ta:
            F("dangling", "dangling%s: %s" % (kw, ta))
        if ta.rstrip().endswith(kw.strip()):
            F("dangling", "dangling%s: %s" % (kw, ta))
        if meth == "where":
            try:
                terms = [describe.describe(ns.ev(w)) for w in with_e]
                slot = qa._wheres
                exp = {"none": True} if not slot else sql_of(slot)
                res.requests.append(({"op": "wherefold", "ctx": ctx, "terms": terms}, exp, "where() accumulation"))
            except Unsupported as e:
                res.skipped = str(e)[:40]
    elif kind == "pg_conflict":
        # where() on the ON CONFLICT path of PostgreSQL: before do_update -> conflict target filter, after -> update filter
        variant = case.get("op", "&")
        head = "PostgreSQLQuery.into(T('t')).columns('id', 'a').insert(1, 2).on_conflict('id')"
        if variant == "&":
            mk = lambda ws: head + "".join(".where(%s)" % w for w in ws) + ".do_update('a', 3)"
        elif variant == "|":
            mk = lambda ws: head + ".do_update('a', 3)" + "".join(".where(%s)" % w for w in ws)
        else:
            mk = lambda ws: head + ".do_nothing()" + "".join(".where(%s)" % w for w in ws if w in EMPTY_FORMS)
        src_e, src_n = mk(with_e), mk(without)
        case["recipe"] = src_e
        ta, tb = text_of_src(src_e), text_of_src(src_n)
        if ta != tb:
            F("conflict-where", "%s gives %s but without the empty criteria %s" % (src_e, ta, tb))
    else:  # binary operators with an empty operand on either side
        op = case.get("op", "&")
        c = crit_src_fixed(items)
        e = EMPTY_FORMS[ef]
        case["recipe"] = "(%s %s %s)" % (e, op, c)
        for src in ("(%s %s %s)" % (e, op, c), "(%s %s %s)" % (c, op, e)):
            r = sql_of(ns.ev(src))
            if r != sql_of(ns.ev(c)):
                F("identity", "%s renders %s, not the other operand" % (src, r))
        inv = ns.ev("~(%s)" % e)
        if not isinstance(inv, ns.EmptyCriterion):
            F("invert", "~empty is not empty")
        try:
            res.requests.append(({"op": "combine", "ctx": ctx, "bop": {"&": "and_", "|": "or_", "^": "xor_"}[op],
                                  "a": describe.describe(ns.ev(e)), "b": describe.describe(ns.ev(c))},
                                 sql_of(ns.ev("(%s %s %s)" % (e, op, c))), "empty %s c" % op))
        except Unsupported as ex:
            res.skipped = str(ex)[:40]
    return res


def text_of(obj):
    try:
        return str(obj)
    except Exception as e:
        return "raises %s" % type(e).__name__


def text_of_src(src):
    try:
        return str(ns.ev(src))
    except Exception as e:
        return "raises %s" % type(e).__name__


def crit_src_fixed(items):
    for i in items:
        if isinstance(i, str) and i != "E":
            return i
    return "(F('a') == 1)"
