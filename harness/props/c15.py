"""C15 replace_table equals building the same object with the other table."""
import random

from harness import describe, gen, ns
from harness.describe import Unsupported
from harness.run import Result
from harness.common import struct_hash
from harness.ns import QNAMES

ID = "C15"
LEAN_MODULES = ["Pypika.Props.C15"]
TRACE_BUILDER = True   # builder calls made by this check are also run through Pypika.B.step (harness/trace.py)
THEOREMS = ["Pypika.C15.replaces_target", "Pypika.C15.others_untouched", "Pypika.C15.target_gone", "Pypika.C15.replace_map",
            "Pypika.C15.coverage", "Pypika.C15.named_positions",
            "Pypika.C15.map_agree", "Pypika.C15.map_comp", "Pypika.C15.replace_eq_subst_partial", "Pypika.C15.replaceQ_eq_subst_partial",
            "Pypika.C15.subst_build", "Pypika.C15.replace_build_partial", "Pypika.C15.other_tables_untouched",
            "Pypika.C15.kf_setop", "Pypika.C15.kf_subquery_source"]
AGREE = []
TRUSTED = ["harness/effects.py: the ast pass producing the (walked, rewritten) attribute table per class"]
RULE = ("every Term subclass as root and nested to depth 4 (random trees over fields of three tables, one of them the table "
        "to replace), functions with special clauses / filters / window partitions, statements of every class with A as FROM, "
        "JOIN, INSERT or UPDATE target, in IN containers and sub-queries; compared: render(build(A).replace_table(A, B)) with "
        "render(build(B)), and build(A) before / after; non-trivial = A occurs >= 2 times; distinct by script")

# features with a structural gap: classified so that a listed finding hides exactly that shape
GAPS = ["subquery-source", "set-operation", "set-value-term", "pg-returning", "pg-on-conflict", "mysql-duplicate-update",
        "distinct-on", "subquery-term-in-select", "table-temporal"]


def counts(tier):
    return 2500 if tier == "quick" else 40000


ROOTS = [
    "{x}", "(-{x})", "({x} + {y})", "({x} == {y})", "(({x} == 1) & ({y} > 2))", "(~({x} == 1))", "{x}.isin([{y}, 1])",
    "{x}.notin([1, 2])", "{x}.between({y}, {z})", "{x}.from_to({y}, {z})", "{x}.isnull()", "{x}.notnull()", "{x}.isnotnull()",
    "{x}.bitwiseand(4)", "terms.All({x})", "Tuple({x}, {y}, 1)", "Array({x}, {y})", "terms.Bracket({x})",
    "Case().when({x} == 1, {y}).else_({z})", "fn.Coalesce({x}, {y}, 0)", "fn.Sum({x}).filter({y} > 1)", "fn.Count({x}).distinct()",
    "an.Rank().over({x}).orderby({y})", "an.Sum({x}).over({y}).orderby({z}).rows(an.Preceding(1))",
    "an.FirstValue({x}).over({y}).ignore_nulls()", "fn.Extract('year', {x})", "fn.Cast({x}, 'INT')", "({x} % {y})", "({x} ** 2)",
    "{x}.like('a%')", "{x}.as_of('2020')", "terms.NestedCriterion(terms.Equality.eq, terms.Boolean.and_, {x}, {y}, {z})",
    "fn.DateAdd('day', {x}, {y})", "{x}.as_('al')", "terms.AtTimezone(A.a, 'UTC')", "terms.Values(A.b)", "terms.AtTimezone(C.a, 'CET', interval=True)",
    "({x} + Interval(days=1))", "fn.Coalesce({x}, Interval(hours=2))", "({x} > fn.Now() - Interval(weeks=1))",
    "JSON({{'a': 1}}).get_json_value('k')", "fn.Upper({x}).like({y})", "ExistsCriterion(Query.from_(A).select({x}))",
    "{x}.isin(Query.from_(A).select({x}))", "{x}.isin(Query.from_(C).select(C.c).where(C.c == {x}))",
]


# positions the nodes_() walk (hence tables_ / fields_()) does not reach, although replace_table must: the table to replace
# occurs ONLY there, everything around it refers to other tables — a short-cut that asks tables_ first goes wrong
HIDERS = ["(-{h})", "VW({h})", "ExistsCriterion(Query.from_(C).select(C.a).where(C.a == {h}))", "an.Rank().over({h})",
          "an.Sum(C.a).over(C.b).orderby({h})", "fn.Count(C.a).filter({h} > 1)", "fn.Extract('year', {h})",
          "terms.AtTimezone({f}, 'UTC')", "terms.Values({f})", "C.a.isin(Query.from_(E).select(E.x).where(E.x == {h}))"]
CARRIERS = ["Case().when(C.a == 1, {t}).else_(C.b)", "Case().when(C.a == 1, C.b).else_({t})", "Case().when({t} == 1, C.b)",
            "Tuple(C.a, {t})", "Array({t}, C.b)", "fn.Coalesce(C.a, {t})", "(C.a == {t})", "(C.a + {t})", "({t} * C.b)",
            "C.a.isin([{t}, 1])", "C.a.between({t}, 5)", "(~(C.a > {t}))", "((C.a == 1) & (C.b > {t}))", "{t}.isnull()",
            "fn.Sum(C.a).filter(C.b > {t})", "an.Rank().over(C.a).orderby({t})", "terms.All({t})", "C.a.bitwiseand({t})",
            "fn.Cast({t}, 'INT')", "terms.NestedCriterion(terms.Equality.eq, terms.Boolean.and_, C.a, {t}, C.b)", "{t}"]


def hidden_src(rng):
    # AT TIME ZONE / VALUES() take a column (or its name), the others any term
    t = rng.choice(HIDERS).format(h=rng.choice(["A.a", "A.b", "(A.a + 1)"]), f=rng.choice(["A.a", "A.b"]))
    for _ in range(rng.choice([1, 1, 2])):
        t = rng.choice(CARRIERS).format(t=t)
    return t


def term_src(rng, d):
    def leaf():
        return rng.choice(["A.a", "A.b", "A.c", "C.a", "C.b", "E.x", "F('free')", "A.a", "A.star" if False else "A.d"])
    x, y, z = (term_src(rng, d - 1) if d > 0 and rng.random() < 0.5 else leaf() for _ in range(3))
    if d <= 0:
        return leaf()
    r = rng.choice(ROOTS)
    return r.format(x=x, y=y, z=z)


def query_src(rng, cls):
    qn = QNAMES[cls]
    g = gen.G(rng, tables=False, allow_shift=False)
    pool = ["A.a", "A.b", "C.a", "C.b", "A.c"]
    g.field = lambda: rng.choice(pool)
    kind = rng.choice(["select", "select", "select", "insert", "update", "delete", "insert_select"])
    feat = None
    if kind == "select":
        s = "%s.from_(A)" % qn
        if rng.random() < 0.6:
            s += rng.choice([".join(C).on(A.a == C.a)", ".join(C).cross()", ".join(C).using('a')", ".join(C, JoinType.left).on((A.a == C.a) & (C.b > 1))",
                             ".from_(C)"])
        s += ".select(%s)" % ", ".join(rng.choice(pool + [g.num(1), "fn.Sum(A.a)", "A.star"]) for _ in range(rng.randint(1, 3)))
        if rng.random() < 0.6:
            s += ".where(%s)" % g.crit(2)
        if rng.random() < 0.3:
            s += ".groupby(A.a).having(fn.Count(A.b) > 1)"
        if rng.random() < 0.3:
            s += ".orderby(A.b, order=Order.desc)"
        if rng.random() < 0.2:
            s = "%s.with_(%s.from_(A).select(A.a), 'w1').from_(AliasedQuery('w1')).select('a').where(F('a').isin(%s))" % (qn, qn, s)
        x = rng.random()
        if x < 0.08:
            feat = "subquery-source"
            s = "%s.from_(%s.from_(A).select(A.a).as_('s1')).select('a')" % (qn, qn)
        elif x < 0.14:
            feat = "set-operation"
            s = "%s.from_(A).select(A.a).union(%s.from_(C).select(C.a))" % (qn, qn)
        elif x < 0.18 and cls in ("postgresql", "clickhouse"):
            feat = "distinct-on"
            s += ".distinct_on(A.a)"
        elif x < 0.22:
            feat = "subquery-term-in-select"
            s = "%s.from_(C).select(C.a, %s.from_(A).select(fn.Max(A.a)).as_('m'))" % (qn, qn)
        elif x < 0.30 and cls == "clickhouse":
            s += rng.choice([".limit_by(1, A.a)", ".limit_offset_by(2, 3, A.a, C.b)", ".limit_offset_by(4, 0, A.b)",
                             ".limit_by(2, A.a).limit(5).offset(1)"])
    elif kind == "insert":
        s = "%s.into(A).columns(A.a, 'b').insert(1, %s)" % (qn, rng.choice(["2", "'x'", "C.a", "A.b"]))
        if cls == "mysql" and rng.random() < 0.4:
            feat = "mysql-duplicate-update"
            s += ".on_duplicate_key_update(A.a, 5)"
        if cls == "postgresql" and rng.random() < 0.5:
            if rng.random() < 0.5:
                feat = "pg-on-conflict"
                s += rng.choice([".on_conflict(A.a).do_update(A.b, 1)", ".on_conflict(A.a).where(A.a > 1).do_update(A.b, 1)",
                                 ".on_conflict(A.a).do_update(A.b, 1).where(A.b > 2)", ".on_conflict(A.a).do_update(A.b).where(A.b > C.a)",
                                 ".on_conflict(A.a).where(A.a > 1).do_update(A.b, A.a + 1).where(A.b > 2)",
                                 ".on_conflict(A.a, A.b).where(A.c == 1).do_update(A.b, 1).do_update(A.a).where(A.a < A.b).returning(A.a)"])
            else:
                feat = "pg-returning"
                s += ".returning(A.a)"
    elif kind == "insert_select":
        s = "%s.into(A).from_(C).select(C.a, C.b).where(C.a > 1)" % qn
    elif kind == "update":
        s = "%s.update(A).set(A.a, 1).set('b', 2).where(%s)" % (qn, g.crit(1))
        if rng.random() < 0.3:
            feat = "set-value-term"
            s = "%s.update(A).set(A.a, A.b + 1)" % qn
        elif rng.random() < 0.3:
            s = "%s.update(A).join(C).on(A.a == C.a).set(A.a, 1)" % qn
    else:
        s = "%s.from_(A).delete().where(%s)" % (qn, g.crit(1))
        if cls == "postgresql" and rng.random() < 0.5:
            # DELETE … USING: the table to replace as USING source, as target, or both
            s = rng.choice(["%s.from_(C).delete().using(A).where(A.a == C.a)", "%s.from_(A).delete().using(C).where(A.a == C.a)",
                            "%s.from_(A).delete().using(A).using(C).where(A.b == C.a)"]) % qn
    return s, feat


# dialect clauses with scalar parts next to their terms (run in both tiers): the rewrite keeps the scalars
FIXED_QUERIES = [
    # another VERSION of the table to replace (a temporal snapshot / period portion: same name, schema and alias) is another
    # row source: replacing the plain table leaves it alone (S, P are built from the original table definition in both builds)
    ("generic", "Query.from_(A).select(A.a).where(A.b.notin(Query.from_(S).select(S.b)))"),
    ("mssql", "MSSQLQuery.from_(A).join(S).on(A.a == S.a).select(A.b, S.b)"),
    ("generic", "Query.from_(A).select(A.a).where(ExistsCriterion(Query.from_(P).select(P.b).where(P.a == A.a)))"),
    ("postgresql", "PostgreSQLQuery.from_(S).select(S.a).where(S.b.isin(PostgreSQLQuery.from_(A).select(A.b)))"),
    ("clickhouse", "ClickHouseQuery.from_(A).select(A.a, A.b).limit_offset_by(2, 3, A.a, C.b).join(C).on(A.a == C.a)"),
    ("clickhouse", "ClickHouseQuery.from_(A).select(A.a).limit_offset_by(4, 0, A.b)"),
    ("clickhouse", "ClickHouseQuery.from_(A).select(A.a).limit_by(2, A.a).limit(5).offset(1)"),
    ("clickhouse", "ClickHouseQuery.from_(C).select(C.a).where(C.a.isin(ClickHouseQuery.from_(A).select(A.a).limit_offset_by(1, 7, A.a)))"),
    # the table to replace occurs in a join criterion only below other terms (tables_ does not look there)
    ("generic", "Query.from_(A).join(C).on(fn.Extract('year', A.a) == C.a).select(C.b)"),
    ("generic", "Query.from_(A).join(C).on(C.a.isin(Query.from_(E).select(E.x).where(E.x == A.b))).select(C.b)"),
    ("generic", "Query.from_(A).join(C).on(fn.Sum(C.a).filter(A.b > 1) > an.Rank().over(A.c).orderby(A.d)).select(C.b)"),
    ("postgresql", "PostgreSQLQuery.from_(A).join(C).on(ExistsCriterion(PostgreSQLQuery.from_(E).select(E.x).where(E.x == A.b))).select(C.b)"),
    ("mysql", "MySQLQuery.from_(C).join(A).on(Case().when(A.a > 1, A.b).else_(0) == C.a).select(C.b)"),
    ("mssql", "MSSQLQuery.from_(A).select(A.a).top(3).orderby(A.b)"),
    ("generic", "Query.from_(A).select(A.a).orderby(A.b).limit(3).offset(2)"),
    ("mysql", "MySQLQuery.from_(A).select(A.a).for_update(nowait=True).limit(1)"),
]


def generate(rng, n, tier):
    for tabdef in ("T('ta')", "T('ta').as_('ax')"):
        for cls, src in FIXED_QUERIES:
            yield {"kind": "query", "src": src, "A": tabdef, "feat": None, "cls": cls}
    for i in range(n):
        tabdef = rng.choice(["T('ta')", "T('ta')", "T('ta', schema='s')", "T('ta').as_('ax')"])
        if i % 8 == 0:
            h = hidden_src(rng)
            if rng.random() < 0.4:
                cls = rng.choice(list(QNAMES))
                q = rng.choice(["{Q}.from_(C).select({t})", "{Q}.from_(C).select(C.a).where({t} == 1)", "{Q}.from_(C).select(C.a).orderby({t})",
                                "{Q}.from_(C).select(C.a).groupby({t})", "{Q}.update(C).set(C.a, {t})"]).replace("{Q}", QNAMES[cls]).replace("{t}", h)
                yield {"kind": "query", "src": q, "A": tabdef, "feat": "set-value-term" if ".set(" in q else None, "cls": cls}
            else:
                yield {"kind": "term", "src": h, "A": tabdef, "feat": None}
        elif i % 2 == 0:
            yield {"kind": "term", "src": term_src(rng, rng.choice([1, 2, 2, 3, 4])), "A": tabdef, "feat": None}
        else:
            cls = rng.choice(list(QNAMES))
            s, feat = query_src(rng, cls)
            yield {"kind": "query", "src": s, "A": tabdef, "feat": feat, "cls": cls}


def build(case, which):
    B = "T('tb')" if ".as_(" not in case["A"] else "T('tb').as_('bx')"
    env = {"A": ns.ev(case["A"]), "C": ns.ev("T('tc')"), "E": ns.ev("T('td')"), "B": ns.ev(B)}
    import pypika
    env["S"] = env["A"].for_(pypika.SYSTEM_TIME.as_of("2020-01-01"))
    env["P"] = env["A"].for_portion(pypika.SYSTEM_TIME.from_to("2020-01-01", "2021-01-01"))
    if which == "B":
        env["A"] = env["B"]
    return ns.ev(case["src"], env), env


def text(o):
    try:
        if isinstance(o, (ns.queries.QueryBuilder, ns.queries._SetOperation)):
            return str(o)
        return o.get_sql(with_namespace=True, quote_char='"', secondary_quote_char="'")
    except Exception as e:
        return "raises %s" % type(e).__name__


def examine(case):
    res = Result()
    case["recipe"] = "A = %s; %s" % (case["A"], case["src"])
    objA, envA = build(case, "A")
    objB, _ = build(case, "B")
    before = text(objA)
    try:
        rep = objA.replace_table(envA["A"], envA["B"])
        got = text(rep)
    except Exception as e:
        rep, got = None, "replace_table raises %s" % type(e).__name__
    after = text(objA)
    want = text(objB)
    nocc = case["src"].count("A.") + case["src"].count("(A)")
    res.nontrivial = nocc >= 2
    res.key = struct_hash([case["src"], case["A"]])
    res.tags = ["kind=" + case["kind"], "feat=%s" % case.get("feat")]
    sigfeat = case.get("feat") or ("query" if case["kind"] == "query" else "term")
    if got != want:
        res.findings.append({"sig": {"kind": "not-equal-to-rebuild", "shape": sigfeat},
                             "what": "replace_table gives %s, building with the other table gives %s | %s" % (got, want, case["recipe"])})
    if before != after:
        res.findings.append({"sig": {"kind": "original-changed", "shape": sigfeat},
                             "what": "the original rendered %s before and %s after replace_table | %s" % (before, after, case["recipe"])})
    # the model's replace_table (Lean `replaceT`, policy Pol.code) applied to the described ORIGINAL object must render
    # what the real replace_table result renders
    import re
    # (the model's table references carry the temporal version — `TRef.ver` — so its replaceT is asked about these too)
    if re.search(r"\b[SP]\b", case["src"]) is not None:
        res.tags.append("temporal-version")
    if rep is not None and not got.startswith("raises"):
        try:
            if isinstance(objA, ns.queries.QueryBuilder):
                kw0 = {"dialect": objA.dialect}
            elif isinstance(objA, ns.queries._SetOperation):
                kw0 = {}
            else:
                kw0 = {"with_namespace": True, "quote_char": '"', "secondary_quote_char": "'"}
            res.requests.append(({"op": "replace", "ctx": describe.d_ctx(kw0), "term": describe.describe(objA),
                                  "a": describe.d_tref(envA["A"]), "b": describe.d_tref(envA["B"])}, {"sql": got},
                                 "model replaceT(original) vs real replace_table"))
        except Unsupported as ex:
            res.skipped = str(ex)[:40]
    # the rebuilt object is also what the model renders
    if rep is not None and not got.startswith("raises"):
        try:
            if isinstance(rep, ns.queries.QueryBuilder):
                kw = {"dialect": rep.dialect}
            elif isinstance(rep, ns.queries._SetOperation):
                kw = {}
            else:
                kw = {"with_namespace": True, "quote_char": '"', "secondary_quote_char": "'"}
            res.requests.append(({"op": "render", "ctx": describe.d_ctx(kw), "term": describe.describe(rep)}, {"sql": got},
                                 "render(replace_table result)"))
        except Unsupported as ex:
            res.skipped = str(ex)[:40]
    return res
