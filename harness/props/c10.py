"""C10 Column references resolve to exactly the source they were bound to."""
import re

from harness import describe, gen, ns, sqlspec
from harness.describe import Unsupported
from harness.run import Result
from harness.common import struct_hash
from harness.ns import QNAMES

ID = "C10"
LEAN_MODULES = ["Pypika.Props.C10", "Pypika.Props.Builder", "Pypika.Props.BuilderNames"]
TRACE_BUILDER = True   # builder calls made by this check are also run through Pypika.B.step (harness/trace.py)
THEOREMS = ["Pypika.C10.nsName_alias", "Pypika.C10.nsName_name", "Pypika.C10.field_qualified", "Pypika.C10.alias_always",
            "Pypika.C10.field_bare", "Pypika.C10.wantsNamespace_iff", "Pypika.C10.statement_namespace",
            "Pypika.C10.schema_outermost_first", "Pypika.C10.invented_names_distinct", "Pypika.C10.invented_names_distinct_calls",
            # concrete builder model (Builder.lean, tied call by call through harness/trace.py)
            "Pypika.B.from_tags", "Pypika.B.from_keeps_given_alias", "Pypika.B.from_table_no_tag",
            "Pypika.B.join_tags", "Pypika.B.step_tags", "Pypika.B.namesGiven_eq_tagCalls", "Pypika.B.names_given_distinct"]
AGREE = ["Pypika.Agree.class_quotes"]
TRUSTED = ["column names of the generator encode the source they are bound to (c_<source>_<i>), so the qualifier of every "
           "occurrence in the implementation's text can be compared with that source's in-statement name"]
RULE = ("statements with 2-4 row sources (tables with/without alias and schema, sub-queries with explicit or invented alias, "
        "correlated sub-queries, UPDATE..FROM / UPDATE..JOIN), columns used in select, WHERE, HAVING, GROUP/ORDER BY, ON, "
        "function arguments and CASE; any from_/join order; sub-query objects reused across statements; non-trivial = >= 3 "
        "qualified occurrences from >= 2 sources; distinct by script")


def counts(tier):
    return 2500 if tier == "quick" else 50000


class S:
    """a row source in the script"""

    def __init__(self, var, name_in_stmt, kind, table=None, schema=()):
        self.var, self.name, self.kind = var, name_in_stmt, kind
        self.table, self.schema = table, tuple(schema)      # as written in the script: the table's own name and prefix chain

    def col(self, i):
        return "%s.c_%s_%d" % (self.var, self.var, i)


def make(rng, cls_name):
    qn = QNAMES[cls_name]
    lines = []
    srcs = []
    nv = [0]
    nsq = [0]

    def new_table():
        nv[0] += 1
        v = "t%d" % nv[0]
        base = rng.choice(["t", "u", "v", "w"])
        x = rng.random()
        if x < 0.45:
            lines.append("%s = T(%r)" % (v, base + str(nv[0])))
            return S(v, base + str(nv[0]), "table", base + str(nv[0]))
        if x < 0.75:
            lines.append("%s = T(%r).as_(%r)" % (v, base, "a" + str(nv[0])))
            return S(v, "a" + str(nv[0]), "table", base)
        if x < 0.9:
            lines.append("%s = T(%r, schema=%r)" % (v, base + str(nv[0]), "sc"))
            return S(v, base + str(nv[0]), "table", base + str(nv[0]), ("sc",))
        if rng.random() < 0.5:
            # three levels given as a sequence (the back-compat form of schema=): every level is kept, outermost first
            lines.append("%s = T(%r, schema=('srv', 'db', 'sc'))" % (v, base + str(nv[0])))
            return S(v, base + str(nv[0]), "table", base + str(nv[0]), ("srv", "db", "sc"))
        lines.append("%s = T(%r, schema=('db', 'sc')).as_(%r)" % (v, base, "b" + str(nv[0])))
        return S(v, "b" + str(nv[0]), "table", base, ("db", "sc"))

    def new_sub():
        inner = new_table()
        inner2 = new_table()
        nv[0] += 1
        v = "s%d" % nv[0]
        sel = ", ".join("%s.as_('c_%s_%d')" % (inner.col(i), v, i) for i in range(3))
        body = "%s.from_(%s).join(%s).on(%s == %s).select(%s)" % (qn, inner.var, inner2.var, inner.col(0), inner2.col(0), sel)
        if rng.random() < 0.5:
            lines.append("%s = %s.as_(%r)" % (v, body, "sub" + str(nv[0])))
            return S(v, "sub" + str(nv[0]), "sub"), [inner, inner2]
        lines.append("%s = %s" % (v, body))
        return S(v, None, "sub"), [inner, inner2]       # name invented at from_/join time

    n = rng.randint(2, 4)
    inner_srcs = []
    for _ in range(n):
        if rng.random() < 0.25:
            s, ins = new_sub()
            inner_srcs += ins
        else:
            s = new_table()
        srcs.append(s)
    pool = [s.col(i) for s in srcs for i in range(3)]
    g = gen.G(rng, tables=False, allow_shift=False)
    g.field = lambda: rng.choice(pool)
    kind = rng.choice(["select", "select", "select", "update_from", "update_join", "correlated"])
    chain = ""
    order = list(range(1, n))
    if kind == "select":
        head = "%s.from_(%s)" % (qn, srcs[0].var)
        for i in order:
            s = srcs[i]
            if rng.random() < 0.4:
                head += ".from_(%s)" % s.var
            else:
                how = rng.choice(["inner", "left", "right", "outer", "cross"])
                if how == "cross":
                    head += ".join(%s, JoinType.cross).cross()" % s.var
                else:
                    prev = srcs[rng.randrange(0, i)]
                    avail = [x.col(k) for x in srcs[:i + 1] for k in range(3)]
                    g2 = gen.G(rng, tables=False, allow_shift=False)
                    g2.field = lambda: rng.choice(avail)
                    head += ".join(%s, JoinType.%s).on((%s == %s)%s)" % (
                        s.var, how, prev.col(0), s.col(0), (" & " + g2.crit(1)) if rng.random() < 0.3 else "")
        sel = [rng.choice(pool) for _ in range(rng.randint(1, 3))] + ["fn.Sum(%s)" % rng.choice(pool)]
        if rng.random() < 0.5:
            sel.append("Case().when(%s, %s).else_(%s)" % (g.crit(1), rng.choice(pool), rng.choice(pool)))
        if rng.random() < 0.3:
            sel.append("fn.Coalesce(%s, %s)" % (rng.choice(pool), g.num(1)))
        parts = [".select(%s)" % ", ".join(sel)]
        if rng.random() < 0.7:
            parts.append(".where(%s)" % g.crit(2))
        if rng.random() < 0.5:
            parts.append(".groupby(%s)" % rng.choice(pool))
            if rng.random() < 0.6:
                parts.append(".having(fn.Max(%s) > %s)" % (rng.choice(pool), rng.choice(pool)))
        if rng.random() < 0.5:
            parts.append(".orderby(%s)" % rng.choice(pool))
        rng.shuffle(parts)
        lines.append("q = %s%s" % (head, "".join(parts)))
    elif kind == "update_from":
        t0 = next((s for s in srcs if s.kind == "table"), srcs[0])
        others = [s for s in srcs if s is not t0]
        if t0.kind != "table":
            return None
        head = "%s.update(%s)" % (qn, t0.var)
        for s in others:
            head += ".from_(%s)" % s.var
        head += ".set(%s, %s)" % (t0.col(1), others[0].col(1))
        head += ".where(%s == %s)" % (t0.col(0), others[0].col(0))
        if cls_name == "postgresql" and rng.random() < 0.7:
            # RETURNING a column given by name: it is a column of the UPDATE target, whatever else is in scope
            head += ".returning('c_%s_2')" % t0.var
        lines.append("q = %s" % head)
    elif kind == "update_join":
        t0 = next((s for s in srcs if s.kind == "table"), None)
        if t0 is None:
            return None
        others = [s for s in srcs if s is not t0]
        head = "%s.update(%s)" % (qn, t0.var)
        for s in others:
            head += ".join(%s).on(%s == %s)" % (s.var, t0.col(0), s.col(0))
        head += ".set(%s, %s).where(%s > 1)" % (t0.col(1), others[0].col(1), others[-1].col(2))
        if cls_name == "postgresql" and rng.random() < 0.7:
            head += ".returning('c_%s_2', %s)" % (t0.var, t0.col(0))
        lines.append("q = %s" % head)
    else:
        # correlated sub-query: the inner block has ONE source of its own and refers to the outer one
        outer, inner = srcs[0], srcs[1]
        if outer.kind != "table" or inner.kind != "table":
            return None
        form = rng.choice(["exists", "in", "scalar"])
        innerq = "%s.from_(%s).select(%s).where(%s == %s)" % (qn, inner.var, inner.col(1), inner.col(0), outer.col(0))
        if rng.random() < 0.5:
            innerq += ".where(%s > 0)" % inner.col(2)      # a later, purely local filter
        if form == "exists":
            w = "ExistsCriterion(%s)" % innerq
        elif form == "in":
            w = "%s.isin(%s)" % (outer.col(1), innerq)
        else:
            w = "(%s > %s)" % (outer.col(1), innerq)
        lines.append("q = %s.from_(%s).select(%s).where(%s)" % (qn, outer.var, outer.col(2), w))
        srcs = [outer, inner]
    return "\n".join(lines), srcs + inner_srcs, kind


def generate(rng, n, tier):
    classes = list(QNAMES)
    i = 0
    while i < n:
        cls = rng.choice(classes)
        m = make(rng, cls)
        if m is None:
            continue
        i += 1
        script, srcs, kind = m
        yield {"script": script, "cls": cls, "kind": kind, "sources": [[s.var, s.name, s.kind] for s in srcs],
               "tables": [[s.table, list(s.schema)] for s in srcs if s.kind == "table" and s.table]}
    # the same table twice in one statement (a second Table object of the same name, no alias): the two row sources
    # need different in-statement names, in SELECT, UPDATE … JOIN and DELETE alike
    for j in range(max(30, n // 40)):
        cls = rng.choice(classes)
        qn = QNAMES[cls]
        sch = rng.choice(["", "", ", schema='sc'"])
        lines = ["t1 = T('emp'%s)" % sch, "t2 = T('emp'%s)" % sch]
        how = rng.choice([".on(t1.c_t1_0 == t2.c_t2_1)", ".on((t1.c_t1_0 == t2.c_t2_1) & (t2.c_t2_2 > 1))", ".cross()"])
        form = rng.choice(["select", "select", "update", "update", "select_where"])
        if form == "select":
            lines.append("q = %s.from_(t1).join(t2)%s.select(t1.c_t1_0, t2.c_t2_0, t2.c_t2_2)" % (qn, how))
        elif form == "select_where":
            lines.append("q = %s.from_(t1).select(t1.c_t1_0).join(t2, JoinType.left)%s.where(t2.c_t2_2 == t1.c_t1_2).select(t2.c_t2_0)" % (qn, how))
        else:
            lines.append("q = %s.update(t1).join(t2)%s.set(t1.c_t1_1, t2.c_t2_1).where(t2.c_t2_0 > t1.c_t1_0)" % (qn, how))
        yield {"script": "\n".join(lines), "cls": cls, "kind": "update_join" if form == "update" else "self-join",
               "sources": [["t1", "emp", "table"], ["t2", "emp", "table"]], "tables": []}
    # several un-aliased sub-queries in one FROM / JOIN list, some of them containing un-aliased sub-queries themselves
    # (their own counter is non-zero): the invented names of one list must be pairwise distinct
    for j in range(max(40, n // 25)):
        cls = rng.choice(classes)
        qn = QNAMES[cls]
        lines = ["t0 = T('base')"]
        k = rng.randint(2, 4)
        subs = []
        setops = set()
        for i in range(1, k + 1):
            depth = rng.choice([0, 0, 1, 1, 2])
            lines.append("t%d = T('tab%d')" % (i, i))
            body = "%s.from_(t%d).select(t%d.c_t%d_0.as_('k%d'))" % (qn, i, i, i, i)
            for dpt in range(depth):
                lines.append("n%d_%d = %s" % (i, dpt, body))
                body = "%s.from_(n%d_%d).select(n%d_%d.k%d.as_('k%d'))" % (qn, i, dpt, i, dpt, i, i)
            lines.append("s%d = %s.from_(t%d).select(t%d.c_t%d_0.as_('c_s%d_0'))" % (i, qn, i, i, i, i) if depth == 0 else
                         "s%d = %s" % (i, body.replace(".as_('k%d'))" % i, ".as_('c_s%d_0'))" % i)))
            if rng.random() < 0.3:
                # an un-aliased set operation as a row source: it carries no counter of its own, the statement's counter
                # names it (from_ only: join() does not take set operations)
                lines[-1] = lines[-1].replace("s%d = " % i, "o%d = " % i, 1)
                lines.append("s%d = o%d.%s(%s.from_(t%d).select(t%d.c_t%d_1))" % (i, i, rng.choice(["union", "union_all", "intersect"]), qn, i, i, i))
                setops.add("s%d" % i)
            subs.append("s%d" % i)
        order = subs[:]
        rng.shuffle(order)
        head = "%s.from_(%s)" % (qn, order[0])
        tagcalls = [["from", order[0]]]
        for sname in order[1:]:
            if sname in setops or rng.random() < 0.5:
                head += ".from_(%s)" % sname
                tagcalls.append(["from", sname])
            else:
                head += ".join(%s).on(%s.c_%s_0 == %s.c_%s_0)" % (sname, sname, sname, order[0], order[0])
                tagcalls.append(["join", sname])
        head += ".select(%s)" % ", ".join("%s.c_%s_0" % (x, x) for x in subs)
        lines.append("q = " + head)
        yield {"script": "\n".join(lines), "cls": cls, "kind": "nested-sub", "sources": [[x, None, "sub"] for x in subs],
               "tagcalls": tagcalls}
    # sub-query objects reused across statements
    for j in range(max(20, n // 50)):
        cls = rng.choice(classes)
        qn = QNAMES[cls]
        script = ("t1 = T('t1')\nt2 = T('t2')\ns1 = %s.from_(t1).select(t1.c_t1_0.as_('c_s1_0'))\n"
                  "s2 = %s.from_(t2).select(t2.c_t2_0.as_('c_s2_0'))\n"
                  "q0 = %s.from_(s1).select(s1.c_s1_0)\n"
                  "q = %s.from_(s2).join(s1).on(s1.c_s1_0 == s2.c_s2_0).select(s1.c_s1_0, s2.c_s2_0)" % (qn, qn, qn, qn))
        yield {"script": script, "cls": cls, "kind": "reuse",
               "sources": [["s1", None, "sub"], ["s2", None, "sub"]]}


def examine(case):
    res = Result()
    src = case["script"]
    case["recipe"] = src
    env = ns.ex(src)
    q = env["q"]
    text = str(q)
    res.key = struct_hash(src)
    res.tags = ["kind=" + case["kind"], "cls=" + case["cls"]]

    def F(kind, what):
        res.findings.append({"sig": {"kind": kind, "stmt": case["kind"]}, "what": what + " | " + text})

    try:
        res.requests.append(({"op": "render", "ctx": describe.d_ctx({"dialect": q.dialect}), "term": describe.describe(q)},
                             {"sql": text}, "str(statement)"))
    except Unsupported as ex:
        res.skipped = str(ex)[:40]
    # qualification does not depend on how the data values are passed: with a parameter collector the statement has the
    # same identifiers (qualifiers included), in the same order
    try:
        ptext = q.get_sql(parameter=ns.QmarkParameter())
        ids_inline = [(t.val, t.quote) for t in sqlspec.lex(text, ident_quotes='"`') if t.kind == "id"]
        ids_param = [(t.val, t.quote) for t in sqlspec.lex(ptext, ident_quotes='"`') if t.kind == "id"]
        # boolean / null words are data under a collector
        drop = {("true", None), ("false", None), ("null", None)}
        if [x for x in ids_inline if x not in drop] != [x for x in ids_param if x not in drop]:
            F("qualification-differs-with-collector", "with a parameter collector the identifiers differ: %s" % ptext)
    except sqlspec.LexError:
        pass
    if case.get("tagcalls"):
        # the invented names against the model's numbering rule (Lean `C10.tagCalls`, proved pairwise distinct)
        calls = [{"k": k, "sub": env[v].__dict__.get("_subquery_count", 0)} for k, v in case["tagcalls"]]
        res.requests.append(({"op": "tagcalls", "count": 0, "calls": calls}, {"names": [env[v].alias for _, v in case["tagcalls"]]},
                             "invented names of from_/join calls"))
    try:
        toks = sqlspec.lex(text, ident_quotes='"`')
    except sqlspec.LexError as ex:
        F("lex", "unlexable: %s" % ex)
        return res
    names = {}
    for var, name, kind in case["sources"]:
        obj = env[var]
        names[var] = obj.alias if getattr(obj, "alias", None) else (name if kind == "table" else obj.alias)
    # different row sources of the generated statements never share an in-statement name: a reference qualified by a name
    # that two sources carry resolves to neither of them in particular
    byname = {}
    kinds = {var: kind for var, _, kind in case["sources"]}
    for var, nm in names.items():
        if kinds.get(var) == "table":       # invented sub-query names have their own check (and listed finding) below
            byname.setdefault(nm, []).append(var)
    dup = {nm: vs for nm, vs in byname.items() if nm is not None and len(vs) > 1}
    if dup:
        F("sources-share-a-name", "row sources %s are all called %r in the statement" % (sorted(dup.values())[0], sorted(dup)[0]))
        return res
    nq = 0
    srcs_seen = set()
    depth_at = []
    d = 0
    for t in toks:
        if t.kind == "p" and t.val == "(":
            d += 1
        elif t.kind == "p" and t.val == ")":
            d -= 1
        depth_at.append(d)
    for i, t in enumerate(toks):
        if t.kind != "id":
            continue
        if case["kind"] == "correlated" and depth_at[i] == 0:
            continue        # the outer block has a single un-aliased source: its own columns need no qualifier
        m = re.fullmatch(r"c_([a-z]\d+)_\d+", t.val)
        if not m:
            continue
        var = m.group(1)
        if var not in names:
            continue
        # alias definitions of sub-query select lists (c_s1_0 as an alias) are not references
        prev = toks[i - 1] if i > 0 else None
        is_def = prev is not None and ((prev.kind == "kw" and prev.val == "AS") or
                                       (not (prev.kind == "p" and prev.val in (".", ",", "(")) and prev.kind not in ("kw", "op")))
        if is_def:
            continue
        # SET left-hand sides are never namespaced by documented design
        if prev is not None and prev.kind == "p" and prev.val == "." and i >= 2 and toks[i - 2].kind == "id":
            qual = toks[i - 2].val
            if qual != names[var]:
                F("wrong-qualifier", "column %s bound to %s is qualified by %r, its in-statement name is %r" % (t.val, var, qual, names[var]))
                return res
            nq += 1
            srcs_seen.add(var)
            # schema prefixes belong to the table in FROM only
            if i >= 4 and toks[i - 3].kind == "p" and toks[i - 3].val == "." and toks[i - 4].kind == "id" and toks[i - 4].val in ("sc", "db", "srv"):
                F("schema-on-column", "column reference carries a schema prefix")
        else:
            setlhs = prev is not None and ((prev.kind == "kw" and prev.val in ("SET", "UPDATE")) or (prev.kind == "p" and prev.val == ","))
            nxt = toks[i + 1] if i + 1 < len(toks) else None
            if setlhs and nxt is not None and nxt.kind == "op" and nxt.val == "=" and case["kind"].startswith("update"):
                continue
            F("unqualified", "column %s bound to %s is not qualified in a statement with several row sources" % (t.val, var))
            return res
    # schema / database prefixes: each table source appears once with its complete prefix chain, outermost first
    for tname, chain in case.get("tables", []):
        want = []
        for x in chain:
            want += [x, "."]
        want.append(tname)
        if not any(t.kind == "id" and t.val == tname for t in toks):
            continue            # a generated table that this statement does not use
        if sum(1 for x, _ in case["tables"] if x == tname) > 1:
            continue            # the same base name under several aliases / schemas: occurrences cannot be told apart
        found = False
        for i, t in enumerate(toks):
            if t.kind == "id" and t.val == tname and [x.val for x in toks[max(0, i - len(want) + 1):i + 1]] == want:
                before = toks[i - len(want)] if i - len(want) >= 0 else None
                if not (before is not None and before.kind == "p" and before.val == "."):
                    found = True
                    break
        if not found:
            F("schema-prefix", "table %s is not written with its prefix chain %s" % (tname, ".".join(chain + [tname])))
            break
    res.nontrivial = nq >= 3 and len(srcs_seen) >= 2
    # invented names are pairwise distinct within the statement
    inv = []
    # the scope of a name definition = the parenthesis group that encloses it (the statement block it is a source of)
    stack, scope_at = [-1], []
    for i, t in enumerate(toks):
        if t.kind == "p" and t.val == ")":
            stack.pop() if len(stack) > 1 else None
        scope_at.append(stack[-1])
        if t.kind == "p" and t.val == "(":
            stack.append(i)
    for i, t in enumerate(toks):
        if t.kind == "id" and re.fullmatch(r"sq\d+", t.val):
            prev = toks[i - 1] if i > 0 else None
            if prev is not None and prev.kind == "p" and prev.val == ")":
                inv.append((scope_at[i], t.val))
            elif prev is not None and prev.kind == "kw" and prev.val == "AS" and i >= 2 and toks[i - 2].kind == "p" and toks[i - 2].val == ")":
                inv.append((scope_at[i], t.val))
    if len(inv) != len(set(inv)):
        # two sources of ONE FROM / JOIN list with the same invented name: references to it are ambiguous
        F("duplicate-invented-name", "invented sub-query names are not distinct: %s" % [x[1] for x in inv])
    elif len({x[1] for x in inv}) != len(inv):
        # the same invented name in two different blocks of one statement (each block counts from its own nesting)
        res.findings.append({"sig": {"kind": "invented-name-reused-across-blocks"},
                             "what": "an invented sub-query name occurs in two different blocks of one statement: %s | %s"
                                     % ([x[1] for x in inv], text)})
    return res
