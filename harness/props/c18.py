"""C18 Function, aggregate and window wrappers render every part, once, in order."""
import enum
import inspect

from harness import describe, ns, sqlspec
from harness.describe import Unsupported
from harness.run import Result
from harness.common import struct_hash

ID = "C18"
LEAN_MODULES = ["Pypika.Props.C18", "Pypika.Props.Builder", "Pypika.TermFrame"]
TRACE_BUILDER = True   # function / CASE builder calls are also run through Pypika.B.stepT (harness/trace.py)
THEOREMS = ["Pypika.C18.edge_reads_back", "Pypika.C18.unbounded_iff", "Pypika.C18.renderL_eq_map",
            "Pypika.C18.renderL_length", "Pypika.C18.plain_layout", "Pypika.C18.full_layout",
            # term-level builders (Builder.lean stepT, tied call by call through harness/trace.py)
            "Pypika.B.filter_filter", "Pypika.B.filter_is_all", "Pypika.B.over_accumulates", "Pypika.B.orderby_accumulates", "Pypika.B.filter_over_commute", "Pypika.B.over_orderby_commute", "Pypika.B.when_appends", "Pypika.B.else_last_wins", "Pypika.B.when_else_commute",
            "Pypika.B.stepT_frame_func", "Pypika.B.stepT_frame_case"]
AGREE = ["Pypika.Agree.edges", "Pypika.Agree.term_writes_agree"]
TRUSTED = ["the reference layout NAME([DISTINCT ]args[ special]) [FILTER(WHERE c)] [OVER([PARTITION BY ..][ ORDER BY ..][ frame])] "
           "as the reading of the prose property"]
RULE = ("every Function subclass discovered in pypika.functions / pypika.analytics / pypika.terms, built with distinguishable "
        "sentinel arguments, x every subset of its optional clauses (distinct, filter, over, orderby, frame, ignore_nulls) x "
        "frame bounds {none, 0, 1, 2, 10, 10^6} x {ROWS, RANGE} x one/two edges (exhaustive in both tiers), plus nested and "
        "in-statement uses; non-trivial = at least one argument or optional clause; distinct by (class, clauses, bounds)")

BOUNDS = [None, 0, 1, 2, 10, 1000000, 2.5, 0.5]   # RANGE frames take fractional offsets; the model's edges are naturals (those cases: oracle only)


class Enc(enum.Enum):
    utf8 = "utf8"


def discover():
    from pypika import functions as fn, analytics as an, terms as T
    seen, out = set(), []
    for mod in (T, fn, an):
        for name, c in vars(mod).items():
            if inspect.isclass(c) and issubclass(c, T.Function) and c.__module__ == mod.__name__ and c not in seen:
                seen.add(c)
                out.append(("%s.%s" % ({"pypika.terms": "terms", "pypika.functions": "fn", "pypika.analytics": "an"}[mod.__name__], name), c))
    return sorted(out, key=lambda x: x[0])


SPECIAL_ARGS = {
    "fn.Cast": ["F('s1')", "'INTEGER'"], "fn.Convert": ["F('s1')", "Enc.utf8"], "fn.Extract": ["'year'", "F('s1')"],
    "fn.ApproximatePercentile": ["F('s1')", "0.5"], "fn.DateAdd": ["'day'", "F('s1')", "F('s2')"],
    "fn.TimestampAdd": ["'day'", "F('s1')", "F('s2')"], "fn.DateDiff": ["'day'", "F('s1')", "F('s2')"],
    "fn.ToChar": ["F('s1')", "'YYYY'"], "fn.Count": ["F('s1')"],
    "terms.Function": ["'MYFN'", "F('s1')", "F('s2')"], "terms.AggregateFunction": ["'MYAGG'", "F('s1')"],
    "terms.AnalyticFunction": ["'MYAN'", "F('s1')"], "terms.WindowFrameAnalyticFunction": ["'MYWIN'", "F('s1')"],
    "terms.IgnoreNullsAnalyticFunction": ["'MYIGN'", "F('s1')"], "terms.Pow": ["F('s1')", "2"], "terms.Mod": ["F('s1')", "3"],
    "fn.DistinctOptionFunction": ["'MYDIST'", "F('s1')"],
}


def ctor_args(name, c):
    if name in SPECIAL_ARGS:
        return SPECIAL_ARGS[name]
    sig = inspect.signature(c.__init__)
    args = []
    i = 0
    for pn, p in list(sig.parameters.items())[1:]:
        if pn in ("alias",) or p.kind == p.VAR_KEYWORD:
            continue
        if p.kind == p.VAR_POSITIONAL:
            args += ["F('s%d')" % (i + 1), "F('s%d')" % (i + 2)]
            i += 2
        elif p.default is inspect.Parameter.empty:
            i += 1
            args.append("F('s%d')" % i)
    return args


_CAT = None


def catalogue():
    global _CAT
    if _CAT is None:
        _CAT = []
        for name, c in discover():
            args = ctor_args(name, c)
            src = "%s(%s)" % (name, ", ".join(args))
            try:
                obj = ns.ev(src, {"Enc": Enc})
            except Exception as e:
                _CAT.append((name, None, "cannot construct: %s" % e))
                continue
            _CAT.append((name, src, c))
    return _CAT


def counts(tier):
    return 600 if tier == "quick" else 8000


def clause_space(c):
    from pypika import functions as fn, terms as T
    opts = []
    if issubclass(c, fn.DistinctOptionFunction):
        opts.append("distinct")
    if issubclass(c, T.AggregateFunction):
        opts.append("filter")
    if issubclass(c, T.AnalyticFunction):
        opts += ["over", "orderby"]
    if issubclass(c, T.WindowFrameAnalyticFunction):
        opts.append("frame")
    if issubclass(c, T.IgnoreNullsAnalyticFunction):
        opts.append("ignore_nulls")
    return opts


def generate(rng, n, tier):
    cat = catalogue()
    for name, src, c in cat:
        if src is None:
            yield {"cls": name, "src": None, "clauses": [], "note": c}
            continue
        opts = clause_space(c)
        for mask in range(1 << len(opts)):
            cl = [o for i, o in enumerate(opts) if mask >> i & 1]
            if "frame" in cl:
                frames = []
                for kind in ("rows", "range"):
                    for lo in BOUNDS:
                        frames.append([kind, ["preceding", lo], None])
                    for lo in (None, 0, 2):
                        for hi in (None, 0, 10):
                            frames.append([kind, ["preceding", lo], ["following", hi]])
                    frames.append([kind, ["current"], ["following", 1]])
                    frames.append([kind, ["preceding", 3], ["current"]])
                if mask != (1 << len(opts)) - 1 and tier == "quick":
                    frames = frames[::5]
                for fr in frames:
                    yield {"cls": name, "src": src, "clauses": cl, "frame": fr}
            else:
                yield {"cls": name, "src": src, "clauses": cl}
                if "orderby" in cl:
                    yield {"cls": name, "src": src, "clauses": cl, "ob_same": True}
                if "filter" in cl:
                    # a FILTER member that is an OR: the members are conjoined as criteria (the OR keeps its brackets)
                    yield {"cls": name, "src": src, "clauses": cl, "filter_or": True}
    # OVER() with nothing to partition by: the window clause and a frame must still be rendered
    for name, src, c in cat:
        if src is None:
            continue
        opts = clause_space(c)
        if "over" not in opts:
            continue
        rest = [o for o in opts if o not in ("over", "frame")]
        for mask in range(1 << len(rest)):
            cl = ["over_empty"] + [o for i, o in enumerate(rest) if mask >> i & 1]
            yield {"cls": name, "src": src, "clauses": cl}
            if "frame" in opts:
                for fr in (["rows", ["preceding", 2], ["current"]], ["range", ["preceding", None], None], ["rows", ["preceding", 0], ["following", 0]]):
                    yield {"cls": name, "src": src, "clauses": cl + ["frame"], "frame": fr}
    # constant arguments, falsy ones included (0, 0.0, '', False, Decimal zero): every argument given is rendered, in place
    CONSTS = ["0", "0.0", "''", "False", "D('0')", "1", "'x'", "None"]
    for name, src, c in cat:
        if src is None or name in SPECIAL_ARGS:
            continue
        args = ctor_args(name, c)
        sig = inspect.signature(c.__init__)
        variadic = any(p.kind == p.VAR_POSITIONAL for p in sig.parameters.values())
        # optional positional parameters (offset / default of LAG, …) are exercised as well
        optional = [pn for pn, p in list(sig.parameters.items())[1:] if p.kind == p.POSITIONAL_OR_KEYWORD and
                    p.default is not inspect.Parameter.empty and pn != "alias"]
        room = 2 if variadic else len(optional)
        if len(args) + room < 2:
            continue
        for k in range(3):
            given = list(args)
            extra = [rng.choice(CONSTS) for _ in range(room)]
            if variadic:
                given = given[:1] + extra + given[1:2] if rng.random() < 0.5 else given[:1] + extra
            else:
                given = given + extra[:rng.randint(1, room)] if room else given
                if not room:
                    given = given[:1] + [rng.choice(CONSTS) for _ in given[1:]]
            yield {"cls": name, "src": "%s(%s)" % (name, ", ".join(given)), "clauses": [], "given_args": given}
    # nested / in-statement uses
    good = [(nm, s, c) for nm, s, c in cat if s is not None]
    for _ in range(n):
        nm, s, c = rng.choice(good)
        nm2, s2, c2 = rng.choice(good)
        yield {"cls": nm, "src": s, "clauses": [o for o in clause_space(c) if rng.random() < 0.5],
               "frame": [rng.choice(["rows", "range"]), ["preceding", rng.choice(BOUNDS)],
                         rng.choice([None, ["following", rng.choice(BOUNDS)]])],
               "nest": s2, "alias": rng.random() < 0.5, "stmt": rng.choice([None, "select", "where"])}


def edge_src(e):
    if e[0] == "current":
        return "an.CURRENT_ROW"
    return "an.%s(%s)" % ("Preceding" if e[0] == "preceding" else "Following", "" if e[1] is None else e[1])


def edge_text(e):
    if e[0] == "current":
        return "CURRENT ROW"
    word = "PRECEDING" if e[0] == "preceding" else "FOLLOWING"
    return "%s %s" % ("UNBOUNDED" if e[1] is None else e[1], word)


def build(case, parts=False):
    """the source text of the wrapper (parts=True: the bare wrapper and the chained calls separately)"""
    src = case["src"]
    if case.get("nest"):
        # replace the first sentinel argument by a nested wrapper call
        import re as _re
        src = src.replace("F('s1')", _re.sub(r"F\('s(\d+)'\)", r"F('n\1')", case["nest"]), 1)   # every sentinel of the nested wrapper is renamed
    cl = case["clauses"]
    chain = ""
    if "distinct" in cl:
        chain += ".distinct()"
    if "filter" in cl and case.get("filter_or"):
        chain += ".filter((F('fa') > 1) | (F('fc') == 2), F('fb').isnull())"
    elif "filter" in cl:
        chain += ".filter(F('fa') > 1, F('fb').isnull())"
    if "over" in cl:
        chain += ".over(F('p1'), F('p2'))"
    if "over_empty" in cl:
        chain += ".over()"
    if "orderby" in cl:
        # (with `ob_same` both calls give the same direction: each call still adds its key)
        chain += ".orderby(F('o1')).orderby(F('o2'))" if case.get("ob_same") else ".orderby(F('o1'), order=Order.desc).orderby(F('o2'))"
    if "frame" in cl:
        kind, lo, hi = case["frame"]
        chain += ".%s(%s%s)" % (kind, edge_src(lo), "" if hi is None else ", " + edge_src(hi))
    if "ignore_nulls" in cl:
        chain += ".ignore_nulls()"
    if case.get("alias"):
        chain += ".as_('al')"
    if parts:
        return src, chain
    return src + chain


def reference(obj, case):
    """the layout the property describes, composed from the stand-alone renderings of the parts"""
    from pypika import functions as fn
    kw = {"quote_char": '"'}
    argkw = dict(kw, with_alias=False, subquery=True)
    if case.get("given_args"):
        # from the arguments as GIVEN (a constant is the literal of its value), not from what the constructor kept
        args = ",".join(ns.ev(a if a.startswith("F(") else "VW(%s)" % a if a != "None" else "NullValue()").get_sql(**argkw)
                        for a in case["given_args"])
    else:
        args = ",".join(a.get_sql(**argkw) if hasattr(a, "get_sql") else str(a) for a in obj.args)
    if isinstance(obj, fn.CurTimestamp):
        core = obj.name
    else:
        special = ""
        if isinstance(obj, fn.Extract):
            special = " FROM " + obj.field.get_sql(**kw)
        else:
            sp = obj.get_special_params_sql(**kw)
            if sp:
                special = " " + sp
        cl = case["clauses"]
        if "ignore_nulls" in cl and " IGNORE NULLS" not in special:
            special = " IGNORE NULLS"
        core = "%s(%s%s%s)" % (obj.name, "DISTINCT " if "distinct" in cl else "", args, special)
    cl = case["clauses"]
    out = core
    if "filter" in cl and case.get("filter_or"):
        out += " FILTER(WHERE (\"fa\">1 OR \"fc\"=2) AND \"fb\" IS NULL)"
    elif "filter" in cl:
        out += " FILTER(WHERE \"fa\">1 AND \"fb\" IS NULL)"
    if "over" in cl or "orderby" in cl or "over_empty" in cl:
        parts = []
        if "over" in cl:
            parts.append('PARTITION BY "p1","p2"')
        if "orderby" in cl:
            parts.append('ORDER BY "o1","o2"' if case.get("ob_same") else 'ORDER BY "o1" DESC,"o2"')
        body = " ".join(parts)
        if "frame" in cl:
            kind, lo, hi = case["frame"]
            fr = "%s %s" % (kind.upper(), edge_text(lo)) if hi is None else "%s BETWEEN %s AND %s" % (kind.upper(), edge_text(lo), edge_text(hi))
            body = body + " " + fr
        out += " OVER(%s)" % body
    return out


def examine(case):
    res = Result()
    if case["src"] is None:
        res.findings.append({"sig": {"kind": "catalogue", "cls": case["cls"]}, "what": "wrapper %s: %s" % (case["cls"], case.get("note"))})
        return res
    src = build(case)
    case["recipe"] = src
    cl = case["clauses"]
    if "frame" in cl and "over" not in cl and "orderby" not in cl:
        pass
    try:
        obj = ns.ev(src, {"Enc": Enc})
    except TypeError:
        if case.get("given_args"):
            return res          # the constructor does not take that many positional arguments
        raise
    except AttributeError as e:
        # rows()/range() twice etc. are not generated; any other construction failure is a harness problem
        raise
    res.key = struct_hash([case["cls"], cl, case.get("frame") if "frame" in cl else None, case.get("nest"), case.get("stmt"), case.get("given_args"), bool(case.get("filter_or")), bool(case.get("ob_same"))])
    res.nontrivial = bool(obj.args) or bool(cl)
    res.tags = ["cls=" + case["cls"].split(".")[0], "nclauses=%d" % len(cl)] + ["has=" + c for c in cl]
    kw = {"quote_char": '"'}
    text = obj.get_sql(**kw)

    def F(kind, what):
        res.findings.append({"sig": {"kind": kind, "cls": case["cls"]}, "what": what + " | " + src})

    # frames without OVER are rendered only inside OVER(...): skip the structural comparison there
    frame_without_over = "frame" in cl and not ("over" in cl or "orderby" in cl or "over_empty" in cl)
    if not frame_without_over:
        ref = reference(obj, case)
        if text != ref:
            F("layout", "renders %s but the parts compose to %s" % (text, ref))
    else:
        if text != reference(obj, dict(case, clauses=[c for c in cl if c != "frame"])):
            F("layout", "frame without OVER changed the text: %s" % text)
    # the parts of a wrapper are the ones IT was given: a sibling derived from the same bare wrapper adds nothing to it
    if any(c in cl for c in ("filter", "over", "over_empty", "orderby")):
        s0, chain = build(case, parts=True)
        bare = ns.ev(s0, {"Enc": Enc})
        first = ns.ev("b" + chain, {"b": bare, "Enc": Enc})
        t_first = first.get_sql(**kw)
        sib_chain = ""
        if "filter" in cl:
            sib_chain += ".filter(F('zz') > 9)"
        if "over" in cl or "over_empty" in cl:
            sib_chain += ".over(F('zp'))"
        if "orderby" in cl:
            sib_chain += ".orderby(F('zo'))"
        ns.ev("b" + sib_chain, {"b": bare, "Enc": Enc})
        second = ns.ev("b" + chain, {"b": bare, "Enc": Enc})
        if t_first != text or first.get_sql(**kw) != text or second.get_sql(**kw) != text:
            F("foreign-part", "a wrapper derived from a shared bare wrapper renders parts it was not given: %s / %s, expected %s"
              % (first.get_sql(**kw), second.get_sql(**kw), text))
    # token-level: one balanced group after the name, every sentinel exactly once
    try:
        toks = sqlspec.lex(text)
    except sqlspec.LexError as e:
        F("lex", "unlexable: %s: %s" % (e, text))
        return res
    depth = 0
    for t in toks:
        if t.kind == "p" and t.val == "(":
            depth += 1
        elif t.kind == "p" and t.val == ")":
            depth -= 1
            if depth < 0:
                break
    if depth != 0:
        F("balance", "unbalanced parentheses: %s" % text)
    sentinels = set()
    for a in obj.args:
        if isinstance(a, ns.Field) and a.name.startswith("s") and a.name[1:].isdigit():
            sentinels.add(a.name)
    # EXTRACT keeps its source in .field; when that is a nested wrapper (not a sentinel column) its name is a function
    # name, not an argument sentinel, and is covered by the layout comparison above
    extract_sentinel = isinstance(obj, ns.fn.Extract) and isinstance(obj.field, ns.Field) and \
        obj.field.name.startswith("s") and obj.field.name[1:].isdigit()
    if extract_sentinel:
        sentinels.add(obj.field.name)
    for snt in sorted(sentinels):
        cnt = sum(1 for t in toks if t.kind == "id" and t.val == snt)
        if cnt != 1:
            F("arg-count", "argument %s occurs %d times: %s" % (snt, cnt, text))
    order = [t.val for t in toks if t.kind == "id" and t.val in sentinels]
    want = [a.name for a in obj.args if isinstance(a, ns.Field) and a.name in sentinels]
    if extract_sentinel:
        want = want + [obj.field.name]
    if order != want:
        F("arg-order", "arguments appear as %s, given as %s: %s" % (order, want, text))
    # in-statement use and correspondence
    stmt = case.get("stmt")
    try:
        if stmt == "select":
            q = ns.Query.from_(ns.Table("t")).select(obj)
            qt = str(q)
            if obj.get_sql(quote_char='"', with_alias=True) not in qt:
                F("in-select", "wrapper renders differently in a select list: %s" % qt)
            res.requests.append(({"op": "render", "ctx": describe.d_ctx({"dialect": None}), "term": describe.describe(q)},
                                 {"sql": qt}, "str(statement)"))
        elif stmt == "where":
            q = ns.Query.from_(ns.Table("t")).select("a").where(obj > 1)
            qt = str(q)
            if text + ">1" not in qt:
                F("in-where", "wrapper renders differently in WHERE: %s" % qt)
        res.requests.append(({"op": "render", "ctx": describe.d_ctx(kw), "term": describe.describe(obj)}, {"sql": text},
                             "get_sql(quote_char)"))
    except Unsupported as e:
        res.skipped = str(e)[:40]
    return res
