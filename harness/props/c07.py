"""C07 One dialect context governs the whole statement at every depth."""
import re

from harness import describe, genq, ns, sqlspec
from harness.describe import Unsupported
from harness.run import Result
from harness.common import struct_hash
from harness.ns import QNAMES

ID = "C07"
LEAN_MODULES = ["Pypika.Props.C07", "Pypika.Whole", "Pypika.WholeStr", "Pypika.BuilderFrame"]
TRACE_BUILDER = True   # builder calls made by this check are also run through Pypika.B.step (harness/trace.py)
THEOREMS = ["Pypika.C07.setDefaults_outer_wins", "Pypika.C07.setDefaults_governs", "Pypika.C07.top_level_conventions",
            "Pypika.C07.nested_query_ctx", "Pypika.C07.setop_ctx", "Pypika.C07.fn_ctx", "Pypika.C07.interval_form",
            "Pypika.Whole.quote_uniform_all", "Pypika.Whole.ident_quote_uniform", "Pypika.Whole.ident_quote_uniform_query",
            "Pypika.Whole.ident_quote_uniform_setop", "Pypika.Whole.toplevel_quote",
            "Pypika.WholeStr.str_quote_uniform", "Pypika.WholeStr.str_quote_uniform_query",
            # no builder call changes the statement's class / dialect / AS keyword / wrapping / alias (BuilderFrame.lean)
            "Pypika.B.step_config", "Pypika.B.run_config"]
AGREE = ["Pypika.Agree.class_quotes", "Pypika.Agree.classes_complete", "Pypika.Agree.format_alias",
         "Pypika.Agree.interval_templates"]
TRUSTED = ["the identifier/alias vocabulary of the generator (table, column and alias names are recognised by name in the "
           "implementation's token stream)"]
RULE = ("one portable script (joins, sub-queries built by an independently chosen class, set operations, functions, CASE, "
        "Array/Interval terms, WITH) rendered by each of the ten query classes x inner class in ten; non-trivial = statement "
        "with a nested query, join or set operation; distinct by (script, outer class, inner class)")

TABLES = {"t", "u", "v", "w", "j", "src"}
COLUMNS = {"a", "b", "c", "x"}
PG_FORMS = {"postgresql", "redshift"}
UNIT_OUTSIDE = {"mysql", "oracle"}


def counts(tier):
    return 1200 if tier == "quick" else 20000


# vendor forms (Array, Interval) below a statement boundary, for every outer x inner class pair: the dialect that
# selects ARRAY[..] / the INTERVAL template must be the outermost statement's at every depth
NESTED_VENDOR = [
    ("t1 = T('t')\nt2 = T('u')\n"
     "s1 = Query.from_(t2).select(t2.a).where(t2.c < Interval(hours=2, minutes=3)).where(t2.b.isin(Array(1, 2)))\n"
     "q2 = Query.from_(t1).select(t1.a).where(t1.a.isin(s1))", "q2"),
    ("t1 = T('t')\nt2 = T('u')\n"
     "s1 = Query.from_(t2).select(t2.a, Array(1, 2).as_('arr'), (t2.b + Interval(days=1)).as_('d'))\n"
     "s0 = Query.from_(s1.as_('sq')).select('a', 'arr')\n"
     "q2 = Query.from_(s0.as_('sq2')).select('a').join(s1.as_('j1')).on(F('a') == F('b'))", "q2"),
    # vendor forms as DIRECT function arguments (Interval is a Node, not a Term) and inside CASE, at two depths
    ("t1 = T('t')\nt2 = T('u')\n"
     "s1 = Query.from_(t2).select(fn.Coalesce(t2.a, Interval(days=2)), Case().when(t2.b > Interval(minutes=5), Array(1)).else_(Array(2, 3)))\n"
     "q2 = Query.from_(t1).select(fn.Coalesce(t1.a, Interval(hours=1)), fn.Max(Interval(days=3))).where(t1.a.isin(s1))", "q2"),
    # a set operation ordered by an alias its operands select, and an aliased set operation as FROM / JOIN item: alias quoting
    # and the AS keyword follow the statement like everywhere else
    ("t1 = T('t')\nt2 = T('u')\n"
     "q2 = Query.from_(t1).select(t1.a.as_('al0'), t1.b).union(Query.from_(t2).select(t2.a.as_('al0'), t2.b)).orderby(t1.a.as_('al0'))", "q2"),
    ("t1 = T('t')\nt2 = T('u')\nt3 = T('v')\n"
     "so = Query.from_(t1).select(t1.a.as_('al0')).union_all(Query.from_(t2).select(t2.a.as_('al0'))).as_('sq_q1')\n"
     "s1 = Query.from_(t3).select(t3.a.as_('al2')).as_('sq_q2')\n"
     "q2 = Query.from_(so).join(s1).on(so.al0 == s1.al2).select(so.al0.as_('al4'))", "q2"),
    # vendor forms inside the temporal clause of a table (FOR … AS OF / FOR PORTION OF): same statement, same dialect
    ("t1 = T('t')\nt2 = T('u').for_(terms.SystemTimeValue().as_of(fn.Now() - Interval(hours=1)))\n"
     "q2 = Query.from_(t1).join(t2).on(t1.a == t2.a).select(t1.a).where(t1.c > Interval(hours=1))", "q2"),
    ("t1 = T('t').for_portion(terms.SystemTimeValue().from_to(fn.Now() - Interval(weeks=1), fn.Now() + Interval(days=2, hours=3)))\n"
     "s1 = Query.from_(t1).select(t1.a).where(t1.b < Interval(minutes=5))\n"
     "q2 = Query.from_(T('w')).select('a').where(F('a').isin(s1))", "q2"),
    ("t1 = T('t')\nt2 = T('u')\n"
     "q2 = Query.from_(t1).select(t1.a, Array(3)).union(Query.from_(t2).select(t2.a, Array(1, 2)).where(t2.b > Interval(weeks=1)))", "q2"),
]


# vendor CLAUSES of one dialect builder (FOR UPDATE OF, LIMIT BY, TOP, DISTINCT ON, modifiers) below a statement boundary of
# every other class: the identifiers inside them follow the outermost statement like everything else
NESTED_CLAUSES = [
    ("mysql", "t1 = T('t')\nt2 = T('u')\ns1 = MySQLQuery.from_(t2).select(t2.a).for_update(nowait=True, of=('u', 't'))\n"
              "q2 = Query.from_(t1).select(t1.a).where(t1.a.isin(s1))", "q2"),
    ("postgresql", "t1 = T('t')\nt2 = T('u')\ns1 = PostgreSQLQuery.from_(t2).select(t2.a).for_update(skip_locked=True, of=('u',))\n"
                   "q2 = Query.from_(t1).select(t1.a).where(t1.a.isin(s1))", "q2"),
    ("postgresql", "t1 = T('t')\nt2 = T('u')\ns1 = PostgreSQLQuery.from_(t2).select(t2.a, t2.b).distinct_on(t2.a, 'b').for_update(of=('u',))\n"
                   "q2 = Query.from_(s1.as_('sq')).select('a')", "q2"),
    ("mysql", "t1 = T('t')\nt2 = T('u')\ns1 = MySQLQuery.from_(t2).select(t2.a).modifier('SQL_CALC_FOUND_ROWS').for_update(of=('u',))\n"
              "sq = s1.as_('sq')\nq2 = Query.from_(t1).join(sq).on(t1.a == sq.a).select(t1.a)", "q2"),
    ("clickhouse", "t1 = T('t')\nt2 = T('u')\ns1 = ClickHouseQuery.from_(t2).select(t2.a).final().sample(5).limit_by(1, t2.b, 'c').distinct_on(t2.a)\n"
                   "q2 = Query.from_(t1).select(t1.a).where(t1.a.isin(s1))", "q2"),
    ("mssql", "t1 = T('t')\nt2 = T('u')\ns1 = MSSQLQuery.from_(t2).select(t2.a).top(3).orderby(t2.b)\n"
              "q2 = Query.from_(t1).select(t1.a).where(t1.a.isin(s1))", "q2"),
    # a hinted Vertica statement below a statement boundary, below WITH, as a FROM sub-query: the hint follows ITS keyword
    ("vertica", "t1 = T('t')\nt2 = T('u')\ns1 = VerticaQuery.from_(t2).select(t2.a).hint('lbl')\n"
                "q2 = Query.from_(t1).select(t1.a).where(t1.a.isin(s1))", "q2"),
    ("vertica", "t1 = T('t')\nt2 = T('u')\ns1 = VerticaQuery.from_(t2).select(t2.a).hint('lbl')\n"
                "q2 = Query.from_(s1.as_('sq')).select('a')", "q2"),
    ("vertica", "t1 = T('t')\nt2 = T('u')\ns1 = VerticaQuery.from_(t2).select(t2.a)\n"
                "q2 = VerticaQuery.with_(s1, 'cte0').from_(t1).select(t1.a).hint('outer')", "q2"),
]


def generate(rng, n, tier):
    classes = list(QNAMES)
    for outer in classes:
        for inner in classes:
            for script, var in NESTED_VENDOR:
                yield {"script": script, "var": var, "outer": outer, "inner": inner, "all_classes": False}
        for inner, script, var in NESTED_CLAUSES:
            yield {"script": script, "var": var, "outer": outer, "inner": inner, "all_classes": False}
        # … and with an explicit quote character given by the caller
        for inner, script, var in NESTED_CLAUSES[:3]:
            yield {"script": script + "\n", "var": var, "outer": outer, "inner": inner, "all_classes": False}
    for i in range(n):
        qg = genq.QG(rng, cls="generic", portable=True, inner_same=True, vendor_terms=True, max_depth=2)
        kind = rng.random()
        if kind < 0.8:
            v = qg.select()
        elif kind < 0.9:
            v = qg.setop("generic")
        else:
            v = qg.insert("generic") if rng.random() < 0.5 else qg.update("generic")
        script = qg.script()
        if rng.random() < 0.15 and kind < 0.8:
            script += "\n%s = Query.with_(Query.from_(T('w')).select(T('w').a), 'cte1').from_(AliasedQuery('cte1')).select('a').where(F('a').isin(%s))" % (v, v)
        outer = rng.choice(classes)
        inner = rng.choice(classes) if rng.random() < 0.5 else outer
        yield {"script": script, "var": v, "outer": outer, "inner": inner, "all_classes": i % 10 == 0 and kind < 0.9}


def instantiate(script, outer, inner):
    lines = script.split("\n")
    out = []
    for i, l in enumerate(lines):
        if i == len(lines) - 1:
            # the statement itself: its first builder is the outer class, further operands (set operations) the inner one
            first = [True]

            def rep(m):
                if first[0]:
                    first[0] = False
                    return QNAMES[outer] + "."
                return QNAMES[inner] + "."
            out.append(re.sub(r"(?<![A-Za-z])Query\.", rep, l))
        else:
            out.append(re.sub(r"(?<![A-Za-z])Query\.", QNAMES[inner] + ".", l))
    return "\n".join(out)


def render(script, var):
    env = ns.ex(script)
    return env[var], str(env[var])


def builder_of(q):
    return q if isinstance(q, ns.queries.QueryBuilder) else q.base_query


def normalise(toks):
    """token sequence up to the documented vendor differences: identifier/alias quoting, AS keyword,
    ARRAY[..] vs [..], the two interval templates, SQLite's 1/0 booleans, set-operation operand wrapping"""
    out = []
    for t in toks:
        if t.kind in ("kw", "id") and t.quote is None and t.val in ("DAY", "HOUR_MINUTE", "HOUR", "MINUTE"):
            continue
        if t.kind == "id" and t.quote is None and t.val in ("true", "false"):
            out.append(("num", "1" if t.val == "true" else "0"))      # SQLite writes booleans as 1 / 0
        elif t.kind == "id":
            out.append(("id", t.val))
        elif t.kind == "kw" and t.val in ("AS", "ARRAY"):
            continue
        elif t.kind == "p" and t.val in ("(", ")"):
            continue      # set-operation operand wrapping differs by dialect; parenthesisation is C02's subject
        elif t.kind == "str" and re.fullmatch(r"[\d:.\-]+(?: [\d:.\-]+)?( [A-Z_]+)?", t.val):
            out.append(("interval", re.sub(r" [A-Z_]+$", "", t.val)))
        elif t.kind in ("kw", "id") and t.quote is None and t.val in ("DAY", "HOUR_MINUTE", "HOUR", "MINUTE"):
            continue
        else:
            out.append((t.kind, t.val))
    return out


def examine(case):
    res = Result()
    outer, inner = case["outer"], case["inner"]
    src = instantiate(case["script"], outer, inner)
    case["recipe"] = src
    try:
        q, text = render(src, case["var"])
    except SyntaxError:
        return res
    b = builder_of(q)
    Q, AQ = b.QUOTE_CHAR, b.ALIAS_QUOTE_CHAR
    res.nontrivial = "JOIN" in text or "(SELECT" in text or "UNION" in text
    res.key = struct_hash([case["script"], outer, inner])
    res.tags = ["outer=" + outer, "mixed=%s" % (outer != inner)]

    def F(kind, what, **extra):
        res.findings.append({"sig": dict({"kind": kind}, **extra), "what": what + " | " + text})

    try:
        spec = describe.describe(q)
        kw = {"dialect": q.dialect} if isinstance(q, ns.queries.QueryBuilder) else {}
        res.requests.append(({"op": "render", "ctx": describe.d_ctx(kw), "term": spec}, {"sql": text}, "str(statement)"))
    except Unsupported as e:
        res.skipped = str(e)[:40]
    try:
        toks = sqlspec.lex(text, ident_quotes='"`')
    except sqlspec.LexError as e:
        F("lex", "unlexable statement: %s" % e)
        return res
    # --- uniform identifier quoting at every depth
    for i, t in enumerate(toks):
        if t.kind != "id":
            continue
        name = t.val
        is_alias_name = bool(re.fullmatch(r"al\d+|my col|sq\d+|sq_q\d+|[a-z]\d+|lit|c|j|cte\d+", name)) and name not in TABLES | COLUMNS
        if name in TABLES or name in COLUMNS or name in ("s1", "s2", "db"):
            if re.fullmatch(r"cte\d+", name):
                continue
            if t.quote != Q:
                nxt = toks[i + 1] if i + 1 < len(toks) else None
                if t.quote is None and nxt is not None and nxt.kind == "p" and nxt.val == "(":
                    continue      # a function name
                # an alias spelled like a column ('a') is quoted by the alias rule
                if t.quote == (AQ or Q):
                    continue
                F("identifier-quote", "identifier %s is quoted %r, the %s convention is %r" % (name, t.quote, outer, Q),
                  outer=outer)
                break
        elif is_alias_name:
            if re.fullmatch(r"cte\d+", name):
                if t.quote is not None and t.quote != Q:
                    F("identifier-quote", "WITH name quoted %r" % t.quote, outer=outer)
                elif t.quote is None and Q is not None:
                    F("with-name-unquoted", "the WITH name is not quoted although %s quotes identifiers with %r" % (outer, Q))
                continue
            allowed = {Q, AQ or Q}
            if t.quote not in allowed:
                if inner == "postgresql" and outer != "postgresql" and t.quote == '"' and re.fullmatch(r"sq\d+|sq_q\d+", name):
                    F("subquery-alias-quote-from-inner-class",
                      "alias %s of a sub-query built by PostgreSQLQuery is quoted with the inner class's alias quote inside a %s statement" % (name, outer))
                else:
                    F("alias-quote", "alias %s is quoted %r, allowed for %s: %r" % (name, t.quote, outer, sorted(map(str, allowed))), outer=outer)
                break
    # --- AS keyword uniformly
    # (`AS OF` of a temporal clause is not the alias keyword)
    n_as = sum(1 for i, t in enumerate(toks) if t.kind == "kw" and t.val == "AS" and not (i + 1 < len(toks) and toks[i + 1].kind == "p")
               and not (i + 1 < len(toks) and toks[i + 1].val.upper() == "OF"))
    n_alias_defs = len(re.findall(r"(?:al\d+|my col|sq\d+|sq_q\d+)[\"`]?(?=[ ,)]|$)", text))
    if b.as_keyword and "WITH " not in text:
        pass  # every alias definition must carry AS: checked through the model correspondence and the erasure below
    alias_names = re.compile(r"al\d+|sq_q\d+")
    if b.as_keyword:
        # every alias DEFINITION carries AS: an alias that directly follows the end of an expression / a closing parenthesis
        for i, t in enumerate(toks):
            if t.kind == "id" and alias_names.fullmatch(t.val) and i > 0:
                p_ = toks[i - 1]
                if (p_.kind == "p" and p_.val == ")") or p_.kind in ("id", "num", "str"):
                    if not (i + 1 < len(toks) and toks[i + 1].kind == "p" and toks[i + 1].val == "."):
                        F("as-keyword-missing", "alias %s is defined without AS although %s asks for it" % (t.val, outer), outer=outer)
                        break
    # one column alias, one spelling: its definition and every reference to it are quoted alike within the statement
    spell = {}
    for i, t in enumerate(toks):
        # (a qualified name — `sq.al0`, a column of a sub-query that happens to be called like the alias — is an identifier)
        if t.kind == "id" and re.fullmatch(r"al\d+", t.val) and not (i > 0 and toks[i - 1].kind == "p" and toks[i - 1].val == "."):
            spell.setdefault(t.val, set()).add(t.quote)
    mixed = sorted(n_ for n_, qs in spell.items() if len(qs) > 1)
    if mixed:
        F("alias-spelling-mixed", "alias %s appears with different quoting %s in one statement"
          % (mixed[0], sorted(map(str, spell[mixed[0]]))), outer=outer)
    if not b.as_keyword and n_as and "WITH " not in text and "CAST(" not in text:
        F("as-keyword", "AS keyword used although %s does not ask for it" % outer, outer=outer)
    # --- dialect forms at every depth
    arr_pg = text.count("ARRAY[")
    arr_all = len(re.findall(r"(?<![A-Za-z\"`'])\[", text)) + arr_pg
    if arr_all:
        if (outer in PG_FORMS) != (arr_pg == arr_all) and not (arr_pg not in (0, arr_all)):
            F("array-form", "array syntax does not follow the %s dialect" % outer, outer=outer)
        if arr_pg not in (0, arr_all):
            F("array-form-mixed", "two array syntaxes in one statement")
    iv_in = len(re.findall(r"INTERVAL '[^']* [A-Z_]+'", text))
    iv_out = len(re.findall(r"INTERVAL '[^' ]*' [A-Z_]+", text))
    if iv_in and iv_out:
        F("interval-form-mixed", "two interval templates in one statement")
    elif (iv_in or iv_out) and ((outer in UNIT_OUTSIDE) != bool(iv_out)):
        F("interval-form", "interval template does not follow the %s dialect" % outer, outer=outer)
    # --- GROUP BY alias support: Oracle / MSSQL never group by an alias, at any depth
    if outer in ("oracle", "mssql"):
        i = 0
        while i < len(toks) - 1:
            if toks[i].kind == "kw" and toks[i].val == "GROUP" and toks[i + 1].kind == "kw" and toks[i + 1].val == "BY":
                j, depth, item = i + 2, 0, []
                items = []
                while j < len(toks):
                    t = toks[j]
                    if t.kind == "p" and t.val in "([":
                        depth += 1
                    elif t.kind == "p" and t.val in ")]":
                        if depth == 0:
                            break
                        depth -= 1
                    if depth == 0 and t.kind == "kw" and t.val in ("HAVING", "ORDER", "LIMIT", "OFFSET", "FETCH", "FOR", "UNION", "WITH"):
                        break
                    if depth == 0 and t.kind == "p" and t.val == ",":
                        items.append(item)
                        item = []
                    else:
                        item.append(t)
                    j += 1
                items.append(item)
                for it in items:
                    if len(it) == 1 and it[0].kind == "id" and re.fullmatch(r"al\d+|my col", it[0].val):
                        F("groupby-alias", "GROUP BY refers to the select alias %s under %s" % (it[0].val, outer), outer=outer)
                i = j
            else:
                i += 1
    # --- apart from the documented differences the token sequence is the same for every dialect
    if case.get("all_classes"):
        ref = None
        for cls in QNAMES:
            try:
                _, tx = render(instantiate(case["script"], cls, cls), case["var"])
                seq = normalise(sqlspec.lex(tx, ident_quotes='"`'))
            except (sqlspec.LexError, SyntaxError):
                continue
            if cls in ("oracle", "mssql"):
                continue     # GROUP BY alias support is a documented difference: their sequences differ there
            if ref is None:
                ref = (cls, seq)
            elif seq != ref[1]:
                k = next((i for i, (x, y) in enumerate(zip(seq, ref[1])) if x != y), min(len(seq), len(ref[1])))
                F("erasure", "token sequence under %s differs from %s beyond the documented vendor differences at token %d (%r vs %r): %s"
                  % (cls, ref[0], k, seq[k:k + 3], ref[1][k:k + 3], tx))
                break
    return res
