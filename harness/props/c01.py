"""C01 Builder calls never change any object that already exists."""
import json
import random

from harness import ns
from harness.run import Result
from harness.common import struct_hash
from harness.ns import QNAMES

ID = "C01"
LEAN_MODULES = ["Pypika.Props.C01", "Pypika.BuilderFrame", "Pypika.DDLFrame"]
THEOREMS = ["Pypika.C01.applyEff_inv", "Pypika.C01.recopy_inv", "Pypika.C01.builder_call_frame", "Pypika.C01.history_frame",
            "Pypika.C01.table_safe_partial", "Pypika.C01.known_argwrites_present",
            "Pypika.B.step_frame", "Pypika.B.run_frame", "Pypika.B.step_cls",
            "Pypika.DDLB.stepC_frame"]
AGREE = ["Pypika.Agree.writes_agree", "Pypika.Agree.methods_covered", "Pypika.Agree.setops_write_nothing", "Pypika.Agree.ddl_writes_agree"]
TRUSTED = ["harness/effects.py: the ast pass that produces the effect table (checked against the dynamic histories below: an "
           "effect the pass missed shows up as an object that changed)", "Python: copy.copy is shallow; `self.a = self.a + [..]` builds a new list"]
RULE = ("branching histories of 2-9 chaining calls over every builder family (10 query classes, set operations, CREATE TABLE / "
        "CREATE INDEX / DROP / LOAD / COPY builders, Case, aggregate / analytic / window functions, Table, terms, Joiner); each "
        "call picks any live object as receiver and live objects as arguments; after every call the text and alias of EVERY "
        "object alive before it are compared; plus immutable=False chains; non-trivial = >= 2 calls on one receiver "
        "(siblings); distinct by script")

CRITS = ["(T('t').a == 1)", "(T('t').b > 2)", "T('t').c.isnull()", "(T('u').a == T('t').a)", "T('t').a.isin([1, 2])"]
TERMS = ["T('t').a", "T('t').b", "fn.Sum(T('t').x)", "(T('t').a + 1)", "T('u').c", "'lit'", "5"]


def qmethods(cls):
    """call templates for a query builder of class cls: (method label, source suffix with {argN} holes, arg kinds)"""
    m = [
        ("select", ".select(%s)", ["term"]), ("select", ".select(%s, %s)", ["term", "term"]),
        ("where", ".where(%s)", ["crit"]), ("having", ".having(%s)", ["crit"]), ("groupby", ".groupby(%s)", ["field"]),
        ("orderby", ".orderby(%s)", ["field"]), ("limit", ".limit(3)", []), ("offset", ".offset(2)", []),
        ("distinct", ".distinct()", []), ("for_update", ".for_update()", []),
        ("join", ".join(T('u')).on(T('t').a == T('u').a)", []), ("join", ".join(%s).cross()", ["tablevar"]),
        ("join", ".join(%s).on(T('t').a == %s.a)", ["subq", "same"]), ("from_", ".from_(%s)", ["subq"]),
        ("from_", ".from_(T('v'))", []), ("with_", ".with_(%s, 'w1')", ["subq"]), ("force_index", ".force_index('i1')", []),
        ("use_index", ".use_index('i2', 'i3')", []), ("rollup", ".rollup(T('t').a)", []), ("select", ".select(T('t').star)", []),
        ("select", ".select('*')", []), ("select", ".select(T('u').star, T('t').c)", []), ("rollup", ".rollup(T('t').b, T('t').c)", []),
        ("with_totals", ".with_totals()", []), ("as_", ".as_('q_al')", []), ("replace_table", ".replace_table(T('t'), T('z'))", []),
        ("prewhere", ".prewhere(%s)", ["crit"]), ("union", ".union(%s)", ["subq"]), ("slice", "[1:4]", []),
        ("set", ".set(T('t').a, 1)", []), ("columns", ".columns('a', 'b')", []), ("insert", ".insert(1, 2)", []),
        ("insert", ".insert((3, 4), (5, 6))", []), ("replace", ".replace(7, 8)", []), ("ignore", ".ignore()", []),
        ("delete", ".delete()", []), ("into", ".into(T('arch'))", []),
        # un-aliased sub-queries written inline (no live object is passed, so the lineage replay applies): the invented
        # name depends on the statement's own counter only, never on what was derived from the same base before
        ("join", ".join(Query.from_(T('u')).select('a')).on_field('a')", []),
        ("join", ".join(Query.from_(T('v')).select('a', 'b')).cross()", []),
        ("join", ".join(Query.from_(T('w')).select('a')).using('a')", []),
        ("from_", ".from_(Query.from_(T('v')).select('b'))", []),
    ]
    if cls == "mysql":
        m += [("modifier", ".modifier('SQL_CALC_FOUND_ROWS')", []), ("on_duplicate_key_update", ".on_duplicate_key_update(T('t').a, 9)", []),
              ("on_duplicate_key_ignore", ".on_duplicate_key_ignore()", []), ("for_update", ".for_update(nowait=True, of=('t', 'u'))", [])]
    if cls == "postgresql":
        m += [("distinct_on", ".distinct_on('a', T('t').b)", []), ("on_conflict", ".on_conflict('a')", []),
              ("do_update", ".do_update('b', 1)", []), ("do_nothing", ".do_nothing()", []), ("returning", ".returning('a')", []),
              ("using", ".using(T('u'))", []), ("for_update", ".for_update(skip_locked=True, of=('t',))", [])]
    if cls == "clickhouse":
        m += [("final", ".final()", []), ("sample", ".sample(10, 5)", []), ("distinct_on", ".distinct_on('a')", []),
              ("limit_by", ".limit_by(1, 'a')", []), ("limit_offset_by", ".limit_offset_by(1, 2, T('t').b)", [])]
    if cls == "mssql":
        m += [("top", ".top(5)", []), ("top", ".top(10, percent=True)", [])]
    if cls == "vertica":
        m += [("hint", ".hint('lbl')", [])]
    if cls == "sqlite":
        m += [("insert_or_replace", ".insert_or_replace(1, 2)", [])]
    return m


FAMILIES = {
    # family -> (constructors, methods)
    "setop": (["Query.from_(T('t')).select(T('t').a).union(Query.from_(T('u')).select(T('u').a))",
               "MySQLQuery.from_(T('t')).select('a').intersect(MySQLQuery.from_(T('u')).select('a'))"],
              [("union", ".union(%s)", ["subq"]), ("union_all", ".union_all(Query.from_(T('v')).select('a'))", []),
               ("intersect", ".intersect(Query.from_(T('v')).select('b'))", []), ("minus", ".minus(Query.from_(T('w')).select('a'))", []),
               ("except_of", ".except_of(Query.from_(T('w')).select('c'))", []), ("+", " + Query.from_(T('v')).select('a')", []),
               ("orderby", ".orderby('a')", []), ("orderby", ".orderby(T('t').a, order=Order.desc)", []), ("limit", ".limit(2)", []),
               ("offset", ".offset(1)", []), ("as_", ".as_('so')", [])]),
    "create": (["Query.create_table('nt')", "MySQLQuery.create_table(T('nt'))", "VerticaQuery.create_table('nt').temporary()",
                "SnowflakeQuery.create_table('nt')"],
               [("columns", ".columns(Column('a', 'INT'))", []), ("columns", ".columns(('b', 'VARCHAR(10)'), 'c')", []),
                ("unique", ".unique('a')", []), ("unique", ".unique('b', 'c')", []), ("primary_key", ".primary_key('a')", []),
                ("foreign_key", ".foreign_key(['a'], T('other'), ['id'], on_delete=ReferenceOption.cascade)", []),
                ("period_for", ".period_for('p', 'a', 'b')", []), ("temporary", ".temporary()", []), ("unlogged", ".unlogged()", []),
                ("with_system_versioning", ".with_system_versioning()", []), ("if_not_exists", ".if_not_exists()", []),
                ("as_select", ".as_select(%s)", ["subq"])]),
    "index": (["Query.create_index('ix')", "Query.create_index('ix').on('t')"],
              [("columns", ".columns('a')", []), ("columns", ".columns('b', 'c')", []), ("on", ".on(T('t'))", []),
               ("where", ".where(%s)", ["crit"]), ("unique", ".unique()", []), ("if_not_exists", ".if_not_exists()", [])]),
    "drop": (["Query.drop_table('t')", "ClickHouseQuery.drop_table('t')", "Query.drop_index('ix')", "MySQLQuery.drop_table(T('t'))"],
             [("if_exists", ".if_exists()", []), ("on_cluster", ".on_cluster('c1')", [])]),
    "load": (["MySQLQuery.load('/f.csv')", "VerticaQuery.from_file('/f.csv')"],
             [("into", ".into('t')", []), ("copy_", ".copy_('t')", []), ("load", ".load('/g.csv')", []), ("from_file", ".from_file('/g.csv')", [])]),
    "case": (["Case()", "Case().when(T('t').a == 1, 'one')"],
             [("when", ".when(%s, 'x')", ["crit"]), ("when", ".when(%s, T('t').b)", ["crit"]), ("else_", ".else_('other')", []),
              ("as_", ".as_('c_al')", []), ("replace_table", ".replace_table(T('t'), T('z'))", [])]),
    "func": (["fn.Sum(T('t').a)", "fn.Count(T('t').b)", "an.Rank()", "an.Sum(T('t').a)", "an.FirstValue(T('t').a)", "an.NTile(4)",
              "fn.Coalesce(T('t').a, 0)"],
             [("filter", ".filter(%s)", ["crit"]), ("distinct", ".distinct()", []), ("over", ".over(T('t').b)", []),
              ("over", ".over(T('t').c, T('t').x)", []), ("orderby", ".orderby(T('t').a)", []),
              ("orderby", ".orderby(T('t').b, order=Order.desc)", []), ("rows", ".rows(an.Preceding(1))", []),
              ("range", ".range(an.Preceding(), an.Following(2))", []), ("ignore_nulls", ".ignore_nulls()", []),
              ("as_", ".as_('f_al')", []), ("replace_table", ".replace_table(T('t'), T('z'))", [])]),
    "table": (["T('t')", "T('t', schema='s')"],
              [("as_", ".as_('t_al')", []), ("for_", ".for_(SystemTimeValue().as_of('2020'))", []),
               ("for_portion", ".for_portion(SystemTimeValue().from_to('a', 'b'))", [])]),
    "term": (["(T('t').a == 1)", "T('t').a.isin([1, 2])", "ExistsCriterion(Query.from_(T('u')).select('a'))", "(T('t').a + T('t').b)",
              "T('t').a", "(T('t').a.between(1, 2))", "Tuple(T('t').a, 1)", "(-T('t').a)"],
             [("as_", ".as_('e_al')", []), ("negate", ".negate()", []), ("replace_table", ".replace_table(T('t'), T('z'))", []),
              ("isnull", ".isnull()", [])]),
    "joiner": (["Query.from_(T('t')).select('a').join(T('u'))", "MySQLQuery.from_(T('t')).select('a').join(T('u'), JoinType.left)"],
               [("on", ".on(T('t').a == T('u').a)", []), ("on", ".on(T('t').b == T('u').b)", []), ("using", ".using('a')", []),
                ("cross", ".cross()", []), ("on_field", ".on_field('c')", [])]),
}


def counts(tier):
    return 2500 if tier == "quick" else 40000


# fixed histories in which one un-aliased sub-query object is used by several statements (the auto-alias is written
# once, by the first statement that uses it — a listed finding — and must not change again afterwards)
SHARED_SUBQUERY_SCRIPTS = [
    "o0 = {Q}.from_(T('u')).select('a')\no1 = {Q}.from_(T('v')).select('b')\no2 = {Q}.from_(o0).select('a')\n"
    "o3 = {Q}.from_(o1)\no4 = o3.from_(o0)\no5 = o4.select('a')",
    "o0 = {Q}.from_(T('u')).select('a')\no1 = {Q}.from_(T('v')).select('b')\no2 = {Q}.from_(o0).select('a')\n"
    "o3 = {Q}.from_(o1).from_(o0).select('a')\no4 = {Q}.from_(T('w')).join(o0).on(T('w').a == o0.a).select('a')",
    "o0 = {Q}.from_(T('u')).select('a')\no1 = {Q}.from_(T('t')).join(o0).on(T('t').a == o0.a).select('a')\n"
    "o2 = {Q}.from_(T('v')).select('b')\no3 = {Q}.from_(o2).from_(o0).select('a')\no4 = {Q}.from_(o2).join(o0).on(o2.b == o0.a).select('a')",
    # a sub-query named by an earlier statement joined into a statement whose own counter has moved on and whose fresh source
    # got the same invented name: the earlier name stays (both are called sq0 — the listed C10 finding), it is not rewritten
    "o0 = {Q}.from_(T('u')).select('a')\no1 = {Q}.from_(o0).select('a')\no2 = {Q}.from_(T('v')).select('b')\n"
    "o3 = {Q}.from_(o2).join(o0).on(o2.b == o0.a).select('a')\no4 = {Q}.from_(T('w')).select('c')\n"
    "o5 = {Q}.from_(o4).from_(o0).select('a')\no6 = o5.join(o2).on(o2.b == o0.a)",
]


def generate(rng, n, tier):
    for cls in ("generic", "mysql", "postgresql", "sqlite"):
        for sc in SHARED_SUBQUERY_SCRIPTS:
            yield {"family": "query", "cls": cls, "seed": 0, "len": 0, "script_override": sc.replace("{Q}", ns.QNAMES[cls])}
    fams = list(FAMILIES) + ["query"] * 10
    for i in range(n):
        fam = rng.choice(fams)
        yield {"family": fam, "cls": rng.choice(list(QNAMES)), "seed": rng.randrange(10 ** 9), "len": rng.randint(2, 9),
               "mutable": fam == "query" and i % 7 == 0}


def safe_text(obj):
    try:
        if isinstance(obj, ns.queries.Joiner):
            return "Joiner"      # a Joiner is a transient handle; what it returns is observed instead
        return str(obj)
    except Exception as e:
        return "raises %s" % type(e).__name__


def snapshot(objs):
    return [(safe_text(o), getattr(o, "alias", None) if not isinstance(o, ns.queries.Joiner) else None) for o in objs]


def family_of(obj):
    Q = ns.queries
    if isinstance(obj, Q.QueryBuilder):
        return "query"
    if isinstance(obj, Q._SetOperation):
        return "setop"
    if isinstance(obj, Q.CreateQueryBuilder):
        return "create"
    if isinstance(obj, Q.CreateIndexBuilder):
        return "index"
    if isinstance(obj, Q.DropQueryBuilder):
        return "drop"
    if isinstance(obj, (ns.dialects.MySQLLoadQueryBuilder, ns.dialects.VerticaCopyQueryBuilder)):
        return "load"
    if isinstance(obj, ns.terms.Case):
        return "case"
    if isinstance(obj, ns.terms.Function):
        return "func"
    if isinstance(obj, Q.Table):
        return "table"
    if isinstance(obj, Q.Joiner):
        return "joiner"
    if isinstance(obj, ns.terms.Term):
        return "term"
    return None


def base_class(obj):
    c = type(obj).__name__
    if isinstance(obj, ns.queries.QueryBuilder):
        return "QueryBuilder"
    return c


def play(case, check=True):
    """build and run the history; returns (script lines, findings)"""
    if case.get("script_override"):
        return play_script(case["script_override"])
    rng = random.Random(case["seed"])
    fam = case["family"]
    cls = case["cls"]
    qn = QNAMES[cls]
    env = dict(ns.NS)
    lines = []
    live = []       # (var, obj)
    findings = []

    def add(src):
        v = "o%d" % len(lines)
        line = "%s = %s" % (v, src)
        before = snapshot([o for _, o in live]) if check else None
        try:
            exec(line, env)
            obj = env[v]
            raised = None
        except Exception as e:
            obj, raised = None, type(e).__name__
        lines.append(line + ("   # raises %s" % raised if raised else ""))
        if check and before is not None:
            after = snapshot([o for _, o in live])
            for (var, o), b, a in zip(live, before, after):
                if a != b:
                    findings.append((line, var, o, b, a, raised))
        if obj is not None:
            live.append((v, obj))
        return v, obj

    # seed objects
    if fam == "query":
        ctor = rng.choice(["%s.from_(T('t'))" % qn, "%s.from_(T('t')).select(T('t').a)" % qn, "%s.into(T('t'))" % qn,
                           "%s.update(T('t'))" % qn, "%s.from_(T('t')).select('a', 'b').groupby('a')" % qn])
        if case.get("mutable"):
            ctor = "%s.from_(T('t'), immutable=False)" % qn
        methods = qmethods(cls)
    else:
        ctors, methods = FAMILIES[fam]
        ctor = rng.choice(ctors)
    add(ctor)
    # helper objects that calls may take as arguments
    add("Query.from_(T('u')).select(T('u').a)")
    add("T('u')")
    root_vars = [live[0][0]]
    for _ in range(case["len"]):
        if not live:
            break
        cands = [(v, o) for v, o in live if family_of(o) == fam] or [live[0]]
        # favour branching: earlier objects are picked as often as the latest
        rv, ro = rng.choice(cands)
        ms = methods if family_of(ro) == fam else []
        if family_of(ro) == "query" and fam != "query":
            ms = qmethods("generic")
        if not ms:
            continue
        label, tmpl, kinds = rng.choice(ms)
        args = []
        for k in kinds:
            if k == "crit":
                args.append(rng.choice(CRITS))
            elif k == "term":
                args.append(rng.choice(TERMS))
            elif k == "field":
                args.append(rng.choice(["T('t').a", "T('t').b", "'a'"]))
            elif k == "subq":
                subs = [v for v, o in live if isinstance(o, ns.queries.QueryBuilder) and v != rv]
                args.append(rng.choice(subs) if subs else "Query.from_(T('u')).select('a')")
            elif k == "tablevar":
                tabs = [v for v, o in live if isinstance(o, ns.queries.Table)]
                args.append(rng.choice(tabs) if tabs else "T('u')")
            elif k == "same":
                args.append(args[-1])
        add(rv + (tmpl % tuple(args) if kinds else tmpl))
        if findings and check:
            break
    return lines, findings, live, env


def play_script(script):
    """replay a fixed history (corpus / known findings)"""
    env = dict(ns.NS)
    live, lines, findings = [], [], []
    for line in script.split("\n"):
        v = line.split(" = ", 1)[0].strip()
        before = snapshot([o for _, o in live])
        raised = None
        try:
            exec(line, env)
        except Exception as e:
            raised = type(e).__name__
        lines.append(line + ("   # raises %s" % raised if raised else ""))
        after = snapshot([o for _, o in live])
        for (var, o), b, a in zip(live, before, after):
            if a != b:
                findings.append((line, var, o, b, a, raised))
        if raised is None:
            live.append((v, env[v]))
    return lines, findings, live, env


def examine(case):
    res = Result()
    lines, findings, live, env = play(case, check=not case.get("mutable"))
    script = "\n".join(lines)
    case["recipe"] = script
    res.key = struct_hash(script)
    recv_counts = {}
    for l in lines[3:]:
        r = l.split("= ", 1)[1].split(".")[0].split("[")[0].split(" ")[0]
        recv_counts[r] = recv_counts.get(r, 0) + 1
    res.nontrivial = any(c >= 2 for c in recv_counts.values())
    res.tags = ["family=" + case["family"], "len=%d" % len(lines)] + (["cls=" + case["cls"]] if case["family"] == "query" else [])
    seen_sigs = set()
    for line, var, obj, before, after, raised in (findings if case.get("script_override") else findings[:1]):
        call = line.split("= ", 1)[1]
        recv = call.split(".")[0].split("[")[0].split(" ")[0]
        meth = call[len(recv):].lstrip(".").split("(")[0].split("[")[0].strip() or "slice"
        robj = env.get(recv)
        role = "receiver" if var == recv else ("argument" if (var + ")" in call or var + "," in call or var + "." in call[len(recv):]) else "earlier-object")
        if role == "argument" and before[1] is not None:
            # the listed findings are about an UN-aliased argument receiving its invented alias; an argument that already
            # had an alias (or an invented name from an earlier statement) and is changed again is something else
            role = "argument-already-aliased"
        sig = {"class": base_class(robj) if robj is not None else "?", "method": meth, "changed": role}
        if sig["class"] == "Joiner":
            sig["method"] = "*"
        if isinstance(robj, type):
            sig["class"] = "QueryBuilder"      # Query.from_(…) / MySQLQuery.from_(…): the class method delegates to a fresh builder
        if json.dumps(sig, sort_keys=True) in seen_sigs:
            continue
        seen_sigs.add(json.dumps(sig, sort_keys=True))
        res.findings.append({"sig": sig, "what": "after `%s` the object %s (%s) changed: %r -> %r\n%s"
                                                 % (line, var, type(obj).__name__, before, after, script)})
    # every derived object equals what its own chain of calls builds in isolation (no sibling influence)
    if not case.get("mutable") and not res.findings and not case.get("script_override"):
        deps = {}
        order = []
        for l in lines:
            if "# raises" in l:
                continue
            v, call = l.split(" = ", 1)
            order.append(v)
            import re as _re
            deps[v] = (l, [x for x in _re.findall(r"\bo\d+\b", call) if x != v])
        def lineage(v, acc):
            for d in deps[v][1]:
                if d in deps and d not in acc:
                    lineage(d, acc)
            if v not in acc:
                acc.append(v)
            return acc
        for v in order[3:]:
            lin = lineage(v, [])
            src = "\n".join(deps[x][0] for x in lin)
            # histories that pass live objects as arguments are subject to the auto-alias known findings
            if any(m in src for m in (".from_(o", ".join(o", ".union(o", ".with_(o", ".as_select(o")):
                continue
            try:
                env2 = ns.ex(src)
            except Exception:
                continue
            a, b = safe_text(env[v]), safe_text(env2[v])
            if a != b:
                call = deps[v][0].split(" = ", 1)[1]
                recv = call.split(".")[0].split("[")[0].split(" ")[0]
                meth = call[len(recv):].lstrip(".").split("(")[0].split("[")[0].strip() or "slice"
                res.findings.append({"sig": {"class": base_class(env.get(recv)), "method": meth, "changed": "depends-on-sibling"},
                                     "what": "%s renders %r in the branching history but %r when its own chain of calls is replayed alone\n%s"
                                             % (v, a, b, script)})
                break
    # a builder call returns a new object
    if case["family"] != "joiner" and not case.get("mutable"):
        for l in lines[3:]:
            if "# raises" in l:
                continue
            v, call = l.split(" = ", 1)
            recv = call.split(".")[0].split("[")[0].split(" ")[0]
            if recv in env and v in env and env[v] is env[recv] and family_of(env[recv]) not in ("joiner", "term", "table"):
                res.findings.append({"sig": {"class": base_class(env[recv]), "method": call[len(recv):].lstrip(".").split("(")[0], "changed": "returns-self"},
                                     "what": "`%s` returned the receiver itself\n%s" % (l, script)})
                break
    # immutable=False: the same calls update the one object and end in the same statement
    if case.get("mutable"):
        imm = dict(case, mutable=False)
        l2, _, live2, env2 = play(imm, check=False)
        # linear chain on the first object
        chain_calls = [l.split(" = ", 1)[1] for l in lines[3:] if "# raises" not in l and l.split(" = ", 1)[1].startswith("o0")]
        try:
            qm = ns.ev(lines[0].split(" = ", 1)[1])
            qi = ns.ev(lines[0].split(" = ", 1)[1].replace(", immutable=False", ""))
            envm = dict(ns.NS, o0=qm, **{v: o for v, o in live[1:3]})
            envi = dict(ns.NS, o0=qi, **{v: o for v, o in live[1:3]})
            for c in chain_calls:
                try:
                    r = eval(c, envm)
                    if isinstance(r, ns.queries.QueryBuilder):
                        if r is not envm["o0"] and not res.findings:
                            # with immutable=False every chaining call updates and returns the ONE object
                            meth = c[2:].lstrip(".").split("(")[0].split("[")[0].strip() or "slice"
                            res.findings.append({"sig": {"class": "QueryBuilder", "method": "immutable=False", "changed": "returns-a-copy"},
                                                 "what": "with immutable=False `%s` (method %s) returned another object than its receiver\n%s"
                                                         % (c, meth, "\n".join(chain_calls))})
                        envm["o0"] = r
                except Exception:
                    pass
                try:
                    r = eval(c, envi)
                    if isinstance(r, ns.queries.QueryBuilder):
                        envi["o0"] = r
                except Exception:
                    pass
            if safe_text(envm["o0"]) != safe_text(envi["o0"]):
                res.findings.append({"sig": {"class": "QueryBuilder", "method": "immutable=False", "changed": "final-statement"},
                                     "what": "immutable=False chain ends in %s, the immutable chain in %s\n%s"
                                             % (safe_text(envm["o0"]), safe_text(envi["o0"]), "\n".join(chain_calls))})
        except Exception:
            pass
    return res
