"""C03 Data values render as one literal that decodes back to the value."""
from harness import describe, gen, ns, sqlspec
from harness.describe import Unsupported
from harness.run import Result
from harness.common import struct_hash
from harness.ns import QNAMES

ID = "C03"
LEAN_MODULES = ["Pypika.Props.C03", "Pypika.WholeStr"]
THEOREMS = [
    "Pypika.C03.decode_encode",
    "Pypika.C03.lex_literal",
    "Pypika.C03.str_piece_roundtrip",
    "Pypika.C03.val_one_piece",
    "Pypika.WholeStr.str_uniform_all", "Pypika.WholeStr.str_quote_uniform", "Pypika.WholeStr.str_quote_uniform_query",
            "Pypika.WholeStr.toplevel_sq"]
AGREE = ["Pypika.Agree.secondary_quote", "Pypika.Agree.class_quotes"]
TRUSTED = [
    "Spec: ANSI string-literal rule (a literal ends at the first quote not followed by a quote; '' denotes ') for every dialect; "
    "MySQL and ClickHouse additionally treat backslash as an escape character",
    "harness/sqlspec.py lexer used on the implementation's output",
]
RULE = ("hostile strings (quotes of every kind, doubled quotes, backslashes, comment markers, ;, newline, NUL, non-ASCII, "
        "placeholder look-alikes) and the other Python value types, supplied in 12 value positions x 10 query classes; "
        "non-trivial = string containing a quote, backslash or comment marker; distinct by (position, class, value)")
ASSUMPTIONS = ["the statement is read with the lexical rules of the dialect the query class is named after"]

BACKSLASH = {"mysql", "clickhouse"}

# position templates: {Q} query class name, {v} value source
POSITIONS = {
    "cmp": "{Q}.from_(T('t')).select(T('t').a).where(T('t').b == {v})",
    "cmp_left": "{Q}.from_(T('t')).select(T('t').a).where(VW({v}) != T('t').b)",
    "in": "{Q}.from_(T('t')).select(T('t').a).where(T('t').b.isin([1, {v}, 'z']))",
    "between": "{Q}.from_(T('t')).select(T('t').a).where(T('t').b.between({v}, 'zz'))",
    "like": "{Q}.from_(T('t')).select(T('t').a).where(T('t').b.like({v}))",
    "func_arg": "{Q}.from_(T('t')).select(fn.Coalesce(T('t').a, {v}, 0))",
    "case": "{Q}.from_(T('t')).select(Case().when(T('t').a == 1, {v}).else_('other').as_('c'))",
    "select_const": "{Q}.from_(T('t')).select(VW({v}), T('t').a)",
    "insert": "{Q}.into(T('t')).columns('a', 'b').insert(1, {v})",
    "insert_rows": "{Q}.into(T('t')).insert((1, 'x'), (2, {v}))",
    "set": "{Q}.update(T('t')).set('a', {v}).where(T('t').b == 'k')",
    "having": "{Q}.from_(T('t')).select(fn.Max(T('t').a)).groupby(T('t').b).having(fn.Max(T('t').a) == {v})",
    "join_on": "{Q}.from_(T('t')).join(T('u')).on((T('t').a == T('u').a) & (T('u').b == {v})).select(T('t').a)",
    "alias_val": "{Q}.from_(T('t')).select(VW({v}).as_('lit'))",
    # the value as the left leaf of the right operand of a subtraction: a negative number there must not meet the minus sign
    "arith_rhs": "{Q}.from_(T('t')).select((T('t').a - (VW({v}) * T('t').b)).as_('d'))",
    # values inside the body of a WITH entry, of a FROM sub-query and of a set-operation operand
    "with_body": "{Q}.with_({Q}.from_(T('w')).select(T('w').a).where(T('w').b == {v}), 'cte1').from_(AliasedQuery('cte1')).select('a')",
    "subquery_from": "{Q}.from_({Q}.from_(T('w')).select(T('w').a).where(T('w').b == {v}).as_('sq')).select('a')",
    "setop_operand": "{Q}.from_(T('t')).select(T('t').a).union({Q}.from_(T('u')).select(T('u').a).where(T('u').b == {v}))",
}
DIALECT_POSITIONS = {
    # statement-level vendor clauses around a value (a hint spliced into the finished text, modifiers, TOP, FINAL …)
    "vertica": {"hint_cmp": "VerticaQuery.from_(T('t')).select(T('t').a).where(T('t').b == {v}).hint('lbl')",
                "hint_with": "VerticaQuery.with_(VerticaQuery.from_(T('w')).select(T('w').a).where(T('w').b == {v}), 'cte1').from_(AliasedQuery('cte1')).select('a').hint('lbl')",
                "hint_insert": "VerticaQuery.into(T('t')).insert(1, {v}).hint('lbl')"},
    "mssql": {"top_cmp": "MSSQLQuery.from_(T('t')).select(T('t').a).where(T('t').b == {v}).top(3).limit(2)"},
    "clickhouse": {"final_cmp": "ClickHouseQuery.from_(T('t')).select(T('t').a).final().sample(5).where(T('t').b == {v}).limit_by(1, T('t').a)"},
    "mysql": {"on_duplicate": "MySQLQuery.into(T('t')).insert(1, 'x').on_duplicate_key_update(T('t').b, {v})",
              "modifier_cmp": "MySQLQuery.from_(T('t')).select(T('t').a).modifier('SQL_CALC_FOUND_ROWS').where(T('t').b == {v}).for_update(of=('t',))"},
    "postgresql": {"on_conflict": "PostgreSQLQuery.into(T('t')).insert(1, 'x').on_conflict(T('t').a).do_update(T('t').b, {v})",
                   "conflict_where": "PostgreSQLQuery.into(T('t')).insert(1, 'x').on_conflict(T('t').a).where(T('t').b == {v}).do_nothing()",
                   "returning_val": "PostgreSQLQuery.into(T('t')).insert(1, 'x').returning(VW({v}), T('t').a)"},
}
DDL_POSITIONS = {
    "column_default": "Query.create_table('t').columns(Column('a', 'VARCHAR(10)', default={v}), Column('b', 'INT'))",
    "create_index_where": "Query.create_index('ix').on('t').columns('a').where(T('t').b == {v})",
}
OTHER_VALUES = ["0", "-5", "12345678901234567890", "1.5", "-0.25", "1e-07", "D('10.50')", "D('-0.001')", "True", "False",
                "date(2020, 2, 29)", "dt(2021, 12, 31, 23, 59, 58)", "UUID('12345678-1234-5678-1234-567812345678')",
                "Dialects.MYSQL", "JoinType.left", "EN.NEG5", "EN.TXT", "EN.QUO", "IE.HIGH", "IE.NEG2", "-0.0", "1e+22"]


def counts(tier):
    return 5000 if tier == "quick" else 80000


def hostile(rng):
    x = rng.random()
    if x < 0.5:
        return rng.choice(gen.HOSTILE)
    alpha = ["'", '"', "`", "\\", "-", "/", "*", "#", ";", "\n", " ", "a", "é", "%", "?"]
    return "".join(rng.choice(alpha) for _ in range(rng.randint(1, 6)))


def generate(rng, n, tier):
    classes = list(QNAMES)
    if tier == "thorough":
        # every string of length <= 2 over a 9-symbol alphabet in the comparison position, every class
        alpha = ["'", '"', "`", "\\", "-", "*", "/", "#", "a"]
        strs = [""] + alpha + [a + b for a in alpha for b in alpha]
        for cls in classes:
            for s in strs:
                yield {"pos": "cmp", "cls": cls, "value": repr(s)}
    # boundary values in every position of every class (both tiers)
    edge = [repr(x) for x in ["", " ", "'", "''", "\\", 0, 0.0, False, True, "0", "--", "/*", -1]] + ["D('0')"]
    for cls in classes:
        poss = list(POSITIONS) + list(DIALECT_POSITIONS.get(cls, {}))
        if cls == "generic":
            poss += list(DDL_POSITIONS)
        for pos in poss:
            for v in edge:
                yield {"pos": pos, "cls": cls, "value": v}
    for i in range(n):
        cls = rng.choice(classes)
        x = rng.random()
        if x < 0.08:
            pos = rng.choice(list(DDL_POSITIONS))
            cls = "generic"
        elif x < 0.16 and cls in DIALECT_POSITIONS:
            pos = rng.choice(list(DIALECT_POSITIONS[cls]))
        else:
            pos = rng.choice(list(POSITIONS))
        v = repr(hostile(rng)) if rng.random() < 0.85 else rng.choice(OTHER_VALUES)
        yield {"pos": pos, "cls": cls, "value": v}


def template(case):
    pos, cls = case["pos"], case["cls"]
    if pos in POSITIONS:
        return POSITIONS[pos]
    if pos in DDL_POSITIONS:
        return DDL_POSITIONS[pos]
    return DIALECT_POSITIONS[cls][pos]


def lexopts(cls):
    b = ns.QUERY_CLASSES[cls]._builder()
    q = b.QUOTE_CHAR
    iq = "".join(x for x in [q, b.ALIAS_QUOTE_CHAR] if x) or '"'
    return {"ident_quotes": iq, "str_quote": "'", "backslash": cls in BACKSLASH, "hash_comment": cls == "mysql"}


def reference_for(vsrc, v):
    if isinstance(v, str):
        return "'REF'"
    if isinstance(v, bool):
        return "True" if not v else "False"
    if isinstance(v, (int, float)):
        return "7"
    return vsrc


def mksig(case, kind, cls):
    if kind == "backslash-escape":
        return {"kind": kind, "cls": cls}
    return {"kind": kind, "pos": case["pos"]}


def examine(case):
    res = Result()
    tmpl = template(case)
    cls = case["cls"]
    vsrc = case["value"]
    v = ns.ev(vsrc)
    src = tmpl.format(Q=QNAMES[cls], v=vsrc)
    case["recipe"] = src
    obj = ns.ev(src)
    if case["pos"] not in DDL_POSITIONS and struct_hash([case["pos"], cls, vsrc])[0] in "01234567":
        # in half of the cases the statement has already been rendered for a parameter collector (where the value is
        # taken out of the text): the literal written afterwards must be the same one
        try:
            obj.get_sql(parameter=ns.QmarkParameter())
        except Exception:
            pass
    text = str(obj)
    isstr = isinstance(v, str)
    res.nontrivial = isstr and any(ch in v for ch in "'\"`\\-/*#;\n")
    res.key = struct_hash([case["pos"], cls, vsrc])
    res.tags = ["pos=" + case["pos"], "cls=" + cls, "type=" + type(v).__name__]
    # correspondence with the model (statements only; DDL builders are modelled in C17)
    if case["pos"] not in DDL_POSITIONS:
        try:
            spec = describe.describe(obj)
            res.requests.append(({"op": "render", "ctx": describe.d_ctx({"dialect": obj.dialect}), "term": spec},
                                 {"sql": text}, "str(statement)"))
        except Unsupported as e:
            res.skipped = str(e)[:40]
    if case["pos"] == "arith_rhs" and not isstr:
        # (the parentheses around a negative operand are part of the layout, so the skeleton comparison does not apply: the
        # literal must simply not open a comment)
        import re as _re
        bare = _re.sub(r"'(?:[^']|'')*'", "''", text)
        if _re.search(r"--|/\*|#", bare):
            res.findings.append({"sig": mksig(case, "comment-introducer", cls),
                                 "what": "%s: value %r meets an operator and opens a comment: %s" % (case["pos"], v, text),
                                 "detail": {"text": text}})
        return res
    # oracle: token skeleton identical to the statement built with a reference value
    opts = lexopts(cls)
    ref_src = tmpl.format(Q=QNAMES[cls], v=reference_for(vsrc, v))
    ref_text = str(ns.ev(ref_src))
    sigbase = {"pos": case["pos"]}
    try:
        toks = sqlspec.lex(text, **opts)
    except sqlspec.LexError as e:
        kind = "backslash-escape" if (cls in BACKSLASH and isstr and "\\" in v) else "lexical-break"
        res.findings.append({"sig": mksig(case, kind, cls),
                             "what": "%s: value %r breaks the statement's lexical structure under %s rules: %s | %s"
                                     % (case["pos"], v, cls, e, text), "detail": {"text": text}})
        return res
    rtoks = sqlspec.lex(ref_text, **opts)
    if isstr:
        diff = [(a, b) for a, b in zip(toks, rtoks) if a.key() != b.key()]
        if len(toks) != len(rtoks) or len(diff) != 1 or diff[0][0].kind != "str" or diff[0][1].val != "REF":
            kind = "backslash-escape" if (cls in BACKSLASH and "\\" in v) else "skeleton-changed"
            res.findings.append({"sig": mksig(case, kind, cls),
                                 "what": "%s: value %r changes the token structure of the %s statement: %s" % (case["pos"], v, cls, text),
                                 "detail": {"text": text, "reference": ref_text}})
        elif diff[0][0].val != v:
            kind = "backslash-escape" if (cls in BACKSLASH and "\\" in v) else "decodes-differently"
            res.findings.append({"sig": mksig(case, kind, cls),
                                 "what": "%s: literal for %r reads back as %r under %s rules: %s" % (case["pos"], v, diff[0][0].val, cls, text),
                                 "detail": {"text": text}})
    else:
        # non-string: same skeleton as another value of the same type, up to the literal itself
        def skel(ts):
            out = []
            for t in ts:
                if t.kind in ("num", "str"):
                    if out and out[-1] == ("op", "-"):
                        out.pop()
                    out.append(("lit",))
                elif t.kind == "id" and t.val in ("true", "false") and t.quote is None:
                    out.append(("lit",))
                else:
                    out.append((t.kind, t.val))
            return out
        if skel(toks) != skel(rtoks):
            res.findings.append({"sig": dict(sigbase, kind="nonstring-skeleton", type=type(v).__name__),
                                 "what": "%s: value %s changes the token structure: %s vs %s" % (case["pos"], vsrc, text, ref_text),
                                 "detail": {"text": text, "reference": ref_text}})
    return res
