"""C14 Documented rejections fire exactly when specified and change nothing."""
import random

from harness import ns
from harness.run import Result
from harness.common import struct_hash
from harness.ns import QNAMES

ID = "C14"
LEAN_MODULES = ["Pypika.Props.C14", "Pypika.Props.Builder", "Pypika.Props.DDLBuilder"]
TRACE_BUILDER = True   # builder calls made by this check are also run through Pypika.B.step (harness/trace.py)
THEOREMS = ["Pypika.C14.join_guard_iff", "Pypika.C14.join_accepts_known", "Pypika.C14.custom_function_iff",
            "Pypika.C14.custom_function_no_params", "Pypika.C14.case_iff", "Pypika.C14.arity_guard", "Pypika.C14.once_only",
            "Pypika.C14.update_delete_iff", "Pypika.C14.conflict_handlers", "Pypika.C14.top_iff", "Pypika.C14.returning_iff", "Pypika.C14.returning_accepts_known",
            "Pypika.C14.reject_changes_nothing", "Pypika.C01.table_safe_partial",
            # concrete builder model (Builder.lean, tied call by call through harness/trace.py)
            "Pypika.B.into_raises_iff", "Pypika.B.delete_raises_iff", "Pypika.B.update_raises_iff", "Pypika.B.select_str_raises_iff", "Pypika.B.mysql_handlers_exclusive", "Pypika.B.mysql_handlers_exclusive_rev", "Pypika.B.pg_handlers_exclusive", "Pypika.B.pg_handlers_exclusive_rev", "Pypika.B.top_raises_iff",
            # CREATE TABLE builder state machine (DDLBuilder.lean, tied call by call through harness/trace.py)
            "Pypika.DDLB.create_table_once", "Pypika.DDLB.primary_key_once", "Pypika.DDLB.foreign_key_once", "Pypika.DDLB.columns_after_as_select", "Pypika.DDLB.as_select_after_columns", "Pypika.DDLB.vertica_local_needs_temporary", "Pypika.DDLB.vertica_preserve_needs_temporary",
            # term-level builders (Builder.lean stepT, tied call by call through harness/trace.py)
            "Pypika.B.frame_once",
            "Pypika.B.returning_no_fields_ok", "Pypika.B.returning_needs_dml", "Pypika.B.returning_target_ok", "Pypika.B.returning_rejects_cleanly"]
AGREE = []
TRUSTED = ["the scenario table below as the reading of 'documented situation' for each guard"]
RULE = ("for every guard a family of scenarios generated on BOTH sides of the condition (rejecting inputs and their accepting "
        "neighbours): join criteria over 1-4 sources incl. sub-queries / aliased / WITH / UPDATE targets / table-less fields, "
        "joiner without criterion, set-operation arity, CASE, CustomFunction arity, string select, conflict handlers, "
        "RETURNING, once-only calls on every builder, window frames, Vertica / MSSQL guards; after each call every live object "
        "is compared with its snapshot; non-trivial = scenario whose expectation is 'raises'; distinct by script")


def counts(tier):
    return 3000 if tier == "quick" else 60000


def scen_join(rng):
    """join criterion naming tables; expectation from the set of known sources"""
    qn = QNAMES[rng.choice(list(QNAMES))]
    names = ["t", "u", "v", "w", "z"]
    stmt = rng.choice(["select", "select", "update", "with"])
    k = rng.randint(1, 3)
    base = rng.sample(names[:4], k)
    lines = ["s_%s = T(%r)%s" % (n, n, ".as_('al_%s')" % n if rng.random() < 0.25 else "") for n in names]
    lines.append("sub = Query.from_(T('q')).select('a', 'b')")
    # sources of other kinds that are NOT part of the statement: an aliased sub-query, a named query never declared by with_()
    lines.append("stray = Query.from_(T('q2')).select('a', 'b').as_('p')")
    ids = {n: i for i, n in enumerate(names)}
    ids["sub"] = 9
    ids["cte"] = 8
    ids["stray"] = 10
    ids["ghost"] = 11
    known = []
    if stmt == "update":
        head = "%s.update(s_%s)" % (qn, base[0])
        known.append(base[0])
        base = base[:1]
    elif stmt == "with":
        head = "%s.with_(sub, 'cte').from_(s_%s)" % (qn, base[0])
        known += [base[0], "cte"]
        base = base[:1]
    else:
        head = "%s.from_(s_%s)" % (qn, base[0]) + "".join(".from_(s_%s)" % b for b in base[1:])
        known += base
    joined = []
    chain = head
    # an earlier, valid join
    if rng.random() < 0.5:
        j0 = rng.choice([n for n in names if n not in known])
        chain += ".join(s_%s).on(s_%s.a == s_%s.a)" % (j0, known[0] if known[0] != "cte" else base[0], j0)
        joined.append(j0)
    item = rng.choice([n for n in names if n not in known and n not in joined] + ["sub"])
    # criterion tables
    pool = known + joined + [item]
    crit_tabs = [item]
    n_extra = rng.randint(1, 2)
    for _ in range(n_extra):
        if rng.random() < 0.35:
            outsider = [n for n in names if n not in pool and n != item] + ["stray", "ghost"]
            crit_tabs.append(rng.choice(outsider) if outsider else rng.choice(pool))
        else:
            crit_tabs.append(rng.choice(pool))
    tableless = rng.random() < 0.2

    def ref(n):
        if n == "sub":
            return "sub"
        if n == "cte":
            return "AliasedQuery('cte')"
        if n == "stray":
            return "stray"
        if n == "ghost":
            return "AliasedQuery('ghost')"
        return "s_%s" % n
    terms = ["%s.c%d" % (ref(n), i) for i, n in enumerate(crit_tabs)]
    if tableless:
        terms.append("F('free')")
    crit = " & ".join("(%s == %s)" % (terms[i], terms[(i + 1) % len(terms)]) for i in range(len(terms) - 1)) or "(%s == 1)" % terms[0]
    lines.append("q0 = %s" % chain)
    call = "q0.join(%s).on(%s)" % (ref(item), crit)
    lines.append("r = %s" % call)
    unknown = [n for n in crit_tabs if n not in known and n not in joined and n != item]
    expect = "JoinException" if unknown else None
    model = {"op": "guard", "guard": "join", "ct": [ids[n] for n in crit_tabs], "base": [ids[n] for n in known],
             "joined": [ids[n] for n in joined], "item": ids[item]}
    return lines, expect, "join", model


def scen_returning(rng):
    """PostgreSQL RETURNING over INSERT / UPDATE / DELETE / SELECT statements with ON / USING / CROSS joins and extra FROM
    items; terms over the target, the joined tables, FROM items, unknown tables and table-less fields.  Expected by the
    rule of the property (foreign = a table that is none of target, FROM item, joined item), and by the model."""
    names = ["t", "u", "v", "w", "zz"]
    ids = {n: i + 1 for i, n in enumerate(names)}          # 0 = "no table"
    lines = ["s_%s = T(%r)" % (n, n) for n in names]
    kind = rng.choice(["insert", "update", "update", "update", "delete", "select"])
    froms, joins, target = [], [], None
    if kind == "insert":
        chain, target = "PostgreSQLQuery.into(s_t).insert(1)", "t"
    elif kind == "update":
        chain, target = "PostgreSQLQuery.update(s_t)", "t"
        if rng.random() < 0.3:
            chain += ".from_(s_w)"
            froms.append("w")
        for jt in rng.sample(["u", "v"], rng.randint(0, 2)):
            how = rng.choice(["on", "on", "using", "cross"])
            chain += {"on": ".join(s_%s).on(s_t.id == s_%s.id)", "using": ".join(s_%s).using('id')", "cross": ".join(s_%s).cross()"}[how].replace("%s", jt)
            joins.append(jt)
        chain += ".set(s_t.a, 1)"
    elif kind == "delete":
        chain = "PostgreSQLQuery.from_(s_t).delete()"
        froms.append("t")
    else:
        chain = "PostgreSQLQuery.from_(s_t).select('a')"
        froms.append("t")
    lines.append("q0 = " + chain)
    nf = rng.randint(1, 3)
    ftabs = [rng.choice(["t", "t", "u", "v", "w", "zz", None]) for _ in range(nf)]
    parts = ["s_%s.c%d" % (n, i) if n else "F('free%d')" % i for i, n in enumerate(ftabs)]
    term = parts[0]
    for p_ in parts[1:]:
        term = rng.choice(["(%s + %s)", "fn.Coalesce(%s, %s)", "(%s * %s)"]) % (term, p_)
    lines.append("r = q0.returning(%s)" % term)
    has_dml = kind != "select"
    known = set(froms) | set(joins) | ({target} if target else set())
    expect = "QueryException" if (not has_dml or any(n is not None and n not in known for n in ftabs)) else None
    model = {"op": "guard", "guard": "returning", "has_dml": has_dml, "targets": [0] + ([ids[target]] if target else []),
             "field_tables": [ids[n] if n else 0 for n in ftabs], "known": [0] + sorted(ids[n] for n in known)}
    return lines, expect, "pg_returning", model


def scen_selfjoin(rng):
    """joining a table equal to a FROM table (same name, no alias): accepted joins get the <name>2 alias (known finding),
    a rejected one must leave the argument alone"""
    qn = QNAMES[rng.choice(list(QNAMES))]
    ok = rng.random() < 0.4
    lines = ["s_t = T('t')", "again = T('t')", "q0 = %s.from_(s_t).select('a')" % qn]
    if ok:
        lines.append("r = q0.join(T('u')).on(s_t.a == T('u').a)")
        return lines, None, "join", None
    lines.append("r = q0.join(again).on(again.a == T('zz').a)")
    return lines, "JoinException", "join-self", None


def scen_simple(rng):
    """(lines, expected exception or None, guard name, model request or None)"""
    qn = QNAMES[rng.choice(list(QNAMES))]
    g = rng.choice(["joiner", "setop", "case", "custom", "select_str", "into", "update", "delete", "mysql_conflict", "pg_conflict",
                    "pg_returning", "create_table", "primary_key", "foreign_key", "drop", "temporal", "frame", "columns_as_select",
                    "vertica", "top", "on_conflict_where", "rollup", "pg_on_conflict_needs_insert", "cluster"])
    L, exp, model = [], None, None
    if g == "joiner":
        v = rng.choice(["on_none", "on_field_empty", "using_empty", "on_ok", "using_ok", "on_field_ok"])
        L = ["j = %s.from_(T('t')).select('a').join(T('u'))" % qn]
        L.append("r = j." + {"on_none": "on(None)", "on_field_empty": "on_field()", "using_empty": "using()",
                             "on_ok": "on(T('t').a == T('u').a)", "using_ok": "using('a')", "on_field_ok": "on_field('a', 'b')"}[v])
        exp = None if v.endswith("ok") else "JoinException"
    elif g == "setop":
        a, b = rng.randint(1, 3), rng.randint(1, 3)
        cols = ["'a'", "'b'", "'c'"]
        L = ["s = %s.from_(T('t')).select(%s).union(%s.from_(T('u')).select(%s))" % (qn, ", ".join(cols[:a]), qn, ", ".join(cols[:b])),
             "r = str(s)"]
        exp = None if a == b else "SetOperationException"
    elif g == "case":
        n = rng.randint(0, 2)
        L = ["c = Case()" + "".join(".when(F('a') == %d, %d)" % (i, i) for i in range(n)) + (".else_(0)" if rng.random() < 0.5 else ""),
             "r = str(Query.from_(T('t')).select(c))"]
        exp = None if n else "CaseException"
    elif g == "custom":
        params = rng.choice([None, 0, 1, 2, 3])
        nargs = rng.randint(0, 3)
        L = ["f = CustomFunction('F', %r)" % (None if params is None else ["p%d" % i for i in range(params)]),
             "r = f(%s)" % ", ".join("F('a%d')" % i for i in range(nargs))]
        exp = "FunctionException" if params is not None and nargs != params else None
        model = {"op": "guard", "guard": "custom_function", "params": params, "nargs": nargs}
    elif g == "select_str":
        has_from = rng.random() < 0.5
        L = ["q0 = %s" % ("%s.from_(T('t'))" % qn if has_from else "%s._builder()" % qn), "r = q0.select(%s)" % rng.choice(["'a'", "'*'"])]
        exp = None if has_from else "QueryException"
        model = {"op": "guard", "guard": "select_str", "nfrom": 1 if has_from else 0}
    elif g == "into":
        twice = rng.random() < 0.5
        L = ["q0 = %s.into(T('t'))" % qn if twice else "q0 = %s.from_(T('s')).select('a')" % qn, "r = q0.into(T('u'))"]
        exp = "AttributeError" if twice else None
        model = {"op": "guard", "guard": "into", "has_insert": twice}
    elif g == "update":
        st = rng.choice(["fresh", "updated", "selected", "deleting"])
        L = ["q0 = " + {"fresh": "%s._builder()", "updated": "%s.update(T('t'))", "selected": "%s.from_(T('t')).select('a')",
                        "deleting": "%s.from_(T('t')).delete()"}[st] % qn, "r = q0.update(T('u'))"]
        exp = None if st == "fresh" else "AttributeError"
        model = {"op": "guard", "guard": "update", "has_update": st == "updated", "has_selects": st == "selected", "delete_from": st == "deleting"}
    elif g == "delete":
        st = rng.choice(["from", "updated", "selected", "deleting"])
        L = ["q0 = " + {"from": "%s.from_(T('t'))", "updated": "%s.update(T('t'))", "selected": "%s.from_(T('t')).select('a')",
                        "deleting": "%s.from_(T('t')).delete()"}[st] % qn, "r = q0.delete()"]
        exp = None if st == "from" else "AttributeError"
        model = {"op": "guard", "guard": "delete", "has_update": st == "updated", "has_selects": st == "selected", "delete_from": st == "deleting"}
    elif g == "mysql_conflict":
        first, second = rng.choice(["upd", "ign"]), rng.choice(["upd", "ign"])
        call = {"upd": ".on_duplicate_key_update('a', 1)", "ign": ".on_duplicate_key_ignore()"}
        L = ["q0 = MySQLQuery.into(T('t')).insert(1)" + call[first], "r = q0" + call[second]]
        exp = "QueryException" if first != second else None
    elif g == "pg_conflict":
        first, second = rng.choice(["upd", "noth"]), rng.choice(["upd", "noth"])
        call = {"upd": ".do_update('a', 1)", "noth": ".do_nothing()"}
        L = ["q0 = PostgreSQLQuery.into(T('t')).insert(1).on_conflict('a')" + call[first], "r = q0" + call[second]]
        exp = "QueryException" if first != second else None
    elif g == "pg_on_conflict_needs_insert":
        ins = rng.random() < 0.5
        L = ["q0 = PostgreSQLQuery.into(T('t')).insert(1)" if ins else "q0 = PostgreSQLQuery.from_(T('t')).select('a')", "r = q0.on_conflict('a')"]
        exp = None if ins else "QueryException"
    elif g == "on_conflict_where":
        v = rng.choice(["nothing_where", "fieldless_where", "ok_where", "ok_update_where", "no_handler", "fieldless_update"])
        base = "PostgreSQLQuery.into(T('t')).insert(1)"
        L = {"nothing_where": ["q0 = %s.on_conflict('a').do_nothing()" % base, "r = q0.where(F('a') == 1)"],
             "fieldless_where": ["q0 = %s.on_conflict()" % base, "r = q0.where(F('a') == 1)"],
             "ok_where": ["q0 = %s.on_conflict('a')" % base, "r = str(q0.where(F('a') == 1).do_nothing())"],
             "ok_update_where": ["q0 = %s.on_conflict('a').do_update('b', 2)" % base, "r = str(q0.where(F('a') == 1))"],
             "no_handler": ["q0 = %s.on_conflict('a')" % base, "r = str(q0)"],
             "fieldless_update": ["q0 = %s.on_conflict().do_update('b', 2)" % base, "r = str(q0)"]}[v]
        exp = {"nothing_where": "QueryException", "fieldless_where": "QueryException", "ok_where": None, "ok_update_where": None,
               "no_handler": "QueryException", "fieldless_update": "QueryException"}[v]
    elif g == "pg_returning":
        v = rng.choice(["agg", "agg_arith", "agg_neg", "agg_cmp", "agg_between", "agg_case", "neg_plain", "cmp_plain", "agg_plus_field", "foreign", "mixed_foreign", "mixed_foreign_fn", "own", "star", "str", "select_query", "joined", "plain_fn"])
        L = ["t = T('t')", "u = T('u')"]
        L += {"agg": ["q0 = PostgreSQLQuery.into(t).insert(1)", "r = q0.returning(fn.Sum(t.a))"],
              "agg_arith": ["q0 = PostgreSQLQuery.into(t).insert(1)", "r = q0.returning(fn.Max(t.a) + 1)"],
              # an aggregate below a term of another class is an aggregate term all the same
              "agg_neg": ["q0 = PostgreSQLQuery.into(t).insert(1)", "r = q0.returning(-fn.Sum(t.a))"],
              "agg_cmp": ["q0 = PostgreSQLQuery.into(t).insert(1)", "r = q0.returning(fn.Sum(t.a) > 1)"],
              "agg_between": ["q0 = PostgreSQLQuery.update(t).set('a', 1)", "r = q0.returning(fn.Max(t.a).between(1, 2))"],
              "agg_case": ["q0 = PostgreSQLQuery.into(t).insert(1)", "r = q0.returning(Case().when(fn.Sum(t.a) > 1, fn.Max(t.b)).else_(fn.Min(t.b)))"],
              "neg_plain": ["q0 = PostgreSQLQuery.into(t).insert(1)", "r = q0.returning(-t.a, t.b > 1)"],
              "cmp_plain": ["q0 = PostgreSQLQuery.update(t).set('a', 1)", "r = q0.returning(t.a.between(1, 2), Case().when(t.a > 1, t.b).else_(0))"],
              "agg_plus_field": ["q0 = PostgreSQLQuery.into(t).insert(1)", "r = q0.returning(fn.Sum(t.a) + t.b)"],
              "foreign": ["q0 = PostgreSQLQuery.into(t).insert(1)", "r = q0.returning(u.a)"],
              "mixed_foreign": ["q0 = PostgreSQLQuery.into(t).insert(1)", "r = q0.returning(t.a * u.b)"],
              "mixed_foreign_fn": ["q0 = PostgreSQLQuery.update(t).set('a', 1)", "r = q0.returning(fn.Coalesce(t.a, u.b))"],
              "own": ["q0 = PostgreSQLQuery.update(t).set('a', 1)", "r = q0.returning(t.a, 'b')"],
              "star": ["q0 = PostgreSQLQuery.from_(t).delete()", "r = q0.returning('*')"],
              "str": ["q0 = PostgreSQLQuery.into(t).insert(1)", "r = q0.returning('a')"],
              "select_query": ["q0 = PostgreSQLQuery.from_(t).select('a')", "r = q0.returning('a')"],
              "joined": ["q0 = PostgreSQLQuery.update(t).join(u).on(t.id == u.id).set('a', 1)", "r = q0.returning(u.b)"],
              "plain_fn": ["q0 = PostgreSQLQuery.into(t).insert(1)", "r = q0.returning(fn.Upper(t.a))"]}[v]
        if v == "agg_plus_field":
            g = "pg_returning_mixed_aggregate"
        exp = {"agg_neg": "QueryException", "agg_cmp": "QueryException", "agg_between": "QueryException", "agg_case": "QueryException",
               "neg_plain": None, "cmp_plain": None,
               "agg": "QueryException", "agg_arith": "QueryException", "agg_plus_field": "QueryException", "mixed_foreign": "QueryException",
               "mixed_foreign_fn": "QueryException", "foreign": "QueryException", "own": None, "star": None, "str": None,
               "select_query": "QueryException", "joined": None, "plain_fn": None}[v]
    elif g == "create_table":
        twice = rng.random() < 0.5
        L = ["q0 = Query.create_table('t')" if twice else "q0 = queries.CreateQueryBuilder()", "r = q0.create_table('u')"]
        exp = "AttributeError" if twice else None
    elif g == "primary_key":
        twice = rng.random() < 0.5
        L = ["q0 = Query.create_table('t').columns('a', 'b')" + (".primary_key('a')" if twice else ""), "r = q0.primary_key('b')"]
        exp = "AttributeError" if twice else None
    elif g == "foreign_key":
        twice = rng.random() < 0.5
        L = ["q0 = Query.create_table('t').columns('a', 'b')" + (".foreign_key(['a'], T('o'), ['id'])" if twice else ""),
             "r = q0.foreign_key(['b'], T('p'), ['id'])"]
        exp = "AttributeError" if twice else None
    elif g == "drop":
        twice = rng.random() < 0.5
        L = ["q0 = Query.drop_table('t')" if twice else "q0 = queries.DropQueryBuilder()",
             "r = q0.%s" % rng.choice(["drop_table('u')", "drop_view('v')", "drop_user('x')", "drop_index('i')", "drop_database('d')"])]
        exp = "AttributeError" if twice else None
    elif g == "temporal":
        first = rng.choice([None, "for_", "for_portion"])
        second = rng.choice(["for_", "for_portion"])
        arg = {"for_": "SystemTimeValue().as_of('x')", "for_portion": "SystemTimeValue().from_to('a', 'b')"}
        L = ["q0 = T('t')" + (".%s(%s)" % (first, arg[first]) if first else ""), "r = q0.%s(%s)" % (second, arg[second])]
        exp = "AttributeError" if first else None
    elif g == "frame":
        first = rng.choice([None, "rows", "range"])
        second = rng.choice(["rows", "range"])
        L = ["q0 = an.Sum(F('a')).over(F('b'))" + (".%s(an.Preceding(1))" % first if first else ""), "r = q0.%s(an.Preceding(2), an.Following(0))" % second]
        exp = "AttributeError" if first else None
    elif g == "columns_as_select":
        v = rng.choice(["cols_then_as", "as_then_cols", "as_not_query", "cols", "as"])
        L = {"cols_then_as": ["q0 = Query.create_table('t').columns('a')", "r = q0.as_select(Query.from_('s').select('a'))"],
             "as_then_cols": ["q0 = Query.create_table('t').as_select(Query.from_('s').select('a'))", "r = q0.columns('a')"],
             "as_not_query": ["q0 = Query.create_table('t')", "r = q0.as_select('SELECT 1')"],
             "cols": ["q0 = Query.create_table('t')", "r = q0.columns('a').columns('b')"],
             "as": ["q0 = Query.create_table('t')", "r = q0.as_select(Query.from_('s').select('a'))"]}[v]
        exp = {"cols_then_as": "AttributeError", "as_then_cols": "AttributeError", "as_not_query": "TypeError", "cols": None, "as": None}[v]
    elif g == "vertica":
        temp = rng.random() < 0.5
        L = ["q0 = VerticaQuery.create_table('t')" + (".temporary()" if temp else ""), "r = q0.%s()" % rng.choice(["local", "preserve_rows"])]
        exp = None if temp else "AttributeError"
    elif g == "top":
        val = rng.choice([0, 5, 100, 101, -1, "'7'", "'x'", 250])
        pct = rng.random() < 0.5
        L = ["q0 = MSSQLQuery.from_(T('t')).select('a')", "r = q0.top(%s, percent=%r)" % (val, pct)]
        isint = val != "'x'"
        iv = int(str(val).strip("'")) if isint else 0
        exp = "QueryException" if (not isint or (pct and not (0 <= iv <= 100))) else None
        model = {"op": "guard", "guard": "top", "is_int": isint, "value": iv, "percent": pct}
    elif g == "rollup":
        v = rng.choice(["mysql_empty", "mysql_ok", "mysql_twice", "plain"])
        L = {"mysql_empty": ["q0 = %s.from_(T('t')).select('a')" % qn, "r = q0.rollup(vendor='mysql')"],
             "mysql_ok": ["q0 = %s.from_(T('t')).select('a').groupby('a')" % qn, "r = q0.rollup(vendor='mysql')"],
             "mysql_twice": ["q0 = %s.from_(T('t')).select('a').rollup(F('a'), vendor='mysql')" % qn, "r = q0.rollup(F('b'), vendor='mysql')"],
             "plain": ["q0 = %s.from_(T('t')).select('a')" % qn, "r = q0.rollup(F('a')).rollup(F('b'))"]}[v]
        exp = {"mysql_empty": "RollupException", "mysql_ok": None, "mysql_twice": "AttributeError", "plain": None}[v]
    elif g == "cluster":
        twice = rng.random() < 0.5
        L = ["q0 = ClickHouseQuery.drop_table('t')" + (".on_cluster('c')" if twice else ""), "r = q0.on_cluster('d')"]
        exp = "AttributeError" if twice else None
    return L, exp, g, model


def generate(rng, n, tier):
    for i in range(n):
        yield {"seed": rng.randrange(10 ** 9), "join": i % 3 == 0}
    yield {"fixed": ["t = T('t')", "q0 = PostgreSQLQuery.into(t).insert(1)", "r = q0.returning(fn.Sum(t.a) + t.b)"],
           "expect": "QueryException", "guard": "pg_returning_mixed_aggregate"}
    for lines, expect, guard in FIXED_SCENARIOS:
        yield {"fixed": lines, "expect": expect, "guard": guard}
    yield {"fixed": ["sub = Query.from_(T('q')).select('a')", "q0 = Query.from_(T('t')).select('a')", "r = q0.join(sub).on(sub.a == T('zz').a)"],
           "expect": "JoinException", "guard": "join"}


# both polarities of guards whose decision goes through table identity or through the set of joined tables
FIXED_SCENARIOS = [
    # two separately built but equal temporal tables are the same table for the join guard …
    (["t1 = T('t').for_(SystemTimeValue().as_of('2020-01-01'))", "t2 = T('t').for_(SystemTimeValue().as_of('2020-01-01'))",
      "u = T('u')", "q0 = Query.from_(t1).select('a')", "r = q0.join(u).on(t2.a == u.a)"], None, "join"),
    (["t1 = T('t').for_portion(SystemTimeValue().from_to('2020-01-01', '2020-02-01'))",
      "t2 = T('t').for_portion(SystemTimeValue().from_to('2020-01-01', '2020-02-01'))",
      "u = T('u')", "q0 = Query.from_(u).join(t1).on(u.a == t1.a).select('a')", "r = q0.join(T('v')).on(t2.a == T('v').a)"], None, "join"),
    # … and tables that differ in the temporal clause are not
    (["t1 = T('t').for_(SystemTimeValue().as_of('2020-01-01'))", "t2 = T('t').for_(SystemTimeValue().as_of('2021-01-01'))",
      "u = T('u')", "q0 = Query.from_(t1).select('a')", "r = q0.join(u).on(t2.a == u.a)"], "JoinException", "join"),
    (["t1 = T('t').for_(SystemTimeValue().as_of('2020-01-01'))", "t2 = T('t').for_(SystemTimeValue().as_of('2020-01-01'))",
      "q0 = PostgreSQLQuery.update(t1).set('a', 1)", "r = q0.returning(t2.a)"], None, "pg_returning"),
    # RETURNING of an UPDATE with joins: terms over the updated and the joined tables are accepted, foreign tables are not
    (["t = T('abc')", "u = T('bcd')", "q0 = PostgreSQLQuery.update(t).join(u).on(t.id == u.id).set(t.a, 1)",
      "r = q0.returning(t.total + u.amount)"], None, "pg_returning"),
    (["t = T('abc')", "u = T('bcd')", "q0 = PostgreSQLQuery.update(t).join(u).on(t.id == u.id).set(t.a, 1)",
      "r = q0.returning(fn.Coalesce(u.amount, t.total), u.amount, t.total)"], None, "pg_returning"),
    (["t = T('abc')", "u = T('bcd')", "q0 = PostgreSQLQuery.update(t).join(u).using('id').set(t.a, 1)",
      "r = q0.returning(t.total)"], None, "pg_returning"),
    (["t = T('abc')", "u = T('bcd')", "q0 = PostgreSQLQuery.update(t).join(u).on(t.id == u.id).set(t.a, 1)",
      "r = q0.returning(t.total + T('zzz').x)"], "QueryException", "pg_returning"),
    (["t = T('abc')", "q0 = PostgreSQLQuery.into(t).insert(1)", "r = q0.returning(T('zzz').x)"], "QueryException", "pg_returning"),
]


def snapshot(env, names):
    out = {}
    for k in names:
        o = env[k]
        try:
            txt = str(o.query) if isinstance(o, ns.queries.Joiner) else str(o)
        except Exception as e:
            txt = "raises %s" % type(e).__name__
        out[k] = (txt, getattr(o, "alias", None) if not isinstance(o, ns.queries.Joiner) else None)
    return out


def examine(case):
    res = Result()
    rng = random.Random(case.get("seed", 0))
    if case.get("fixed"):
        lines, expect, guard, model = case["fixed"], case["expect"], case["guard"], None
    else:
        if case["join"]:
            lines, expect, guard, model = scen_selfjoin(rng) if rng.random() < 0.15 else scen_join(rng)
        elif rng.random() < 0.12:
            lines, expect, guard, model = scen_returning(rng)
        else:
            lines, expect, guard, model = scen_simple(rng)
    script = "\n".join(lines)
    case["recipe"] = script
    res.key = struct_hash(script)
    res.nontrivial = expect is not None
    res.tags = ["guard=" + guard, "expect=%s" % (expect or "accept")]
    env = dict(ns.NS)
    for l in lines[:-1]:
        exec(l, env)
    live = [k for k, v in env.items() if k not in ns.NS and not k.startswith("__") and hasattr(v, "__class__") and
            isinstance(v, (ns.terms.Term, ns.queries.Selectable, ns.queries.CreateQueryBuilder, ns.queries.DropQueryBuilder,
                           ns.queries.Joiner, ns.terms.Node))]
    before = snapshot(env, live)
    got = None
    try:
        exec(lines[-1], env)
    except Exception as e:
        got = type(e).__name__
    after = snapshot(env, live)
    if got != expect:
        kind = "missed-rejection" if expect else "spurious-rejection"
        res.findings.append({"sig": {"kind": kind, "guard": guard, "expected": expect, "got": got},
                             "what": "%s: expected %s, got %s\n%s" % (guard, expect or "no exception", got or "no exception", script)})
    if got is not None:
        for k in live:
            if before[k] != after[k]:
                res.findings.append({"sig": {"kind": "changed-after-raise", "guard": guard},
                                     "what": "after the rejected call the object %s changed: %r -> %r\n%s" % (k, before[k], after[k], script)})
                break
    if model is not None:
        res.requests.append((model, {"raises": got is not None}, "guard %s" % guard))
    return res


def same(expected, got):
    return got.get("raises") == expected["raises"]
