"""C08 Clause placement does not depend on the order of builder calls."""
import itertools
import re

from harness import describe, ns
from harness.describe import Unsupported
from harness.run import Result
from harness.common import struct_hash
from harness.ns import QNAMES

ID = "C08"
LEAN_MODULES = ["Pypika.Props.C08", "Pypika.Props.Builder", "Pypika.BuilderFrame", "Pypika.BuilderCommute", "Pypika.BuilderIndep"]
TRACE_BUILDER = True   # builder calls made by this check are also run through Pypika.B.step (harness/trace.py)
THEOREMS = ["Pypika.C08.step_congr", "Pypika.C08.swap", "Pypika.C08.bubble", "Pypika.C08.interleavings_agree",
            "Pypika.C08.accumulate", "Pypika.C08.nsBase_mono", "Pypika.C08.equiv_cases",
            # concrete builder model (Builder.lean, tied call by call through harness/trace.py)
            "Pypika.B.step_simple", "Pypika.B.clause_calls_commute", "Pypika.B.clause_interleavings_agree",
            "Pypika.B.step_frame", "Pypika.B.run_frame", "Pypika.B.run_keeps_wheres", "Pypika.B.run_keeps_selects", "Pypika.B.run_keeps_from",
            # locality + frame => independent calls commute, for all arguments and states (BuilderLocal*.lean, BuilderCommute.lean)
            "Pypika.B.step_local", "Pypika.B.calls_commute", "Pypika.B.calls_commute_iff",
            "Pypika.B.run_swap", "Pypika.B.run_traceEq", "Pypika.B.interleavings_render_same", "Pypika.B.not_indep_of_common_write",
            "Pypika.B.clause_kinds_independent", "Pypika.B.swap_of_kinds"]
AGREE = ["Pypika.Agree.writes_agree", "Pypika.Agree.reads_agree", "Pypika.Agree.methods_covered"]
TRUSTED = ["the slot state machine (Build.lean) abstracts call payloads to identifiers; that each real builder method writes "
           "exactly the slot the model says is checked by running every generated call sequence through both and comparing "
           "all slots, the _foreign_table flag and the namespace decision"]
RULE = ("multisets of 3-7 clause-adding calls (select, join, where, prewhere, groupby, having, orderby, limit, offset, distinct, "
        "for_update, with_, force/use index; set for UPDATE; columns/insert for INSERT) on SELECT / UPDATE / INSERT builders of "
        "all 10 classes; quick: 12 sampled interleavings each, thorough: all n! for n <= 6; only interleavings that keep the "
        "relative order of calls of one kind; non-trivial = >= 3 distinct kinds; distinct by (class, statement kind, calls)")

# call templates: kind -> list of (source fragment, criterion tables)
T_ = ["t", "u", "v"]


def counts(tier):
    return 1500 if tier == "quick" else 6000


DIALECT_KINDS = {
    "mysql": ["modifier", "for_update_of"], "postgresql": ["distinct_on", "for_update_of"], "mssql": ["top"],
    "clickhouse": ["final", "sample", "limit_by", "distinct_on"], "vertica": ["hint"],
}
# clause calls of the dialect builders: they take part in the interleavings (text comparison, concrete builder model);
# the abstract slot machine of Build.lean has no slot for them
EXTRA_KINDS = {"modifier", "for_update_of", "distinct_on", "top", "final", "sample", "limit_by", "hint"}


def mk_call(rng, stmt, i, joined, cls="generic"):
    """returns dict(kind, src, id, tabs, tbl)"""
    x = rng.random()
    fid = "f%d" % i
    if stmt == "select" and cls in DIALECT_KINDS and rng.random() < 0.4:
        k = rng.choice(DIALECT_KINDS[cls])
        if k == "modifier":
            return {"kind": k, "src": ".modifier(%r)" % rng.choice(["SQL_CALC_FOUND_ROWS", "HIGH_PRIORITY"]), "id": i}
        if k == "for_update_of":
            names = rng.sample(["t", "u", "v", "ua", "va"], rng.randint(1, 3))
            return {"kind": "for_update", "src": ".for_update(nowait=%r, of=(%s))" % (rng.random() < 0.3, "".join("%r, " % n for n in names)),
                    "id": 0, "extra": True}
        if k == "distinct_on":
            return {"kind": k, "src": ".distinct_on(T('t').%s)" % fid, "id": i}
        if k == "top":
            return {"kind": k, "src": ".top(%d)" % (i + 1), "id": i}
        if k == "final":
            return {"kind": k, "src": ".final()", "id": 0}
        if k == "sample":
            return {"kind": k, "src": ".sample(%d)" % (i + 1), "id": i}
        if k == "limit_by":
            return {"kind": k, "src": ".limit_by(%d, T('t').%s)" % (i + 1, fid), "id": i}
        return {"kind": k, "src": ".hint('lbl%d')" % i, "id": i}
    if stmt == "select":
        kinds = ["select", "select", "where", "where", "join", "groupby", "having", "orderby", "limit", "offset", "distinct",
                 "for_update", "with_", "force_index", "use_index", "prewhere"]
    elif stmt == "update":
        kinds = ["set", "set", "where", "where", "join", "limit", "with_"]
    else:
        kinds = ["columns", "insert", "insert"]
    k = rng.choice(kinds)
    if k == "select":
        tb = rng.choice(["t"] + joined)
        if rng.random() < 0.5:
            return {"kind": k, "src": ".select(T(%r).%s.as_('alf%d'))" % (tb, fid, i), "id": i}
        return {"kind": k, "src": ".select(T(%r).%s)" % (tb, fid), "id": i}
    if k in ("where", "prewhere"):
        tb = rng.choice(T_)
        return {"kind": k, "src": ".%s(T(%r).%s == %d)" % (k, tb, fid, i), "id": i, "tabs": [tb]}
    if k == "join":
        cand = [x for x in ("u", "v") if x not in joined]
        if not cand:
            return mk_call(rng, stmt, i, joined, cls)
        tb = cand[0]
        joined.append(tb)
        if rng.random() < 0.3:
            # an aliased joined table: another row source than the plain table of the same name
            return {"kind": k, "src": ".join(T(%r).as_(%r)).on(T('t').k == T(%r).as_(%r).%s)" % (tb, tb + "a", tb, tb + "a", fid),
                    "id": i, "tbl": tb + "a"}
        return {"kind": k, "src": ".join(T(%r)).on(T('t').k == T(%r).%s)" % (tb, tb, fid), "id": i, "tbl": tb}
    if k in ("groupby", "orderby") and rng.random() < 0.5:
        # a column given by name: a string that may coincide with the alias of a selected term (al0..al5) or not
        if rng.random() < 0.5:
            return {"kind": k, "src": ".%s(%r)" % (k, fid), "id": i}
        j = rng.randrange(6)
        return {"kind": k, "src": ".%s('alf%d')" % (k, j), "id": j}    # the name carries the id the slot comparison reads
    if k in ("groupby", "orderby") and rng.random() < 0.15:
        # a position in the select list (an int): legal before the select list is complete
        return {"kind": k, "src": ".%s(%d)" % (k, i + 1), "id": i + 1}
    if k == "groupby":
        return {"kind": k, "src": ".groupby(T('t').%s)" % fid, "id": i}
    if k == "having":
        return {"kind": k, "src": ".having(fn.Sum(T('t').%s) > %d)" % (fid, i), "id": i}
    if k == "orderby":
        return {"kind": k, "src": ".orderby(T('t').%s)" % fid, "id": i}
    if k in ("limit", "offset"):
        return {"kind": k, "src": ".%s(%d)" % (k, i + 1), "id": i + 1}
    if k in ("distinct", "for_update"):
        return {"kind": k, "src": ".%s()" % k, "id": 0}
    if k == "with_":
        return {"kind": k, "src": ".with_(Query.from_(T('w')).select('a'), 'w%d')" % i, "id": i}
    if k in ("force_index", "use_index"):
        return {"kind": k, "src": ".%s('ix%d')" % (k, i), "id": i}
    if k == "set":
        return {"kind": k, "src": ".set(T('t').%s, %d)" % (fid, i), "id": i}
    if k == "columns":
        return {"kind": k, "src": ".columns(%r)" % fid, "id": i}
    return {"kind": "insert", "src": ".insert(%d, %d)" % (i, i + 100), "id": i}


def fixed_cases():
    """dialect clause calls next to the calls whose slots they might be tempted to read (joins with aliased tables, selects
    with aliases, sources): all interleavings"""
    sel = {"kind": "select", "src": ".select(T('t').f0.as_('alf0'))", "id": 0}
    j_al = {"kind": "join", "src": ".join(T('u').as_('ua')).on(T('t').k == T('u').as_('ua').f1)", "id": 1, "tbl": "ua"}
    j_pl = {"kind": "join", "src": ".join(T('v')).on(T('t').k == T('v').f2)", "id": 2, "tbl": "v"}
    wh = {"kind": "where", "src": ".where(T('t').f3 == 3)", "id": 3, "tabs": ["t"]}
    ob = {"kind": "orderby", "src": ".orderby('alf0')", "id": 0}
    gb = {"kind": "groupby", "src": ".groupby('alf0')", "id": 0}
    out = []
    for cls in ("mysql", "postgresql"):
        fu = {"kind": "for_update", "src": ".for_update(nowait=True, of=('u', 't', 'v'))", "id": 0, "extra": True}
        out.append({"cls": cls, "stmt": "select", "calls": [sel, j_al, fu, wh, j_pl], "seed": 1, "all": True})
    out.append({"cls": "postgresql", "stmt": "select", "calls": [sel, j_al, {"kind": "distinct_on", "src": ".distinct_on('f9', T('u').as_('ua').f1)", "id": 9}, wh], "seed": 2, "all": True})
    out.append({"cls": "clickhouse", "stmt": "select", "calls": [sel, j_al, {"kind": "limit_by", "src": ".limit_by(2, 'alf0', T('t').f4)", "id": 4}, {"kind": "final", "src": ".final()", "id": 0}, wh], "seed": 3, "all": True})
    out.append({"cls": "mssql", "stmt": "select", "calls": [sel, {"kind": "top", "src": ".top(5)", "id": 5}, {"kind": "limit", "src": ".limit(3)", "id": 3}, {"kind": "offset", "src": ".offset(2)", "id": 2}, ob], "seed": 4, "all": True})
    out.append({"cls": "vertica", "stmt": "select", "calls": [sel, {"kind": "hint", "src": ".hint('lbl')", "id": 0}, wh, j_al, ob], "seed": 5, "all": True})
    for cls in ("generic", "mysql", "snowflake", "oracle"):
        out.append({"cls": cls, "stmt": "select", "calls": [sel, j_al, ob, gb, wh], "seed": 6, "all": True})
    # one criterion OBJECT given to several calls (a filter kept in a variable and reused): every call still adds its conjunct
    env = {"crit1": "(T('t').f1 == 1)", "crit2": "(T('t').f2 == 2)"}
    w1 = {"kind": "where", "src": ".where(crit1)", "id": 1, "tabs": ["t"]}
    w12 = {"kind": "where", "src": ".where(crit1 | crit2)", "id": 2, "tabs": ["t"]}
    wn = {"kind": "where", "src": ".where(crit1.negate())", "id": 1, "tabs": ["t"]}
    h1 = {"kind": "having", "src": ".having(crit1)", "id": 1}
    for cls in ("generic", "postgresql", "clickhouse"):
        out.append({"cls": cls, "stmt": "select", "calls": [sel, w1, dict(w1), ob], "seed": 7, "all": True, "env": env})
        out.append({"cls": cls, "stmt": "select", "calls": [sel, w12, w1, j_pl], "seed": 8, "all": True, "env": env})
        out.append({"cls": cls, "stmt": "select", "calls": [sel, wn, w1, gb, h1, dict(h1)], "seed": 9, "all": True, "env": env})
    return out


def generate(rng, n, tier):
    for c in fixed_cases():
        yield c
    for _ in range(n):
        cls = rng.choice(list(QNAMES))
        stmt = rng.choice(["select", "select", "select", "update", "insert"])
        k = rng.randint(3, 7 if tier == "thorough" else 6)
        joined = []
        calls = [mk_call(rng, stmt, i, joined, cls) for i in range(k)]
        # a GROUP BY / ORDER BY given by name: make the name coincide with the alias of a selected term of this statement in
        # half of the cases (the reference is resolved when the statement is rendered, whatever the call order was)
        aliased = [c["id"] for c in calls if c["kind"] == "select" and ".as_('alf" in c["src"]]
        for c in calls:
            if c["kind"] in ("groupby", "orderby") and c["src"].startswith(".%s('alf" % c["kind"]) and aliased and rng.random() < 0.85:
                j = rng.choice(aliased)
                c["src"] = ".%s('alf%d')" % (c["kind"], j)
                c["id"] = j
        # a statement without its defining clause (select list / SET pair / row) renders as the empty text in every order
        need = {"select": "select", "update": "set", "insert": "insert"}[stmt]
        if not any(c["kind"] == need for c in calls):
            i = len(calls)
            calls.append({"select": {"kind": "select", "src": ".select(T('t').f%d)" % i, "id": i},
                          "update": {"kind": "set", "src": ".set(T('t').f%d, %d)" % (i, i), "id": i},
                          "insert": {"kind": "insert", "src": ".insert(%d, %d)" % (i, i + 100), "id": i}}[stmt])
        # FOR UPDATE OF names the tables by name: the FROM table, the joined ones (also when the join gives them an alias)
        jt = [c["tbl"][0] for c in calls if c["kind"] == "join"]
        for c in calls:
            if c.get("extra") and c["kind"] == "for_update":
                names = [x for x in ["t"] + jt + ["x"] if rng.random() < 0.7] or ["t"]
                rng.shuffle(names)
                c["src"] = ".for_update(nowait=%r, of=(%s))" % (rng.random() < 0.3, "".join("%r, " % n for n in names))
        withs = [c for c in calls if c["kind"] == "with_"]
        for c in calls:
            if c["kind"] in ("where", "prewhere") and withs and rng.random() < 0.5:
                w = rng.choice(withs)
                # a criterion on a column of a WITH query that is not (yet) a FROM item
                c["src"] = ".%s(AliasedQuery('w%d').f%d == T('t').f%d)" % (c["kind"], w["id"], c["id"], c["id"])
                c["tabs"] = ["cte%d" % w["id"], "t"]
        if stmt == "insert":
            # columns must precede nothing in particular, but at most one columns call keeps the statement meaningful
            seen = False
            for c in calls:
                if c["kind"] == "columns":
                    if seen:
                        c.update(mk_call(rng, stmt, c["id"], joined))
                        c["kind"], c["src"] = "insert", ".insert(%d, %d)" % (c["id"], c["id"] + 100)
                    seen = True
        yield {"cls": cls, "stmt": stmt, "calls": calls, "seed": rng.randrange(10 ** 9), "all": tier == "thorough" and k <= 6}


def head(case):
    qn = QNAMES[case["cls"]]
    if case["stmt"] == "select":
        return "%s.from_(T('t'))" % qn
    if case["stmt"] == "update":
        return "%s.update(T('t'))" % qn
    return "%s.into(T('t'))" % qn


def interleavings(calls, rng, limit):
    """orders that keep the relative order of calls of one kind"""
    n = len(calls)
    kinds = [c["kind"] for c in calls]
    if limit is None:
        seen = set()
        for perm in itertools.permutations(range(n)):
            ok = True
            last = {}
            for idx in perm:
                k = kinds[idx]
                if k in last and last[k] > idx:
                    ok = False
                    break
                last[k] = idx
            if ok:
                yield list(perm)
        return
    yield list(range(n))
    for _ in range(limit - 1):
        # random merge of the per-kind queues
        queues = {}
        for i, k in enumerate(kinds):
            queues.setdefault(k, []).append(i)
        order = []
        keys = list(queues)
        while keys:
            k = rng.choice(keys)
            order.append(queues[k].pop(0))
            if not queues[k]:
                keys.remove(k)
        yield order


def examine(case):
    import random
    res = Result()
    rng = random.Random(case["seed"])
    calls = case["calls"]
    h = head(case)
    kinds = sorted({c["kind"] for c in calls})
    res.nontrivial = len(kinds) >= 3
    res.key = struct_hash([case["cls"], case["stmt"], [c["src"] for c in calls]])
    res.tags = ["cls=" + case["cls"], "stmt=" + case["stmt"], "n=%d" % len(calls)] + ["kind=" + k for k in kinds]
    texts = {}
    first = None
    # every interleaving is chained onto ONE shared head object (the way statements are assembled piecewise in
    # practice): placement must not depend on what other chains were built from the same head before
    try:
        shared = ns.ev(h)
    except Exception:
        shared = None
    extra = {k: ns.ev(v) for k, v in case.get("env", {}).items()}     # objects shared by several calls of the case
    prelude = "".join("%s = %s\n" % kv for kv in case.get("env", {}).items())
    for order in interleavings(calls, rng, None if case.get("all") else 12):
        src = h + "".join(calls[i]["src"] for i in order)
        try:
            q = ns.ev("base_" + "".join(calls[i]["src"] for i in order), dict(extra, base_=shared)) if shared is not None else ns.ev(src, extra)
            text = str(q)
        except Exception as e:
            text = "raises %s" % type(e).__name__
            q = None
        if first is None:
            first = (src, text, q)
            case["recipe"] = prelude + src
        texts.setdefault(text, src)
    if len(texts) > 1:
        (t1, s1), (t2, s2) = list(texts.items())[:2]
        res.findings.append({"sig": {"kind": "order-dependent", "stmt": case["stmt"], "kinds": kinds},
                             "what": "two interleavings of the same calls render differently:\n  %s\n    -> %s\n  %s\n    -> %s" % (s1, t1, s2, t2)})
    src, text, q = first
    if q is None:
        return res
    # canonical clause order (SELECT)
    if case["stmt"] == "select" and text:
        order = ["WITH ", "SELECT ", " FROM ", " FORCE INDEX", " USE INDEX", " JOIN ", " PREWHERE ", " WHERE ", " GROUP BY ", " HAVING ",
                 " ORDER BY ", " LIMIT ", " OFFSET ", " FETCH NEXT", " FOR UPDATE"]
        if case["cls"] in ("oracle", "mssql"):
            order = [o for o in order if o not in (" LIMIT ",)]
        pos = [(text.find(k), k) for k in order if text.find(k) >= 0 and not (k == " FROM " and False)]
        # only depth-0 occurrences matter; WITH bodies contain their own SELECT / FROM
        body = re.sub(r"WITH .*?\) (?=SELECT)", "", text)
        pos = [(body.find(k), k) for k in order if k != "WITH " and body.find(k) >= 0]
        if case["cls"] in ("oracle", "mssql"):
            pos = [(p, k) for p, k in pos if k != " OFFSET " or True]
        seq = [k for p, k in sorted(pos)]
        exp = [k for k in order if k in seq]
        if case["cls"] in ("oracle", "mssql"):
            exp = [k for k in exp]
        if seq != exp:
            res.findings.append({"sig": {"kind": "clause-order", "cls": case["cls"]},
                                 "what": "clauses appear as %s, canonical order is %s: %s" % (seq, exp, text)})
    # model: the slot state machine on the first interleaving
    ids = {"t": 0, "u": 1, "v": 2, "w": 3, "ua": 11, "va": 12}
    mcalls = []
    for c in calls:
        if c["kind"] in EXTRA_KINDS:
            continue
        m = {"k": c["kind"], "id": c["id"]}
        if "tabs" in c:
            m["tabs"] = [ids[x] if x in ids else 100 + int(x[3:]) for x in c["tabs"]]
        if "tbl" in c:
            m["tbl"] = ids[c["tbl"]]
        mcalls.append(m)
    exp = slots_of(q, ids)
    if exp is not None:
        # repeated calls of one kind accumulate in call order (where / prewhere / having by AND): read off the implementation
        # directly — every call's identifier is there, in the order of the calls (the first interleaving is the given order)
        for kind, slot in (("where", "wheres"), ("prewhere", "prewheres"), ("having", "havings"), ("orderby", "orderbys"),
                           ("groupby", "groupbys")):
            want = [c["id"] for c in calls if c["kind"] == kind]
            if want and exp.get(slot) != want:
                res.findings.append({"sig": {"kind": "not-accumulated", "clause": kind, "cls": case["cls"]},
                                     "what": "the %d %s() calls carry %s in call order; the statement holds %s: %s\n%s"
                                             % (len(want), kind, want, exp.get(slot), text, case.get("recipe"))})
                break
        req = {"op": "build", "calls": mcalls, "froms": [0] if case["stmt"] == "select" else [],
               "update_table": 0 if case["stmt"] == "update" else None}
        res.requests.append((req, exp, "slots after the calls"))
    try:
        res.requests.append(({"op": "render", "ctx": describe.d_ctx({"dialect": q.dialect}), "term": describe.describe(q)},
                             {"sql": text}, "str(statement)"))
    except Unsupported as ex:
        res.skipped = str(ex)[:40]
    return res


def _fid(term):
    """identifier carried by a generated term: the number in its f<id> field / value"""
    s = term.get_sql(quote_char=None) if hasattr(term, "get_sql") else str(term)
    m = re.findall(r"f(\d+)", s)
    if not m and s.strip().isdigit():
        return int(s)        # a select-list position given to groupby / orderby
    return int(m[-1]) if m else None


def slots_of(q, ids):
    def crit_ids(c):
        # AND chain, left to right
        if c is None:
            return []
        out = []

        def walk(x):
            if isinstance(x, ns.terms.ComplexCriterion) and x.comparator.value == "AND":
                walk(x.left)
                walk(x.right)
            else:
                out.append(_fid(x))
        walk(c)
        return out
    try:
        return {
            "selects": [_fid(t) for t in q._selects],
            "froms": [ids[t.alias or t._table_name] for t in q._from],
            "joins": [_fid(j.criterion) for j in q._joins],
            "wheres": crit_ids(q._wheres), "prewheres": crit_ids(q._prewheres), "havings": crit_ids(q._havings),
            "groupbys": [_fid(t) for t in q._groupbys], "orderbys": [_fid(t) for t, _ in q._orderbys],
            "limit": q._limit, "offset": q._offset, "distinct": bool(q._distinct), "for_update": bool(q._for_update),
            "withs": [int(w.name[1:]) for w in q._with],
            "force_index": [int(i.name[2:]) for i in q._force_indexes], "use_index": [int(i.name[2:]) for i in q._use_indexes],
            "updates": [_fid(f) for f, _ in q._updates], "columns": [_fid(c) for c in q._columns],
            "values": [int(str(row[0].value)) for row in q._values],
            "foreign": bool(q._foreign_table),
        }
    except Exception:
        return None


def same(expected, got):
    if "sql" in expected or "exc" in expected:
        return expected == got
    return all(got.get(k) == v for k, v in expected.items())
