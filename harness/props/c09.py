"""C09 Rendering is a pure, repeatable, process-independent function."""
import json
import os
import random
import subprocess
import sys

from harness import common, describe, gen, genq, ns
from harness.describe import Unsupported
from harness.run import Result
from harness.common import struct_hash
from harness.ns import QNAMES

ID = "C09"
LEAN_MODULES = ["Pypika.Props.C09"]
THEOREMS = ["Pypika.C09.observers_pure", "Pypika.C09.set_free", "Pypika.C09.observers_listed", "Pypika.C09.observations_frame"]
AGREE = []
TRUSTED = ["harness/effects.py (ast pass over the observation methods)", "Python: **kwargs gives the callee a fresh dict; "
           "str.format / join evaluate in source order"]
RULE = ("objects of every family (statements of all classes, terms, functions, DDL builders, set operations) observed through "
        "random sequences of 1-10 observations (str, get_sql with random kwargs / dialect / parameter collectors, hash, ==, "
        "fields_, tables_, find_, nodes_) between two str(); compared with the text before and with a freshly built object; "
        "plus construction scripts re-run in subprocesses under different PYTHONHASHSEED values; non-trivial = >= 3 "
        "observations of >= 2 kinds; distinct by (script, observation sequence)")

OBS = [
    "str(o)", "o.get_sql()", "o.get_sql(quote_char='`')", "o.get_sql(quote_char=None, with_namespace=True)",
    "o.get_sql(dialect=Dialects.POSTGRESQL)", "o.get_sql(dialect=Dialects.MYSQL, with_alias=True)",
    "o.get_sql(parameter=QmarkParameter())", "o.get_sql(parameter=NamedParameter())", "o.get_sql(parameter=P)",
    "o.get_sql(as_keyword=True, alias_quote_char='\"', with_alias=True)", "o.get_sql(subquery=True)",
    "o.get_sql(secondary_quote_char='\"')", "o.get_sql(groupby_alias=False)", "o.get_sql(subcriterion=True)",
    "hash(o)", "o == o", "o != 1", "repr(o)",
    "o.fields_()", "o.tables_", "o.find_(Field)", "list(o.nodes_())", "o.is_aggregate", "{o: 1}", "o in [o]",
]


def counts(tier):
    return 2000 if tier == "quick" else 40000


def generate(rng, n, tier):
    nseeds = 8 if tier == "quick" else 64
    nscripts = 160 if tier == "quick" else 520
    yield {"kind": "hashseed", "seeds": list(range(1, nseeds + 1)), "nscripts": nscripts, "gseed": rng.randrange(10 ** 9)}
    yield {"kind": "hashseed-set-arg"}
    for i in range(n):
        x = rng.random()
        if x < 0.5:
            qg = genq.QG(rng, strings="hostile" if rng.random() < 0.2 else "plain")
            v = qg.any_statement()
            script = qg.script()
        elif x < 0.8:
            g = gen.G(rng, strings="plain", allow_params=True)
            v = "e"
            script = "e = " + g.any_expr(rng.randint(1, 4))
        else:
            v = "d"
            script = "d = " + rng.choice([
                "Query.create_table('t').columns(Column('a', 'INT', nullable=False, default=0), Column('b', 'VARCHAR(5)')).unique('a').primary_key('b')",
                "Query.create_index('ix').on('t').columns('a', 'b').unique()", "Query.drop_table('t').if_exists()",
                "MySQLQuery.load('/f').into('t')", "an.Sum(F('a')).over(F('b')).orderby(F('c')).rows(an.Preceding(2))",
                "fn.Count(F('a')).distinct().filter(F('b') > 1)", "Case().when(F('a') == 1, 'x').else_(Interval(days=1))",
                "T('t', schema=('d', 's')).as_('x')", "Interval(days=1, hours=2)", "JSON({'a': [1, 'x']}).get_json_value('a')",
                "MySQLQuery.from_(T('t')).select('a').for_update(of=('t', 'u', 'v', 'w'))",
                "PostgreSQLQuery.from_(T('t')).select('a').for_update(of=('z', 'y', 'x'), nowait=True)",
                "Query.from_(T('t')).select(T('t').star, T('u').star).join(T('u')).on(T('t').a == T('u').a)",
            ])
        obs = [rng.randrange(len(OBS)) for _ in range(rng.randint(1, 10))]
        yield {"kind": "observe", "script": script, "var": v, "obs": obs}


def canon_result(r, params):
    """comparable form of an observation's answer (None: not comparable across objects, e.g. default reprs)"""
    if isinstance(r, (str, bool, int)) or r is None:
        out = r
    elif isinstance(r, (set, frozenset)):
        out = sorted(safe(lambda x=x: str(x)) for x in r)
    elif isinstance(r, (list, tuple)):
        out = [type(x).__name__ for x in r]
    else:
        return None
    if isinstance(out, str) and " object at 0x" in out:
        return None
    return (out, [repr(x) for x in params]) if params is not None else (out,)


def safe(f):
    try:
        return f()
    except Exception as e:
        return "raises %s" % type(e).__name__


def examine(case):
    res = Result()
    if case["kind"] == "hashseed":
        return hashseed(case, res)
    if case["kind"] == "hashseed-set-arg":
        case["recipe"] = "F('a').isin({'x', 'y', 'z', 'w'})"
        outs = set()
        for s in (1, 2, 3, 4, 5, 6):
            outs.add(run_sub(["print(F('a').isin({'x', 'y', 'z', 'w'}).get_sql())"], s))
        res.key = "set-arg"
        if len(outs) > 1:
            res.findings.append({"sig": {"kind": "hashseed", "construct": "set-typed argument"},
                                 "what": "isin({...}) of strings renders its elements in hash order: %s" % sorted(outs)[:2]})
        return res
    src = case["script"]
    case["recipe"] = src + "\n# observations: " + "; ".join(OBS[i] for i in case["obs"])
    try:
        env = ns.ex(src)
    except SyntaxError:
        return res
    o = env[case["var"]]
    # half of the histories start with the observations themselves (the first rendering ever of the object is then one
    # with options / a collector), the other half with a plain str()
    lead = struct_hash([src, case["obs"]])[0] in "01234567"
    before = safe(lambda: str(o)) if lead else None
    P = ns.QmarkParameter()
    kinds = set()
    for i in case["obs"]:
        code = OBS[i]
        kinds.add(code.split("(")[0])
        # the result of an observation depends on the object's state and the options only: an identically constructed
        # object that was never observed before answers the same
        P2 = ns.QmarkParameter()
        try:
            twin = ns.ex(src)[case["var"]]
        except Exception:
            twin = None
        n0 = len(P.get_parameters())
        r1 = canon_result(safe(lambda: eval(code, dict(ns.NS, o=o, P=P))), P.get_parameters()[n0:] if "P)" in code else None)
        if twin is not None:
            r2 = canon_result(safe(lambda: eval(code, dict(ns.NS, o=twin, P=P2))), P2.get_parameters() if "P)" in code else None)
            # hash() of a class without __hash__ is the object's identity; dict / list membership likewise
            comparable = not code.startswith(("hash(", "repr(", "{o", "o in "))
            if comparable and r1 is not None and r2 is not None and r1 != r2 and not ("P)" in code and n0 > 0):
                res.findings.append({"sig": {"kind": "observation-depends-on-history", "cls": type(o).__name__},
                                     "what": "%s gives %r on the observed object and %r on an identically constructed fresh one | %s"
                                             % (code, r1, r2, src)})
                break
    after = safe(lambda: str(o))
    if before is None:
        before = after
    fresh = safe(lambda: str(ns.ex(src)[case["var"]]))
    res.nontrivial = len(case["obs"]) >= 3 and len(kinds) >= 2
    res.key = struct_hash([src, case["obs"]])
    res.tags = ["obj=" + type(o).__name__[:14], "nobs=%d" % min(len(case["obs"]), 10)]
    if before != after:
        res.findings.append({"sig": {"kind": "observation-changes-rendering", "cls": type(o).__name__},
                             "what": "str() gave %r before and %r after the observations" % (before, after)})
    elif after != fresh:
        res.findings.append({"sig": {"kind": "differs-from-fresh-object", "cls": type(o).__name__},
                             "what": "the observed object renders %r, an identically constructed fresh object %r" % (after, fresh)})
    # what is built FROM an observed object must not depend on the observations either (a value cached by a rendering and
    # inherited by the builder copies would show here): the same continuation on the observed object and on a fresh twin
    if not res.findings and isinstance(o, ns.queries.QueryBuilder) and not o._insert_table and not o._update_table \
            and not o._delete_from and o._from:
        conts = ["o.select(F('zz').as_('zal')).groupby(F('zz').as_('zal')).orderby(F('zz').as_('zal'))",
                 "o.select((F('zy') + 1).as_('zal2')).orderby((F('zy') + 1).as_('zal2')).where(F('zw') == 1).limit(3)"]
        for cont in conts:
            try:
                twin = ns.ex(src)[case["var"]]
            except Exception:
                break
            c1 = safe(lambda: str(eval(cont, dict(ns.NS, o=o))))
            c2 = safe(lambda: str(eval(cont, dict(ns.NS, o=twin))))
            if c1 != c2:
                res.findings.append({"sig": {"kind": "derivation-depends-on-observations", "cls": type(o).__name__},
                                     "what": "%s gives %r on the observed object and %r on an identically constructed fresh one | %s"
                                             % (cont, c1, c2, src)})
                break
    # sub-objects too: the parts of a statement must render as before
    # correspondence: the model is a function of (ctx, term) — rendering twice gives the same answer by construction;
    # the implementation side is compared with the model once
    if not isinstance(before, str) or before.startswith("raises"):
        return res
    try:
        spec = describe.describe(o)
        kw = {"dialect": o.dialect} if isinstance(o, ns.queries.QueryBuilder) else \
            ({} if isinstance(o, (ns.queries._SetOperation, ns.Interval)) else {"quote_char": '"', "secondary_quote_char": "'"})
        res.requests.append(({"op": "render", "ctx": describe.d_ctx(kw), "term": spec}, {"sql": after}, "str(o) after observations"))
    except Unsupported as ex:
        res.skipped = str(ex)[:40]
    return res


def run_sub(lines, seed):
    code = "import sys\nsys.path.insert(0, %r)\nsys.path.insert(0, %r)\nfrom harness.ns import *\n" % (common.REPO, common.VERIF) + "\n".join(lines)
    env = dict(os.environ, PYTHONHASHSEED=str(seed), PYTHONDONTWRITEBYTECODE="1")
    # the script goes in on stdin: hundreds of construction scripts exceed the length limit of one argv entry
    p = subprocess.run([sys.executable, "-"], input=code, stdout=subprocess.PIPE, stderr=subprocess.PIPE, text=True, env=env, timeout=900)
    if p.returncode != 0:
        raise common.HarnessError("hash-seed subprocess failed: %s" % p.stderr[-500:])
    return p.stdout


def hashseed(case, res):
    rng = random.Random(case["gseed"])
    scripts = []
    fixed = [
        "q = MySQLQuery.from_(T('t')).select('a').for_update(of=('t', 'u', 'v', 'w', 'x'))",
        "q = PostgreSQLQuery.from_(T('t')).select('a').for_update(of=('alpha', 'beta', 'gamma', 'delta'))",
        # derived statements: what replace_table / a builder copy makes of ordered name lists
        "q = PostgreSQLQuery.from_(T('alpha')).select('a').for_update(of=('alpha', 'beta', 'gamma', 'delta')).replace_table(T('alpha'), T('omega'))",
        "q = MySQLQuery.from_(T('t')).select('a').for_update(of=('t', 'u', 'v', 'w', 'x')).replace_table(T('t'), T('tt')).limit(3)",
        "q = ClickHouseQuery.from_(T('t')).select('a').limit_by(2, 'e', 'd', 'c', 'b').distinct_on('k3', 'k2', 'k1').replace_table(T('t'), T('tt'))",
        "q = Query.from_(T('t')).select(T('t').star, T('u').star, T('v').star).join(T('u')).on(T('t').a == T('u').a).join(T('v')).on(T('t').a == T('v').a)",
        "q = Query.from_(T('t')).select('a').where(F('a').isin([3, 1, 2])).where(F('b').isin(('x', 'y')))",
        "q = PostgreSQLQuery.update(T('t')).set('a', 1).returning('a', 'b', T('t').c)",
        "q = Query.from_(T('t')).join(T('u')).on((T('t').a == T('u').a) & (T('t').b == T('u').b)).select(T('t').a)",
    ]
    # argument lists with repeated members (whatever a method does about repeats must not depend on hash order), DDL builders
    names = ["alpha", "beta", "gamma", "delta", "eps"]
    for _ in range(6):
        ks = [rng.choice(names) for _ in range(rng.randint(3, 6))]
        lit = ", ".join(repr(k) for k in ks)
        fixed += [
            "q = Query.create_table('nt').columns(%s).primary_key(%s)" % (", ".join("Column(%r, 'INT')" % n for n in names), lit),
            "q = Query.create_table('nt').columns(%s).unique(%s).unique(%s)" % (", ".join("Column(%r, 'INT')" % n for n in names), lit, ", ".join(repr(k) for k in reversed(ks))),
            "q = Query.create_table('nt').columns(%s).foreign_key([%s], T('other'), [%s])" % (", ".join("Column(%r, 'INT')" % n for n in names), lit, lit),
            "q = Query.create_index('ix').on('t').columns(%s)" % lit,
            "q = Query.from_(T('t')).select(%s).groupby(%s).orderby(%s)" % (lit, lit, lit),
            "q = Query.into(T('t')).columns(%s).insert(%s)" % (lit, ", ".join(str(i) for i in range(len(ks)))),
            "q = MySQLQuery.from_(T('t')).select('a').force_index(%s).use_index(%s)" % (lit, lit),
            "q = PostgreSQLQuery.from_(T('t')).select('a').distinct_on(%s).for_update(of=(%s,))" % (lit, lit),
            "q = PostgreSQLQuery.into(T('t')).columns('a').insert(1).on_conflict(%s).do_nothing()" % lit,
            "q = Query.from_(T('t')).select('a').join(T('u')).using(%s)" % lit,
            "q = ClickHouseQuery.from_(T('t')).select('a').limit_by(2, %s)" % lit,
            "q = Query.from_(T('t')).select(fn.Coalesce(%s)).rollup(%s)" % (", ".join("T('t').%s" % k for k in ks), ", ".join("T('t').%s" % k for k in ks)),
        ]
    # every accumulating call repeated four or five times with distinct arguments (a de-duplication or re-ordering through a
    # hash-ordered container shows in the order of the rendered items)
    for Q in ("Query", "MySQLQuery", "PostgreSQLQuery"):
        fixed += [
            "q = %s" % "".join([Q] + [".with_(%s.from_(T('s%d')).select('a'), %r)" % (Q, i, n) for i, n in enumerate(names)]) + ".from_(AliasedQuery('alpha')).select('a')",
            "q = %s.from_(T('t'))" % Q + "".join(".from_(T(%r))" % n for n in names) + ".select('a')",
            "q = %s.from_(T('t'))" % Q + "".join(".join(T(%r)).on(T('t').a == T(%r).a)" % (n, n) for n in names) + ".select(T('t').a)",
            "q = %s.from_(T('t'))" % Q + "".join(".select(%r)" % n for n in names) + "".join(".groupby(%r)" % n for n in names) + "".join(".orderby(%r)" % n for n in reversed(names)),
            "q = %s.from_(T('t')).select('a')" % Q + "".join(".where(F(%r) == %d)" % (n, i) for i, n in enumerate(names)) + "".join(".having(F(%r) > %d)" % (n, i) for i, n in enumerate(names)),
            "q = %s.update(T('t'))" % Q + "".join(".set(%r, %d)" % (n, i) for i, n in enumerate(names)),
            "q = %s.into(T('t'))" % Q + "".join(".columns(%r)" % n for n in names) + ".insert(1, 2, 3, 4, 5).insert(6, 7, 8, 9, 10)",
            "q = %s.from_(T('t')).select('a')" % Q + "".join(".union(%s.from_(T(%r)).select('a'))" % (Q, n) for n in names),
            "q = Query.create_table('nt')" + "".join(".columns(Column(%r, 'INT'))" % n for n in names) + "".join(".unique(%r)" % n for n in names),
            "q = Case()" + "".join(".when(F(%r) == %d, %r)" % (n, i, n) for i, n in enumerate(names)) + ".else_('none')",
            "q = fn.Sum(F('x'))" + "".join(".filter(F(%r) == %d)" % (n, i) for i, n in enumerate(names)),
            "q = an.Rank()" + "".join(".over(F(%r))" % n for n in names) + "".join(".orderby(F(%r))" % n for n in reversed(names)),
        ]
    for s in fixed:
        scripts.append((s, "q"))
    while len(scripts) < case["nscripts"]:
        qg = genq.QG(rng)
        v = qg.any_statement()
        s = qg.script()
        try:
            compile(s, "<s>", "exec")
        except SyntaxError:
            continue
        scripts.append((s, v))
    lines = []
    for i, (s, v) in enumerate(scripts):
        lines.append("try:")
        for l in s.split("\n"):
            lines.append("    " + l)
        lines.append("    print(%d, repr(str(%s)), hash(%s) is not None)" % (i, v, v))
        lines.append("except Exception as e:")
        lines.append("    print(%d, 'raises', type(e).__name__)" % i)
    outs = {}
    from concurrent.futures import ThreadPoolExecutor
    with ThreadPoolExecutor(max_workers=8) as ex:
        for seed, out in zip(case["seeds"], ex.map(lambda sd: run_sub(lines, sd), case["seeds"])):
            outs[seed] = out.split("\n")
    case["recipe"] = "%d construction scripts under PYTHONHASHSEED in %s" % (len(scripts), case["seeds"])
    res.nontrivial = True
    res.key = struct_hash(["hashseed", case["gseed"]])
    res.tags = ["kind=hashseed", "seeds=%d" % len(case["seeds"]), "scripts=%d" % len(scripts)]
    ref = outs[case["seeds"][0]]
    for seed in case["seeds"][1:]:
        for i, (a, b) in enumerate(zip(ref, outs[seed])):
            if a != b:
                res.findings.append({"sig": {"kind": "hashseed", "construct": "statement"},
                                     "what": "PYTHONHASHSEED=%d gives %s, PYTHONHASHSEED=%d gives %s\n%s"
                                             % (case["seeds"][0], a[:300], seed, b[:300], scripts[i][0] if i < len(scripts) else "")})
                return res
    return res
