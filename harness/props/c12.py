"""C12 limit/offset/slice select the requested row window in every dialect."""
import re
import sqlite3

from harness import describe, ns
from harness.describe import Unsupported
from harness.run import Result
from harness.common import struct_hash
from harness.ns import QNAMES

ID = "C12"
LEVEL_TEXT = ("Lean 4 theorems about the executable model of the code (all inputs, by induction), tied to /repo by tables regenerated on every run (decide) and by differential execution of model and implementation; the property oracle is also run on the implementation for every case. window_correct is proved for every (limit, offset) and class against the specification's window reader; that an engine returns that row window is executed on SQLite only (LIMIT family).")
LEAN_MODULES = ["Pypika.Props.C12", "Pypika.Props.Builder", "Pypika.BuilderFrame"]
TRACE_BUILDER = True   # builder calls made by this check are also run through Pypika.B.step (harness/trace.py)
THEOREMS = ["Pypika.C12.window_correct", "Pypika.C12.limit_zero_kept", "Pypika.C12.mssql_offset_with_fetch",
            "Pypika.C12.setop_window_correct", "Pypika.C12.last_wins", "Pypika.C12.readNat_natText",
            # concrete builder model (Builder.lean, tied call by call through harness/trace.py)
            "Pypika.B.limit_last_wins", "Pypika.B.offset_last_wins", "Pypika.B.slice_is_offset_limit", "Pypika.B.limit_offset_commute", "Pypika.B.limit_zero_stored",
            # set-operation builder (Builder.lean stepS / mkSetOp, tied call by call through harness/trace.py)
            "Pypika.B.setop_limit_last_wins", "Pypika.B.setop_offset_last_wins", "Pypika.B.setop_limit_zero_stored",
            "Pypika.B.run_keeps_limit", "Pypika.B.limit_survives", "Pypika.B.writes_limit_iff"]
AGREE = ["Pypika.Agree.pagination", "Pypika.Agree.setop_pagination", "Pypika.Agree.writes_agree"]
TRUSTED = [
    "Spec: pagination grammars of the three families (LIMIT n [OFFSET m]; [OFFSET m ROWS] [FETCH NEXT n ROWS ONLY]; "
    "ClickHouse LIMIT n [OFFSET m] BY (...) before LIMIT) as readWindow in Props/C12.lean and its Python twin below",
    "sqlite3 3.40 as the executing engine for the SQLite class",
]
RULE = ("(class, n, m, statement kind, call sequence): n, m in {absent} u 0..50 (all pairs for each class in the thorough "
        "tier), SELECT / set operation / UPDATE, limit-offset in both orders, slices, repeated calls (last wins), top(), "
        "limit_by; non-trivial = at least one of n, m present; distinct by the whole tuple")
ASSUMPTIONS = ["n >= 0 and m >= 0 as in the property's quantifier"]

FETCH = {"oracle", "mssql"}
LIMIT_NEEDS_LIMIT = {"sqlite": "executed: SQLite rejects OFFSET without LIMIT", "mysql": "MySQL grammar has no OFFSET without LIMIT"}


def counts(tier):
    return 2500 if tier == "quick" else 6000


def generate(rng, n, tier):
    classes = list(QNAMES)
    vals = [None, 0, 1, 2, 7, 50]
    # boundary grid, every class, both orders
    for cls in classes:
        for lim in vals:
            for off in vals:
                for kind in ("select", "setop"):
                    yield {"cls": cls, "kind": kind, "calls": [["limit", lim], ["offset", off]], "orderby": True,
                           "for_update": False}
    if tier == "thorough":
        for cls in classes:
            for lim in [None] + list(range(0, 51)):
                for off in [None] + list(range(0, 51)):
                    yield {"cls": cls, "kind": "select", "calls": [["offset", off], ["limit", lim]], "orderby": True,
                           "for_update": False}
    for _ in range(n):
        cls = rng.choice(classes)
        kind = rng.choice(["select", "select", "select", "setop", "update"])
        calls = []
        for _ in range(rng.randint(1, 4)):
            x = rng.random()
            v = rng.choice([None, 0, 1, 3, rng.randint(0, 50)])
            if x < 0.4:
                # Oracle / MSSQL: the deprecated fetch_next(n) is another spelling of limit(n)
                calls.append(["fetch_next" if cls in FETCH and kind == "select" and v is not None and rng.random() < 0.3 else "limit", v])
            elif x < 0.75:
                calls.append(["offset", v])
            elif kind != "update":
                calls.append(["slice", rng.choice([None, 0, 2, 5]), rng.choice([None, 0, 4, 9])])
        extra = None
        if cls == "mssql" and rng.random() < 0.4 and kind == "select":
            # top(n[, percent][, with_ties]), possibly after an earlier top() call of another form: the last call decides all three
            extra = ["top", rng.choice([0, 1, 5, 100]), rng.choice([None, None, [50, True, False], [7, False, True], [3, True, True]]),
                     rng.choice([[False, False], [False, False], [True, False], [False, True]])]
        if cls == "clickhouse" and rng.random() < 0.5 and kind == "select":
            extra = ["limit_by", rng.choice([0, 1, 3]), rng.choice([0, 0, 2])]
        yield {"cls": cls, "kind": kind, "calls": calls, "orderby": rng.random() < 0.7,
               "for_update": rng.random() < 0.3 and kind == "select", "extra": extra, "upd_shape": rng.randrange(4),
               # the statement is then taken through replace_table on a table it does not mention: the same row window
               "rt": kind == "select" and rng.random() < 0.25}


def build_src(case, paginate=True):
    qn = QNAMES[case["cls"]]
    kind = case["kind"]
    if kind == "select":
        s = "%s.from_(T('t')).select(T('t').a, T('t').b)" % qn
    elif kind == "setop":
        s = "%s.from_(T('t')).select(T('t').a).union_all(%s.from_(T('u')).select(T('u').a))" % (qn, qn)
    else:
        # UPDATE with a row limit: plain, with a join, with a further source, with a filter — the limit belongs to the statement
        shape = case.get("upd_shape", 0)
        s = "%s.update(T('t'))" % qn + ["", ".join(T('u')).on(T('t').k == T('u').k)", ".from_(T('u'))", ""][shape % 4] + \
            ".set(T('t').a, 1)" + (".where(T('t').b > 2)" if shape >= 2 else "")
    tail = ""
    if case.get("orderby") and kind != "update":
        tail += ".orderby(T('t').a)" if kind == "select" else ".orderby('a')"
    chain = ""
    if paginate:
        for c in case["calls"]:
            if c[0] == "slice" and kind == "setop":
                # set operations have no slicing; the documented shorthand is offset(m).limit(n)
                chain += "".join(".%s(%d)" % (nm, v) for nm, v in (("offset", c[1]), ("limit", c[2])) if v is not None)
            elif c[0] == "slice":
                chain += "[%s:%s]" % ("" if c[1] is None else c[1], "" if c[2] is None else c[2])
            elif c[1] is not None:
                if kind == "update" and c[0] == "offset":
                    continue
                chain += ".%s(%d)" % (c[0], c[1])
        ex = case.get("extra")
        if ex and ex[0] == "top":
            if len(ex) > 2 and ex[2]:
                chain += ".top(%d, percent=%r, with_ties=%r)" % tuple(ex[2])
            pct, ties = ex[3] if len(ex) > 3 else (False, False)
            chain += ".top(%d%s%s)" % (ex[1], ", percent=True" if pct else "", ", with_ties=True" if ties else "")
        if ex and ex[0] == "limit_by":
            chain += (".limit_by(%d, T('t').b)" % ex[1]) if ex[2] == 0 else (".limit_offset_by(%d, %d, T('t').b)" % (ex[1], ex[2]))
    fu = ".for_update()" if case.get("for_update") else ""
    # call order of orderby / pagination / for_update must not matter: alternate
    rt = ".replace_table(T('zz'), T('yy'))" if case.get("rt") else ""
    return s + tail + chain + fu + rt


def expected_state(case):
    lim, off = None, None
    for c in case["calls"]:
        if c[0] in ("limit", "fetch_next") and c[1] is not None:
            lim = c[1]
        elif c[0] == "offset" and c[1] is not None:
            if case["kind"] != "update":
                off = c[1]
        elif c[0] == "slice" and case["kind"] == "setop":
            off = c[1] if c[1] is not None else off
            lim = c[2] if c[2] is not None else lim
        elif c[0] == "slice":
            off, lim = c[1], c[2]
    return lim, off


NUM = r"(\d+)"


def read_tail(cls, tail):
    """(skip, keep) read with the dialect family's grammar, or None if the tail is not in the grammar"""
    if cls in FETCH:
        m = re.fullmatch(r"(?: OFFSET %s ROWS)?(?: FETCH NEXT %s ROWS ONLY)?" % (NUM, NUM), tail)
        if not m:
            return None
        return (int(m.group(1)) if m.group(1) else 0, int(m.group(2)) if m.group(2) else None)
    m = re.fullmatch(r"(?: LIMIT %s)?(?: OFFSET %s)?" % (NUM, NUM), tail)
    if not m:
        return None
    return (int(m.group(2)) if m.group(2) else 0, int(m.group(1)) if m.group(1) else None)


_db = None


def db():
    global _db
    if _db is None:
        _db = sqlite3.connect(":memory:")
        _db.execute("create table t(a, b)")
        _db.execute("create table u(a, b)")
        _db.executemany("insert into t values (?, ?)", [(i, i % 3) for i in range(12)])
        _db.executemany("insert into u values (?, ?)", [(100 + i, i) for i in range(5)])
    return _db


def examine(case):
    res = Result()
    src = build_src(case)
    case["recipe"] = src
    cls = case["cls"]
    obj = ns.ev(src)
    text = str(obj)
    lim, off = expected_state(case)
    res.nontrivial = lim is not None or off is not None
    res.key = struct_hash([cls, case["kind"], case["calls"], case.get("extra"), case.get("orderby"), case.get("for_update"), case.get("upd_shape")])
    res.tags = ["cls=" + cls, "kind=" + case["kind"], "lim=%s" % ("none" if lim is None else "0" if lim == 0 else "+"),
                "off=%s" % ("none" if off is None else "0" if off == 0 else "+")]
    try:
        spec = describe.describe(obj)
        res.requests.append(({"op": "render", "ctx": describe.d_ctx({"dialect": obj.dialect} if case["kind"] != "setop" else {}),
                              "term": spec}, {"sql": text}, "str(statement)"))
    except Unsupported as e:
        res.skipped = str(e)[:40]
    base = str(ns.ev(build_src(dict(case, for_update=False, extra=None), paginate=False)))
    sfx = " FOR UPDATE" if case.get("for_update") else ""
    body = text
    ex = case.get("extra")
    if ex and ex[0] == "top":
        # MSSQL: TOP (n) right after SELECT [DISTINCT]
        pct, ties = ex[3] if len(ex) > 3 else (False, False)
        exp = "SELECT TOP (%d) %s%s" % (ex[1], "PERCENT " if pct else "", "WITH TIES " if ties else "")
        if not body.startswith(exp):
            res.findings.append({"sig": {"kind": "top", "cls": cls}, "what": "top(%d) not rendered as %r: %s" % (ex[1], exp, text)})
            return res
        body = "SELECT " + body[len(exp):]
    if not (body.startswith(base) and body.endswith(sfx)):
        res.findings.append({"sig": {"kind": "placement", "cls": cls, "stmt": case["kind"]},
                             "what": "pagination is not placed after ORDER BY and before FOR UPDATE: %s" % text})
        return res
    tail = body[len(base):len(body) - len(sfx)] if sfx else body[len(base):]
    if ex and ex[0] == "limit_by":
        exp = " LIMIT %d%s BY (\"b\")" % (ex[1], " OFFSET %d" % ex[2] if ex[2] else "")
        if not tail.startswith(exp):
            res.findings.append({"sig": {"kind": "limit_by", "cls": cls}, "what": "LIMIT BY is not ahead of the ordinary LIMIT: %s" % text})
            return res
        tail = tail[len(exp):]
    fam = cls
    if case["kind"] == "setop" and cls in FETCH:
        # the documented grammar for Oracle/MSSQL is the fetch family for every statement kind
        got = read_tail(cls, tail)
        if got is None and (lim is not None or off):
            res.findings.append({"sig": {"kind": "setop-generic-pagination", "cls": cls},
                                 "what": "%s set operation paginates with LIMIT/OFFSET instead of OFFSET..ROWS FETCH NEXT: %s" % (cls, text)})
            return res
    got = read_tail(fam, tail)
    want = (off or 0, lim)
    if got is None:
        res.findings.append({"sig": {"kind": "grammar", "cls": cls, "stmt": case["kind"]},
                             "what": "tail %r is not in the %s pagination grammar: %s" % (tail, cls, text)})
        return res
    if got != want:
        res.findings.append({"sig": {"kind": "window", "cls": cls, "stmt": case["kind"]},
                             "what": "requested limit=%r offset=%r but the statement denotes skip=%r keep=%r: %s" % (lim, off, got[0], got[1], text)})
        return res
    if cls == "mssql" and lim is not None and case["kind"] != "update" and " OFFSET " not in tail:
        res.findings.append({"sig": {"kind": "mssql-offset-missing"}, "what": "MSSQL FETCH NEXT without OFFSET: %s" % text})
    if lim is None and off and cls in LIMIT_NEEDS_LIMIT and case["kind"] != "update":
        res.findings.append({"sig": {"kind": "bare-offset", "cls": cls},
                             "what": "OFFSET without LIMIT (%s): %s" % (LIMIT_NEEDS_LIMIT[cls], text)})
    # execution on the engine we have
    if cls == "sqlite" and case["kind"] in ("select", "setop") and case.get("orderby") and not case.get("for_update"):
        try:
            rows = db().execute(text).fetchall()
            allrows = db().execute(base).fetchall()
            exp = allrows[(off or 0):] if lim is None else allrows[(off or 0):(off or 0) + lim]
            if rows != exp:
                res.findings.append({"sig": {"kind": "sqlite-rows", "stmt": case["kind"]},
                                     "what": "SQLite returns %d rows, the slice [%r:+%r] has %d: %s" % (len(rows), off, lim, len(exp), text)})
        except sqlite3.Error as e:
            if not (lim is None and off):
                res.findings.append({"sig": {"kind": "sqlite-rejects", "stmt": case["kind"]}, "what": "SQLite rejects %s: %s" % (text, e)})
    return res
