"""C16 Table, schema and named-query identity is a coherent equality."""
import itertools

from harness import ns
from harness.run import Result
from harness.common import struct_hash

ID = "C16"
LEAN_MODULES = ["Pypika.Props.C16"]
THEOREMS = ["Pypika.C16.beq_iff_eq", "Pypika.C16.eq_refl", "Pypika.C16.eq_symm", "Pypika.C16.eq_trans",
            "Pypika.C16.ne_agrees", "Pypika.C16.eq_hash", "Pypika.C16.distinguishes", "Pypika.C16.sch_eq_hash",
            "Pypika.C16.Sch.beq_iff"]
AGREE = []
TRUSTED = ["Python: hash() of equal strings/tuples is equal; `a in [b]` uses ==, `a in {b}` uses hash then =="]
RULE = ("pool of tables / schemas / databases / aliased queries varying one component at a time (name, each schema level to "
        "depth 3, alias incl. '', for_/for_portion, query class, construction route: str, tuple, Schema object, attribute "
        "access); all pairs (quick: sampled triples, thorough: all triples); non-trivial = pair differing in at most one "
        "component; distinct by (recipe a, recipe b)")

# (recipe, ground truth) — ground truth = the tuple of components the property says identity depends on
NAMES = ["t", "u"]
SCHEMAS = {
    "none": (None, ()),
    "s": ("'s'", ("s",)),
    "s2": ("'s2'", ("s2",)),
    "Schema(s)": ("Schema('s')", ("s",)),
    "tuple(d,s)": ("('d', 's')", ("d", "s")),
    "list(d,s)": ("['d', 's']", ("d", "s")),
    "Schema(s,parent=Database(d))": ("Schema('s', parent=Database('d'))", ("d", "s")),
    "Database(d).s": ("Database('d').s", ("d", "s")),
    "tuple(d2,s)": ("('d2', 's')", ("d2", "s")),
    "tuple(x,d,s)": ("('x', 'd', 's')", ("x", "d", "s")),
    "Database(d)": ("Database('d')", ("d",)),
}
ALIASES = [None, "a", "", "t"]
TEMPORAL = {
    "none": ("", None),
    "for1": (".for_(SystemTimeValue().as_of('2020-01-01'))", ("for", "1")),
    "for2": (".for_(SystemTimeValue().as_of('2021-01-01'))", ("for", "2")),
    "portion1": (".for_portion(SystemTimeValue().from_to('2020-01-01', '2020-02-01'))", ("portion", "1")),
    "for_same_as_portion1": (".for_(SystemTimeValue().from_to('2020-01-01', '2020-02-01'))", ("for", "p1")),
}


def pool():
    out = []
    for n in NAMES:
        for sk, (ssrc, chain) in SCHEMAS.items():
            for al in ALIASES:
                for tk, (tsrc, tt) in TEMPORAL.items():
                    if tk != "none" and (sk not in ("none", "s") or al not in (None, "a")):
                        continue
                    if n == "u" and sk not in ("none", "s", "tuple(d,s)"):
                        continue
                    args = [repr(n)]
                    if ssrc:
                        args.append("schema=%s" % ssrc)
                    if al is not None:
                        args.append("alias=%r" % al)
                    src = "T(%s)%s" % (", ".join(args), tsrc)
                    out.append((src, ("table", n, chain, al, tt)))
    # attribute-access and query-class routes
    out.append(("Schema('s').t", ("table", "t", ("s",), None, None)))
    out.append(("Database('d').s.t", ("table", "t", ("d", "s"), None, None)))
    out.append(("MySQLQuery.Table('t')", ("table", "t", (), None, None)))
    out.append(("T('t').as_('a')", ("table", "t", (), "a", None)))
    out.append(("Tables('t', ('u', 'a'))[1]", ("table", "u", (), "a", None)))
    # routes through an object that was already hashed / compared / rendered before the derivation
    out.append(("(lambda b: (hash(b), b.as_('a'))[1])(T('t'))", ("table", "t", (), "a", None)))
    out.append(("(lambda b: ({b: 1}, b.as_('a'))[1])(T('t', schema='s'))", ("table", "t", ("s",), "a", None)))
    out.append(("(lambda b: (hash(b), b == b, str(b), b.for_(SystemTimeValue().as_of('2020-01-01')))[3])(T('t'))",
                ("table", "t", (), None, ("for", "1"))))
    out.append(("(lambda b: (hash(b), b.for_portion(SystemTimeValue().from_to('2020-01-01', '2020-02-01')))[1])(T('t'))",
                ("table", "t", (), None, ("portion", "1"))))
    out.append(("(lambda b: (hash(b), b.as_('a').as_('t'))[1])(T('t').as_('zz'))", ("table", "t", (), "t", None)))
    out.append(("(lambda b: (str(Query.from_(b).join(T('u')).on(b.a == T('u').a).select('*')), b.as_('a'))[1])(T('t'))",
                ("table", "t", (), "a", None)))
    for src, chain in [("Schema('s')", ("s",)), ("Schema('s2')", ("s2",)), ("Database('s')", ("s",)),
                       ("Schema('s', parent=Database('d'))", ("d", "s")), ("Database('d').s", ("d", "s")),
                       ("Schema('s', parent=Schema('d2'))", ("d2", "s")), ("Database('d')", ("d",)),
                       ("T('t', schema=('d', 's'))._schema", ("d", "s"))]:
        out.append((src, ("schema", chain)))
    # names that contain the separator / quote characters: a dotted name is ONE name, not a path
    out.append(("T('t', schema='d.s')", ("table", "t", ("d.s",), None, None)))
    out.append(("T('s.t')", ("table", "s.t", (), None, None)))
    out.append(("T('t', schema=('d', 's'))", ("table", "t", ("d", "s"), None, None)))
    out.append(("T('t', schema='s\".\"x')", ("table", "t", ('s"."x',), None, None)))
    out.append(("T('t', schema=('s', 'x'))", ("table", "t", ("s", "x"), None, None)))
    # three and four levels given as a sequence: every level counts
    out.append(("T('t', schema=('d', 's', 'x'))", ("table", "t", ("d", "s", "x"), None, None)))
    out.append(("T('t', schema=('d', 's2', 'x'))", ("table", "t", ("d", "s2", "x"), None, None)))
    out.append(("T('t', schema=('d', 'x'))", ("table", "t", ("d", "x"), None, None)))
    out.append(("T('t', schema=['d', 's', 'x'])", ("table", "t", ("d", "s", "x"), None, None)))
    out.append(("T('t', schema=Schema('x', parent=Schema('s', parent=Database('d'))))", ("table", "t", ("d", "s", "x"), None, None)))
    out.append(("T('t', schema=('a', 'd', 's', 'x'))", ("table", "t", ("a", "d", "s", "x"), None, None)))
    out.append(("Schema('x', parent=Schema('s', parent=Database('d')))", ("schema", ("d", "s", "x"))))
    out.append(("T('t', schema=('d', 's', 'x'))._schema", ("schema", ("d", "s", "x"))))
    out.append(("T('t', schema=('d', 's2', 'x'))._schema", ("schema", ("d", "s2", "x"))))
    out.append(("Schema('d.s')", ("schema", ("d.s",))))
    out.append(("Schema('s\".\"x')", ("schema", ('s"."x',))))
    out.append(("Schema('x', parent=Schema('s'))", ("schema", ("s", "x"))))
    for src, name in [("AliasedQuery('w')", "w"), ("AliasedQuery('w', Query.from_('t').select('a'))", "w"),
                      ("AliasedQuery('w2')", "w2"), ("AliasedQuery('t')", "t")]:
        out.append((src, ("aliased", name)))
    return out


_POOL = None


def get_pool():
    global _POOL
    if _POOL is None:
        _POOL = pool()
    return _POOL


def counts(tier):
    return 6000 if tier == "quick" else 200000


def generate(rng, n, tier):
    P = get_pool()
    k = len(P)
    # all pairs (both tiers)
    for i in range(k):
        for j in range(k):
            yield {"idx": [i, j]}
    if tier == "thorough":
        # all triples over a 60-object sub-pool plus sampled triples over the full pool
        sub = list(range(0, k, max(1, k // 60)))[:60]
        for i, j, l in itertools.product(sub, repeat=3):
            yield {"idx": [i, j, l]}
    for _ in range(n):
        yield {"idx": [rng.randrange(k), rng.randrange(k), rng.randrange(k)]}


def d_tbl(t):
    return {"name": t._table_name, "schema": chain_of(t._schema), "alias": t.alias,
            "for": None if t._for is None else str(t._for), "for_portion": None if t._for_portion is None else str(t._for_portion)}


def chain_of(s):
    out = []
    while s is not None:
        out.append(s._name)
        s = s._parent
    return list(reversed(out))


def ndiff(ga, gb):
    if ga[0] != gb[0]:
        return 9
    return sum(1 for x, y in zip(ga[1:], gb[1:]) if x != y)


def examine(case):
    res = Result()
    P = get_pool()
    idx = case["idx"]
    objs = [ns.ev(P[i][0]) for i in idx]
    gts = [P[i][1] for i in idx]
    case["recipe"] = [P[i][0] for i in idx]
    res.key = struct_hash(case["recipe"])
    res.nontrivial = ndiff(gts[0], gts[1]) <= 1
    res.tags = ["kind=" + gts[0][0], "arity=%d" % len(idx), "diff=%d" % min(ndiff(gts[0], gts[1]), 3)]

    def F(kind, what):
        res.findings.append({"sig": {"law": kind, "kinds": sorted({g[0] for g in gts})}, "what": what + " | " + " ; ".join(case["recipe"])})

    a, b = objs[0], objs[1]
    try:
        eq_ab, eq_ba = (a == b), (b == a)
        ne_ab = (a != b)
    except Exception as e:
        F("eq-raises", "== raises %s" % type(e).__name__)
        return res
    if not (a == a):
        F("reflexive", "a == a is False")
    if eq_ab != eq_ba:
        F("symmetric", "a == b is %r but b == a is %r" % (eq_ab, eq_ba))
    if ne_ab == eq_ab:
        F("ne", "a != b is %r while a == b is %r" % (ne_ab, eq_ab))
    want = gts[0] == gts[1]
    if bool(eq_ab) != want:
        F("distinguishes", "a == b is %r but the components %r vs %r %s" % (eq_ab, gts[0], gts[1], "coincide" if want else "differ"))
    try:
        ha, hb = hash(a), hash(b)
    except TypeError as e:
        F("unhashable", "hash raises: %s" % e)
        return res
    if eq_ab and ha != hb:
        F("hash", "a == b but hash(a) != hash(b)")
    in_list = a in [b]
    in_set = a in {b}
    in_dict = a in {b: 1}
    if not (in_list == in_set == in_dict == bool(eq_ab)):
        F("membership", "a in [b]=%r, a in {b}=%r, a in {b:1}=%r, a == b=%r" % (in_list, in_set, in_dict, eq_ab))
    if len(objs) == 3:
        c = objs[2]
        if (a == b) and (b == c) and not (a == c):
            F("transitive", "a == b and b == c but not a == c")
    # correspondence with the model
    if gts[0][0] == "table" and gts[1][0] == "table":
        res.requests.append(({"op": "tbleq", "a": d_tbl(a), "b": d_tbl(b)},
                             {"eq": bool(eq_ab), "hash_eq": ha == hb, "hash_a": str(a)}, "Table == / hash"))
    elif gts[0][0] == "schema" and gts[1][0] == "schema":
        res.requests.append(({"op": "scheq", "a": chain_of(a), "b": chain_of(b)},
                             {"eq": bool(eq_ab), "hash_eq": ha == hb}, "Schema == / hash"))
    return res


def same(expected, got):
    return all(got.get(k) == v for k, v in expected.items())
