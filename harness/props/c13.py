"""C13 Aliases are defined once where selected and referenced consistently."""
import re

from harness import describe, genq, ns, sqlspec
from harness.describe import Unsupported
from harness.run import Result
from harness.common import struct_hash
from harness.ns import QNAMES

ID = "C13"
LEAN_MODULES = ["Pypika.Props.C13", "Pypika.Props.Builder"]
TRACE_BUILDER = True   # builder calls made by this check are also run through Pypika.B.step (harness/trace.py)
THEOREMS = ["Pypika.C13.field_no_alias", "Pypika.C13.arith_no_alias", "Pypika.C13.neg_no_alias", "Pypika.C13.case_no_alias",
            "Pypika.C13.basic_no_alias", "Pypika.C13.complex_no_alias", "Pypika.C13.func_no_alias", "Pypika.C13.fnArg_no_alias",
            "Pypika.C13.field_alias_once", "Pypika.C13.arith_alias_once", "Pypika.C13.neg_alias_once",
            "Pypika.C13.case_alias_once", "Pypika.C13.func_alias_once", "Pypika.C13.aliasPiece_text",
            "Pypika.C13.groupby_item", "Pypika.C13.ref_is_defined", "Pypika.C13.fetch_family_no_groupby_alias",
            "Pypika.C13.groupby_alias_sticky", "Pypika.C13.alias_family_groupby_alias", "Pypika.C13.groupby_alias_decided",
            # term-level builders (Builder.lean stepT, tied call by call through harness/trace.py)
            "Pypika.B.as_last_wins",
            "Pypika.B.select_terms_append", "Pypika.B.select_select", "Pypika.B.select_after_star_ignored"]
AGREE = ["Pypika.Agree.format_alias", "Pypika.Agree.class_quotes"]
TRUSTED = ["the alias vocabulary of the generator (aliases are recognised by name in the implementation's token stream)"]
RULE = ("11 aliasable term kinds x 9 clause positions x 10 classes exhaustively (each with two operand shapes), plus random "
        "statements re-using one aliased object in several clauses; non-trivial = alias object used in >= 2 clauses or in a "
        "non-select position; distinct by (kind, shape, position set, class)")

KINDS = {
    "field": ["t.a", "t.x"],
    # (third shapes: an operand that carries an alias of its own — `zin` — which is never printed inside the larger expression)
    "arith": ["(t.a + 1)", "(t.a * (t.b - 2))", "(t.a.as_('zin') + 1)"],
    "function": ["fn.Upper(t.c)", "fn.Coalesce(t.a, t.b, 0)", "fn.Upper(t.c.as_('zin'))"],
    "aggregate": ["fn.Sum(t.a)", "fn.Count(t.b).distinct()"],
    "analytic": ["an.Rank().over(t.b).orderby(t.a)", "an.Sum(t.a).over(t.b)"],
    "case": ["Case().when(t.a > 1, 'big').else_('small')", "Case().when(t.a.isnull(), t.b).when(t.b > 2, t.a)",
             "Case().when(t.a > 1, t.b.as_('zin')).else_('small')"],
    "subquery": ["Query.from_(u).select(fn.Max(u.a))", "{Q}.from_(u).select(u.b).where(u.a == 1)"],
    "negative": ["(-t.a)", "(-(t.a + t.b))", "(-(t.a.as_('zin')))"],
    "comparison": ["(t.a == 1)", "(t.a > t.b)", "(t.a.as_('zin') == 1)"],
    "boolean": ["((t.a == 1) & (t.b == 2))", "((t.a > 1) | t.b.isnull())"],
    "mod_pow": ["(t.a % 3)", "(t.a ** 2)"],
    # alias given to the constructor instead of .as_()
    "ctor_alias": ["fn.Sum(t.a, alias={alias!r})", "an.FirstValue(t.a, alias={alias!r}).over(t.b).orderby(t.x)"],
    "ctor_alias2": ["an.LastValue(t.a, alias={alias!r}).over(t.b).orderby(t.x).ignore_nulls()", "F('a', alias={alias!r}, table=t)"],
    "ctor_alias3": ["an.Rank(alias={alias!r}).over(t.b).orderby(t.a)", "fn.Coalesce(t.a, 0, alias={alias!r})"],
}
POSITIONS = ["select", "where", "having", "on", "func_arg", "operand", "groupby_sel", "orderby_sel", "groupby_unsel", "orderby_unsel"]
ALIASES = ["al", "my col"]


def counts(tier):
    return 800 if tier == "quick" else 20000


def generate(rng, n, tier):
    for cls in QNAMES:
        for kind, shapes in KINDS.items():
            for si in range(len(shapes)):
                for pos in POSITIONS:
                    yield {"cls": cls, "kind": kind, "shape": si, "positions": [pos], "alias": ALIASES[(si + len(pos)) % 2]}
    for cls in QNAMES:
        for inner in QNAMES:
            for kind in ("field", "arith", "function", "case"):
                yield {"cls": cls, "kind": kind, "shape": 0, "positions": ["nested_groupby"], "alias": "al", "inner_cls": inner}
    # ORDER BY of a set operation refers to an alias its first operand defines: same lexical form as the definition
    for cls in QNAMES:
        for kind in ("field", "arith", "function", "case"):
            for op in ("union", "intersect"):
                yield {"cls": cls, "kind": kind, "shape": 0, "positions": ["setop_orderby"], "alias": "al", "setop": op}
                # … and not to an alias that no operand selects (the term itself is then the ORDER BY key)
                yield {"cls": cls, "kind": kind, "shape": 0, "positions": ["setop_orderby"], "alias": "al", "setop": op, "unselected": True}
    # GROUP BY <aliased term> inside the operands of a set operation: alias use follows the statement's class there too
    for cls in QNAMES:
        for kind in ("field", "arith", "function"):
            yield {"cls": cls, "kind": kind, "shape": 0, "positions": ["setop_groupby"], "alias": "al"}
    # an aliased selected term also named in DISTINCT ON / LIMIT BY (PostgreSQL, ClickHouse): defined once, in the select list
    for cls in ("postgresql", "clickhouse"):
        for kind in ("field", "arith", "function", "case"):
            yield {"cls": cls, "kind": kind, "shape": 0, "positions": ["dialect_clause"], "alias": "al"}
    # a star select removes (or blocks) the aliased column: GROUP BY / ORDER BY must then refer to the column, not the alias
    for cls in QNAMES:
        for variant in range(4):
            yield {"cls": cls, "kind": "field", "shape": 0, "positions": ["star_prunes"], "alias": "al", "variant": variant}
    # an alias spelled like the column itself (`t.a.as_('a')`): still a definition — GROUP BY / ORDER BY refer to it by that name
    for cls in QNAMES:
        for variant in range(3):
            yield {"cls": cls, "kind": "field", "shape": 0, "positions": ["same_name"], "alias": "a", "variant": variant}
    for _ in range(n):
        k = rng.randint(2, 4)
        yield {"cls": rng.choice(list(QNAMES)), "kind": rng.choice(list(KINDS)), "shape": rng.randint(0, 1),
               "positions": rng.sample(POSITIONS, k), "alias": rng.choice(ALIASES), "inner_cls": rng.choice(list(QNAMES))}


def build(case):
    qn = QNAMES[case["cls"]]
    expr = KINDS[case["kind"]][case["shape"]].replace("{Q}", QNAMES[case.get("inner_cls", case["cls"])])
    if "{alias" in expr:
        lines = ["t = T('t')", "u = T('u')", "e = %s" % expr.format(alias=case["alias"])]
    else:
        lines = ["t = T('t')", "u = T('u')", "e = %s.as_(%r)" % (expr, case["alias"])]
    pos = case["positions"]
    is_crit = case["kind"] in ("comparison", "boolean")
    is_sub = case["kind"] == "subquery"
    sel = ["t.b"]
    if "select" in pos or "groupby_sel" in pos or "orderby_sel" in pos:
        sel.append("e")
    chain = ""
    if "on" in pos:
        chain += ".join(u).on((t.a == u.a) & %s)" % ("e" if is_crit else "(u.b == e)" if is_sub else "(e == u.b)")
    if "func_arg" in pos:
        sel.append("fn.Coalesce(e, 0)")
    if "operand" in pos:
        sel.append("fn.Abs(e)" if is_sub else ("(e + 1)" if not is_crit else "Case().when(e, 1).else_(0)"))
    chain = ".select(%s)" % ", ".join(sel) + chain
    if "where" in pos:
        chain += ".where(%s)" % ("e" if is_crit else "t.a.isin(e)" if is_sub else "e > 0")
    if "groupby_sel" in pos or "groupby_unsel" in pos:
        chain += ".groupby(e)"
    if "having" in pos:
        if not ("groupby_sel" in pos or "groupby_unsel" in pos):
            chain += ".groupby(t.b)"
        chain += ".having(%s)" % ("e" if is_crit else "(fn.Sum(t.a) > e)" if is_sub else "e < 5")
    if "orderby_sel" in pos or "orderby_unsel" in pos:
        chain += ".orderby(e)"
    if pos == ["star_prunes"]:
        v = case.get("variant", 0)
        chain = [".select(t.b, e).groupby(e).orderby(e).select(t.star)", ".select(e).orderby(e).select(t.star).groupby(e)",
                 ".select(t.star).select(e).groupby(e).orderby(e)", ".select(e, t.b).groupby(e).select('*').orderby(e)"][v]
        lines.append("q = %s.from_(t)%s" % (qn, chain))
        return "\n".join(lines)
    if pos == ["same_name"]:
        chain = [".select(e, t.b).orderby(e)", ".join(u).on(t.b == u.b).select(e, u.a.as_('ua')).orderby(e)",
                 ".select(e, fn.Sum(t.x).as_('s')).groupby(e)"][case.get("variant", 0)]
        lines.append("q = %s.from_(t)%s" % (qn, chain))
        return "\n".join(lines)
    if pos == ["dialect_clause"]:
        tail = ".limit_by(1, e)" if case["cls"] == "clickhouse" else ""
        lines.append("q = %s.from_(t).distinct_on(e).select(e, t.b)%s" % (qn, tail))
        return "\n".join(lines)
    if pos == ["setop_groupby"]:
        lines.append("q = %s.from_(t).select(e, fn.Sum(t.x).as_('s')).groupby(e).union_all("
                     "%s.from_(u).select(u.a.as_(%r), fn.Sum(u.x).as_('s')).groupby(u.a.as_(%r)))" % (qn, qn, case["alias"], case["alias"]))
        return "\n".join(lines)
    if pos == ["setop_orderby"] and case.get("unselected"):
        lines.append("q = %s.from_(t).select(t.b, t.a).%s(%s.from_(u).select(u.b, u.a)).orderby(e)"
                     % (qn, case.get("setop", "union"), qn))
        return "\n".join(lines)
    if pos == ["setop_orderby"]:
        lines.append("q = %s.from_(t).select(t.b, e).%s(%s.from_(u).select(u.b, u.a.as_(%r))).orderby(e)"
                     % (qn, case.get("setop", "union"), qn, case["alias"]))
        return "\n".join(lines)
    if pos == ["nested_groupby"]:
        qi = QNAMES[case.get("inner_cls", case["cls"])]
        lines.append("inner = %s.from_(t).select(e, fn.Sum(t.x).as_('s')).groupby(e)" % qi)
        lines.append("q = %s.from_(inner).select(inner.al, inner.s).where(inner.s > 1)" % qn)
        return "\n".join(lines)
    lines.append("q = %s.from_(t)%s" % (qn, chain))
    return "\n".join(lines)


def examine(case):
    res = Result()
    pos = case["positions"]
    # selected / unselected variants of the same clause contradict each other: keep the first
    if "groupby_sel" in pos and "groupby_unsel" in pos:
        pos = [p for p in pos if p != "groupby_unsel"]
    if "orderby_sel" in pos and "orderby_unsel" in pos:
        pos = [p for p in pos if p != "orderby_unsel"]
    if pos == ["nested_groupby"]:
        return examine_nested(dict(case, positions=pos))
    if pos == ["setop_orderby"]:
        return examine_setop(dict(case, positions=pos))
    if pos == ["star_prunes"]:
        return examine_star(dict(case, positions=pos))
    if pos == ["same_name"]:
        return examine_same_name(dict(case, positions=pos))
    if pos == ["setop_groupby"]:
        return examine_setop_groupby(dict(case, positions=pos))
    if pos == ["dialect_clause"]:
        return examine_dialect_clause(dict(case, positions=pos))
    selected = any(p in pos for p in ("select", "groupby_sel", "orderby_sel"))
    if selected:
        pos = [p for p in pos if p not in ("groupby_unsel", "orderby_unsel")] + \
              [p.replace("unsel", "sel") for p in pos if p in ("groupby_unsel", "orderby_unsel")]
    case = dict(case, positions=pos)
    b0 = ns.QUERY_CLASSES[case["cls"]]._builder()
    if (b0.ALIAS_QUOTE_CHAR or b0.QUOTE_CHAR) is None or (case["kind"] == "subquery" and case["cls"] in ("snowflake", "oracle")):
        case["alias"] = "al"        # an unquoted alias cannot contain a blank
    src = build(case)
    case["recipe"] = src
    env = ns.ex(src)
    q, e = env["q"], env["e"]
    text = str(q)
    # the aliases a statement references are the ones ITS select list defines: the same statement built from a FROM
    # clause that a sibling statement (selecting the aliased term) was also built from renders the same text
    last = src.split("\n")[-1]
    head = "q = %s.from_(t)" % QNAMES[case["cls"]]
    if last.startswith(head):
        alt = "\n".join(src.split("\n")[:-1] + ["base = " + head[4:], "sib = base.select(e, t.x).groupby(e).orderby(e)",
                                                  "s_text = str(sib)", "q = base" + last[len(head):]])
        env2 = ns.ex(alt)
        if str(env2["q"]) != text:
            res.findings.append({"sig": {"kind": "sibling-alias", "term": case["kind"]},
                                 "what": "next to a sibling statement selecting the alias the statement renders %s, alone %s | %s"
                                         % (str(env2["q"]), text, src)})
    b = q
    cls = case["cls"]
    alias = case["alias"]
    Q, AQ = b.QUOTE_CHAR, b.ALIAS_QUOTE_CHAR
    res.nontrivial = len(pos) >= 2 or pos[0] != "select"
    res.key = struct_hash([case["kind"], case["shape"], sorted(pos), cls, alias])
    res.tags = ["kind=" + case["kind"], "cls=" + cls] + ["pos=" + p for p in pos]

    def F(kind, what):
        res.findings.append({"sig": {"kind": kind, "term": case["kind"]}, "what": what + " | " + text})

    try:
        res.requests.append(({"op": "render", "ctx": describe.d_ctx({"dialect": q.dialect}), "term": describe.describe(q)},
                             {"sql": text}, "str(statement)"))
    except Unsupported as ex:
        res.skipped = str(ex)[:40]
    try:
        toks = sqlspec.lex(text, ident_quotes='"`')
    except sqlspec.LexError as ex:
        F("lex", "unlexable: %s" % ex)
        return res
    if any(t.kind == "id" and t.val == "zin" for t in toks):
        F("inner-alias-printed", "the alias of an operand is printed inside the larger expression")
    occ = [i for i, t in enumerate(toks) if t.kind == "id" and t.val == alias]
    # expected number of occurrences: one definition if selected, one reference per GROUP BY / ORDER BY use when selected
    gb_alias_ok = cls not in ("oracle", "mssql")
    want_def = 1 if selected else 0
    want_refs = 0
    if selected:
        if "groupby_sel" in pos and gb_alias_ok:
            want_refs += 1
        if "orderby_sel" in pos:
            want_refs += 1
    if len(occ) != want_def + want_refs:
        F("alias-count", "alias %r occurs %d times, expected %d definition + %d references (positions %s)"
          % (alias, len(occ), want_def, want_refs, pos))
        return res
    aq = AQ or Q
    if selected:
        d = toks[occ[0]]
        if d.quote != aq:
            if case["kind"] == "subquery":
                F("subquery-alias-quote-from-inner-class", "sub-query alias is defined with quote %r but the %s alias convention "
                  "(used by GROUP BY / ORDER BY references) is %r" % (d.quote, cls, aq))
            else:
                F("alias-quote", "alias definition is quoted %r, the %s alias convention is %r" % (d.quote, cls, aq))
        prev = toks[occ[0] - 1] if occ[0] > 0 else None
        has_as = prev is not None and prev.kind == "kw" and prev.val == "AS"
        if has_as != bool(b.as_keyword):
            F("as-keyword", "AS keyword %s although as_keyword=%r" % ("present" if has_as else "missing", b.as_keyword))
        # the definition sits in the select list: before FROM at depth 0
        depth = 0
        from_at = None
        for i, t in enumerate(toks):
            if t.kind == "p" and t.val == "(":
                depth += 1
            elif t.kind == "p" and t.val == ")":
                depth -= 1
            elif depth == 0 and t.kind == "kw" and t.val == "FROM":
                from_at = i
                break
        if from_at is not None and occ[0] > from_at:
            F("alias-position", "alias is not defined in the select list")
        for r in occ[1:]:
            if toks[r].quote != aq:
                F("alias-ref-quote", "alias reference quoted %r, expected %r" % (toks[r].quote, aq))
    return res


def examine_nested(case):
    """an aliased term grouped inside a FROM sub-query built by another class: the OUTER dialect decides GROUP BY alias use"""
    res = Result()
    b0 = ns.QUERY_CLASSES[case["cls"]]._builder()
    src = build(case)
    case["recipe"] = src
    env = ns.ex(src)
    q = env["q"]
    text = str(q)
    cls, inner = case["cls"], case.get("inner_cls")
    res.nontrivial = True
    res.key = struct_hash(["nested", case["kind"], cls, inner])
    res.tags = ["kind=" + case["kind"], "cls=" + cls, "pos=nested_groupby"]
    try:
        res.requests.append(({"op": "render", "ctx": describe.d_ctx({"dialect": q.dialect}), "term": describe.describe(q)},
                             {"sql": text}, "str(statement)"))
    except Unsupported as ex:
        res.skipped = str(ex)[:40]
    m = re.search(r"GROUP BY (.*?)\)", text)
    grouped_by_alias = bool(m and re.fullmatch(r"[\"`]?al[\"`]?", m.group(1).strip()))
    if cls not in ("oracle", "mssql") and inner in ("oracle", "mssql") and m and not grouped_by_alias:
        # the other direction: a dialect that groups by alias does so at every depth, whichever class built the sub-query
        res.findings.append({"sig": {"kind": "groupby-expression-under-alias-dialect", "term": case["kind"]},
                             "what": "GROUP BY repeats the expression inside a %s statement (sub-query built by %s) although the alias is selected "
                                     "and %s groups by alias: %s" % (cls, inner, cls, text)})
    if cls in ("oracle", "mssql") and grouped_by_alias:
        res.findings.append({"sig": {"kind": "groupby-alias-under-fetch-family", "term": case["kind"]},
                             "what": "GROUP BY refers to an alias inside a %s statement (sub-query built by %s): %s" % (cls, inner, text)})
    if cls not in ("oracle", "mssql") and inner not in ("oracle", "mssql") and not grouped_by_alias:
        res.findings.append({"sig": {"kind": "groupby-alias-not-used", "term": case["kind"]},
                             "what": "GROUP BY does not refer to the selected alias under %s: %s" % (cls, text)})
    return res


def examine_setop(case):
    """ORDER BY <aliased term> on a set operation: one definition per operand, one reference, all in the alias convention"""
    res = Result()
    src = build(case)
    case["recipe"] = src
    env = ns.ex(src)
    q = env["q"]
    text = str(q)
    b = q.base_query
    cls = case["cls"]
    res.nontrivial = True
    res.key = struct_hash(["setop", case["kind"], cls, case.get("setop"), bool(case.get("unselected"))])
    res.tags = ["kind=" + case["kind"], "cls=" + cls, "pos=setop_orderby"]
    try:
        res.requests.append(({"op": "render", "ctx": describe.d_ctx({}), "term": describe.describe(q)}, {"sql": text}, "str(set operation)"))
    except Unsupported as ex:
        res.skipped = str(ex)[:40]
    try:
        toks = sqlspec.lex(text, ident_quotes='"`')
    except sqlspec.LexError as ex:
        res.findings.append({"sig": {"kind": "lex", "term": case["kind"]}, "what": "unlexable: %s | %s" % (ex, text)})
        return res
    occ = [t for t in toks if t.kind == "id" and t.val == case["alias"]]
    aq = b.ALIAS_QUOTE_CHAR or b.QUOTE_CHAR
    if case.get("unselected"):
        if occ:
            res.findings.append({"sig": {"kind": "alias-referenced-but-not-defined", "term": case["kind"], "where": "setop"},
                                 "what": "ORDER BY of the set operation refers to the alias %r that no operand selects | %s" % (case["alias"], text)})
        return res
    if len(occ) != 3:
        res.findings.append({"sig": {"kind": "alias-count", "term": case["kind"], "where": "setop"},
                             "what": "alias occurs %d times, expected 2 definitions + 1 reference | %s" % (len(occ), text)})
        return res
    for i, t in enumerate(occ):
        if t.quote != aq:
            res.findings.append({"sig": {"kind": "alias-ref-quote" if i == 2 else "alias-quote", "term": case["kind"], "where": "setop"},
                                 "what": "alias %s quoted %r, the %s alias convention is %r | %s"
                                         % ("reference in ORDER BY" if i == 2 else "definition", t.quote, cls, aq, text)})
            break
    return res


def examine_dialect_clause(case):
    """DISTINCT ON(<aliased term>) / LIMIT n BY (<aliased term>): the alias is defined once, where the term is selected"""
    res = Result()
    src = build(case)
    case["recipe"] = src
    q = ns.ex(src)["q"]
    text = str(q)
    res.nontrivial = True
    res.key = struct_hash(["dialect-clause", case["kind"], case["cls"]])
    res.tags = ["kind=" + case["kind"], "cls=" + case["cls"], "pos=dialect_clause"]
    try:
        res.requests.append(({"op": "render", "ctx": describe.d_ctx({"dialect": q.dialect}), "term": describe.describe(q)},
                             {"sql": text}, "str(statement)"))
    except Unsupported as ex:
        res.skipped = str(ex)[:40]
    try:
        toks = sqlspec.lex(text, ident_quotes='"`')
    except sqlspec.LexError as ex:
        res.findings.append({"sig": {"kind": "lex", "term": case["kind"]}, "what": "unlexable: %s | %s" % (ex, text)})
        return res
    occ = [t for t in toks if t.kind == "id" and t.val == case["alias"]]
    if len(occ) != 1:
        res.findings.append({"sig": {"kind": "alias-count", "term": case["kind"], "where": "dialect-clause"},
                             "what": "alias occurs %d times, expected its one definition in the select list | %s" % (len(occ), text)})
    return res


def examine_setop_groupby(case):
    """GROUP BY an aliased selected term inside both operands of a set operation"""
    res = Result()
    src = build(case)
    case["recipe"] = src
    q = ns.ex(src)["q"]
    text = str(q)
    cls = case["cls"]
    res.nontrivial = True
    res.key = struct_hash(["setop-groupby", case["kind"], cls])
    res.tags = ["kind=" + case["kind"], "cls=" + cls, "pos=setop_groupby"]
    try:
        res.requests.append(({"op": "render", "ctx": describe.d_ctx({}), "term": describe.describe(q)}, {"sql": text}, "str(set operation)"))
    except Unsupported as ex:
        res.skipped = str(ex)[:40]
    try:
        toks = sqlspec.lex(text, ident_quotes='"`')
    except sqlspec.LexError as ex:
        res.findings.append({"sig": {"kind": "lex", "term": case["kind"]}, "what": "unlexable: %s | %s" % (ex, text)})
        return res
    occ = [t for t in toks if t.kind == "id" and t.val == case["alias"]]
    want = 2 + (0 if cls in ("oracle", "mssql") else 2)
    if len(occ) != want:
        res.findings.append({"sig": {"kind": "alias-count", "term": case["kind"], "where": "setop-groupby"},
                             "what": "alias occurs %d times, expected %d (2 definitions%s) | %s"
                                     % (len(occ), want, "" if want == 2 else " + 2 GROUP BY references", text)})
    return res


def examine_same_name(case):
    """an alias spelled like its column: the select list still defines it (column, then the alias), later clauses refer to it"""
    res = Result()
    src = build(case)
    case["recipe"] = src
    q = ns.ex(src)["q"]
    text = str(q)
    res.nontrivial = True
    res.key = struct_hash(["same-name", case["cls"], case.get("variant")])
    res.tags = ["kind=field", "cls=" + case["cls"], "pos=same_name"]
    try:
        res.requests.append(({"op": "render", "ctx": describe.d_ctx({"dialect": q.dialect}), "term": describe.describe(q)},
                             {"sql": text}, "str(statement)"))
    except Unsupported as ex:
        res.skipped = str(ex)[:40]
    try:
        toks = sqlspec.lex(text, ident_quotes='"`')
    except sqlspec.LexError as ex:
        res.findings.append({"sig": {"kind": "lex", "term": "field"}, "what": "unlexable: %s | %s" % (ex, text)})
        return res
    # first select item: [qualifier .] a [AS] a
    ids = []
    for t in toks[1:]:
        if t.kind == "p" and t.val == ",":
            break
        if t.kind == "kw" and t.val == "FROM":
            break
        if t.kind == "id":
            ids.append(t.val)
    if ids[-2:] != ["a", "a"]:
        res.findings.append({"sig": {"kind": "alias-position", "term": "field"},
                             "what": "the alias 'a' of column a is not defined in the select list | %s | %s" % (text, src)})
    return res


def examine_star(case):
    """after a star select the aliased column is no longer (or never becomes) a select term: no reference may use its alias"""
    res = Result()
    src = build(case)
    case["recipe"] = src
    q = ns.ex(src)["q"]
    text = str(q)
    res.nontrivial = True
    res.key = struct_hash(["star", case["cls"], case.get("variant")])
    res.tags = ["kind=field", "cls=" + case["cls"], "pos=star_prunes"]
    try:
        res.requests.append(({"op": "render", "ctx": describe.d_ctx({"dialect": q.dialect}), "term": describe.describe(q)},
                             {"sql": text}, "str(statement)"))
    except Unsupported as ex:
        res.skipped = str(ex)[:40]
    try:
        toks = sqlspec.lex(text, ident_quotes='"`')
    except sqlspec.LexError as ex:
        res.findings.append({"sig": {"kind": "lex", "term": "field"}, "what": "unlexable: %s | %s" % (ex, text)})
        return res
    if any(t.kind == "id" and t.val == case["alias"] for t in toks):
        res.findings.append({"sig": {"kind": "alias-referenced-but-not-defined", "term": "field"},
                             "what": "the alias %r is referred to but the select list (a star) does not define it | %s | %s" % (case["alias"], text, src)})
    return res
