"""C06 Parameterised rendering is equivalent to inline rendering."""
import datetime
import decimal
import sqlite3
import uuid

from harness import describe, genq, ns, sqlspec
from harness.describe import Unsupported
from harness.run import Result
from harness.common import struct_hash
from harness.ns import QNAMES

ID = "C06"
LEVEL_TEXT = ("Lean 4 theorems about the executable model of the code (all inputs, by induction), tied to /repo by tables regenerated on every run (decide) and by differential execution of model and implementation; the property oracle is also run on the implementation for every case. The substitution law (fill_inline) is proved for every document of the model; the clause 'executing with the collected values gives the same rows' is executed on SQLite for the qmark / numeric / named styles, not proved.")
LEAN_MODULES = ["Pypika.Props.C06"]
THEOREMS = ["Pypika.C06.flattenP_spec", "Pypika.C06.count_agree", "Pypika.C06.fill_inline",
            "Pypika.C06.inline_iff_not_collected", "Pypika.C06.flatten_uncollect", "Pypika.C06.placeholder_inj",
            "Pypika.C06.key_named", "Pypika.C06.key_pyformat", "Pypika.C06.keys_distinct"]
AGREE = ["Pypika.Agree.placeholders"]
TRUSTED = ["the model threads `parameter` like any other kwarg (one document for both renderings); which positions a collector "
           "reaches is tied by the differential", "sqlite3 for the execution clause (qmark / numeric / named styles)"]
RULE = ("random statements (SELECT with joins / sub-queries / set operations, INSERT, UPDATE, DELETE; all 10 classes) with "
        "values of every Python type in every clause x the five DB-API styles, explicit Parameter placeholders of another "
        "style mixed in; non-trivial = at least two collected values; distinct by (script, style)")
STYLES = {"qmark": "QmarkParameter", "numeric": "NumericParameter", "format": "FormatParameter", "named": "NamedParameter",
          "pyformat": "PyformatParameter"}


def counts(tier):
    return 2500 if tier == "quick" else 40000


def generate(rng, n, tier):
    for i in range(n):
        qg = genq.QG(rng, strings="hostile" if rng.random() < 0.4 else "plain", allow_params=(i % 5 == 1),
                     sqlite_ok=(i % 4 == 0), cls="sqlite" if i % 4 == 0 else None)
        v = qg.any_statement()
        script = qg.script()
        styles = [s for s in STYLES if not collides(script, s)]
        st = rng.choice(styles)
        # dict styles with a placeholder generator of the caller's own (names that begin / end with the characters of the
        # style's decoration included): the name in the text is the key in the collected dict
        pgen = rng.choice(["slot%d", "s%ds", "status%d", "(p%d)", "p_%d_s"]) \
            if st in ("named", "pyformat") and rng.random() < 0.25 and "Parameter(" not in script else None
        yield {"script": script, "var": v, "style": st, "exec": i % 4 == 0, "pgen": pgen}


COLLIDE = {"qmark": "Parameter('?')", "numeric": "Parameter(':1')", "format": "Parameter('%s')"}


def collides(script, style):
    return style in COLLIDE and COLLIDE[style] in script


def canon(v):
    if v is None:
        return "null"
    if isinstance(v, bool):
        return "true" if v else "false"
    return str(v)


def literal_of(v):
    """the SQL literal the property substitutes for a placeholder (values compared by value)"""
    if v is None:
        return ("null", None)
    if isinstance(v, bool):
        return ("bool", v)
    if isinstance(v, (int, float, decimal.Decimal)):
        try:
            return ("num", decimal.Decimal(str(v)))
        except decimal.InvalidOperation:
            return ("num", str(v))
    return ("str", str(v))


def simple(toks):
    out = []
    for t in toks:
        if t.kind == "num":
            try:
                out.append(("num", decimal.Decimal(t.val)))
            except decimal.InvalidOperation:
                out.append(("num", t.val))
        elif t.kind == "str":
            out.append(("str", t.val))
        elif t.kind == "id" and t.quote is None and t.val in ("true", "false"):
            out.append(("bool", t.val == "true"))
        elif t.kind == "id" and t.quote is None and t.val == "null":
            out.append(("null", None))
        elif t.kind == "kw" and t.val == "NULL":
            out.append(("kw", "NULL"))
        else:
            out.append((t.kind, t.val))
    return out


def fold_minus(ts):
    """a unary minus in front of a numeric literal is part of the literal"""
    out = []
    for x in ts:
        if x[0] == "num" and isinstance(x[1], decimal.Decimal) and out and out[-1] == ("op", "-") and \
                (len(out) < 2 or (out[-2][0] in ("op", "kw") or out[-2] in (("p", "("), ("p", ","), ("p", "[")))):
            out.pop()
            out.append(("num", -x[1]))
        else:
            out.append(x)
    return out


_db = None


def db():
    global _db
    if _db is None:
        _db = sqlite3.connect(":memory:")
        for t in ("t", "u", "v", "w", "j", "src"):
            _db.execute("create table %s(a, b, c, x)" % t)
            _db.executemany("insert into %s values (?,?,?,?)" % t, [(i, i % 3, "foo" if i % 2 else "bar", -i) for i in range(6)])
        _db.commit()
    return _db


def examine(case):
    res = Result()
    src = case["script"]
    case["recipe"] = src
    try:
        env = ns.ex(src)
    except SyntaxError:
        return res
    q = env[case["var"]]
    st = case["style"]
    pgen = case.get("pgen")
    P = getattr(ns, STYLES[st])((lambda i: pgen % i) if pgen else None) if pgen else getattr(ns, STYLES[st])()
    try:
        inline = q.get_sql()
    except Exception as e:
        return res
    sql = q.get_sql(parameter=P)
    params = P.get_parameters()
    plist = list(params.values()) if isinstance(params, dict) else list(params)
    res.nontrivial = len(plist) >= 2
    res.key = struct_hash([src, st, pgen])
    res.tags = ["style=" + st, "nparams=%d" % min(len(plist), 6), "cls=" + type(q).__name__[:12]]

    def F(kind, what):
        if collides(src, st) and kind in ("substitution", "count", "numbering", "execution"):
            kind = "explicit-placeholder-collision"
        res.findings.append({"sig": {"kind": kind, "style": st}, "what": what + " | style=%s sql=%s params=%r" % (st, sql, params)})

    cls = describe.QCLS.get(type(q), "generic") if isinstance(q, ns.queries.QueryBuilder) else "generic"
    b = q if isinstance(q, ns.queries.QueryBuilder) else q.base_query
    iq = "".join(x for x in [b.QUOTE_CHAR, b.ALIAS_QUOTE_CHAR] if x) or '"'
    try:
        ptoks = sqlspec.lex(sql, ident_quotes=iq)
        itoks = sqlspec.lex(inline, ident_quotes=iq)
    except sqlspec.LexError:
        ptoks = itoks = None          # hostile strings under backslash dialects etc. are C03's business
    if ptoks is not None:
        phs = [t for t in ptoks if t.kind == "ph"]
        iphs = [t for t in itoks if t.kind == "ph"]
        if len(phs) - len(iphs) != len(plist):
            F("count", "%d placeholders for %d collected values" % (len(phs) - len(iphs), len(plist)))
        elif iphs and collides(src, st):
            # explicit placeholders spelled like generated ones: positions cannot be told apart (known finding)
            F("substitution", "explicit and generated placeholders are indistinguishable")
        else:
            # substitute the n-th value (or the value its name maps to) for the n-th placeholder
            sub = []
            k = 0
            ok = True
            explicit = {t.val for t in iphs}
            for t in ptoks:
                if t.kind == "ph" and t.val in explicit and not collides(src, st):
                    sub.append(None)
                elif t.kind == "ph":
                    if st in ("named", "pyformat"):
                        key = t.val[1:] if st == "named" else t.val[2:-2]
                        if key not in params:
                            ok = False
                            F("key", "placeholder %s has no entry in the collected dict" % t.val)
                            break
                        v = params[key]
                    else:
                        if st == "numeric" and t.val != ":%d" % (k + 1):
                            ok = False
                            F("numbering", "placeholder %s at position %d" % (t.val, k + 1))
                            break
                        v = plist[k]
                    k += 1
                    sub.append(literal_of(v))
                else:
                    sub.append(None)
            if ok:
                subs = [x for x in sub if x is not None]
                j = 0
                merged = []
                for x in simple(ptoks):
                    if x[0] == "ph" and x[1] not in explicit and j < len(subs):
                        merged.append(subs[j])
                        j += 1
                    else:
                        merged.append(x)
                if not same_tokens(merged, simple(itoks)):
                    F("substitution", "substituting the collected values does not reproduce the inline rendering %s" % inline)
    # model: same document flattened both ways (the model numbers its placeholders the default way)
    if pgen:
        res.tags.append("pgen=custom")
        return res
    try:
        spec = describe.describe(q)
        ctx = describe.d_ctx({}, param=True)
        exp = {"sql": sql, "params": [canon(v) for v in plist], "inline": inline}
        if isinstance(params, dict):
            exp["keys"] = list(params.keys())
        res.requests.append(({"op": "render", "ctx": ctx, "term": spec, "style": st}, exp, "get_sql(parameter=%s)" % STYLES[st]))
    except Unsupported as e:
        res.skipped = str(e)[:40]
    # execution
    if case.get("exec") and st in ("qmark", "numeric", "named") and isinstance(q, ns.queries.QueryBuilder):
        run_both(inline, sql, params, F)
    return res


def strip_lit_parens(ts):
    """( literal ) -> literal : pypika parenthesises an operand by looking at its text, so a negative value
    is wrapped inline but not when it is a placeholder; the parentheses are redundant either way"""
    out = []
    i = 0
    while i < len(ts):
        if i + 2 < len(ts) and ts[i] == ("p", "(") and ts[i + 1][0] in ("num", "str", "bool") and ts[i + 2] == ("p", ")") \
                and not (out and out[-1][0] in ("id", "kw") and out[-1][1] not in ("AND", "OR", "XOR", "NOT", "THEN", "ELSE", "WHEN", "BETWEEN", "IN")):
            out.append(ts[i + 1])
            i += 3
        else:
            out.append(ts[i])
            i += 1
    return out


STRICT_PARENS = True


def normalise(ts):
    """Both renderings are compared as the sequence of operators, parentheses, identifiers and literal VALUES; negative
    numbers are written as minus + magnitude (a collected -5 and an inline -5 are the same two tokens).  Parentheses are
    kept (STRICT_PARENS): since the repairs d7bdaf6 / 397b844 an operand is parenthesised alike with and without a collector."""
    out = []
    for x in ts:
        if x in (("p", "("), ("p", ")")) and not STRICT_PARENS:
            continue
        if x[0] == "num" and isinstance(x[1], decimal.Decimal) and x[1] < 0:
            out.append(("op", "-"))
            out.append(("num", -x[1]))
        elif x[0] == "num" and isinstance(x[1], decimal.Decimal) and x[1] == 0:
            if x[1].is_signed():      # negative zero is written with its sign: -0.0
                out.append(("op", "-"))
            out.append(("num", decimal.Decimal(0)))
        else:
            out.append(x)
    return out


def same_tokens(a, b):
    a, b = normalise(a), normalise(b)
    if len(a) != len(b):
        return False
    for x, y in zip(a, b):
        if x == y:
            continue
        if x[0] == "num" and y[0] == "num":
            try:
                if decimal.Decimal(str(x[1])) == decimal.Decimal(str(y[1])):
                    continue
            except decimal.InvalidOperation:
                pass
        # a collected bool under the SQLite wrapper is inline 1/0
        if x[0] == "bool" and y[0] == "num" and decimal.Decimal(1 if x[1] else 0) == y[1]:
            continue
        return False
    return True


def run_both(inline, sql, params, F):
    con = db()

    def adapt(v):
        if isinstance(v, decimal.Decimal):
            return int(v) if v == v.to_integral_value() and "." not in str(v) and "E" not in str(v).upper() else float(v)
        if isinstance(v, (datetime.date, uuid.UUID)):
            return str(v)
        return v
    p2 = {k: adapt(v) for k, v in params.items()} if isinstance(params, dict) else [adapt(v) for v in params]
    def go(s, p=None):
        try:
            con.execute("savepoint sp")
            cur = con.execute(s, p) if p is not None else con.execute(s)
            rows = cur.fetchall()
            state = [con.execute("select * from %s order by rowid" % t).fetchall() for t in ("t", "u", "v", "w")]
            return ("ok", rows, state)
        except (sqlite3.Error, OverflowError) as e:
            return ("err", type(e).__name__)
        finally:
            con.execute("rollback to sp")
            con.execute("release sp")
    r1 = go(inline)
    r2 = go(sql, p2)
    if r1[0] == "err":
        return    # the inline text itself is not executable here (NUL in the text, engine-specific constructs)
    if r1 != r2:
        # text values collected as str where the inline literal is a number (Decimal) compare unequal in SQLite: value types
        F("execution", "executing text+parameters gives %s, the inline text gives %s" % (str(r2)[:120], str(r1)[:120]))


def same(expected, got):
    if "exc" in got or "exc" in expected:
        return expected == got
    if got.get("sql") != expected["sql"] or got.get("inline") != expected["inline"]:
        return False
    gp = [p["v"] for p in got.get("params", [])]
    ep = expected["params"]
    if len(gp) != len(ep):
        return False
    for g, e in zip(gp, ep):
        if g != e and not ((g, e) in (("1", "true"), ("0", "false"))):
            return False
    if "keys" in expected and got.get("keys") != expected["keys"]:
        return False
    return True
