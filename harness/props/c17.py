"""C17 CREATE/DROP statements define exactly the schema objects described."""
import random
import sqlite3

from harness import describe, ns
from harness.describe import Unsupported, d_tref, d_term, d_query, d_dialect, schema_chain
from harness.run import Result
from harness.common import struct_hash

ID = "C17"
LEVEL_TEXT = ("Lean 4 theorems about the executable model of the code (all inputs, by induction), tied to /repo by tables regenerated on every run (decide) and by differential execution of model and implementation; the property oracle is also run on the implementation for every case. PARTIAL: what is proved is the layout of CREATE / CREATE INDEX / DROP statements (columns and constraints once and in order, flags); that SQLite creates exactly the described schema objects is EXECUTED (PRAGMA read-back), not proved; PERIOD FOR / SYSTEM VERSIONING / UNLOGGED are outside SQLite's grammar and are checked structurally only.")
LEAN_MODULES = ["Pypika.Props.C17", "Pypika.Props.DDLBuilder", "Pypika.DDLFrame"]
TRACE_BUILDER = True   # CREATE TABLE builder calls are also run through Pypika.DDLB.stepC (harness/trace.py)
THEOREMS = ["Pypika.C17.columns_once_in_order", "Pypika.C17.body_count", "Pypika.C17.uniques_in_order", "Pypika.C17.column_doc",
            "Pypika.C17.column_default", "Pypika.C17.as_select_exclusive", "Pypika.C17.table_flags",
            "Pypika.C17.create_index_layout", "Pypika.C17.drop_layout",
            # CREATE TABLE builder state machine (DDLBuilder.lean, tied call by call through harness/trace.py)
            "Pypika.DDLB.run_flags_mono", "Pypika.DDLB.temporary_unlogged_independent", "Pypika.DDLB.columns_append", "Pypika.DDLB.unique_appends", "Pypika.DDLB.uniques_in_call_order", "Pypika.DDLB.period_for_appends",
            "Pypika.DDLB.stepC_frame", "Pypika.DDLB.stepC_local", "Pypika.DDLB.ddl_calls_commute"]
AGREE = ["Pypika.Agree.class_quotes", "Pypika.Agree.ddl_writes_agree", "Pypika.Agree.ddl_reads_agree", "Pypika.Agree.ddl_methods_covered"]
TRUSTED = ["sqlite3 3.40: PRAGMA table_info / index_list / index_info / foreign_key_list as the reading of 'the resulting table has "
           "exactly those columns, types, NOT NULL flags, defaults, key and unique sets'",
           "PERIOD FOR, SYSTEM VERSIONING, UNLOGGED, AS (SELECT ..) with parentheses and function defaults are outside SQLite's "
           "grammar: covered by the model correspondence and the structural theorems, not executed"]
RULE = ("table specifications of 1-6 columns (name, type, nullability, default of every value kind) x 0-2 UNIQUE sets x PRIMARY KEY x "
        "FOREIGN KEY with actions x PERIOD FOR x flags x builder class (generic, MySQL, Vertica, Snowflake), option calls in random "
        "order, sibling builders derived from one template; CREATE INDEX and DROP forms; non-trivial = >= 2 columns and >= 1 "
        "constraint; distinct by script")
TYPES = ["INT", "VARCHAR(20)", "REAL", "TEXT", "NUMERIC(10,2)", None]
DEFAULTS = [None, "0", "1", "-5", "0.0", "2.5", "False", "True", "''", "'x'", "'it''s'.replace(\"''\", \"'\")", "' two  spaces '",
            "fn.Now()", "NullValue()"]
ACTIONS = [None, "cascade", "no_action", "restrict", "set_null", "set_default"]
CLASSES = {"generic": "Query", "mysql": "MySQLQuery", "vertica": "VerticaQuery", "snowflake": "SnowflakeQuery"}


def counts(tier):
    return 1500 if tier == "quick" else 30000


def gen_spec(rng):
    ncol = rng.randint(1, 6)
    cols = []
    for i in range(ncol):
        cols.append({"name": "c%d" % i if rng.random() < 0.9 else "col %d" % i, "type": rng.choice(TYPES),
                     "nullable": rng.choice([None, None, True, False]), "default": rng.choice(DEFAULTS) if rng.random() < 0.5 else None})
    names = [c["name"] for c in cols]
    spec = {"cls": rng.choice(list(CLASSES)), "table": rng.choice(["nt", "new table", ("sc", "nt")]), "columns": cols,
            "uniques": [rng.sample(names, rng.randint(1, min(2, ncol))) for _ in range(rng.choice([0, 0, 1, 2]))],
            "pk": rng.sample(names, rng.randint(1, min(2, ncol))) if rng.random() < 0.5 else None,
            "fk": None, "period": None, "temporary": rng.random() < 0.2, "unlogged": rng.random() < 0.1,
            "if_not_exists": rng.random() < 0.3, "versioning": rng.random() < 0.1, "col_form": rng.choice(["Column", "tuple", "mixed"])}
    if rng.random() < 0.35:
        spec["fk"] = {"cols": [rng.choice(names)], "table": rng.choice(["parent", "T('parent')"]), "ref": ["id"],
                      "on_delete": rng.choice(ACTIONS), "on_update": rng.choice(ACTIONS)}
    if rng.random() < 0.1 and ncol >= 2:
        spec["period"] = ["p1", names[0], names[1]]
    return spec


def build_src(spec, rng, order=None):
    qn = CLASSES[spec["cls"]]
    tbl = spec["table"]
    tsrc = "T(%r, schema=%r)" % (tbl[1], tbl[0]) if isinstance(tbl, tuple) else repr(tbl)
    head = "%s.create_table(%s)" % (qn, tsrc)
    calls = []
    # columns: one call or several, Column objects / tuples / bare names
    colcalls = []
    for c in spec["columns"]:
        plain = c["nullable"] is None and c["default"] is None
        if spec["col_form"] != "Column" and plain and c["type"] and rng.random() < 0.6:
            colcalls.append("(%r, %r)" % (c["name"], c["type"]))
        elif spec["col_form"] != "Column" and plain and c["type"] is None:
            colcalls.append(repr(c["name"]))
        else:
            args = [repr(c["name"])]
            if c["type"]:
                args.append(repr(c["type"]))
            if c["nullable"] is not None:
                args.append("nullable=%r" % c["nullable"])
            if c["default"] is not None:
                args.append("default=%s" % c["default"])
            colcalls.append("Column(%s)" % ", ".join(args))
    # split the column list over 1-2 calls, keeping the order
    k = rng.randint(1, len(colcalls))
    calls.append(("columns", ".columns(%s)" % ", ".join(colcalls[:k])))
    if colcalls[k:]:
        calls.append(("columns", ".columns(%s)" % ", ".join(colcalls[k:])))
    for u in spec["uniques"]:
        calls.append(("unique", ".unique(%s)" % ", ".join(repr(x) for x in u)))
    if spec["pk"]:
        calls.append(("pk", ".primary_key(%s)" % ", ".join(repr(x) for x in spec["pk"])))
    if spec["fk"]:
        f = spec["fk"]
        t = f["table"] if f["table"].startswith("T(") else repr(f["table"])
        extra = ""
        if f["on_delete"]:
            extra += ", on_delete=ReferenceOption.%s" % f["on_delete"]
        if f["on_update"]:
            extra += ", on_update=ReferenceOption.%s" % f["on_update"]
        calls.append(("fk", ".foreign_key(%r, %s, %r%s)" % (f["cols"], t, f["ref"], extra)))
    if spec["period"]:
        calls.append(("period", ".period_for(%r, %r, %r)" % tuple(spec["period"])))
    if spec["temporary"]:
        calls.append(("flag", ".temporary()"))
    if spec["unlogged"]:
        calls.append(("flag", ".unlogged()"))
    if spec["if_not_exists"]:
        calls.append(("flag", ".if_not_exists()"))
    if spec["versioning"]:
        calls.append(("flag", ".with_system_versioning()"))
    # option calls in random order; same-kind calls keep their order
    idx = list(range(len(calls)))
    if order is None:
        rng.shuffle(idx)
        last = {}
        out = []
        queues = {}
        for i in range(len(calls)):
            queues.setdefault(calls[i][0], []).append(i)
        for i in idx:
            kd = calls[i][0]
            out.append(queues[kd].pop(0))
        idx = out
    return head + "".join(calls[i][1] for i in idx)


def q(name, ch):
    return "%s%s%s" % (ch or "", name, ch or "")


def val_sql(src):
    v = ns.ev(src)
    if isinstance(v, ns.terms.Term):
        return v.get_sql(quote_char=None, secondary_quote_char="'")
    return ns.ValueWrapper(v).get_sql(secondary_quote_char="'")


def reference(spec):
    """the statement the specification describes (pypika's documented layout)"""
    b = {"generic": ns.queries.CreateQueryBuilder, "mysql": ns.dialects.MySQLCreateQueryBuilder,
         "vertica": ns.dialects.VerticaCreateQueryBuilder, "snowflake": ns.dialects.SnowflakeCreateQueryBuilder}[spec["cls"]]
    ch = b.QUOTE_CHAR
    tbl = spec["table"]
    tname = ".".join(q(x, ch) for x in tbl) if isinstance(tbl, tuple) else q(tbl, ch)
    parts = []
    for c in spec["columns"]:
        s = q(c["name"], ch)
        if c["type"]:
            s += " " + c["type"]
        if c["nullable"] is not None:
            s += " NULL" if c["nullable"] else " NOT NULL"
        if c["default"] is not None:
            s += " DEFAULT " + val_sql(c["default"])
        parts.append(s)
    if spec["period"]:
        p = spec["period"]
        parts.append("PERIOD FOR %s (%s,%s)" % (q(p[0], ch), q(p[1], ch), q(p[2], ch)))
    for u in spec["uniques"]:
        parts.append("UNIQUE (%s)" % ",".join(q(x, ch) for x in u))
    if spec["pk"]:
        parts.append("PRIMARY KEY (%s)" % ",".join(q(x, ch) for x in spec["pk"]))
    if spec["fk"]:
        f = spec["fk"]
        s = "FOREIGN KEY (%s) REFERENCES %s (%s)" % (",".join(q(x, ch) for x in f["cols"]), q("parent", ch), ",".join(q(x, ch) for x in f["ref"]))
        if f["on_delete"]:
            s += " ON DELETE " + getattr(ns.ReferenceOption, f["on_delete"]).value
        if f["on_update"]:
            s += " ON UPDATE " + getattr(ns.ReferenceOption, f["on_update"]).value
        parts.append(s)
    if spec["cls"] == "vertica":
        head = "CREATE %sTABLE %s%s" % ("TEMPORARY " if spec["temporary"] else "", "IF NOT EXISTS " if spec["if_not_exists"] else "", tname)
    else:
        head = "CREATE %sTABLE %s%s" % ("TEMPORARY " if spec["temporary"] else "UNLOGGED " if spec["unlogged"] else "",
                                        "IF NOT EXISTS " if spec["if_not_exists"] else "", tname)
    return "%s (%s)%s" % (head, ",".join(parts), " WITH SYSTEM VERSIONING" if spec["versioning"] else "")


def d_create(b):
    fk = None
    if b._foreign_key:
        fk = {"columns": [c.name for c in b._foreign_key], "table": d_tref(b._foreign_key_reference_table),
              "ref_columns": [c.name for c in b._foreign_key_reference]}
    return {"quote": b.QUOTE_CHAR, "dialect": d_dialect(b.dialect), "vertica": isinstance(b, ns.dialects.VerticaCreateQueryBuilder),
            "table": None if not b._create_table else d_tref(b._create_table), "temporary": bool(b._temporary),
            "unlogged": bool(b._unlogged), "if_not_exists": bool(b._if_not_exists), "system_versioning": bool(b._with_system_versioning),
            "local": bool(getattr(b, "_local", False)), "preserve_rows": bool(getattr(b, "_preserve_rows", False)),
            "columns": [{"name": c.name, "type": None if c.type is None else str(c.type), "nullable": c.nullable,
                         "default": None if not c.default else d_term(c.default)} for c in b._columns],
            "period_fors": [[p.name, p.start_column.name, p.end_column.name] for p in b._period_fors],
            "uniques": [[c.name for c in u] for u in b._uniques],
            "primary_key": None if b._primary_key is None else [c.name for c in b._primary_key], "foreign_key": fk,
            "on_delete": None if not b._foreign_key_on_delete else b._foreign_key_on_delete.value,
            "on_update": None if not b._foreign_key_on_update else b._foreign_key_on_update.value,
            "as_select": None if b._as_select is None else d_query(b._as_select)}


def generate(rng, n, tier):
    for i in range(n):
        x = rng.random()
        if x < 0.75:
            yield {"kind": "create", "spec": gen_spec(rng), "seed": rng.randrange(10 ** 9)}
        elif x < 0.85:
            yield {"kind": "index", "seed": rng.randrange(10 ** 9)}
        elif x < 0.95:
            yield {"kind": "drop", "seed": rng.randrange(10 ** 9)}
        else:
            yield {"kind": "as_select", "seed": rng.randrange(10 ** 9)}


def sqlite_schema(con, table):
    cols = con.execute('PRAGMA table_info("%s")' % table).fetchall()
    idx = []
    for row in con.execute('PRAGMA index_list("%s")' % table).fetchall():
        names = [r[2] for r in con.execute('PRAGMA index_info("%s")' % row[1]).fetchall()]
        idx.append((row[3], bool(row[2]), names))      # origin (u / pk / c), unique, columns
    fks = con.execute('PRAGMA foreign_key_list("%s")' % table).fetchall()
    return cols, idx, fks


def examine(case):
    res = Result()
    rng = random.Random(case["seed"])

    def F(kind, what):
        res.findings.append({"sig": {"kind": kind, "stmt": case["kind"]}, "what": what + " | " + str(case.get("recipe"))})

    if case["kind"] == "create":
        spec = case["spec"]
        src = build_src(spec, rng)
        case["recipe"] = src
        b = ns.ev(src)
        text = str(b)
        ref = reference(spec)
        ncons = len(spec["uniques"]) + (1 if spec["pk"] else 0) + (1 if spec["fk"] else 0)
        res.nontrivial = len(spec["columns"]) >= 2 and ncons >= 1
        res.key = struct_hash(src)
        res.tags = ["cls=" + spec["cls"], "ncol=%d" % len(spec["columns"]), "ncons=%d" % ncons]
        if text != ref:
            F("layout", "builder renders %s, the specification is %s" % (text, ref))
        # every option flag that was given is rendered (the reference above follows the code where a flag has no rendering)
        headtext = text.split(" TABLE ")[0]
        for flag, word in (("temporary", "TEMPORARY"), ("unlogged", "UNLOGGED")):
            if spec[flag] and word not in headtext:
                why = "vertica" if spec["cls"] == "vertica" else ("with-temporary" if spec["temporary"] else "alone")
                res.findings.append({"sig": {"kind": "flag-dropped", "flag": flag, "case": why},
                                     "what": "%s() was called but the statement has no %s: %s | %s" % (flag, word, text, src)})
        # siblings derived from one template do not see each other's constraints
        if rng.random() < 0.3:
            tmpl = ns.ev(src)
            a = tmpl.unique(spec["columns"][0]["name"])
            b2 = tmpl.columns("extra")
            if str(tmpl) != text:
                F("template-changed", "deriving two builders from a template changed the template: %s" % str(tmpl))
        try:
            res.requests.append(({"op": "create", "ctx": describe.d_ctx({}), "d": d_create(b)}, {"sql": text}, "str(create)"))
        except Unsupported as ex:
            res.skipped = str(ex)[:40]
        # execute on SQLite (generic builder, constructs SQLite parses)
        exe = spec["cls"] == "generic" and not spec["period"] and not spec["versioning"] and not spec["unlogged"] and \
            not isinstance(spec["table"], tuple) and not any((c["default"] or "").startswith("fn.") for c in spec["columns"])
        if exe:
            con = sqlite3.connect(":memory:")
            con.execute("create table parent(id integer primary key)")
            try:
                con.execute(text)
            except sqlite3.Error as e:
                F("sqlite-rejects", "SQLite rejects %s: %s" % (text, e))
                return res
            cols, idx, fks = sqlite_schema(con, spec["table"])
            if [c[1] for c in cols] != [c["name"] for c in spec["columns"]]:
                F("sqlite-columns", "SQLite has columns %s" % [c[1] for c in cols])
            for got, c in zip(cols, spec["columns"]):
                if (got[2] or "") != (c["type"] or ""):
                    F("sqlite-type", "column %s has type %r, given %r" % (c["name"], got[2], c["type"]))
                pkcols = spec["pk"] or []
                if bool(got[3]) != (c["nullable"] is False):
                    F("sqlite-notnull", "column %s NOT NULL=%r, nullable given %r" % (c["name"], bool(got[3]), c["nullable"]))
                want = None if c["default"] is None else val_sql(c["default"])
                if got[4] != want:
                    F("sqlite-default", "column %s default %r, given %r" % (c["name"], got[4], want))
            gotpk = [c[1] for c in sorted([c for c in cols if c[5]], key=lambda c: c[5])]
            if gotpk != (spec["pk"] or []):
                F("sqlite-pk", "primary key %s, given %s" % (gotpk, spec["pk"]))
            gotu = sorted(names for origin, uniq, names in idx if origin == "u")
            wantu = sorted(u for u in spec["uniques"])
            # a UNIQUE set equal to the primary key is folded by SQLite
            if sorted(map(tuple, gotu)) != sorted(map(tuple, [u for u in wantu])) and \
                    sorted(set(map(tuple, gotu))) != sorted(set(tuple(u) for u in wantu if u != (spec["pk"] or []))):
                if sorted(set(map(tuple, gotu))) != sorted(set(map(tuple, wantu))):
                    F("sqlite-unique", "unique sets %s, given %s" % (gotu, wantu))
            if spec["fk"]:
                f = spec["fk"]
                want = [("parent", f["cols"][0], f["ref"][0],
                         getattr(ns.ReferenceOption, f["on_update"]).value if f["on_update"] else "NO ACTION",
                         getattr(ns.ReferenceOption, f["on_delete"]).value if f["on_delete"] else "NO ACTION")]
                got = [(r[2], r[3], r[4], r[5], r[6]) for r in fks]
                if got != want:
                    F("sqlite-fk", "foreign keys %s, given %s" % (got, want))
            elif fks:
                F("sqlite-fk", "unexpected foreign keys %s" % fks)
        return res
    if case["kind"] == "index":
        name = rng.choice(["ix", "my ix", "ix2"])
        tbl = rng.choice(["'t'", "T('t')"])
        cols = rng.sample(["a", "b", "c"], rng.randint(1, 3))
        uniq, ine = rng.random() < 0.5, rng.random() < 0.5
        wv = rng.choice([None, 1, "x", "two  spaces", "it's"])
        parts = [".on(%s)" % tbl, ".columns(%s)" % ", ".join(repr(c) for c in cols)]
        if uniq:
            parts.append(".unique()")
        if ine:
            parts.append(".if_not_exists()")
        if wv is not None:
            parts.append(".where(F('a') == %r)" % wv)
        rng.shuffle(parts)
        idxarg = repr(name) if rng.random() < 0.7 else "Index(%r)" % name
        src = "Query.create_index(%s)%s" % (idxarg, "".join(parts))
        case["recipe"] = src
        b = ns.ev(src)
        text = str(b)
        res.key = struct_hash(src)
        res.nontrivial = len(cols) >= 2
        res.tags = ["kind=index"]
        iname = '"%s"' % name if idxarg.startswith("Index") else name
        tname = '"t"' if tbl.startswith("T(") else "t"
        ref = "CREATE %sINDEX %s%s ON %s(%s)" % ("UNIQUE " if uniq else "", "IF NOT EXISTS " if ine else "", iname, tname, ", ".join(cols))
        if wv is not None:
            ref += " WHERE " + str(ns.Field("a") == wv)
        if text != ref:
            F("layout", "CREATE INDEX renders %s, the specification is %s" % (text, ref))
        res.requests.append(({"op": "create_index", "d": {"index": str(b._index), "table": str(b._table), "columns": [c.name for c in b._columns],
                                                       "unique": bool(b._is_unique), "if_not_exists": bool(b._if_not_exists),
                                                       "wheres": None if not b._wheres else str(b._wheres)}}, {"sql": text}, "str(create index)"))
        if " " not in name:
            con = sqlite3.connect(":memory:")
            con.execute("create table t(a, b, c)")
            try:
                con.execute(text)
                info = con.execute("PRAGMA index_list(t)").fetchall()
                got = [r[2] for r in con.execute('PRAGMA index_info("%s")' % name).fetchall()]
                if got != cols or bool(info[0][2]) != uniq or bool(info[0][4]) != (wv is not None):
                    F("sqlite-index", "SQLite index has columns %s unique=%r partial=%r" % (got, bool(info[0][2]), bool(info[0][4])))
            except sqlite3.Error as e:
                F("sqlite-rejects", "SQLite rejects %s: %s" % (text, e))
        return res
    if case["kind"] == "drop":
        cls = rng.choice(["Query", "MySQLQuery", "SnowflakeQuery", "ClickHouseQuery"])
        # ("table_dot": a table NAME containing a dot, given as a string — one identifier, like create_table() makes of it)
        form = rng.choice(["table", "table_dot", "table_obj", "table_obj2", "table_obj3", "database", "user", "view", "index", "index_obj", "dictionary", "quota"])
        if form in ("dictionary", "quota"):
            cls = "ClickHouseQuery"
        if cls != "Query" and form in ("index", "index_obj") or (cls in ("MySQLQuery", "SnowflakeQuery") and form not in ("table", "table_dot", "table_obj", "table_obj2", "table_obj3")):
            cls = "Query" if form not in ("dictionary", "quota") else cls
        arg = {"table": "'t'", "table_dot": "'exp.2024'", "table_obj": "T('t', schema='s')", "table_obj2": "Database('d').s.t",
               "table_obj3": "T('t', schema=('srv', 'd', 's'))", "database": "Database('d')" if rng.random() < 0.5 else "'d'",
               "user": "'u'", "view": "'v'", "index": "'ix'", "index_obj": "Index('ix')", "dictionary": "'dc'", "quota": "'qt'"}[form]
        meth = {"table_dot": "drop_table", "table_obj": "drop_table", "table_obj2": "drop_table", "table_obj3": "drop_table", "index_obj": "drop_index"}.get(form, "drop_" + form)
        ife = rng.random() < 0.5
        cluster = cls == "ClickHouseQuery" and rng.random() < 0.4
        src = "%s.%s(%s)%s%s" % (cls, meth, arg, ".if_exists()" if ife else "", ".on_cluster('c1')" if cluster else "")
        case["recipe"] = src
        b = ns.ev(src)
        text = str(b)
        res.key = struct_hash(src)
        res.nontrivial = ife or cluster
        res.tags = ["kind=drop", "form=" + form]
        ch = b.QUOTE_CHAR
        name = {"table": q("t", ch), "table_dot": q("exp.2024", ch), "table_obj": q("s", ch) + "." + q("t", ch),
                "table_obj2": ".".join(q(x, ch) for x in ("d", "s", "t")), "table_obj3": ".".join(q(x, ch) for x in ("srv", "d", "s", "t")), "database": q("d", ch), "user": q("u", ch), "view": q("v", ch),
                "index": q("ix", ch), "index_obj": q("ix", ch), "dictionary": q("dc", ch), "quota": q("qt", ch)}[form]
        kind = {"table_dot": "TABLE", "table_obj": "TABLE", "table_obj2": "TABLE", "table_obj3": "TABLE", "index_obj": "INDEX"}.get(form, form.upper())
        ref = "DROP %s %s%s" % (kind, "IF EXISTS " if ife else "", name)
        if cluster and kind != "DICTIONARY":
            ref += ' ON CLUSTER "c1"'
        if text != ref:
            F("layout", "DROP renders %s, the specification is %s" % (text, ref))
        tgt = b._drop_target
        if isinstance(tgt, ns.queries.Table):
            t = {"t": "table", "ref": d_tref(tgt)}
        elif isinstance(tgt, ns.queries.Schema):
            t = {"t": "schema", "chain": schema_chain(tgt)}
        else:
            t = {"t": "name", "name": str(tgt)}
        res.requests.append(({"op": "drop", "d": {"kind": b._drop_target_kind, "if_exists": bool(b._if_exists), "quote": b.QUOTE_CHAR,
                                                   "target": t, "cluster": getattr(b, "_cluster_name", None)}}, {"sql": text}, "str(drop)"))
        return res
    # AS SELECT
    cls = rng.choice(list(CLASSES))
    src = "%s.create_table('nt')%s.as_select(Query.from_(T('s')).select('a', 'b').where(F('a') > 1))" % (
        CLASSES[cls], rng.choice(["", ".temporary()", ".if_not_exists()"]) if cls != "vertica" else rng.choice(["", ".temporary()", ".temporary().preserve_rows()"]))
    if rng.random() < 0.6:
        # any SELECT of any query class (hints, modifiers, TOP, joins, sub-queries …) as the AS SELECT body: the statement is
        # the table head followed by exactly that select, rendered in the CREATE statement's context, in parentheses
        from harness import genq
        qg = genq.QG(rng, max_depth=1)
        v = qg.select()
        flags = rng.choice(["", ".temporary()", ".if_not_exists()"]) if cls != "vertica" else rng.choice(["", ".temporary()", ".temporary().preserve_rows()"])
        script = qg.script() + "\nhead_ = %s.create_table('nt')%s\nb_ = head_.as_select(%s)" % (CLASSES[cls], flags, v)
        case["recipe"] = script
        env = ns.ex(script)
        b, sel = env["b_"], env[v]
        text = str(b)
        res.key = struct_hash(script)
        res.tags = ["kind=as_select", "select=" + type(sel).__name__]
        res.nontrivial = True
        kw = {"quote_char": b.QUOTE_CHAR, "secondary_quote_char": b.SECONDARY_QUOTE_CHAR, "dialect": b.dialect}
        inner = sel.get_sql(**kw)
        headtext = b._create_table_sql(**kw)
        want = headtext + (" ON COMMIT PRESERVE ROWS" if getattr(b, "_preserve_rows", False) else "") + " AS (" + inner + ")"
        if text != want:
            F("as-select", "AS SELECT renders %s, the table head and the select give %s" % (text, want))
        try:
            res.requests.append(({"op": "create", "ctx": describe.d_ctx({}), "d": d_create(b)}, {"sql": text}, "str(create as select)"))
        except Unsupported as ex:
            res.skipped = str(ex)[:40]
        return res
    case["recipe"] = src
    b = ns.ev(src)
    text = str(b)
    res.key = struct_hash(src)
    res.tags = ["kind=as_select"]
    if not text.endswith(' AS (SELECT %s FROM %s WHERE %s>1)' % (",".join(q(x, b.QUOTE_CHAR) for x in "ab"), q("s", b.QUOTE_CHAR), q("a", b.QUOTE_CHAR))) or "," + q("b", b.QUOTE_CHAR) + " " in text.split(" AS (")[0]:
        F("as-select", "AS SELECT renders %s" % text)
    try:
        res.requests.append(({"op": "create", "ctx": describe.d_ctx({}), "d": d_create(b)}, {"sql": text}, "str(create as select)"))
    except Unsupported as ex:
        res.skipped = str(ex)[:40]
    return res
