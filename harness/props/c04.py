"""C04 SELECT statements mean what was built (checked on a real engine)."""
import random
import sqlite3

from harness import describe, ns, sqlitespec as S
from harness.describe import Unsupported
from harness.run import Result
from harness.common import struct_hash

ID = "C04"
LEVEL_TEXT = ('Lean 4 theorems about the executable model of the code (all inputs, by induction), tied to /repo by tables regenerated on every run (decide) and by differential execution of model and implementation; the property oracle is also run on the implementation for every case. PARTIAL: what is proved is the layout (clause order, items once and in order, nesting, qualification rule) of the rendered statement; that SQLite accepts the text and evaluates it to the rows of the explicit reference statement is EXECUTED on generated databases, not proved (no formal semantics of SQLite exists in this sandbox).')
LEAN_MODULES = ["Pypika.Props.C04", "Pypika.Props.Builder"]
TRACE_BUILDER = True   # builder calls made by this check are also run through Pypika.B.step (harness/trace.py)
THEOREMS = ["Pypika.C04.select_layout", "Pypika.C04.joins_in_order", "Pypika.C04.join_on_layout", "Pypika.C04.join_plain_layout",
            "Pypika.C04.from_items_in_order", "Pypika.C04.select_items_in_order", "Pypika.C04.namespace_rule",
            "Pypika.C04.nested_is_parenthesised", "Pypika.C04.exists_operand",
            "Pypika.B.select_terms_append", "Pypika.B.select_select"]
AGREE = []
TRUSTED = [
    "sqlite3 %s (the engine deciding acceptance and row sets)" % sqlite3.sqlite_version,
    "harness/sqlitespec.py: the specification language and its explicit reference renderer (written from the "
    "specification, every sub-expression parenthesised, every column qualified, clauses in standard order)",
]
RULE = ("random specifications: 1-3 sources (tables, aliased tables, self-joins, derived tables, a WITH name), joins of every "
        "type SQLite has (inner/left/right/full outer/cross) with ON trees, select lists of expressions / CASE / functions / "
        "aggregates / scalar sub-queries / window functions with frames, WHERE trees with IN lists, BETWEEN, LIKE, IS NULL, "
        "NOT, IN-subquery, correlated EXISTS (one and two where() calls), GROUP BY + HAVING, DISTINCT, ORDER BY, LIMIT/OFFSET; "
        "each built in the canonical and in one shuffled legal call order, executed on 3 random databases (NULLs, duplicates, "
        "mixed types) and compared with the rows of the reference SQL; non-trivial = >= 3 construct kinds; distinct by "
        "specification text")
ASSUMPTIONS = ["the construct set is the one of sqlitespec.SpecGen (those SQLite can execute)",
               "with LIMIT/OFFSET the specification orders by the whole select list so that the row window is determined"]

_DBS = {}


def db(seed):
    if seed not in _DBS:
        _DBS[seed] = S.make_db(seed)
    return _DBS[seed]


def counts(tier):
    return 1500 if tier == "quick" else 30000


def generate(rng, n, tier):
    for i in range(n):
        yield {"seed": rng.randrange(10 ** 9), "dbs": [rng.randrange(10 ** 6) % 40 for _ in range(3)]}


def nval(v):
    """REAL results up to what re-association of + and * may change in IEEE arithmetic: the sign of a zero and the
    last digits (the statement and its reference group a*(b*c) / a+(b+c) differently by documented design)"""
    if isinstance(v, float):
        if v == 0:
            return 0.0
        return float("%.11g" % v)
    return v


def nrows(rows):
    return [tuple(nval(v) for v in r) for r in rows]


def canon(rows):
    return sorted(rows, key=repr)


def run_sql(con, sql):
    try:
        return con.execute(sql).fetchall(), None
    except sqlite3.Error as e:
        return None, "%s: %s" % (type(e).__name__, e)


def constructs(spec, acc=None):
    acc = acc if acc is not None else set()
    if spec["joins"]:
        acc.update("join-" + how for _, how, _ in spec["joins"])
    if len(spec["from"]) > 1:
        acc.add("multi-from")
    for s in spec["srcs"]:
        if s.sub is not None:
            acc.add("derived")
        if s.cte is not None:
            acc.add("with")
        if s.alias and s.sub is None:
            acc.add("alias")
    for k in ("where", "group", "having", "distinct", "order", "limit", "offset"):
        if spec[k]:
            acc.add(k)
    if spec["limit"] == 0:
        acc.add("limit")

    def walk(e):
        if isinstance(e, tuple) and e and isinstance(e[0], str):
            if e[0] in ("insub", "exists", "scalar", "win", "case", "agg", "neg", "between", "like", "in", "not", "or"):
                acc.add(e[0])
            for x in e[1:]:
                walk(x)
        elif isinstance(e, (list, tuple)):
            for x in e:
                walk(x)
    walk(spec["where"])
    for e, _ in spec["select"]:
        walk(e)
    return acc


def fixed_spec(name):
    t = S.Src("t", None)
    base = {"from": [t], "joins": [], "srcs": [t], "group": [], "having": None, "distinct": False, "where": None, "order": [],
            "limit": None, "offset": None, "with": None}
    c = lambda n: ("col", "t", n, t)
    if name == "mul-right-div":
        return dict(base, select=[(("bin", "*", c("a"), ("bin", "/", c("c"), ("lit", 2))), None)])
    if name == "mul-right-div-where":
        return dict(base, select=[(c("a"), None)], where=("cmp", ">", ("bin", "*", c("a"), ("bin", "/", c("c"), ("lit", 2))), ("lit", 2)))
    raise KeyError(name)


def examine(case):
    res = Result()
    rng = random.Random(case["seed"])
    if "fixed" in case:
        spec = fixed_spec(case["fixed"])
        S.COMPENSATE_MUL_DIV[0] = False
    else:
        spec = S.SpecGen(rng).select()
        # the one listed finding is exhibited by the corpus cases; elsewhere the reference follows it, so that any
        # other difference in a specification containing that shape is still reported
        S.COMPENSATE_MUL_DIV[0] = True
    muldiv = S.has_mul_div(spec)
    if spec["limit"] is not None or spec["offset"]:
        spec["order"] = [(i, o) for i, o in spec["order"]] + [(i, None) for i in range(len(spec["select"]))
                                                              if i not in [j for j, _ in spec["order"]]
                                                              and not S.sqlite_int_const(spec["select"][i][0])]
    ref = S.sql_select(spec)
    pre = "\n".join(S.prelude(spec))
    src1 = pre + "\nq = " + S.py_select(spec, "SQLLiteQuery")
    S.NESTED_ORDER[0] = random.Random(case["seed"] + 1)
    parts = []
    try:
        pre2 = "\n".join(S.prelude(spec))
        src2 = pre2 + "\nq = " + S.py_select(spec, "SQLLiteQuery", order_seed=case["seed"], parts_out=parts)
    finally:
        S.NESTED_ORDER[0] = None
    # the statement assembled piecewise: other statements are derived from the same intermediate builder first (a star
    # select, a filter, grouping and ordering of their own) — the statement itself must come out as if they did not exist
    src3 = None
    if parts and len(parts[0][1]) >= 2 and rng.random() < 0.35:
        hd, calls_ = parts[0]
        k = rng.randint(1, len(calls_) - 1)
        if ".from_(" in hd + "".join(calls_[:k]):
            tv = S.src_var(spec["from"][0])
            src3 = (pre2 + "\np_ = " + hd + "".join(calls_[:k]) +
                    "\nsib1_ = p_.select(%s.star)\nsib2_ = p_.where(%s.id == 1).groupby(%s.id).orderby(%s.id).select(%s.id)" % (tv, tv, tv, tv, tv) +
                    "\nsib3_ = sib1_.select(%s.id).distinct()\nq = p_" % tv + "".join(calls_[k:]))
    case["recipe"] = src2 + "\n# reference: " + ref
    kinds = constructs(spec)
    res.nontrivial = len(kinds) >= 3
    res.key = struct_hash([ref])
    res.tags = ["c=" + k for k in sorted(kinds)] + (["c=x*(y/z)"] if muldiv else [])
    texts = []
    for label, src in (("canonical order", src1), ("shuffled order", src2)) + ((("next to sibling statements", src3),) if src3 else ()):
        q = ns.ex(src)["q"]
        texts.append((label, src, str(q), q))
    if src3 and texts[2][2] != texts[1][2]:
        res.findings.append({"sig": {"kind": "depends-on-sibling-statements"},
                             "what": "built next to sibling statements derived from the same intermediate builder the statement renders %s, alone %s\n%s"
                                     % (texts[2][2], texts[1][2], src3)})
        return res
    order_idx = [i for i, _ in spec["order"]]
    for dseed in case["dbs"]:
        con = db(dseed)
        want, err = run_sql(con, ref)
        if err:
            # the reference itself is outside what SQLite runs: not a statement about pypika
            res.skipped = "reference rejected: " + err[:40]
            return res
        for label, src, sql, q in texts:
            got, err = run_sql(con, sql)
            if err:
                res.findings.append({"sig": {"kind": "rejected-by-sqlite", "error": err.split(":")[1].strip()[:30]},
                                     "what": "SQLite rejects %s (%s) | reference %s\n%s" % (sql, err, ref, src)})
                return res
            bad = None
            got, want = nrows(got), nrows(want)
            if canon(got) != canon(want):
                bad = "different rows"
            elif order_idx and [tuple(r[i] for i in order_idx) for r in got] != [tuple(r[i] for i in order_idx) for r in want]:
                bad = "different order"
            elif (spec["limit"] is not None or spec["offset"]) and got != want:
                bad = "different row window"
            if bad:
                res.findings.append({"sig": {"kind": bad, "shape": "x*(y/z)" if (muldiv and "fixed" in case) else sorted(kinds)[:6]},
                                     "what": "%s on database %d (%s): %s gives %r, reference %s gives %r\n%s"
                                             % (bad, dseed, label, sql, got[:6], ref, want[:6], src)})
                return res
    if texts[0][2] != texts[1][2]:
        res.tags.append("order-sensitive-text")
    # the model renders the same statement
    label, src, sql, q = texts[1]
    try:
        res.requests.append(({"op": "render", "ctx": describe.d_ctx({"dialect": q.dialect}), "term": describe.describe(q)},
                             {"sql": sql}, "str(q)"))
    except Unsupported as ex:
        res.skipped = str(ex)[:40]
    return res
