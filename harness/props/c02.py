"""C02 Rendered expressions keep the operator structure the user built."""
from harness import describe, gen, ns, sqlspec
from harness.describe import Unsupported
from harness.run import Result
from harness.common import struct_hash

ID = "C02"
LEAN_MODULES = ["Pypika.Props.C02", "Pypika.Props.C02Bridge", "Pypika.Props.C02Bool"]
THEOREMS = [
    "Pypika.C02.render_sound",
    "Pypika.C02.render_emb",            # the model's `render` on arithmetic terms is the image of renderTok
    "Pypika.C02.render_sound_model",    # hence render_sound holds of `render`, the function run against /repo
    "Pypika.Spec.parse_complete", "Pypika.Spec.G_unambiguous",       # the arithmetic grammar has ONE reading per token list
    "Pypika.C02.every_reading_agrees", "Pypika.C02.parse_renderTok",
    "Pypika.C02.render_cmp", "Pypika.C02.cmp_operands_sound",      # comparison level: whole arithmetic operands, no chaining
    "Pypika.C02.renderB_sound",         # boolean level: NOT / one-operator chains / parentheses, any depth
    "Pypika.C02.render_embB", "Pypika.C02.render_sound_modelB",    # the model's render on criteria = image of renderB
]
AGREE = ["Pypika.Agree.left_parens", "Pypika.Agree.right_parens", "Pypika.Agree.needs_brackets",
         "Pypika.Agree.arith_text", "Pypika.Agree.bool_text"]
TRUSTED = [
    "Spec: the layered operator grammar (unary - > * / > + - > << >> > comparison family (non-associative) > NOT > AND > XOR > OR) "
    "as the precedence shared by the supported engines",
    "harness/sqlspec.py: Python lexer/parser/evaluator used to search the implementation for a failing input",
]
ASSUMPTIONS = ["expressions are well-typed: comparison operands are value expressions, boolean operators combine criteria"]
RULE = ("random well-typed expression trees (depth 0-6) over + - * / << >>, unary minus, literals of both signs, "
        "comparisons, LIKE/IN/BETWEEN/IS NULL, NOT, AND/OR/XOR, CASE, functions; rendered bare (str / get_sql with and "
        "without kwargs) and inside SELECT / WHERE / HAVING / ON / SET; non-trivial = has at least one operator node "
        "nested under another operator node; distinct by structural hash of the built tree")

CTXS = [
    {"quote_char": '"', "secondary_quote_char": "'"},
    {},
    {"quote_char": "`"},
    {"quote_char": None, "with_namespace": True},
    # rendered for a dialect: the operator structure is the same in every one of them
    {"quote_char": '"', "dialect": ns.Dialects.SQLLITE}, {"quote_char": "`", "dialect": ns.Dialects.MYSQL},
    {"quote_char": '"', "dialect": ns.Dialects.POSTGRESQL}, {"quote_char": None, "dialect": ns.Dialects.ORACLE},
    {"quote_char": '"', "dialect": ns.Dialects.MSSQL}, {"quote_char": '"', "dialect": ns.Dialects.CLICKHOUSE},
]


def counts(tier):
    return 4000 if tier == "quick" else 60000


def generate(rng, n, tier):
    for i in range(n):
        g = gen.G(rng, strings="plain", allow_params=rng.random() < 0.2, allow_filter=True, allow_matchers=True)
        d = rng.choice([1, 2, 2, 3, 3, 4, 5, 6]) if tier == "thorough" else rng.choice([1, 2, 2, 3, 3, 4, 5])
        src = g.num(d) if rng.random() < 0.55 else g.crit(d)
        yield {"recipe": src, "ctx": rng.randrange(len(CTXS)), "position": rng.choice(["bare", "bare", "select", "where", "having", "on", "set"])}


def depth_ops(s):
    """(number of operator nodes, max nesting of operator nodes)"""
    if not isinstance(s, dict):
        return 0, 0
    kids = []
    for v in s.values():
        if isinstance(v, dict) and "k" in v:
            kids.append(v)
        elif isinstance(v, list):
            for x in v:
                if isinstance(x, dict) and "k" in x:
                    kids.append(x)
                elif isinstance(x, list):
                    kids += [y for y in x if isinstance(y, dict) and "k" in y]
    n, d = 0, 0
    for c in kids:
        cn, cd = depth_ops(c)
        n += cn
        d = max(d, cd)
    if s.get("k") in ("arith", "neg", "basic", "complex", "not", "isin", "between", "isnull", "notnull", "case", "func"):
        return n + 1, d + 1
    return n, d


def statement_text(position, obj):
    """the expression placed in a statement; returns the statement text"""
    Q, T, fn = ns.Query, ns.Table, ns.fn
    t, u = T("t"), T("u")
    if position == "select":
        return str(Q.from_(t).select(obj))
    if position == "where":
        return str(Q.from_(t).select(t.a).where(obj))
    if position == "having":
        return str(Q.from_(t).select(t.a).groupby(t.a).having(obj))
    if position == "on":
        return str(Q.from_(t).join(u).on((t.a == u.a) & obj if isinstance(obj, ns.Criterion) else (t.a == obj)).select(t.a))
    if position == "set":
        return str(Q.update(t).set(t.a, obj))
    return None


def examine(case):
    res = Result()
    obj = ns.ev(case["recipe"])
    kw = CTXS[case["ctx"]]
    text = obj.get_sql(**kw)
    try:
        spec = describe.describe(obj)
    except Unsupported as e:
        res.skipped = str(e)[:40]
        return res
    nops, nest = depth_ops(spec)
    res.nontrivial = nest >= 2
    res.key = struct_hash(spec)
    res.tags = ["depth=%d" % min(nest, 7), "pos=" + case["position"], "root=" + spec["k"]]
    res.requests.append(({"op": "render", "ctx": describe.d_ctx(kw), "term": spec}, {"sql": text}, "get_sql(%r)" % (kw,)))
    # --- oracle on the implementation's text
    qs = "".join(q for q in [kw.get("quote_char")] if q) or '"`'
    try:
        ast = sqlspec.parse_expr(text, ident_quotes=qs if kw.get("quote_char") else '"`')
    except (sqlspec.LexError, sqlspec.ParseError) as e:
        res.findings.append({"sig": {"kind": "unparsable", "root": spec["k"]},
                             "what": "rendered text is not in the shared expression grammar: %s | %s" % (e, text),
                             "detail": {"text": text}})
        return res
    try:
        ok, wit = sqlspec.same_function(spec, ast)
    except sqlspec.Undefined as e:
        res.skipped = "oracle: " + str(e)[:30]
        return res
    if not ok:
        res.findings.append({"sig": {"kind": "different-function", "root": spec["k"]},
                             "what": "text %s denotes a different function than the built tree" % text,
                             "detail": {"text": text, "witness": wit}})
    # --- position: the statement contains exactly the stand-alone rendering of the expression
    pos = case["position"]
    if pos != "bare":
        try:
            stmt = statement_text(pos, obj)
        except Exception as e:  # building the statement is not what C02 is about
            stmt = None
        if stmt is not None:
            inner = obj.get_sql(quote_char='"', secondary_quote_char="'")
            if inner not in stmt:
                # the select list adds aliases / namespaces; compare after parsing
                alt = obj.get_sql(quote_char='"', secondary_quote_char="'", with_namespace=True)
                if alt not in stmt:
                    res.findings.append({"sig": {"kind": "position", "pos": pos, "root": spec["k"]},
                                         "what": "expression renders differently inside %s: %s" % (pos, stmt),
                                         "detail": {"stmt": stmt, "bare": inner}})
    return res


def shrink(f):
    """replace sub-expressions by leaves while the finding persists (greedy, bounded)"""
    case = dict(f["case"])
    src = case["recipe"]
    import re
    budget = 200
    changed = True
    while changed and budget > 0:
        changed = False
        # candidate: any balanced parenthesised sub-expression replaced by a leaf
        stack, spans = [], []
        for i, ch in enumerate(src):
            if ch == "(":
                stack.append(i)
            elif ch == ")" and stack:
                spans.append((stack.pop(), i + 1))
        spans.sort(key=lambda s: s[0] - s[1])
        for a, b in spans:
            if b - a < 6 or (a == 0 and b == len(src)):
                continue
            if a > 0 and (src[a - 1].isalnum() or src[a - 1] in "._"):
                continue    # call parentheses
            for leaf in ("F('a')", "VW(1)"):
                cand = src[:a] + leaf + src[b:]
                budget -= 1
                try:
                    r = examine(dict(case, recipe=cand))
                except Exception:
                    continue
                if any(x["sig"] == f["sig"] for x in r.findings):
                    src = cand
                    changed = True
                    break
            if changed or budget <= 0:
                break
    case["recipe"] = src
    r = examine(case)
    for x in r.findings:
        if x["sig"] == f["sig"]:
            x = dict(x)
            x["case"] = case
            return x
    return f
