"""Translator: facts read off /repo's working tree -> Pypika/Generated/*.lean

Only `def`s of finite data are emitted, never theorems.  `Pypika/Agree.lean` (hand-written)
states that the model's definitions equal these tables on their whole domain; a code change
that alters one of these behaviours changes the table, the `decide` stops closing, and the
build fails on a named theorem.  Files are rewritten only when their content changes.

The import of pypika happens in a subprocess so that a broken working tree cannot take the
harness down with it.
"""
import json
import os
import subprocess
import sys

from harness import common

GEN_DIR = os.path.join(common.LEAN, "Pypika", "Generated")

PROBE = r'''
import json, sys
sys.path.insert(0, %(repo)r)
import pypika
from pypika import terms as T, queries as Q, dialects as DI, analytics as an, functions as fn, utils as U
from pypika.enums import Arithmetic, Boolean, Order, Dialects, JoinType, SetOperation
from pypika import Query, MySQLQuery, PostgreSQLQuery, RedshiftQuery, OracleQuery, MSSQLQuery, SQLLiteQuery, VerticaQuery, ClickHouseQuery
from pypika.dialects import SnowflakeQuery
out = {}
QC = [("generic", Query), ("mysql", MySQLQuery), ("postgresql", PostgreSQLQuery), ("redshift", RedshiftQuery),
      ("oracle", OracleQuery), ("mssql", MSSQLQuery), ("sqlite", SQLLiteQuery), ("vertica", VerticaQuery),
      ("clickhouse", ClickHouseQuery), ("snowflake", SnowflakeQuery)]
cls = []
for name, qc in QC:
    b = qc._builder()
    qa = b.ALIAS_QUOTE_CHAR if b.QUERY_ALIAS_QUOTE_CHAR is None else b.QUERY_ALIAS_QUOTE_CHAR
    cls.append({"cls": name, "quote": b.QUOTE_CHAR, "secondary": b.SECONDARY_QUOTE_CHAR, "alias_quote": b.ALIAS_QUOTE_CHAR,
                "query_alias_quote": qa or None, "dialect": None if b.dialect is None else b.dialect.value,
                "as_keyword": bool(b.as_keyword), "wrap": bool(b.wrap_set_operation_queries),
                "sqlite_wrapper": b._wrapper_cls is DI.SQLLiteValueWrapper,
                "builder": type(b).__name__})
out["classes"] = cls
ops = list(Arithmetic)
ae = T.ArithmeticExpression(Arithmetic.add, T.Field("a"), T.Field("b"))
out["arith_text"] = [[o.name, o.value] for o in ops]
out["left_parens"] = [[c.name, None if l is None else l.name, bool(ae.left_needs_parens(c, l))] for c in ops for l in [None] + ops]
out["right_parens"] = [[c.name, None if l is None else l.name, bool(ae.right_needs_parens(c, l))] for c in ops for l in [None] + ops]
bops = [Boolean.and_, Boolean.or_, Boolean.xor_]
out["bool_text"] = [[o.name, o.value] for o in bops]
nb = []
f = T.Field("a") == 1
for s in bops:
    me = T.ComplexCriterion(s, f, f)
    nb.append([s.name, None, bool(me.needs_brackets(f))])
    for c in bops:
        nb.append([s.name, c.name, bool(me.needs_brackets(T.ComplexCriterion(c, f, f)))])
out["needs_brackets"] = nb
out["order_text"] = [[o.name, o.value] for o in Order]
# pagination grid: tail of the statement after SELECT ... FROM ...
grid = []
for name, qc in QC:
    base = str(qc.from_("t").select("a"))
    for lim in [None, 0, 1, 7]:
        for off in [None, 0, 1, 7]:
            q = qc.from_("t").select("a")
            if lim is not None: q = q.limit(lim)
            if off is not None: q = q.offset(off)
            s = str(q)
            assert s.startswith(base), (s, base)
            grid.append([name, lim, off, s[len(base):]])
out["pagination"] = grid
# set-operation pagination (generic renderer of _SetOperation)
so = []
for lim in [None, 0, 1, 7]:
    for off in [None, 0, 1, 7]:
        a = Query.from_("t").select("a"); b = Query.from_("u").select("a")
        base = str(a.union(b))
        q = a.union(b)
        if lim is not None: q = q.limit(lim)
        if off is not None: q = q.offset(off)
        so.append([lim, off, str(q)[len(base):]])
out["setop_pagination"] = so
edges = []
for kind, c in [("preceding", an.Preceding), ("following", an.Following)]:
    for v in [None, 0, 1, 12, 1000000]:
        edges.append([kind, v, str(c(v))])
out["edges"] = edges
fa = []
for alias in [None, "x"]:
    for q in [None, '"']:
        for aq in [None, "`"]:
            for ak in [False, True]:
                fa.append([alias, q, aq, ak, U.format_alias_sql("S", alias, quote_char=q, alias_quote_char=aq, as_keyword=ak)])
out["format_alias"] = fa
ph = []
for st, c in [("qmark", T.QmarkParameter), ("numeric", T.NumericParameter), ("format", T.FormatParameter),
              ("named", T.NamedParameter), ("pyformat", T.PyformatParameter)]:
    for n in [0, 1, 8, 9, 10, 99]:
        p = c()
        for i in range(n):
            if isinstance(p, T.DictParameter): p.update_parameters(param_key="k%%d" %% i, value=i)
            else: p.update_parameters(value=i)
        sql = p.get_sql()
        ph.append([st, n, sql, p.get_param_key(placeholder=sql)])
out["placeholders"] = ph
out["interval"] = {"templates": [[k.value, v] for k, v in T.Interval.templates.items()],
                   "units": T.Interval.units, "labels": T.Interval.labels, "pattern": T.Interval.trim_pattern.pattern}
# interval grid: single field and adjacent pairs over small digit patterns
ig = []
import itertools
vals = [0, 1, 10, 101]
for combo in itertools.product(vals, repeat=7):
    if sum(1 for v in combo if v) > 2: continue
    kw = dict(zip(T.Interval.units, combo))
    ig.append([list(combo), str(T.Interval(**kw))])
out["interval_grid"] = ig
json.dump(out, sys.stdout)
'''


def lean_str(s):
    """List Char literal"""
    if s is None:
        return "none"
    return "[" + ", ".join(lean_char(c) for c in s) + "]"


def lean_char(c):
    o = ord(c)
    if c == "'":
        return "'\\''"
    if c == "\\":
        return "'\\\\'"
    if c == "\n":
        return "'\\n'"
    if c == "\t":
        return "'\\t'"
    if c == "\r":
        return "'\\r'"
    if o < 32 or o == 127:
        return "Char.ofNat %d" % o
    return "'%s'" % c


def lean_optstr(s):
    return "none" if s is None else "some %s" % lean_str(s)


def lean_optchar(s):
    if s is None or s == "":
        return "none"
    assert len(s) == 1
    return "some %s" % lean_char(s)


def lean_optnat(n):
    return "none" if n is None else "some %d" % n


def lean_bool(b):
    return "true" if b else "false"


def probe():
    src = PROBE % {"repo": common.REPO}
    p = subprocess.run([sys.executable, "-c", src], stdout=subprocess.PIPE, stderr=subprocess.PIPE, text=True, timeout=300)
    if p.returncode != 0:
        raise common.HarnessError("extract probe failed:\n" + p.stderr[-2000:])
    return json.loads(p.stdout)


def render(data):
    L = []
    w = L.append
    w("import Pypika.Syntax")
    w("/-! GENERATED by harness/extract.py from /repo's working tree — do not edit. -/")
    w("namespace Pypika.Gen")
    w("open Pypika")
    w("")
    w("/-- per query class: (QUOTE_CHAR, ALIAS_QUOTE_CHAR, effective query-alias quote, dialect, as_keyword, wrap_set_operation_queries, sqlite wrapper) -/")
    w("def classes : List (QClass × Option Char × Option Char × Option Char × Option Dialect × Bool × Bool × Bool) := [")
    rows = []
    for c in data["classes"]:
        rows.append("  (.%s, %s, %s, %s, %s, %s, %s, %s)" % (
            c["cls"], lean_optchar(c["quote"]), lean_optchar(c["alias_quote"]), lean_optchar(c["query_alias_quote"]),
            "none" if c["dialect"] is None else "some .%s" % c["dialect"], lean_bool(c["as_keyword"]), lean_bool(c["wrap"]),
            lean_bool(c["sqlite_wrapper"])))
    w(",\n".join(rows) + "]")
    w("")
    w("def secondaryQuotes : List (Option Char) := [%s]" % ", ".join(lean_optchar(c["secondary"]) for c in data["classes"]))
    w("")
    w("def arithText : List (Arith × Str) := [%s]" % ", ".join("(.%s, %s)" % (n, lean_str(v)) for n, v in data["arith_text"]))
    w("def boolText : List (BoolOp × Str) := [%s]" % ", ".join("(.%s, %s)" % (n, lean_str(v)) for n, v in data["bool_text"]))
    w("def orderText : List (Ord × Str) := [%s]" % ", ".join("(.%s, %s)" % (n, lean_str(v)) for n, v in data["order_text"]))
    w("")

    def optop(x):
        return "none" if x is None else "some .%s" % x
    for key, name in [("left_parens", "leftParens"), ("right_parens", "rightParens")]:
        w("def %s : List (Arith × Option Arith × Bool) := [" % name)
        w(",\n".join("  (.%s, %s, %s)" % (c, optop(l), lean_bool(b)) for c, l, b in data[key]) + "]")
    w("def needsBrackets : List (BoolOp × Option BoolOp × Bool) := [")
    w(",\n".join("  (.%s, %s, %s)" % (c, optop(l), lean_bool(b)) for c, l, b in data["needs_brackets"]) + "]")
    w("")
    w("def pagination : List (QClass × Option Nat × Option Nat × Str) := [")
    w(",\n".join("  (.%s, %s, %s, %s)" % (c, lean_optnat(l), lean_optnat(o), lean_str(t)) for c, l, o, t in data["pagination"]) + "]")
    w("def setopPagination : List (Option Nat × Option Nat × Str) := [")
    w(",\n".join("  (%s, %s, %s)" % (lean_optnat(l), lean_optnat(o), lean_str(t)) for l, o, t in data["setop_pagination"]) + "]")
    w("")
    w("def edges : List (Edge × Str) := [")
    w(",\n".join("  (.%s (%s), %s)" % (k, lean_optnat(v), lean_str(t)) for k, v, t in data["edges"]) + "]")
    w("")
    w("/-- format_alias_sql(\"S\", alias, quote_char, alias_quote_char, as_keyword) -/")
    w("def formatAlias : List (Option Str × Option Char × Option Char × Bool × Str) := [")
    w(",\n".join("  (%s, %s, %s, %s, %s)" % (lean_optstr(a), lean_optchar(q), lean_optchar(aq), lean_bool(ak), lean_str(t))
                 for a, q, aq, ak, t in data["format_alias"]) + "]")
    w("")
    w("/-- (style, values already collected, placeholder text, dictionary key) -/")
    w("def placeholders : List (Str × Nat × Str × Str) := [")
    w(",\n".join("  (%s, %d, %s, %s)" % (lean_str(st), n, lean_str(sql), lean_str(k)) for st, n, sql, k in data["placeholders"]) + "]")
    w("")
    iv = data["interval"]
    w("def intervalTemplates : List (Dialect × Str) := [%s]" % ", ".join("(.%s, %s)" % (d, lean_str(t)) for d, t in iv["templates"]))
    w("def intervalLabels : List Str := [%s]" % ", ".join(lean_str(x) for x in iv["labels"]))
    w("def intervalPattern : Str := %s" % lean_str(iv["pattern"]))
    w("")
    w("/-- str(Interval(**fields)) for every 7-tuple over {0,1,10,101} with at most two non-zero fields -/")
    w("def intervalGrid : List (List Nat × Str) := [")
    w(",\n".join("  ([%s], %s)" % (", ".join(str(v) for v in combo), lean_str(t)) for combo, t in data["interval_grid"]) + "]")
    w("")
    w("end Pypika.Gen")
    return "\n".join(L) + "\n"


def write_if_changed(path, text):
    os.makedirs(os.path.dirname(path), exist_ok=True)
    if os.path.exists(path) and open(path, encoding="utf-8").read() == text:
        return False
    with open(path, "w", encoding="utf-8") as f:
        f.write(text)
    return True


_done = False


def generate(force=False):
    global _done
    if _done and not force:
        return
    data = probe()
    write_if_changed(os.path.join(GEN_DIR, "Tables.lean"), render(data))
    write_if_changed(os.path.join(GEN_DIR, "tables.json"), json.dumps(data, indent=0, sort_keys=True))
    try:
        from harness import effects
        effects.generate()
    except ImportError:
        pass
    _done = True


if __name__ == "__main__":
    generate(True)
    print("generated", GEN_DIR)
