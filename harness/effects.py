"""G4: effect summaries read off /repo's source (Python ast), emitted as Pypika/Generated/Effects.lean.

Per class: container attributes created in __init__, attributes re-copied by __copy__.
Per @builder method (MRO-resolved, following self.helper() and super().m()): the list of effects on `self`
(the copy), on arguments and on nested objects.  Per observation method (get_sql, _*_sql, __str__, __hash__,
__eq__, fields_, tables_, nodes_, find_): the same list (expected empty) and every iteration over a set-typed
attribute.  Only data is emitted; the theorems about it are in Props/C01.lean, C09.lean, C14.lean.
"""
import ast
import json
import os

from harness import common

MODS = ["utils", "terms", "queries", "dialects", "functions", "analytics"]
MUT = {"append", "extend", "add", "remove", "insert", "pop", "clear", "update", "discard", "sort", "reverse", "setdefault"}
OBSERVERS = {"get_sql", "__str__", "__repr__", "__hash__", "__eq__", "__ne__", "fields_", "tables_", "nodes_", "find_",
             "get_table_name", "get_function_sql", "get_special_params_sql", "get_partition_sql", "get_frame_sql", "get_filter_sql",
             "get_value_sql", "get_name_sql", "is_aggregate", "needs_brackets", "left_needs_parens", "right_needs_parens"}


HELPERS = ["do_join"]


class Analysis:
    def __init__(self, repo):
        self.classes = {}
        for mod in MODS:
            src = open(os.path.join(repo, "pypika", mod + ".py"), encoding="utf-8").read()
            tree = ast.parse(src)
            self._visit(mod, tree.body, "")

    def _visit(self, mod, body, prefix):
        for n in body:
            if isinstance(n, ast.ClassDef):
                name = prefix + n.name
                key = name if name not in self.classes else "%s.%s" % (mod, name)
                self.classes[key] = {"module": mod, "bases": [ast.unparse(b) for b in n.bases],
                                     "methods": {f.name: f for f in n.body if isinstance(f, ast.FunctionDef)}}
                self._visit(mod, n.body, name + ".")

    def mro(self, name):
        out = [name]
        for b in self.classes[name]["bases"]:
            b = b if b in self.classes else b.split(".")[-1]
            if b in self.classes and b not in out:
                for x in self.mro(b):
                    if x not in out:
                        out.append(x)
        return out

    def find_method(self, cls, m):
        for c in self.mro(cls):
            if m in self.classes[c]["methods"]:
                return c, self.classes[c]["methods"][m]
        return None, None

    @staticmethod
    def is_builder(fn):
        return any(ast.unparse(d) == "builder" for d in fn.decorator_list)

    @staticmethod
    def root_path(node):
        path = []
        while True:
            if isinstance(node, ast.Attribute):
                path.append(node.attr)
                node = node.value
            elif isinstance(node, ast.Subscript):
                path.append("[]")
                node = node.value
            elif isinstance(node, ast.Name):
                return node.id, list(reversed(path))
            else:
                return None, None

    def containers(self, cls):
        out = {}
        for c in reversed(self.mro(cls)):
            f = self.classes[c]["methods"].get("__init__")
            if not f:
                continue
            for n in ast.walk(f):
                if isinstance(n, ast.Assign):
                    for t in n.targets:
                        r, p = self.root_path(t)
                        if r == "self" and p and len(p) == 1:
                            v = n.value
                            kind = None
                            if isinstance(v, (ast.List, ast.ListComp)):
                                kind = "list"
                            elif isinstance(v, ast.Dict):
                                kind = "dict"
                            elif isinstance(v, ast.Call) and ast.unparse(v.func) in ("set", "list", "dict"):
                                kind = ast.unparse(v.func)
                            if kind:
                                out[p[0]] = kind
                            elif p[0] in out:
                                del out[p[0]]
        return out

    def recopied(self, cls):
        out = set()
        for c in self.mro(cls):
            f = self.classes[c]["methods"].get("__copy__")
            if f:
                for n in ast.walk(f):
                    if isinstance(n, ast.Assign):
                        for t in n.targets:
                            r, p = self.root_path(t)
                            if r == "newone" and p and len(p) == 1:
                                out.add(p[0])
        return out

    def effects_of(self, cls, fn, depth=0, seen=None):
        seen = seen if seen is not None else set()
        if (cls, fn.name) in seen or depth > 5:
            return []
        seen.add((cls, fn.name))
        params = [a.arg for a in fn.args.args[1:]] + ([fn.args.vararg.arg] if fn.args.vararg else []) + \
                 [a.arg for a in fn.args.kwonlyargs] + ([fn.args.kwarg.arg] if fn.args.kwarg else [])
        cont = self.containers(cls)
        # locals bound to the result of a call (constructors, copy, super().m()) are fresh objects
        fresh = set()
        loopvars = {}
        for n in ast.walk(fn):
            if isinstance(n, ast.Assign) and isinstance(n.value, ast.Call):
                for t in n.targets:
                    if isinstance(t, ast.Name):
                        fresh.add(t.id)
            if isinstance(n, ast.For) and isinstance(n.target, ast.Name):
                r, p = self.root_path(n.iter)
                if r in params or (isinstance(n.iter, ast.Name) and n.iter.id in params):
                    loopvars[n.target.id] = r or n.iter.id
        eff = []
        for n in ast.walk(fn):
            if isinstance(n, (ast.Assign, ast.AnnAssign)):
                targets = n.targets if isinstance(n, ast.Assign) else [n.target]
                for t in targets:
                    if isinstance(t, ast.Tuple):
                        continue
                    r, p = self.root_path(t)
                    if r == "self" and p:
                        if len(p) == 1:
                            eff.append(("rebind", p[0]))
                        elif len(p) == 2 and p[1] == "[]":
                            eff.append(("inplace", p[0]))        # item assignment on a container held by self
                        else:
                            eff.append(("nested", ".".join(p)))
                    elif r in params and p and r != "kwargs" and not (fn.args.kwarg and r == fn.args.kwarg.arg):
                        eff.append(("argwrite", "%s.%s" % (r, ".".join(p))))
                    elif r in loopvars and p:
                        eff.append(("argwrite", "%s[].%s" % (loopvars[r], ".".join(p))))
                    elif r is not None and p and r not in fresh and r != "kwargs" and not (fn.args.kwarg and r == fn.args.kwarg.arg):
                        eff.append(("localwrite", "%s.%s" % (r, ".".join(p))))
            elif isinstance(n, ast.AugAssign):
                r, p = self.root_path(n.target)
                if r == "self" and p:
                    if len(p) == 1:
                        eff.append(("inplace" if p[0] in cont else "rebind", p[0]))
                    else:
                        eff.append(("nested", ".".join(p)))
                elif r in params and p:
                    eff.append(("argwrite", "%s.%s" % (r, ".".join(p))))
            elif isinstance(n, ast.Call) and isinstance(n.func, ast.Attribute):
                if n.func.attr in MUT:
                    r, p = self.root_path(n.func.value)
                    if r == "self" and p:
                        eff.append(("inplace" if len(p) == 1 else "nested", ".".join(p)))
                    elif r in params and p is not None and r != "kwargs" and not (fn.args.kwarg and r == fn.args.kwarg.arg):
                        eff.append(("argwrite", "%s.%s" % (r, ".".join(p)) if p else r))
                r, p = self.root_path(n.func)
                if r == "self" and p and len(p) == 1:
                    c2, f2 = self.find_method(cls, p[0])
                    if f2 is not None and not self.is_builder(f2):
                        eff += self.effects_of(cls, f2, depth + 1, seen)
                if isinstance(n.func.value, ast.Call) and ast.unparse(n.func.value.func) == "super":
                    m = n.func.attr
                    for c in self.mro(cls)[1:]:
                        if m in self.classes[c]["methods"]:
                            f2 = self.classes[c]["methods"][m]
                            if not self.is_builder(f2) or True:
                                eff += self.effects_of(c, f2, depth + 1, seen)
                            break
        return eff

    def reads_of(self, cls, fn, depth=0, seen=None):
        """attributes of `self` the method loads (following self.helper() and super().m() like effects_of); method names
        are not attributes; an in-place update (`self.a.append`, `self.a += ..`) loads `a` too"""
        seen = seen if seen is not None else set()
        if (cls, fn.name) in seen or depth > 5:
            return []
        seen.add((cls, fn.name))
        out = []
        for n in ast.walk(fn):
            if isinstance(n, ast.Attribute) and isinstance(n.value, ast.Name) and n.value.id == "self":
                c2, f2 = self.find_method(cls, n.attr)
                if f2 is not None:
                    is_prop = any(ast.unparse(d) == "property" for d in f2.decorator_list)
                    if not self.is_builder(f2) or is_prop:
                        out += self.reads_of(cls, f2, depth + 1, seen)
                elif isinstance(n.ctx, ast.Load) and n.attr not in out:
                    out.append(n.attr)
            elif isinstance(n, ast.AugAssign):
                r, p = self.root_path(n.target)
                if r == "self" and p and p[0] not in out:
                    out.append(p[0])
            elif isinstance(n, ast.Call) and isinstance(n.func, ast.Attribute) and isinstance(n.func.value, ast.Call) \
                    and ast.unparse(n.func.value.func) == "super":
                m = n.func.attr
                for c in self.mro(cls)[1:]:
                    if m in self.classes[c]["methods"]:
                        out += self.reads_of(c, self.classes[c]["methods"][m], depth + 1, seen)
                        break
        res = []
        for a in out:
            if a not in res:
                res.append(a)
        return res

    def set_iterations(self, cls, fn):
        """attributes initialised as sets that the method iterates (for / comprehension / join / list())"""
        cont = self.containers(cls)
        out = []
        for n in ast.walk(fn):
            its = []
            if isinstance(n, ast.For):
                its.append(n.iter)
            elif isinstance(n, (ast.ListComp, ast.GeneratorExp, ast.SetComp, ast.DictComp)):
                its += [g.iter for g in n.generators]
            elif isinstance(n, ast.Call) and isinstance(n.func, ast.Attribute) and n.func.attr == "join":
                its += n.args
            elif isinstance(n, ast.Call) and isinstance(n.func, ast.Name) and n.func.id in ("list", "tuple", "sorted", "map"):
                its += n.args
            for it in its:
                r, p = self.root_path(it)
                if r == "self" and p and len(p) == 1 and cont.get(p[0]) == "set":
                    out.append(p[0])
        return out

    def replace_table_table(self):
        """G5: per class, the attributes its nodes_() walks (term-holding children) and the attributes its
        replace_table() rewrites (MRO-resolved; the inherited Term.replace_table rewrites nothing)"""
        rows = []
        for cls in sorted(self.classes):
            if self.classes[cls]["module"] not in ("terms", "functions", "queries", "dialects"):
                continue
            _, nf = self.find_method(cls, "nodes_")
            _, rf = self.find_method(cls, "replace_table")
            if nf is None and rf is None:
                continue
            walked = []
            if nf is not None:
                for n in ast.walk(nf):
                    if isinstance(n, ast.Attribute) and isinstance(n.value, ast.Name) and n.value.id == "self" and n.attr not in walked:
                        if n.attr not in ("nodes_",):
                            walked.append(n.attr)
            replaced = []
            if rf is not None:
                for n in ast.walk(rf):
                    if isinstance(n, ast.Assign):
                        for t in n.targets:
                            r, p = self.root_path(t)
                            if r in ("self", "newone") and p and p[0] not in replaced:
                                replaced.append(p[0])
            rows.append({"cls": cls, "walked": sorted(walked), "replaced": sorted(replaced)})
        return rows

    def report(self):
        builders, observers, classes = [], [], []
        for cls in sorted(self.classes):
            bm, om = {}, {}
            for c in self.mro(cls):
                for m, f in self.classes[c]["methods"].items():
                    if self.is_builder(f) and m not in bm:
                        bm[m] = (c, f)
                    is_obs = m in OBSERVERS or (m.startswith("_") and m.endswith("_sql")) or m.startswith("_validate") or \
                        any(ast.unparse(d) == "property" for d in f.decorator_list)
                    if is_obs and m not in om and not self.is_builder(f):
                        om[m] = (c, f)
            cont, rc = self.containers(cls), self.recopied(cls)
            if bm or cont:
                classes.append({"cls": cls, "containers": sorted(cont), "sets": sorted(k for k, v in cont.items() if v == "set"),
                                "recopied": sorted(rc)})
            for m, (c, f) in sorted(bm.items()):
                builders.append({"cls": cls, "method": m, "defined_in": c, "effects": self.effects_of(cls, f),
                                 "reads": self.reads_of(cls, f)})
            for m, (c, f) in sorted(om.items()):
                observers.append({"cls": cls, "method": m, "effects": [e for e in self.effects_of(cls, f)],
                                  "set_iter": self.set_iterations(cls, f)})
        # methods that a builder reaches through another object (Joiner.on/using/cross call query.do_join on the copy)
        helpers = []
        for cls in sorted(self.classes):
            for m in HELPERS:
                c, f = self.find_method(cls, m)
                if f is not None:
                    helpers.append({"cls": cls, "method": m, "defined_in": c, "effects": self.effects_of(cls, f),
                                    "reads": self.reads_of(cls, f)})
        return {"classes": classes, "builders": builders, "observers": observers, "replace": self.replace_table_table(),
                "helpers": helpers}


def lean_s(s):
    from harness.extract import lean_str
    return lean_str(s)


def render(rep):
    L = []
    w = L.append
    w("import Pypika.Base")
    w("/-! GENERATED by harness/effects.py from /repo's working tree (Python ast) — do not edit. -/")
    w("namespace Pypika.Gen")
    w("open Pypika")
    w("")
    w("inductive Eff")
    w("  | rebind (a : Str)      -- self.a = ...")
    w("  | inplace (a : Str)     -- self.a.append(...) / self.a += [...] on a container attribute")
    w("  | nested (a : Str)      -- write through an object or container held by self (self.a[-1].b += ...)")
    w("  | argwrite (a : Str)    -- write to an argument (param.attr = ...)")
    w("  | localwrite (a : Str)  -- write to an object that is neither self, a parameter nor a fresh local")
    w("  deriving DecidableEq, Repr")
    w("")
    w("/-- (class, container attributes, set-typed attributes, attributes re-copied by __copy__) -/")
    w("def classTable : List (Str × List Str × List Str × List Str) := [")
    w(",\n".join("  (%s, [%s], [%s], [%s])" % (lean_s(c["cls"]), ", ".join(lean_s(x) for x in c["containers"]),
                                                ", ".join(lean_s(x) for x in c["sets"]), ", ".join(lean_s(x) for x in c["recopied"]))
                 for c in rep["classes"]) + "]")
    w("")

    def effs(es):
        return "[" + ", ".join(".%s %s" % (k, lean_s(v)) for k, v in es) + "]"
    w("/-- (class, @builder method, effects in source order) -/")
    w("def builderEffects : List (Str × Str × List Eff) := [")
    w(",\n".join("  (%s, %s, %s)" % (lean_s(b["cls"]), lean_s(b["method"]), effs(b["effects"])) for b in rep["builders"]) + "]")
    w("")
    w("/-- (class, helper reached through another object — `do_join` via the Joiner —, effects in source order) -/")
    w("def helperEffects : List (Str × Str × List Eff) := [")
    w(",\n".join("  (%s, %s, %s)" % (lean_s(b["cls"]), lean_s(b["method"]), effs(b["effects"])) for b in rep["helpers"]) + "]")
    w("")
    w("/-- (class, @builder method or helper, attributes of `self` it loads) — query-builder classes only -/")
    w("def builderReads : List (Str × Str × List Str) := [")
    w(",\n".join("  (%s, %s, [%s])" % (lean_s(b["cls"]), lean_s(b["method"]), ", ".join(lean_s(x) for x in b["reads"]))
                 for b in rep["builders"] + rep["helpers"] if b["cls"].endswith("QueryBuilder") and "Create" not in b["cls"]
                 and "Drop" not in b["cls"]) + "]")
    w("")
    w("/-- (class, @builder method, attributes of `self` it loads) — CREATE TABLE builders -/")
    w("def ddlReads : List (Str × Str × List Str) := [")
    w(",\n".join("  (%s, %s, [%s])" % (lean_s(b["cls"]), lean_s(b["method"]), ", ".join(lean_s(x) for x in b["reads"]))
                 for b in rep["builders"] if b["cls"] in ("CreateQueryBuilder", "VerticaCreateQueryBuilder")) + "]")
    w("")
    w("/-- (class, observation method, effects, set-typed attributes it iterates) -/")
    w("def observerEffects : List (Str × Str × List Eff × List Str) := [")
    w(",\n".join("  (%s, %s, %s, [%s])" % (lean_s(o["cls"]), lean_s(o["method"]), effs(o["effects"]),
                                          ", ".join(lean_s(x) for x in o["set_iter"])) for o in rep["observers"]) + "]")
    w("")
    w("/-- (class, attributes walked by nodes_(), attributes rewritten by replace_table()) -/")
    w("def replaceTable : List (Str × List Str × List Str) := [")
    w(",\n".join("  (%s, [%s], [%s])" % (lean_s(r["cls"]), ", ".join(lean_s(x) for x in r["walked"]), ", ".join(lean_s(x) for x in r["replaced"]))
                 for r in rep["replace"]) + "]")
    w("")
    w("end Pypika.Gen")
    return "\n".join(L) + "\n"


def generate():
    from harness import extract
    rep = Analysis(common.REPO).report()
    extract.write_if_changed(os.path.join(extract.GEN_DIR, "Effects.lean"), render(rep))
    extract.write_if_changed(os.path.join(extract.GEN_DIR, "effects.json"), json.dumps(rep, indent=0, sort_keys=True))
    return rep


if __name__ == "__main__":
    rep = generate()
    for b in rep["builders"]:
        cls = next(c for c in rep["classes"] if c["cls"] == b["cls"]) if any(c["cls"] == b["cls"] for c in rep["classes"]) else {"recopied": []}
        bad = [e for e in b["effects"] if e[0] in ("nested", "argwrite", "localwrite") or (e[0] == "inplace" and e[1] not in cls["recopied"])]
        if bad:
            print(b["cls"], b["method"], bad)
    for o in rep["observers"]:
        if o["effects"] or o["set_iter"]:
            print("OBS", o["cls"], o["method"], o["effects"], o["set_iter"])
