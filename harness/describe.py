"""Real pypika objects -> JSON specs understood by the Lean driver (Pypika/Decode.lean).

`describe` reads the attributes of live objects built through the public API, so any
object, however it was constructed, can be handed to the model.  Anything the model does
not cover raises Unsupported (the case is then skipped for the model side and counted).
"""
import datetime
import decimal
import enum
import uuid

from pypika import analytics as an
from pypika import functions as fn
from pypika import terms as T
from pypika import queries as Q
from pypika import dialects as DI
from pypika.enums import Dialects


class Unsupported(Exception):
    pass


QCLS = {
    Q.QueryBuilder: "generic",
    DI.MySQLQueryBuilder: "mysql",
    DI.PostgreSQLQueryBuilder: "postgresql",
    DI.RedShiftQueryBuilder: "redshift",
    DI.OracleQueryBuilder: "oracle",
    DI.MSSQLQueryBuilder: "mssql",
    DI.SQLLiteQueryBuilder: "sqlite",
    DI.VerticaQueryBuilder: "vertica",
    DI.ClickHouseQueryBuilder: "clickhouse",
    DI.SnowflakeQueryBuilder: "snowflake",
}


def d_dialect(d):
    if d is None:
        return None
    if isinstance(d, Dialects):
        return d.value
    raise Unsupported("dialect %r" % (d,))


def _optstr(s):
    if s is None:
        return None
    if not isinstance(s, str):
        raise Unsupported("non-str name %r" % (s,))
    return s


def schema_chain(s):
    out = []
    while s is not None:
        if not isinstance(s, Q.Schema):
            raise Unsupported("schema %r" % (s,))
        out.append(_optstr(s._name))
        s = s._parent
    return list(reversed(out))


def d_tref(t):
    if t is None:
        return None
    if isinstance(t, Q.Table):
        d = {"name": _optstr(t._table_name), "schema": schema_chain(t._schema), "alias": _optstr(t.alias)}
        # a temporal version of the table is another row source (Table.__eq__ compares the text of the criteria)
        if getattr(t, "_for", None):
            d["ver"] = "F:" + str(t._for)
        elif getattr(t, "_for_portion", None):
            d["ver"] = "P:" + str(t._for_portion)
        return d
    if isinstance(t, (Q.QueryBuilder, Q._SetOperation, Q.AliasedQuery)):
        return {"name": None, "schema": [], "alias": _optstr(t.alias)}
    raise Unsupported("field table %r" % type(t))


def d_val(v, sqlite=False):
    if isinstance(v, enum.Enum):
        return d_val(v.value, sqlite)
    if isinstance(v, bool):
        return {"t": "bool", "v": v, "sqlite": sqlite}
    if isinstance(v, (int, float)):
        return {"t": "num", "v": str(v)}
    if isinstance(v, datetime.date):
        return {"t": "str", "v": v.isoformat()}
    if isinstance(v, str):
        return {"t": "str", "v": v}
    if isinstance(v, uuid.UUID):
        return {"t": "str", "v": str(v)}
    if v is None:
        return {"t": "null"}
    if isinstance(v, decimal.Decimal):
        return {"t": "other", "v": str(v)}
    raise Unsupported("value %r" % type(v))


def d_jval(v):
    if isinstance(v, dict):
        out = []
        for k, x in v.items():
            if not isinstance(k, str):
                raise Unsupported("json key %r" % (k,))
            out.append([k, d_jval(x)])
        return {"t": "obj", "v": out}
    if isinstance(v, list):
        return {"t": "arr", "v": [d_jval(x) for x in v]}
    if isinstance(v, str):
        return {"t": "str", "v": v}
    if isinstance(v, bool):
        return {"t": "bool", "v": v}
    if v is None:
        return {"t": "null"}
    if isinstance(v, (int, float)):
        return {"t": "num", "v": str(v)}
    raise Unsupported("json value %r" % type(v))


def d_edge(e):
    if isinstance(e, str):
        if e == "CURRENT ROW":
            return {"t": "current"}
        raise Unsupported("edge str %r" % e)
    if isinstance(e, T.WindowFrameAnalyticFunction.Edge):
        if e.value is not None and (isinstance(e.value, bool) or not isinstance(e.value, int) or e.value < 0):
            raise Unsupported("edge value %r" % (e.value,))
        mod = getattr(e, "modifier", None)
        if mod == "PRECEDING":
            return {"t": "preceding", "n": e.value}
        if mod == "FOLLOWING":
            return {"t": "following", "n": e.value}
    raise Unsupported("edge %r" % (e,))


def d_ord(o):
    return None if o is None else o.name


def d_interval(iv):
    out = {"dialect": d_dialect(iv.dialect)}
    for u in ["years", "months", "days", "hours", "minutes", "seconds", "microseconds", "quarters", "weeks"]:
        v = iv.__dict__.get(u, 0)
        out[u] = v
    # reconstruct the sign: __init__ stores abs() of every field and a single is_negative flag
    if iv.is_negative:
        first = True
        for u in ["years", "months", "days", "hours", "minutes", "seconds", "microseconds"]:
            if out[u] and first:
                out[u] = -out[u]
                first = False
    return out


def d_term(t):
    if isinstance(t, Q.QueryBuilder):
        return {"k": "sub", "q": d_query(t)}
    if isinstance(t, Q._SetOperation):
        return {"k": "setop", "s": d_setop(t)}
    if isinstance(t, T.Interval):
        return {"k": "interval", "iv": d_interval(t)}
    if not isinstance(t, T.Term):
        raise Unsupported("not a term: %r" % type(t))
    al = _optstr(getattr(t, "alias", None))
    c = type(t)
    if isinstance(t, T.Star):
        return {"k": "star", "tbl": d_tref(t.table)}
    if c is T.Field:
        return {"k": "field", "name": _optstr(t.name), "alias": al, "tbl": d_tref(t.table)}
    if isinstance(t, T.ParameterValueWrapper):
        raise Unsupported("ParameterValueWrapper")
    if isinstance(t, T.ValueWrapper):
        sqlite = isinstance(t, DI.SQLLiteValueWrapper)
        if c not in (T.ValueWrapper, DI.SQLLiteValueWrapper):
            raise Unsupported("wrapper class %r" % c)
        if isinstance(t.value, (T.Term, Q.QueryBuilder)):
            return {"k": "wrapped", "t": d_term(t.value), "alias": al}
        return {"k": "val", "v": d_val(t.value, sqlite), "alias": al}
    if isinstance(t, T.LiteralValue):
        return {"k": "lit", "text": _optstr(t._value), "alias": al}
    if c is T.Negative:
        return {"k": "neg", "t": d_term(t.term), "alias": al}
    if c is T.ArithmeticExpression:
        return {"k": "arith", "op": t.operator.name, "l": d_term(t.left), "r": d_term(t.right), "alias": al}
    if c is T.ComplexCriterion:
        return {"k": "complex", "op": t.comparator.name, "l": d_term(t.left), "r": d_term(t.right), "alias": al}
    if c is T.BasicCriterion:
        return {"k": "basic", "cmp": t.comparator.value, "l": d_term(t.left), "r": d_term(t.right), "alias": al}
    if c is T.Not:
        return {"k": "not", "t": d_term(t.term), "alias": al}
    if c is T.ContainsCriterion:
        return {"k": "isin", "t": d_term(t.term), "container": d_term(t.container), "negated": bool(t._is_negated),
                "alias": al}
    if c is T.BetweenCriterion:
        return {"k": "between", "t": d_term(t.term), "lo": d_term(t.start), "hi": d_term(t.end), "alias": al}
    if c is T.PeriodCriterion:
        return {"k": "period", "t": d_term(t.term), "lo": d_term(t.start), "hi": d_term(t.end), "alias": al}
    if c is T.NotNullCriterion:
        return {"k": "notnull", "t": d_term(t.term), "alias": al}
    if c is T.NullCriterion:
        return {"k": "isnull", "t": d_term(t.term), "alias": al}
    if c is T.BitwiseAndCriterion:
        return {"k": "bitand", "t": d_term(t.term), "v": d_term(t.value), "alias": al}
    if c is T.ExistsCriterion:
        return {"k": "exists", "q": d_term(t.container), "negated": bool(t._is_negated)}
    if c is T.All:
        return {"k": "all", "t": d_term(t.term), "alias": al}
    if c is T.Array:
        return {"k": "array", "vs": [d_term(v) for v in t.values], "alias": al}
    if c in (T.Tuple, T.Bracket):
        return {"k": "tuple", "vs": [d_term(v) for v in t.values], "alias": al}
    if c is T.Case:
        return {"k": "case", "whens": [[d_term(w), d_term(x)] for w, x in t._cases],
                "else": None if t._else is None else d_term(t._else), "alias": al}
    if isinstance(t, T.Function):
        return d_func(t, al)
    if c is T.EmptyCriterion:
        return {"k": "empty"}
    if c is T.JSON:
        return {"k": "json", "j": d_jval(t.value), "alias": al}
    if c is T.PseudoColumn:
        return {"k": "pseudo", "name": _optstr(t.name)}
    if c is T.AtTimezone:
        return {"k": "attz", "field": d_term(t.field), "zone": _optstr(t.zone), "interval": bool(t.interval), "alias": al}
    if c is T.Values:
        return {"k": "values", "field": d_term(t.field)}
    if c is T.Index:
        return {"k": "index", "name": _optstr(t.name)}
    if isinstance(t, T.Parameter):
        if isinstance(t, (T.ListParameter, T.DictParameter)):
            raise Unsupported("collector used as a term")
        return {"k": "param", "text": str(t.placeholder), "alias": al}
    raise Unsupported("term class %r" % c)


_FUNC_SQL_OWNERS = None


def d_func(t, al):
    c = type(t)
    mod = c.__module__
    if not (mod.startswith("pypika.terms") or mod.startswith("pypika.functions") or mod.startswith("pypika.analytics")):
        raise Unsupported("function class %r" % c)
    out = {"k": "func", "name": _optstr(t.name), "alias": al, "args": [d_term(a) for a in t.args],
           "distinct": bool(getattr(t, "_distinct", False)) if isinstance(t, fn.DistinctOptionFunction) else False,
           "schema": None, "special": None, "extract_from": None, "filter": None, "over": False, "partition": [],
           "over_order": [], "frame": None,
           "no_parens": isinstance(t, fn.CurTimestamp)}
    if t.schema is not None:
        out["schema"] = schema_chain(t.schema)
    if isinstance(t, fn.Extract):
        out["extract_from"] = d_term(t.field)
    else:
        sp = t.get_special_params_sql()
        if sp:
            out["special"] = sp
    if isinstance(t, T.AggregateFunction) and t._include_filter:
        out["filter"] = d_term(T.Criterion.all(t._filters))
    if isinstance(t, T.AnalyticFunction) and t._include_over:
        part = []
        for p in t._partition:
            part.append(d_term(p) if hasattr(p, "get_sql") else {"k": "lit", "text": str(p), "alias": None})
        out["over"] = True
        out["partition"] = part
        out["over_order"] = [[d_term(f), d_ord(o)] for f, o in t._orderbys]
        if isinstance(t, T.WindowFrameAnalyticFunction) and (t.frame or t.bound):
            b = t.bound
            if isinstance(b, tuple):
                lo, hi = d_edge(b[0]), d_edge(b[1])
            else:
                lo, hi = d_edge(b), None
            out["frame"] = {"kind": t.frame, "lo": lo, "hi": hi}
    return out


def d_src(s):
    if isinstance(s, Q.Table):
        portion, tmp = False, None
        if s._for:
            tmp = d_term(s._for)
        elif s._for_portion:
            portion, tmp = True, d_term(s._for_portion)
        return {"k": "table", "t": d_tref(s), "portion": portion, "temporal": tmp}
    if isinstance(s, Q.QueryBuilder):
        return {"k": "query", "q": d_query(s)}
    if isinstance(s, Q._SetOperation):
        return {"k": "setop", "s": d_setop(s)}
    if isinstance(s, Q.AliasedQuery):
        return {"k": "aliased", "name": _optstr(s.name), "q": None if s.query is None else d_src(s.query)}
    raise Unsupported("source %r" % type(s))


def d_join(j):
    how = j.how.value
    c = type(j)
    if c is Q.JoinOn:
        return {"k": "on", "item": d_src(j.item), "how": how, "crit": d_term(j.criterion),
                "collate": _optstr(j.collate)}
    if c is Q.JoinUsing:
        return {"k": "using", "item": d_src(j.item), "how": how, "fields": [d_term(f) for f in j.fields]}
    if c is Q.Join:
        return {"k": "plain", "item": d_src(j.item), "how": how}
    raise Unsupported("join %r" % c)


def _nat(v, what):
    if v is None:
        return None
    if isinstance(v, bool) or not isinstance(v, int) or v < 0:
        raise Unsupported("%s=%r" % (what, v))
    return v


def d_query(q):
    c = type(q)
    if c not in QCLS:
        raise Unsupported("query class %r" % c)
    g = q.__dict__.get
    fl = {
        "cls": QCLS[c], "dialect": d_dialect(q.dialect), "as_keyword": bool(q.as_keyword),
        "wrap_set_ops": bool(q.wrap_set_operation_queries), "alias": _optstr(q.alias),
        "delete_from": bool(q._delete_from), "replace": bool(q._replace), "distinct": bool(q._distinct),
        "ignore": bool(q._ignore), "for_update": bool(q._for_update), "with_totals": bool(q._with_totals),
        "mysql_rollup": bool(q._mysql_rollup), "select_into": bool(q._select_into),
        "foreign_table": bool(q._foreign_table), "limit": _nat(q._limit, "limit"), "offset": _nat(q._offset, "offset"),
        "force_indexes": [_optstr(i.name) for i in q._force_indexes],
        "use_indexes": [_optstr(i.name) for i in q._use_indexes],
        "ignore_duplicates": bool(g("_ignore_duplicates", False)), "modifiers": list(g("_modifiers", [])),
        "for_update_nowait": bool(g("_for_update_nowait", False)),
        "for_update_skip_locked": bool(g("_for_update_skip_locked", False)),
        "for_update_of": [_optstr(x) for x in g("_for_update_of", [])],
        "on_conflict": bool(g("_on_conflict", False)), "on_conflict_do_nothing": bool(g("_on_conflict_do_nothing", False)),
        "top": _nat(g("_top", None), "top"), "top_percent": bool(g("_top_percent", False)),
        "top_with_ties": bool(g("_top_with_ties", False)),
        "final": g("_final", False) is not False, "sample": _nat(g("_sample", None), "sample"),
        "sample_offset": _nat(g("_sample_offset", None), "sample_offset"),
        "hint": _optstr(g("_hint", None)), "insert_or_replace": bool(g("_insert_or_replace", False)),
        "limit_by": None,
    }
    lb = g("_limit_by", None)
    lbt = []
    if lb:
        fl["limit_by"] = [_nat(lb[0], "limit_by n"), _nat(lb[1], "limit_by offset")]
        lbt = [d_term(x) for x in lb[2]]
    if isinstance(g("_for_update_of", []), (set, frozenset)):
        raise Unsupported("set-typed for_update_of")
    out = {
        "fl": fl,
        "from": [d_src(s) for s in q._from],
        "with": [[_optstr(a.name), d_src(a.query)] for a in q._with],
        "selects": [d_term(t) for t in q._selects],
        "insert_table": None if q._insert_table is None else d_src(q._insert_table),
        "update_table": None if q._update_table is None else d_src(q._update_table),
        "columns": [d_term(t) for t in q._columns],
        "values": [[d_term(t) for t in row] for row in q._values],
        "wheres": None if not q._wheres else d_term(q._wheres),
        "prewheres": None if not q._prewheres else d_term(q._prewheres),
        "havings": None if not q._havings else d_term(q._havings),
        "groupbys": [d_term(t) for t in q._groupbys],
        "orderbys": [[d_term(t), d_ord(o)] for t, o in q._orderbys],
        "joins": [d_join(j) for j in q._joins],
        "updates": [[d_term(f), d_term(v)] for f, v in q._updates],
        "using": [d_src(s) if not isinstance(s, str) else _unsup("str using") for s in q._using],
        "duplicate_updates": [[d_term(f), d_term(v)] for f, v in g("_duplicate_updates", [])],
        "returns": [d_term(t) for t in g("_returns", [])],
        "on_conflict_fields": [d_term(t) for t in g("_on_conflict_fields", [])],
        "on_conflict_do_updates": [[d_term(f), None if v is None else d_term(v)]
                                   for f, v in g("_on_conflict_do_updates", [])],
        "on_conflict_wheres": None if not g("_on_conflict_wheres", None) else d_term(q._on_conflict_wheres),
        "on_conflict_do_update_wheres": None if not g("_on_conflict_do_update_wheres", None)
        else d_term(q._on_conflict_do_update_wheres),
        "distinct_on": [d_term(t) for t in g("_distinct_on", [])],
        "limit_by_terms": lbt,
    }
    return out


def _unsup(msg):
    raise Unsupported(msg)


def d_setop(s):
    ops = []
    for op, q in s._set_operation:
        if not isinstance(q, Q.QueryBuilder):
            raise Unsupported("set operand %r" % type(q))
        ops.append([op.value, d_query(q)])
    return {"base": d_query(s.base_query), "ops": ops,
            "orderbys": [[d_term(t), d_ord(o)] for t, o in s._orderbys],
            "limit": _nat(s._limit, "limit"), "offset": _nat(s._offset, "offset"), "alias": _optstr(s.alias)}


def d_ctx(kwargs, param=False):
    """kwargs of a get_sql call -> JSON ctx"""
    k = dict(kwargs)
    out = {"param": bool(param)}
    for key, has in [("quote_char", "has_quote_char"), ("secondary_quote_char", "has_secondary"),
                     ("alias_quote_char", "has_alias_quote_char"), ("dialect", "has_dialect")]:
        if key in k:
            v = k.pop(key)
            out[has] = True
            out[key] = d_dialect(v) if key == "dialect" else v
            if key != "dialect" and v is not None and (not isinstance(v, str) or len(v) > 1):
                raise Unsupported("quote %r" % (v,))
        else:
            out[has] = False
    if "as_keyword" in k:
        out["as_keyword"] = bool(k.pop("as_keyword"))
    for key in ["with_alias", "with_namespace", "subquery", "subcriterion"]:
        if key in k:
            out[key] = bool(k.pop(key))
    if "groupby_alias" in k:
        out["groupby_alias"] = bool(k.pop("groupby_alias"))
    k.pop("parameter", None)
    if k:
        raise Unsupported("kwargs %r" % sorted(k))
    return out


def describe(obj):
    """top-level: a term-like object (Term, QueryBuilder, _SetOperation, Interval)"""
    return d_term(obj)
