"""Builder-call tracing: every `@builder` call a check makes on a real QueryBuilder is also run through the Lean
model of the method (`lean/Pypika/Builder.lean`, driver operation `bstep`).

While a check examines a case (`with trace.recording(): …`), thin wrappers around the real methods record, *before* the
call, the receiver's state (`describe.d_query` + the bookkeeping attributes) and the described arguments, then call the
real method unchanged, and record the real result (or the exception class).  Nothing is rendered at trace time: only
attributes are read, so a check that is sensitive to the first rendering of an object is not disturbed.  At the end
`requests()` yields, per recorded call, a driver request together with the expected answer:

  * the real call raised            -> the model must raise the same exception class;
  * the real call returned a query  -> the model's post-state, rendered, must equal the rendering (by the model) of the
                                      state read from the real result, and the bookkeeping attributes must be equal.

The wrappers are installed once per process and are inert outside `recording()`.
"""
import contextlib
import datetime
import decimal
import enum
import json
import uuid

from harness import common  # noqa: F401
from harness import describe
from harness.describe import Unsupported

from pypika import queries as Q
from pypika import dialects as DI
from pypika import terms as T
from pypika.enums import JoinType, Order

ACTIVE = None          # the list records go to while recording
_DEPTH = [0]
MAX_RECORDS = 60       # per recording


def _hidden(q):
    stars = []
    for t in q._select_star_tables:
        stars.append(describe.d_tref(t))
    stars.sort(key=lambda x: json.dumps(x, sort_keys=True))
    return {"select_star": bool(q._select_star), "star_tables": stars, "sub_count": int(q._subquery_count),
            "return_star": bool(q.__dict__.get("_return_star", False))}


def d_state(q):
    out = _hidden(q)
    out["q"] = describe.d_query(q)
    return out


def d_arg(x):
    if isinstance(x, (T.Node,)):
        return {"k": "term", "t": describe.d_term(x)}
    if isinstance(x, str) and not isinstance(x, enum.Enum):
        return {"k": "str", "s": x}
    if isinstance(x, list):
        return {"k": "list", "xs": [d_arg(y) for y in x]}
    if isinstance(x, tuple):
        return {"k": "tuple", "xs": [d_arg(y) for y in x]}
    if x is None or isinstance(x, (bool, int, float, decimal.Decimal, datetime.date, uuid.UUID, enum.Enum)):
        return {"k": "const", "v": describe.d_val(x)}
    raise Unsupported("argument %r" % type(x))


def _nat(v, what):
    if isinstance(v, bool) or not isinstance(v, int) or v < 0:
        raise Unsupported("%s=%r" % (what, v))
    return v


def _optnat(v, what):
    return None if v is None else _nat(v, what)


def _src_or_str(x):
    """an argument that the method turns into `Table(x)` when it is a str"""
    if isinstance(x, str):
        return {"k": "table", "t": {"name": x, "schema": [], "alias": None}, "portion": False, "temporal": None}
    return describe.d_src(x)


def _has_setop_identity(q, extra=()):
    items = list(q._from) + [q._update_table] + [j.item for j in q._joins] + list(extra)
    return any(isinstance(i, Q._SetOperation) for i in items)


def _field_tables(args):
    out = []
    for a in args:
        if isinstance(a, T.Node):
            for n in a.nodes_():
                if isinstance(n, T.Field):
                    out.append(n.table)
    return out


def _identity_guard(q, args, extra=()):
    """the model compares tables through (name, schema chain, alias, temporal version); shapes whose Python equality looks at
    more are left to the other ties"""
    if _has_setop_identity(q, extra):
        raise Unsupported("set operation among the sources (identity)")
    for t in _field_tables(args):
        if isinstance(t, Q._SetOperation):
            raise Unsupported("field of a set operation (identity)")
        if isinstance(t, Q.AliasedQuery):
            for s in list(q._from) + [j.item for j in q._joins]:
                if isinstance(s, Q.QueryBuilder) and s.alias == t.name:
                    raise Unsupported("named query and sub-query with one name (identity)")



_UNNAMED = '"tbl": {"name": null, "schema": [], "alias": null}'


def _unnamed_subquery_guard(pre, item):
    """a call that names an un-aliased sub-query OBJECT renames every field already bound to that object; the syntax tree
    has no object identity, so such cases are left to the other ties"""
    if isinstance(item, (Q.QueryBuilder, Q._SetOperation)) and item.alias is None and pre is not None and \
            _UNNAMED in json.dumps(pre.get("q")):
        raise Unsupported("field of a not-yet-named sub-query (object identity)")


def encode_call(q, name, args, kw):
    """(method, args, kwargs) of a real call -> JSON for `dBCall`; raises Unsupported for what the model leaves out"""
    a = list(args)
    if name == "from_":
        if kw or len(a) != 1:
            raise Unsupported("from_ signature")
        x = a[0]
        if isinstance(x, str):
            return {"m": "from_str", "name": x}
        if isinstance(x, Q.Query.__class__) or isinstance(x, type):
            raise Unsupported("from_(class)")
        sub = x._subquery_count if isinstance(x, Q.QueryBuilder) else 0
        return {"m": "from_", "src": describe.d_src(x), "sub_count": int(sub)}
    if name == "with_":
        sel, nm = (a + [kw.get("name")])[:2] if len(a) < 2 else a[:2]
        if not isinstance(nm, str):
            raise Unsupported("with_ name")
        return {"m": "with_", "src": describe.d_src(sel), "name": nm}
    if name in ("into", "update"):
        if len(a) != 1 or kw:
            raise Unsupported(name + " signature")
        return {"m": name, "src": _src_or_str(a[0])}
    if name == "select":
        if kw:
            raise Unsupported("select kwargs")
        _identity_guard(q, a)
        return {"m": "select", "args": [d_arg(x) for x in a]}
    if name in ("delete", "distinct", "ignore", "with_totals", "on_duplicate_key_ignore", "do_nothing", "final"):
        if a or kw:
            raise Unsupported(name + " signature")
        return {"m": name}
    if name in ("columns", "insert", "replace", "insert_or_replace", "distinct_on", "on_conflict"):
        if kw:
            raise Unsupported(name + " kwargs")
        if name in ("insert", "replace", "insert_or_replace") and a and isinstance(a[0], (set, frozenset)):
            raise Unsupported("row given as a set")
        return {"m": name, "args": [d_arg(x) for x in a]}
    if name in ("force_index", "use_index"):
        names = []
        for x in a:
            if isinstance(x, T.Index):
                names.append(describe._optstr(x.name))
            elif isinstance(x, str):
                names.append(x)
        if kw:
            raise Unsupported(name + " kwargs")
        return {"m": name, "names": names}
    if name == "for_update":
        if type(q) in (DI.MySQLQueryBuilder, DI.PostgreSQLQueryBuilder):
            names = ["nowait", "skip_locked", "of"]
            vals = dict(zip(names, a))
            vals.update(kw)
            of = list(vals.get("of", ()))
            if not all(isinstance(x, str) for x in of):
                raise Unsupported("for_update of")
            return {"m": "for_update_ex", "nowait": bool(vals.get("nowait", False)),
                    "skip_locked": bool(vals.get("skip_locked", False)), "of": of}
        if a or kw:
            raise Unsupported("for_update signature")
        return {"m": "for_update"}
    if name in ("where", "prewhere", "having"):
        if len(a) != 1 or kw or not isinstance(a[0], T.Node):
            raise Unsupported(name + " signature")
        if name != "having":
            _identity_guard(q, a)
        return {"m": name, "c": describe.d_term(a[0])}
    if name == "groupby":
        if kw:
            raise Unsupported("groupby kwargs")
        for x in a:
            if not isinstance(x, (str, T.Node)) and not (isinstance(x, int)):
                raise Unsupported("groupby argument %r" % type(x))
        return {"m": "groupby", "args": [d_arg(x) for x in a]}
    if name == "rollup":
        if set(kw) - {"vendor"}:
            raise Unsupported("rollup kwargs")
        if any(isinstance(x, (set, frozenset)) for x in a):
            raise Unsupported("rollup set")
        return {"m": "rollup", "args": [d_arg(x) for x in a], "mysql": kw.get("vendor") == "mysql"}
    if name == "orderby":
        if set(kw) - {"order"}:
            raise Unsupported("orderby kwargs")
        o = kw.get("order")
        if o is not None and not isinstance(o, Order):
            raise Unsupported("order %r" % (o,))
        return {"m": "orderby", "args": [d_arg(x) for x in a], "order": describe.d_ord(o)}
    if name in ("limit", "offset", "fetch_next"):
        if len(a) != 1 or kw:
            raise Unsupported(name + " signature")
        # fetch_next(n) (Oracle / MSSQL, deprecated) writes the limit like limit(n)
        return {"m": "limit" if name == "fetch_next" else name, "n": _nat(a[0], name)}
    if name == "slice":
        sl = a[0]
        if sl.step is not None:
            raise Unsupported("slice step")
        return {"m": "slice", "start": _optnat(sl.start, "start"), "stop": _optnat(sl.stop, "stop")}
    if name in ("set", "on_duplicate_key_update"):
        if len(a) != 2 or kw:
            raise Unsupported(name + " signature")
        f, v = a
        if not isinstance(f, str) and type(f) not in (T.Field, T.Star):
            raise Unsupported(name + " field %r" % type(f))
        if isinstance(v, (list, tuple, dict, set)):
            raise Unsupported(name + " value %r" % type(v))
        return {"m": name, "field": d_arg(f), "value": d_arg(v)}
    if name == "do_update":
        vals = dict(zip(["update_field", "update_value"], a))
        vals.update(kw)
        f, v = vals.get("update_field"), vals.get("update_value")
        if isinstance(v, (list, tuple, dict, set)):
            raise Unsupported("do_update value %r" % type(v))
        if not isinstance(f, (str, T.Node)):
            raise Unsupported("do_update field %r" % type(f))
        return {"m": "do_update", "field": d_arg(f), "value": None if v is None else d_arg(v)}
    if name == "returning":
        if kw:
            raise Unsupported("returning kwargs")
        _identity_guard(q, a, extra=[q._insert_table])
        out = []
        for x in a:
            # the flag the method reads: `term.is_aggregate` of any Term that is not a plain Field / a string
            agg = bool(x.is_aggregate) if isinstance(x, T.Term) and not isinstance(x, T.Field) else False
            out.append({"a": d_arg(x), "agg": agg})
        return {"m": "returning", "args": out}
    if name == "modifier":
        return {"m": "modifier", "value": describe._optstr(a[0])}
    if name == "using":
        if isinstance(a[0], str):
            raise Unsupported("using(str)")
        return {"m": "using", "src": describe.d_src(a[0])}
    if name == "top":
        vals = dict(zip(["value", "percent", "with_ties"], a))
        vals.update(kw)
        v = vals.get("value")
        try:
            iv = int(v)
        except ValueError:
            iv = None
        except TypeError:
            raise Unsupported("top value %r" % (v,))
        return {"m": "top", "value": iv, "percent": bool(vals.get("percent", False)),
                "with_ties": bool(vals.get("with_ties", False))}
    if name == "sample":
        vals = dict(zip(["sample", "offset"], a))
        vals.update(kw)
        return {"m": "sample", "n": _nat(vals.get("sample"), "sample"), "offset": _optnat(vals.get("offset"), "offset")}
    if name in ("limit_by", "limit_offset_by"):
        if kw:
            raise Unsupported(name + " kwargs")
        if name == "limit_by":
            n, off, by = a[0], 0, a[1:]
        else:
            n, off, by = a[0], a[1], a[2:]
        return {"m": "limit_by", "n": _nat(n, "n"), "offset": _nat(off, "offset"), "by": [d_arg(x) for x in by]}
    if name == "hint":
        return {"m": "hint", "label": describe._optstr(a[0])}
    raise Unsupported("method %s" % name)


BUILDER_METHODS = [
    "from_", "with_", "into", "select", "delete", "update", "columns", "insert", "replace", "insert_or_replace",
    "force_index", "use_index", "distinct", "for_update", "ignore", "with_totals", "prewhere", "where", "having",
    "groupby", "rollup", "orderby", "limit", "offset", "slice", "set", "on_duplicate_key_update",
    "on_duplicate_key_ignore", "modifier", "distinct_on", "on_conflict", "do_nothing", "do_update", "using", "top",
    "final", "sample", "limit_by", "limit_offset_by", "hint", "returning", "fetch_next",
]
JOINER_METHODS = ["on", "on_field", "using", "cross"]
# other @builder methods: calls made from inside them must not be recorded as calls of the check
OPAQUE_METHODS = ["join", "replace_table"]
SETOP_CTORS = ["union", "union_all", "intersect", "except_of", "minus"]
SETOP_METHODS = ["orderby", "limit", "offset", "union", "union_all", "intersect", "except_of", "minus"]


# ------------------------------------------------------------------ CREATE TABLE builder (DDLBuilder.lean, driver op `cstep`)

CREATE_METHODS = ["create_table", "temporary", "unlogged", "with_system_versioning", "if_not_exists", "columns", "period_for",
                  "unique", "primary_key", "foreign_key", "as_select", "local", "preserve_rows"]


def d_create(b):
    from harness.props import c17
    return c17.d_create(b)


def _colname(c):
    if isinstance(c, str):
        return c
    if isinstance(c, Q.Column):
        return describe._optstr(c.name)
    raise Unsupported("column %r" % type(c))


def _tref_or_str(t):
    if isinstance(t, str):
        return {"name": t, "schema": [], "alias": None}
    if isinstance(t, Q.Table):
        if t._for or t._for_portion:
            raise Unsupported("temporal table in DDL")
        return describe.d_tref(t)
    raise Unsupported("table %r" % type(t))


def encode_create_call(b, name, args, kw):
    a = list(args)
    if name in ("temporary", "unlogged", "with_system_versioning", "if_not_exists", "local", "preserve_rows"):
        if a or kw:
            raise Unsupported(name + " signature")
        return {"m": name}
    if name == "create_table":
        return {"m": name, "t": _tref_or_str(a[0] if a else kw["table"])}
    if name == "columns":
        if kw:
            raise Unsupported("columns kwargs")
        cs = []
        for c in a:
            if isinstance(c, str):
                cs.append({"k": "name", "n": c})
            elif isinstance(c, tuple):
                if len(c) < 2 or not isinstance(c[0], str):
                    raise Unsupported("column tuple")
                cs.append({"k": "pair", "n": c[0], "t": str(c[1])})
            elif isinstance(c, Q.Column):
                cs.append({"k": "col", "c": {"name": describe._optstr(c.name), "type": None if c.type is None else str(c.type),
                                             "nullable": c.nullable, "default": None if not c.default else describe.d_term(c.default)}})
            else:
                raise Unsupported("column %r" % type(c))
        return {"m": "columns", "cs": cs}
    if name == "period_for":
        vals = dict(zip(["name", "start_column", "end_column"], a))
        vals.update(kw)
        return {"m": name, "name": describe._optstr(vals["name"]), "start": _colname(vals["start_column"]), "stop": _colname(vals["end_column"])}
    if name in ("unique", "primary_key"):
        if kw:
            raise Unsupported(name + " kwargs")
        return {"m": name, "cols": [_colname(c) for c in a]}
    if name == "foreign_key":
        vals = dict(zip(["columns", "reference_table", "reference_columns", "on_delete", "on_update"], a))
        vals.update(kw)
        od, ou = vals.get("on_delete"), vals.get("on_update")
        return {"m": name, "cols": [_colname(c) for c in vals["columns"]], "ref": _tref_or_str(vals["reference_table"]),
                "ref_cols": [_colname(c) for c in vals["reference_columns"]],
                "on_delete": None if not od else od.value, "on_update": None if not ou else ou.value}
    if name == "as_select":
        qb = a[0] if a else kw.get("query_builder")
        return {"m": name, "q": describe.d_query(qb) if isinstance(qb, Q.QueryBuilder) else None}
    raise Unsupported("method %s" % name)


def _wrap_create(cls, name):
    orig = cls.__dict__[name]

    def wrapper(self, *args, **kw):
        if ACTIVE is None or _DEPTH[0] > 0 or len(ACTIVE) >= MAX_RECORDS or not isinstance(self, Q.CreateQueryBuilder):
            _DEPTH[0] += 1
            try:
                return orig(self, *args, **kw)
            finally:
                _DEPTH[0] -= 1
        rec = _Rec()
        rec.skip = None
        rec.label = "%s.%s" % (type(self).__name__, name)
        rec.result = rec.exc = rec.pre = rec.call = None
        rec.post = None
        rec.dialect = "create"
        try:
            rec.call = encode_create_call(self, name, args, kw)
            rec.pre = d_create(self)
        except Unsupported as e:
            rec.skip = str(e)[:50]
        except Exception as e:
            rec.skip = "describe: %s" % type(e).__name__
        ACTIVE.append(rec)
        _DEPTH[0] += 1
        try:
            out = orig(self, *args, **kw)
            rec.result = out
            rec.post = _read_post(rec, out)
            return out
        except Exception as e:
            rec.exc = type(e).__name__
            raise
        finally:
            _DEPTH[0] -= 1
    wrapper.__wrapped__ = orig
    wrapper.__name__ = name
    setattr(cls, name, wrapper)


# ------------------------------------------------------------------ set operations (Builder.lean `stepS` / `mkSetOp`, driver op `sstep`)

def _setop_name(name):
    from pypika.enums import SetOperation
    return getattr(SetOperation, name).value


def _wrap_setop(cls, name, ctor):
    orig = cls.__dict__[name]

    def wrapper(self, *args, **kw):
        ok_recv = isinstance(self, Q.QueryBuilder) if ctor else isinstance(self, Q._SetOperation)
        if ACTIVE is None or _DEPTH[0] > 0 or len(ACTIVE) >= MAX_RECORDS or not ok_recv:
            _DEPTH[0] += 1
            try:
                return orig(self, *args, **kw)
            finally:
                _DEPTH[0] -= 1
        rec = _Rec()
        rec.skip = None
        rec.label = "%s.%s" % ("QueryBuilder" if ctor else "_SetOperation", name)
        rec.result = rec.exc = rec.pre = rec.call = None
        rec.post = None
        rec.dialect = "setop"
        try:
            if name in SETOP_CTORS:
                other = args[0] if args else kw.get("other")
                if not isinstance(other, Q.QueryBuilder):
                    raise Unsupported("set operand %r" % type(other))
                call = {"m": "op", "name": _setop_name(name), "other": describe.d_query(other)}
                if ctor:
                    rec.pre = {"from_query": describe.d_query(self), "name": call["name"], "other": call["other"]}
                    rec.call = []
                else:
                    rec.pre = {"st": describe.d_setop(self)}
                    rec.call = [call]
            else:
                rec.pre = {"st": describe.d_setop(self)}
                if name == "orderby":
                    if set(kw) - {"order"}:
                        raise Unsupported("orderby kwargs")
                    o = kw.get("order")
                    if o is not None and not isinstance(o, Order):
                        raise Unsupported("order %r" % (o,))
                    f0 = self.base_query._from[0] if self.base_query._from else None
                    if isinstance(f0, Q._SetOperation):
                        raise Unsupported("orderby base (identity)")
                    rec.call = [{"m": "orderby", "args": [d_arg(x) for x in args], "order": describe.d_ord(o)}]
                else:
                    rec.call = [{"m": name, "n": _nat(args[0], name)}]
        except Unsupported as e:
            rec.skip = str(e)[:50]
        except Exception as e:
            rec.skip = "describe: %s" % type(e).__name__
        ACTIVE.append(rec)
        _DEPTH[0] += 1
        try:
            out = orig(self, *args, **kw)
            rec.result = out
            rec.post = _read_post(rec, out)
            return out
        except Exception as e:
            rec.exc = type(e).__name__
            raise
        finally:
            _DEPTH[0] -= 1
    wrapper.__wrapped__ = orig
    wrapper.__name__ = name
    setattr(cls, name, wrapper)


# ------------------------------------------------------------------ term-level builders (Builder.lean `stepT`, driver op `tstep`)

TERM_CTX = {"quote_char": '"', "secondary_quote_char": "'", "with_alias": True, "with_namespace": True}


def encode_term_call(t, name, args, kw):
    a = list(args)
    if name == "as_":
        al = a[0] if a else kw.get("alias")
        if al is not None and not isinstance(al, str):
            raise Unsupported("alias %r" % (al,))
        return {"m": "as_", "alias": al}
    if name == "when":
        vals = dict(zip(["criterion", "term"], a))
        vals.update(kw)
        if not isinstance(vals["criterion"], T.Node):
            raise Unsupported("when criterion %r" % type(vals["criterion"]))
        return {"m": "when", "crit": describe.d_term(vals["criterion"]), "val": d_arg(vals["term"])}
    if name == "else_":
        return {"m": "else_", "val": d_arg(a[0] if a else kw.get("term"))}
    if name == "filter":
        if kw or not all(isinstance(x, T.Node) for x in a):
            raise Unsupported("filter arguments")
        return {"m": "filter", "cs": [describe.d_term(x) for x in a]}
    if name == "over":
        if kw:
            raise Unsupported("over kwargs")
        terms = [describe.d_term(p) if hasattr(p, "get_sql") else {"k": "lit", "text": str(p), "alias": None} for p in a]
        return {"m": "over", "terms": terms}
    if name == "orderby":
        if set(kw) - {"order"} or not all(isinstance(x, T.Node) for x in a):
            raise Unsupported("orderby arguments")
        o = kw.get("order")
        if o is not None and not isinstance(o, Order):
            raise Unsupported("order %r" % (o,))
        return {"m": "orderby", "terms": [describe.d_term(x) for x in a], "order": describe.d_ord(o)}
    if name in ("rows", "range"):
        vals = dict(zip(["bound", "and_bound"], a))
        vals.update(kw)
        hi = vals.get("and_bound")
        return {"m": "frame", "kind": name.upper(), "lo": describe.d_edge(vals["bound"]), "hi": describe.d_edge(hi) if hi else None}
    if name in ("ignore_nulls", "distinct"):
        if a or kw:
            raise Unsupported(name + " signature")
        return {"m": name}
    raise Unsupported("method %s" % name)


def _wrap_term(cls, name):
    orig = cls.__dict__[name]

    def wrapper(self, *args, **kw):
        if ACTIVE is None or _DEPTH[0] > 0 or len(ACTIVE) >= MAX_RECORDS or isinstance(self, (Q.QueryBuilder, Q._SetOperation)) \
                or not isinstance(self, T.Term):
            _DEPTH[0] += 1
            try:
                return orig(self, *args, **kw)
            finally:
                _DEPTH[0] -= 1
        rec = _Rec()
        rec.skip = None
        rec.label = "%s.%s" % (type(self).__name__, name)
        rec.result = rec.exc = rec.pre = rec.call = None
        rec.post = None
        rec.dialect = "term"
        try:
            rec.call = encode_term_call(self, name, args, kw)
            rec.pre = describe.d_term(self)
        except Unsupported as e:
            rec.skip = str(e)[:50]
        except Exception as e:
            rec.skip = "describe: %s" % type(e).__name__
        ACTIVE.append(rec)
        _DEPTH[0] += 1
        try:
            out = orig(self, *args, **kw)
            rec.result = out
            rec.post = _read_post(rec, out)
            return out
        except Exception as e:
            rec.exc = type(e).__name__
            raise
        finally:
            _DEPTH[0] -= 1
    wrapper.__wrapped__ = orig
    wrapper.__name__ = name
    setattr(cls, name, wrapper)

_INSTALLED = [False]


class _Rec:
    __slots__ = ("pre", "call", "label", "result", "exc", "skip", "dialect", "post")



def _read_post(rec, out):
    """the state of the real result, read right after the call (attributes only): a later call that writes onto an argument
    (the listed auto-alias findings) must not be mistaken for an effect of this one"""
    try:
        if rec.dialect == "create":
            return d_create(out) if isinstance(out, Q.CreateQueryBuilder) else None
        if rec.dialect == "setop":
            return describe.d_setop(out) if isinstance(out, Q._SetOperation) else None
        if rec.dialect == "term":
            return describe.d_term(out) if isinstance(out, T.Term) else None
        return d_state(out) if isinstance(out, Q.QueryBuilder) else None
    except Unsupported as e:
        return Unsupported(str(e))
    except Exception as e:
        return Unsupported("describe: %s" % type(e).__name__)


def _wrap_builder(cls, name):
    orig = cls.__dict__[name]

    def wrapper(self, *args, **kw):
        if ACTIVE is None or _DEPTH[0] > 0 or len(ACTIVE) >= MAX_RECORDS or not isinstance(self, Q.QueryBuilder):
            _DEPTH[0] += 1
            try:
                return orig(self, *args, **kw)
            finally:
                _DEPTH[0] -= 1
        rec = _Rec()
        rec.skip = None
        rec.label = "%s.%s" % (type(self).__name__, name)
        rec.result = rec.exc = rec.pre = rec.call = None
        rec.post = None
        rec.dialect = self.dialect
        try:
            rec.call = encode_call(self, name, args, kw)
            rec.pre = d_state(self)
            if name == "from_" and args:
                _unnamed_subquery_guard(rec.pre, args[0])
        except Unsupported as e:
            rec.skip = str(e)[:50]
        except Exception as e:   # an object the describer cannot read is not a statement about the builder
            rec.skip = "describe: %s" % type(e).__name__
        ACTIVE.append(rec)
        _DEPTH[0] += 1
        try:
            out = orig(self, *args, **kw)
            rec.result = out
            rec.post = _read_post(rec, out)
            return out
        except Exception as e:
            rec.exc = type(e).__name__
            raise
        finally:
            _DEPTH[0] -= 1
    wrapper.__wrapped__ = orig
    wrapper.__name__ = name
    wrapper.__doc__ = getattr(orig, "__doc__", None)
    setattr(cls, name, wrapper)


def _wrap_opaque(cls, name):
    orig = cls.__dict__[name]

    def wrapper(self, *args, **kw):
        if ACTIVE is None or _DEPTH[0] > 0 or name != "join" or not isinstance(self, Q.QueryBuilder):
            _DEPTH[0] += 1
            try:
                return orig(self, *args, **kw)
            finally:
                _DEPTH[0] -= 1
        # join(): remember the receiver's state and the item as they were before the call; the Joiner method completes it
        pre = item = skip = None
        vals = dict(zip(["item", "how"], args))
        vals.update(kw)
        try:
            it = vals.get("item")
            _identity_guard(self, [], extra=[it])
            if isinstance(it, Q.Table) and it.alias is None and any(isinstance(x, Q.Table) and x == it for x in list(self._from) + [self._update_table]):
                # do_join renames the joined Table OBJECT (`<name>2`): every field bound to that object follows, which a
                # syntax tree without object identity cannot express (the write onto the argument is a listed C01 finding)
                raise Unsupported("same table joined again (object identity)")
            item = describe.d_src(it)
            pre = d_state(self)
            _unnamed_subquery_guard(pre, it)
        except Unsupported as e:
            skip = str(e)[:50]
        except Exception as e:
            skip = "describe: %s" % type(e).__name__
        _DEPTH[0] += 1
        try:
            joiner = orig(self, *args, **kw)
        finally:
            _DEPTH[0] -= 1
        if isinstance(joiner, Q.Joiner):
            joiner._verif = (pre, item, vals.get("how", JoinType.inner), skip, type(self).__name__, self.dialect)
        return joiner
    wrapper.__wrapped__ = orig
    wrapper.__name__ = name
    setattr(cls, name, wrapper)


def _wrap_joiner(name):
    orig = Q.Joiner.__dict__[name]

    def wrapper(self, *args, **kw):
        info = self.__dict__.pop("_verif", None)     # a Joiner completed twice is outside the model
        if ACTIVE is None or _DEPTH[0] > 0 or info is None or len(ACTIVE) >= MAX_RECORDS:
            _DEPTH[0] += 1
            try:
                return orig(self, *args, **kw)
            finally:
                _DEPTH[0] -= 1
        pre, item, how, skip, clsname, dialect = info
        rec = _Rec()
        rec.skip = skip
        rec.label = "%s.join().%s" % (clsname, name)
        rec.result = rec.exc = None
        rec.post = None
        rec.pre = pre
        rec.call = None
        rec.dialect = dialect
        if skip is None:
            try:
                call = {"m": "join", "item": item, "how": how.value if isinstance(how, JoinType) else _unsup("how")}
                if name == "on":
                    vals = dict(zip(["criterion", "collate"], args))
                    vals.update(kw)
                    c = vals.get("criterion")
                    call.update({"kind": "on", "crit": None if c is None else describe.d_term(c),
                                 "collate": describe._optstr(vals.get("collate"))})
                    if c is not None:
                        _identity_guard(self.query, [c])
                elif name in ("on_field", "using"):
                    if kw or not all(isinstance(x, str) for x in args):
                        raise Unsupported(name + " arguments")
                    call.update({"kind": name, "names": list(args)})
                    if name == "on_field" and self.query._from:
                        f0 = self.query._from[0]
                        if isinstance(f0, Q._SetOperation):
                            raise Unsupported("on_field base (identity)")
                else:
                    call.update({"kind": "cross"})
                rec.call = call
            except Unsupported as e:
                rec.skip = str(e)[:50]
            except Exception as e:
                rec.skip = "describe: %s" % type(e).__name__
        ACTIVE.append(rec)
        _DEPTH[0] += 1
        try:
            out = orig(self, *args, **kw)
            rec.result = out
            rec.post = _read_post(rec, out)
            return out
        except Exception as e:
            rec.exc = type(e).__name__
            raise
        finally:
            _DEPTH[0] -= 1
    wrapper.__wrapped__ = orig
    wrapper.__name__ = name
    setattr(Q.Joiner, name, wrapper)


def _unsup(msg):
    raise Unsupported(msg)


def install():
    if _INSTALLED[0]:
        return
    _INSTALLED[0] = True
    classes = [Q.QueryBuilder] + [c for c in describe.QCLS if c is not Q.QueryBuilder] + [DI.FetchNextAndOffsetRowsQueryBuilder]
    for cls in classes:
        for name in BUILDER_METHODS:
            if name in cls.__dict__:
                _wrap_builder(cls, name)
        for name in OPAQUE_METHODS:
            if name in cls.__dict__:
                _wrap_opaque(cls, name)
    for name in JOINER_METHODS:
        _wrap_joiner(name)
    from pypika import functions as _fn
    for cls, names in ((T.Term, ["as_"]), (T.Case, ["when", "else_"]), (T.AggregateFunction, ["filter"]),
                       (T.AnalyticFunction, ["over", "orderby"]), (T.WindowFrameAnalyticFunction, ["rows", "range"]),
                       (T.IgnoreNullsAnalyticFunction, ["ignore_nulls"]), (_fn.DistinctOptionFunction, ["distinct"])):
        for name in names:
            if name in cls.__dict__:
                _wrap_term(cls, name)
    for name in SETOP_CTORS:
        _wrap_setop(Q.QueryBuilder, name, True)
    for name in SETOP_METHODS:
        _wrap_setop(Q._SetOperation, name, False)
    for cls in (Q.CreateQueryBuilder, DI.VerticaCreateQueryBuilder):
        for name in CREATE_METHODS:
            if name in cls.__dict__:
                _wrap_create(cls, name)


@contextlib.contextmanager
def recording():
    """collect the builder calls made inside the block"""
    global ACTIVE
    install()
    prev = ACTIVE
    ACTIVE = []
    box = Recording(ACTIVE)
    try:
        yield box
    finally:
        ACTIVE = prev


class Recording:
    def __init__(self, recs):
        self.recs = recs

    def requests(self, stats=None):
        """[(driver request, expected answer, label)] for the recorded calls the model covers"""
        out = []
        for rec in self.recs:
            tag = "bstep=" + rec.label.split(".", 1)[1]
            if rec.skip is not None or rec.call is None or rec.pre is None:
                if stats is not None:
                    stats["bstep-skipped:" + (rec.skip or "?")[:30]] = stats.get("bstep-skipped:" + (rec.skip or "?")[:30], 0) + 1
                continue
            if rec.dialect == "term":
                try:
                    req = {"op": "tstep", "ctx": describe.d_ctx(TERM_CTX), "st": rec.pre, "call": rec.call}
                    if rec.exc is not None:
                        exp = {"exc": rec.exc}
                    elif isinstance(rec.result, T.Term):
                        if isinstance(rec.post, Unsupported):
                            raise rec.post
                        req["post"] = rec.post
                        exp = {"agree": True}
                    else:
                        continue
                except Unsupported as e:
                    if stats is not None:
                        k = "bstep-skipped:" + str(e)[:30]
                        stats[k] = stats.get(k, 0) + 1
                    continue
                if stats is not None:
                    stats["bstep=term." + rec.label.split(".", 1)[1]] = stats.get("bstep=term." + rec.label.split(".", 1)[1], 0) + 1
                out.append((req, exp, "model of %s vs the real call" % rec.label))
                continue
            if rec.dialect == "setop":
                try:
                    req = dict(rec.pre, op="sstep", calls=rec.call)
                    if rec.exc is not None:
                        exp = {"exc": rec.exc}
                    elif isinstance(rec.result, Q._SetOperation):
                        if isinstance(rec.post, Unsupported):
                            raise rec.post
                        req["post"] = rec.post
                        exp = {"agree": True}
                    else:
                        continue
                except Unsupported as e:
                    if stats is not None:
                        k = "bstep-skipped:" + str(e)[:30]
                        stats[k] = stats.get(k, 0) + 1
                    continue
                if stats is not None:
                    stats[tag] = stats.get(tag, 0) + 1
                out.append((req, exp, "model of %s vs the real call" % rec.label))
                continue
            if rec.dialect == "create":
                try:
                    req = {"op": "cstep", "st": rec.pre, "calls": [rec.call]}
                    if rec.exc is not None:
                        exp = {"exc": rec.exc}
                    elif isinstance(rec.result, Q.CreateQueryBuilder):
                        if isinstance(rec.post, Unsupported):
                            raise rec.post
                        req["post"] = rec.post
                        exp = {"agree": True}
                    else:
                        continue
                except Unsupported as e:
                    if stats is not None:
                        k = "bstep-skipped:" + str(e)[:30]
                        stats[k] = stats.get(k, 0) + 1
                    continue
                if stats is not None:
                    stats[tag] = stats.get(tag, 0) + 1
                out.append((req, exp, "model of %s vs the real call" % rec.label))
                continue
            try:
                ctx = describe.d_ctx({"dialect": rec.dialect})
                req = {"op": "bstep", "ctx": ctx, "st": rec.pre, "calls": [rec.call]}
                if rec.exc is not None:
                    exp = {"exc": rec.exc}
                elif isinstance(rec.result, Q.QueryBuilder):
                    if isinstance(rec.post, Unsupported):
                        raise rec.post
                    post = rec.post
                    req["post"] = post["q"]
                    exp = {"agree": True, "select_star": post["select_star"], "star_tables": post["star_tables"],
                           "sub_count": post["sub_count"], "return_star": post["return_star"]}
                else:
                    continue
            except Unsupported as e:
                if stats is not None:
                    k = "bstep-skipped:" + str(e)[:30]
                    stats[k] = stats.get(k, 0) + 1
                continue
            if stats is not None:
                stats[tag] = stats.get(tag, 0) + 1
            out.append((req, exp, "model of %s vs the real call" % rec.label))
        return out
