"""Executable specification side used by the oracles: a dialect-aware SQL lexer, an expression
parser for the precedence shared by the supported engines, and an evaluator that reads both the
parsed text and the described Python tree as functions of their leaves.

Precedence (tightest first):  unary -  >  * /  >  + -  >  << >>  >  comparison family
(= <> < <= > >= [NOT] LIKE/ILIKE/… [NOT] IN BETWEEN IS [NOT] NULL; non-associative)  >  NOT  >  AND  >  XOR  >  OR.
"""
import hashlib
from fractions import Fraction

KEYWORDS = {
    "AND", "OR", "XOR", "NOT", "IN", "BETWEEN", "IS", "NULL", "LIKE", "ILIKE", "RLIKE", "REGEX", "REGEXP", "GLOB",
    "BINARY", "CASE", "WHEN", "THEN", "ELSE", "END", "ALL", "DISTINCT", "AS", "OF", "FROM", "TO", "EXISTS",
    "SELECT", "WHERE", "GROUP", "BY", "HAVING", "ORDER", "LIMIT", "OFFSET", "JOIN", "ON", "USING", "UNION", "INTERSECT",
    "EXCEPT", "MINUS", "INSERT", "INTO", "VALUES", "UPDATE", "SET", "DELETE", "WITH", "FILTER", "OVER", "PARTITION",
    "ROWS", "RANGE", "PRECEDING", "FOLLOWING", "UNBOUNDED", "CURRENT", "ROW", "IGNORE", "NULLS", "ASC", "DESC", "FOR",
    "FETCH", "NEXT", "ONLY", "TOP", "PERCENT", "TIES", "INNER", "LEFT", "RIGHT", "FULL", "OUTER", "CROSS", "HASH",
    "INTERVAL", "ARRAY", "TRUE", "FALSE", "REPLACE", "CONFLICT", "DO", "NOTHING", "DUPLICATE", "KEY", "RETURNING",
    "PREWHERE", "FINAL", "SAMPLE", "ROLLUP", "TOTALS", "NOWAIT", "SKIP", "LOCKED", "COLLATE", "FORCE", "USE", "INDEX",
    "ALTER", "TABLE", "EXCLUDED", "PORTION", "AT", "TIME", "ZONE", "CREATE", "DROP", "UNIQUE", "PRIMARY", "FOREIGN",
    "REFERENCES", "DEFAULT", "IF", "EXISTS", "TEMPORARY", "UNLOGGED", "PERIOD", "SYSTEM", "VERSIONING", "CASCADE",
    "RESTRICT", "ACTION", "NO", "LOCAL", "PRESERVE", "COMMIT", "DATABASE", "USER", "VIEW", "CLUSTER", "DICTIONARY", "QUOTA",
}

TWO_CHAR_OPS = ["<<", ">>", "<>", "<=", ">=", "!=", "||", "->", "#>", "@>", "<@", "?&", "?|"]
THREE_CHAR_OPS = ["->>", "#>>"]


class LexError(Exception):
    pass


class Tok:
    __slots__ = ("kind", "val", "pos", "end", "quote")

    def __init__(self, kind, val, pos, end, quote=None):
        self.kind, self.val, self.pos, self.end, self.quote = kind, val, pos, end, quote

    def __repr__(self):
        return "%s:%r" % (self.kind, self.val)

    def key(self):
        return (self.kind, self.val, self.quote)


def lex(text, ident_quotes='"`', str_quote="'", backslash=False, hash_comment=False):
    """Tokens of `text`.  A quoted identifier / string literal is ONE token whose val is the decoded
    content (doubled quote -> one quote; backslash escapes when the dialect has them).  Comment
    introducers outside literals and unterminated literals raise LexError."""
    toks = []
    i, n = 0, len(text)
    while i < n:
        c = text[i]
        if c in " \t\r\n":
            i += 1
            continue
        if text.startswith("--", i):
            raise LexError("comment introducer -- at %d" % i)
        if text.startswith("/*", i):
            # Vertica hint is the only legitimate comment pypika writes
            j = text.find("*/", i + 2)
            if text.startswith("/*+label(", i) and j > 0:
                toks.append(Tok("hint", text[i:j + 2], i, j + 2))
                i = j + 2
                continue
            raise LexError("comment introducer /* at %d" % i)
        if c == "#" and hash_comment:
            raise LexError("comment introducer # at %d" % i)
        if c == str_quote or c in ident_quotes:
            q = c
            j = i + 1
            buf = []
            while True:
                if j >= n:
                    raise LexError("unterminated %s literal starting at %d" % (q, i))
                d = text[j]
                if backslash and q == str_quote and d == "\\":
                    if j + 1 >= n:
                        raise LexError("dangling backslash at %d" % j)
                    buf.append(text[j + 1])
                    j += 2
                    continue
                if d == q:
                    if j + 1 < n and text[j + 1] == q:
                        buf.append(q)
                        j += 2
                        continue
                    j += 1
                    break
                buf.append(d)
                j += 1
            toks.append(Tok("str" if q == str_quote else "id", "".join(buf), i, j, q))
            i = j
            continue
        if c.isdigit() or (c == "." and i + 1 < n and text[i + 1].isdigit()):
            j = i
            while j < n and (text[j].isdigit() or text[j] == "."):
                j += 1
            if j < n and text[j] in "eE" and j + 1 < n and (text[j + 1].isdigit() or (text[j + 1] in "+-" and j + 2 < n and text[j + 2].isdigit())):
                j += 2
                while j < n and text[j].isdigit():
                    j += 1
            toks.append(Tok("num", text[i:j], i, j))
            i = j
            continue
        if c.isalpha() or c == "_":
            j = i
            while j < n and (text[j].isalnum() or text[j] in "_$"):
                j += 1
            w = text[i:j]
            if w.upper() in KEYWORDS and w.upper() == w:
                toks.append(Tok("kw", w, i, j))
            else:
                toks.append(Tok("id", w, i, j, None))
            i = j
            continue
        if c == "%" and text.startswith("%s", i):
            toks.append(Tok("ph", "%s", i, i + 2))
            i += 2
            continue
        if c == "%" and text.startswith("%(", i):
            j = text.find(")s", i)
            if j < 0:
                raise LexError("bad pyformat placeholder at %d" % i)
            toks.append(Tok("ph", text[i:j + 2], i, j + 2))
            i = j + 2
            continue
        if c == ":" and i + 1 < n and (text[i + 1].isalnum() or text[i + 1] == "_"):
            j = i + 1
            while j < n and (text[j].isalnum() or text[j] == "_"):
                j += 1
            toks.append(Tok("ph", text[i:j], i, j))
            i = j
            continue
        if c == "?" and not any(text.startswith(o, i) for o in ("?&", "?|")):
            toks.append(Tok("ph", "?", i, i + 1))
            i += 1
            continue
        three = text[i:i + 3]
        two = text[i:i + 2]
        if three in THREE_CHAR_OPS:
            toks.append(Tok("op", three, i, i + 3))
            i += 3
            continue
        if two in TWO_CHAR_OPS:
            toks.append(Tok("op", two, i, i + 2))
            i += 2
            continue
        if c in "+-*/<>=&|^~@":
            toks.append(Tok("op", c, i, i + 1))
            i += 1
            continue
        if c in "(),.;[]{}":
            toks.append(Tok("p", c, i, i + 1))
            i += 1
            continue
        raise LexError("unexpected character %r at %d" % (c, i))
    return toks


# ------------------------------------------------------------------ expression parser

class ParseError(Exception):
    pass


CMP_OPS = {"=", "<>", "<", "<=", ">", ">=", "!="}
MATCH_KW = {"LIKE", "ILIKE", "RLIKE", "REGEX", "REGEXP", "GLOB"}


class P:
    def __init__(self, toks):
        self.t = toks
        self.i = 0

    def peek(self, k=0):
        j = self.i + k
        return self.t[j] if j < len(self.t) else None

    def at(self, kind, val=None, k=0):
        t = self.peek(k)
        return t is not None and t.kind == kind and (val is None or t.val == val)

    def take(self, kind=None, val=None):
        t = self.peek()
        if t is None or (kind and t.kind != kind) or (val is not None and t.val != val):
            raise ParseError("expected %s %s at token %d (%r)" % (kind, val, self.i, t))
        self.i += 1
        return t

    # OR < XOR < AND < NOT < predicate
    def expr(self):
        return self.p_or()

    def p_or(self):
        l = self.p_xor()
        while self.at("kw", "OR"):
            self.take()
            l = ("bool", "OR", l, self.p_xor())
        return l

    def p_xor(self):
        l = self.p_and()
        while self.at("kw", "XOR"):
            self.take()
            l = ("bool", "XOR", l, self.p_and())
        return l

    def p_and(self):
        l = self.p_not()
        while self.at("kw", "AND"):
            self.take()
            l = ("bool", "AND", l, self.p_not())
        return l

    def p_not(self):
        if self.at("kw", "NOT") and not self.at("kw", "EXISTS", 1):
            self.take()
            return ("not", self.p_not())
        return self.p_pred()

    def is_cmp_start(self):
        t = self.peek()
        if t is None:
            return False
        if t.kind == "op" and t.val in CMP_OPS:
            return True
        if t.kind == "kw" and (t.val in MATCH_KW or t.val in ("IN", "BETWEEN", "IS")):
            return True
        if t.kind == "kw" and t.val == "NOT":
            n = self.peek(1)
            return n is not None and n.kind == "kw" and (n.val in MATCH_KW or n.val in ("IN", "BETWEEN"))
        return False

    def p_pred(self):
        l = self.p_shift()
        if not self.is_cmp_start():
            return l
        node = self.p_pred_tail(l)
        if self.is_cmp_start():
            raise ParseError("two comparison-family operators at one level (engine tie-break) at token %d" % self.i)
        return node

    def p_pred_tail(self, l):
        t = self.take()
        neg = False
        if t.kind == "kw" and t.val == "NOT":
            neg = True
            t = self.take()
        if t.kind == "op":
            return ("cmp", "<>" if t.val == "!=" else t.val, l, self.p_shift())
        if t.val in MATCH_KW:
            name = t.val
            if name == "REGEX" and self.at("kw", "BINARY"):
                self.take()
                name = "REGEX BINARY"
            return ("match", name, neg, l, self.p_shift())
        if t.val == "IN":
            self.take("p", "(")
            if self.at("kw", "SELECT") or self.at("p", "("):
                raise ParseError("sub-query container")
            items = []
            if not self.at("p", ")"):           # `x IN ()`: the empty list has one reading
                items = [self.p_or()]
                while self.at("p", ","):
                    self.take()
                    items.append(self.p_or())
            self.take("p", ")")
            return ("in", neg, l, items)
        if t.val == "BETWEEN":
            lo = self.p_shift()
            self.take("kw", "AND")
            hi = self.p_shift()
            return ("between", l, lo, hi)
        if t.val == "IS":
            n = False
            if self.at("kw", "NOT"):
                self.take()
                n = True
            self.take("kw", "NULL")
            return ("isnull", n, l)
        raise ParseError("predicate tail %r" % t)

    def p_shift(self):
        l = self.p_add()
        while self.at("op", "<<") or self.at("op", ">>"):
            o = self.take().val
            l = ("bin", o, l, self.p_add())
        return l

    def p_add(self):
        l = self.p_mul()
        while self.at("op", "+") or self.at("op", "-"):
            o = self.take().val
            l = ("bin", o, l, self.p_mul())
        return l

    def p_mul(self):
        l = self.p_unary()
        while self.at("op", "*") or self.at("op", "/"):
            o = self.take().val
            l = ("bin", o, l, self.p_unary())
        return l

    def p_unary(self):
        if self.at("op", "-"):
            self.take()
            return ("neg", self.p_unary())
        return self.p_atom()

    def p_atom(self):
        t = self.peek()
        if t is None:
            raise ParseError("unexpected end")
        if t.kind == "num":
            self.take()
            return ("num", t.val)
        if t.kind == "str":
            self.take()
            return ("str", t.val)
        if t.kind == "ph":
            self.take()
            return ("ph", t.val)
        if t.kind == "kw" and t.val in ("NULL", "TRUE", "FALSE"):
            self.take()
            return ("const", t.val)
        if t.kind == "kw" and t.val == "CASE":
            self.take()
            whens = []
            while self.at("kw", "WHEN"):
                self.take()
                c = self.expr()
                self.take("kw", "THEN")
                whens.append((c, self.expr()))
            els = None
            if self.at("kw", "ELSE"):
                self.take()
                els = self.expr()
            self.take("kw", "END")
            if not whens:
                raise ParseError("CASE without WHEN")
            return ("case", whens, els)
        if t.kind == "p" and t.val == "(":
            self.take()
            e = self.expr()
            if self.at("p", ","):
                items = [e]
                while self.at("p", ","):
                    self.take()
                    items.append(self.expr())
                self.take("p", ")")
                return ("tuple", items)
            self.take("p", ")")
            return e
        if t.kind == "id" or (t.kind == "kw" and self.at("p", "(", 1) and t.val not in ("NOT", "IN", "AND", "OR", "XOR")):
            self.take()
            if self.at("p", "("):
                self.take()
                args = []
                if not self.at("p", ")"):
                    if self.at("op", "*"):
                        self.take()
                        args.append(("star",))
                    else:
                        args.append(self.expr())
                    while self.at("p", ","):
                        self.take()
                        args.append(self.expr())
                self.take("p", ")")
                if self.at("kw", "FILTER") and self.at("p", "(", 1):
                    # aggregate FILTER(WHERE criterion): one criterion, read with the shared grammar
                    self.take()
                    self.take("p", "(")
                    self.take("kw", "WHERE")
                    c = self.expr()
                    self.take("p", ")")
                    return ("func_filter", t.val, args, c)
                return ("func", t.val, args)
            name = t.val
            while self.at("p", "."):
                self.take()
                if self.at("op", "*"):
                    self.take()
                    return ("star",)
                name = self.take("id").val
            return ("id", name)
        if t.kind == "op" and t.val == "*":
            self.take()
            return ("star",)
        raise ParseError("unexpected token %r at %d" % (t, self.i))


def parse_expr(text, **lexopts):
    toks = lex(text, **lexopts)
    p = P(toks)
    e = p.expr()
    if p.i != len(toks):
        raise ParseError("trailing tokens from %d: %r" % (p.i, toks[p.i:p.i + 4]))
    return e


# ------------------------------------------------------------------ evaluation

def H(*parts):
    h = hashlib.sha1(repr(parts).encode()).digest()
    return Fraction(int.from_bytes(h[:4], "big") % 2003 - 1001, (h[4] % 7) + 1)


class Undefined(Exception):
    pass


def to_num(v):
    if isinstance(v, bool):
        return Fraction(1 if v else 0)
    return v


def to_bool(v):
    if isinstance(v, bool):
        return v
    return v != 0


def num_of_text(t):
    try:
        return Fraction(t)
    except (ValueError, ZeroDivisionError):
        return H("numtext", t)


def ev_ast(e, salt):
    k = e[0]
    if k == "num":
        return num_of_text(e[1])
    if k == "str":
        return H("str", e[1])
    if k == "ph":
        return H("ph", e[1], salt)
    if k == "const":
        return H("const", e[1])
    if k == "id":
        return H("id", e[1], salt)
    if k == "star":
        return H("star")
    if k == "neg":
        return -to_num(ev_ast(e[1], salt))
    if k == "bin":
        a, b = to_num(ev_ast(e[2], salt)), to_num(ev_ast(e[3], salt))
        return arith(e[1], a, b)
    if k == "cmp":
        a, b = to_num(ev_ast(e[2], salt)), to_num(ev_ast(e[3], salt))
        return cmp(e[1], a, b)
    if k == "match":
        r = H("match", e[1], to_num(ev_ast(e[3], salt)), to_num(ev_ast(e[4], salt))).numerator % 2 == 0
        return (not r) if e[2] else r
    if k == "in":
        x = to_num(ev_ast(e[2], salt))
        r = any(x == to_num(ev_ast(i, salt)) for i in e[3])
        return (not r) if e[1] else r
    if k == "between":
        x, lo, hi = (to_num(ev_ast(z, salt)) for z in e[1:4])
        return lo <= x <= hi
    if k == "isnull":
        r = H("isnull", to_num(ev_ast(e[2], salt))).numerator % 2 == 0
        return (not r) if e[1] else r
    if k == "not":
        return not to_bool(ev_ast(e[1], salt))
    if k == "bool":
        a, b = to_bool(ev_ast(e[2], salt)), to_bool(ev_ast(e[3], salt))
        return {"AND": a and b, "OR": a or b, "XOR": a != b}[e[1]]
    if k == "func":
        return H("func", e[1].upper(), tuple(to_num(ev_ast(a, salt)) for a in e[2]))
    if k == "func_filter":
        return H("func", e[1].upper(), tuple(to_num(ev_ast(a, salt)) for a in e[2]), "filter", to_bool(ev_ast(e[3], salt)))
    if k == "case":
        for c, v in e[1]:
            if to_bool(ev_ast(c, salt)):
                return ev_ast(v, salt)
        return ev_ast(e[2], salt) if e[2] is not None else H("const", "NULL")
    if k == "tuple":
        return H("tuple", tuple(to_num(ev_ast(a, salt)) for a in e[1]))
    raise Undefined("ast node %r" % (k,))


def arith(op, a, b):
    if op == "+":
        return a + b
    if op == "-":
        return a - b
    if op == "*":
        return a * b
    if op == "/":
        if b == 0:
            raise ZeroDivisionError()
        return a / b
    return H("shift", op, a, b)


def cmp(op, a, b):
    return {"=": a == b, "<>": a != b, "<": a < b, "<=": a <= b, ">": a > b, ">=": a >= b}[op]


ARITH_SYM = {"add": "+", "sub": "-", "mul": "*", "div": "/", "lshift": "<<", "rshift": ">>"}
BOOL_SYM = {"and_": "AND", "or_": "OR", "xor_": "XOR"}


def ev_spec(s, salt):
    """evaluate a described Python tree (harness/describe.py output) — the meaning the user built"""
    k = s["k"]
    if k == "field":
        return H("id", s["name"], salt)
    if k == "star":
        return H("star")
    if k == "val":
        v = s["v"]
        if v["t"] in ("num", "other"):
            return num_of_text(v["v"])
        if v["t"] == "str":
            return H("str", v["v"])
        if v["t"] == "bool":
            if v.get("sqlite"):
                return Fraction(1 if v["v"] else 0)
            return H("id", "true" if v["v"] else "false", salt)
        return H("id", "null", salt)
    if k == "lit":
        if s["text"] == "NULL":
            return H("const", "NULL")
        return H("id", s["text"], salt)
    if k == "param":
        return H("ph", s["text"], salt)
    if k == "neg":
        return -to_num(ev_spec(s["t"], salt))
    if k == "arith":
        return arith(ARITH_SYM[s["op"]], to_num(ev_spec(s["l"], salt)), to_num(ev_spec(s["r"], salt)))
    if k == "basic":
        op = s["cmp"].strip()
        a, b = to_num(ev_spec(s["l"], salt)), to_num(ev_spec(s["r"], salt))
        if op in CMP_OPS:
            return cmp(op, a, b)
        neg = op.startswith("NOT ")
        name = op[4:] if neg else op
        r = H("match", name, a, b).numerator % 2 == 0
        return (not r) if neg else r
    if k == "complex":
        a, b = to_bool(ev_spec(s["l"], salt)), to_bool(ev_spec(s["r"], salt))
        return {"AND": a and b, "OR": a or b, "XOR": a != b}[BOOL_SYM[s["op"]]]
    if k == "not":
        return not to_bool(ev_spec(s["t"], salt))
    if k == "isin":
        c = s["container"]
        if c["k"] != "tuple":
            raise Undefined("container")
        x = to_num(ev_spec(s["t"], salt))
        r = any(x == to_num(ev_spec(i, salt)) for i in c["vs"])
        return (not r) if s["negated"] else r
    if k == "between":
        x, lo, hi = (to_num(ev_spec(s[z], salt)) for z in ("t", "lo", "hi"))
        return lo <= x <= hi
    if k in ("isnull", "notnull"):
        r = H("isnull", to_num(ev_spec(s["t"], salt))).numerator % 2 == 0
        return (not r) if k == "notnull" else r
    if k == "func":
        if s["special"] or s["extract_from"] or s["over"] or s["distinct"] or s["schema"]:
            raise Undefined("function with special clauses")
        if s["filter"]:
            # the filters of an aggregate are a conjunction (Criterion.all of the filter list)
            return H("func", s["name"].upper(), tuple(to_num(ev_spec(a, salt)) for a in s["args"]), "filter",
                     to_bool(ev_spec(s["filter"], salt)))
        return H("func", s["name"].upper(), tuple(to_num(ev_spec(a, salt)) for a in s["args"]))
    if k == "case":
        for c, v in s["whens"]:
            if to_bool(ev_spec(c, salt)):
                return ev_spec(v, salt)
        return ev_spec(s["else"], salt) if s["else"] is not None else H("const", "NULL")
    if k == "tuple":
        return H("tuple", tuple(to_num(ev_spec(a, salt)) for a in s["vs"]))
    raise Undefined("spec node %r" % k)


def same_function(spec, ast, salts=(1, 2, 3, 4)):
    """do the built tree and the parsed text denote the same function of their leaves?
    Returns (ok, witness)"""
    used = 0
    for salt in salts:
        try:
            a = ev_spec(spec, salt)
            b = ev_ast(ast, salt)
        except ZeroDivisionError:
            continue
        used += 1
        if isinstance(a, bool) != isinstance(b, bool) or a != b:
            return False, {"salt": salt, "built": str(a), "text": str(b)}
    return True, {"envs": used}
