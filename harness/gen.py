"""Typed random generators of recipes (Python source over the public pypika API).

Everything derives from one random.Random; generators return source strings so that a
case is reproducible from its text alone.
"""
import random

FIELDS = ["a", "b", "c", "x", "y", "z"]
TABLES = ["t", "u", "v"]
FUNCS1 = ["fn.Abs", "fn.Sqrt", "fn.Floor", "fn.Sum", "fn.Avg", "fn.Max", "fn.Min", "fn.Count", "fn.Upper", "fn.Length"]
CMP = ["==", "!=", "<", "<=", ">", ">="]
ARITH = ["+", "-", "*", "/", "<<", ">>"]
HOSTILE = ["'", "''", '"', "`", "\\", "\\'", "--", "/*", "*/", "#", ";", "\n", "\x00", "é", "日本", "a'b", "it's",
           "' OR 1=1 --", "x'; DROP TABLE t; --", "", " ", "  two  spaces", "%", "_", "\\\\", "'\\", "'a'", '"a"',
           "`a`", "a\\'b", "?", ":1", "%s", "%(x)s", "\t", "\r\n", "''''", "a''b'",
           # text that looks like statement structure (a renderer that post-processes the finished text must not see it)
           ") SELECT ", ") INSERT ", "SELECT 1", "see (docs) SELECT carefully", "/*+label(x)*/", "WITH a AS (", " FROM t", "') --",
           " ORDER BY ", "(", ")", "((", "))"]


class G:
    def __init__(self, rng, tables=True, strings="plain", allow_shift=True, allow_params=False, allow_case=True,
                 allow_funcs=True, allow_neg=True, int_range=9, allow_float=True, allow_filter=False, allow_matchers=False):
        self.r = rng
        self.tables = tables
        self.strings = strings
        self.allow_shift = allow_shift
        self.allow_params = allow_params
        self.allow_case = allow_case
        self.allow_funcs = allow_funcs
        self.allow_neg = allow_neg
        self.int_range = int_range
        self.allow_float = allow_float
        self.allow_filter = allow_filter
        self.allow_matchers = allow_matchers

    # ---- leaves
    def field(self):
        r = self.r
        name = r.choice(FIELDS)
        if self.tables and r.random() < 0.4:
            return "T(%r).%s" % (r.choice(TABLES), name)
        return "F(%r)" % name

    def pyint(self):
        r = self.r
        v = r.randint(-self.int_range, self.int_range) if self.allow_neg else r.randint(0, self.int_range)
        return repr(v)

    def pynum(self):
        r = self.r
        x = r.random()
        if x < 0.04:
            # Enum members as data values (plain and numeric mix-in), both signs
            return r.choice(["EN.NEG5", "EN.POS7", "EN.NEGF", "IE.HIGH", "IE.NEG2"] if self.allow_neg else ["EN.POS7", "IE.HIGH"])
        if x < 0.7 or not self.allow_float:
            return self.pyint()
        if x < 0.85:
            # boundary texts: negative zero (text starts with '-' although the value is not < 0), exponent forms
            return repr(r.choice([0.5, 1.5, -2.25, 10.0, 1e-3, -0.0, 0.0, 1e-07, -1e-05, 1e+22])) if self.allow_neg else \
                repr(r.choice([0.5, 1.5, 10.0, 0.0, 1e-07]))
        return "D(%r)" % r.choice(["1.10", "0.001", "-3.5", "100", "-0.0", "0.00", "-0.001"] if self.allow_neg
                                  else ["1.10", "0.001", "100", "0.00"])

    def string(self):
        r = self.r
        if self.strings == "hostile" and r.random() < 0.8:
            k = r.random()
            if k < 0.6:
                return repr(r.choice(HOSTILE))
            return repr("".join(r.choice(HOSTILE + ["a", "b", " "]) for _ in range(r.randint(1, 4))))
        if r.random() < 0.05:
            return r.choice(["EN.TXT", "EN.QUO"])
        return repr(r.choice(["foo", "bar", "b%", "x y", "Z"]))

    def num_leaf(self):
        r = self.r
        x = r.random()
        if x < 0.6:
            return self.field()
        if x < 0.9:
            return "VW(%s)" % self.pynum()
        if self.allow_params and x < 0.95:
            return "Parameter(%r)" % r.choice(["?", ":1", "%s", ":name"])
        return "NullValue()" if r.random() < 0.3 else self.field()

    # ---- numeric expressions (always a Term)
    def num(self, d):
        r = self.r
        if d <= 0:
            return self.num_leaf()
        x = r.random()
        if x < 0.15:
            return self.num_leaf()
        if x < 0.70:
            ops = ARITH if self.allow_shift else ARITH[:4]
            op = r.choice(ops)
            y = r.random()
            if op in ("<<", ">>") and r.random() < 0.3:
                return "%s.%s(%s)" % (self.num(d - 1), "lshift" if op == "<<" else "rshift", self.num(d - 1))
            if y < 0.2:
                return "(%s %s %s)" % (self.num(d - 1), op, self.pynum())   # raw python operand on the right
            if y < 0.3:
                return "(%s %s %s)" % (self.pynum(), op, self.num(d - 1))   # reflected operator
            return "(%s %s %s)" % (self.num(d - 1), op, self.num(d - 1))
        if x < 0.80 and self.allow_neg:
            if r.random() < 0.08:
                return "(+%s)" % self.num(d - 1)          # unary plus is the identity
            return "(-%s)" % self.num(d - 1)
        if x < 0.90 and self.allow_funcs:
            y = r.random()
            if y < 0.12 and self.allow_filter:
                # an aggregate with a FILTER list: several criteria (a conjunction), given in one call or chained
                f = "%s(%s)" % (r.choice(["fn.Sum", "fn.Avg", "fn.Max", "fn.Min", "fn.Count"]), self.num(d - 1))
                cs = [self.crit(max(d - 1, 1)) for _ in range(r.choice([1, 2, 2, 3]))]
                if r.random() < 0.5:
                    return "%s.filter(%s)" % (f, ", ".join(cs))
                return f + "".join(".filter(%s)" % c for c in cs)
            if y < 0.6:
                return "%s(%s)" % (r.choice(FUNCS1), self.num(d - 1))
            if y < 0.8:
                return "(%s %% %s)" % (self.num(d - 1), self.num(d - 1)) if r.random() < 0.5 else \
                    "(%s ** %s)" % (self.num(d - 1), self.pyint())
            return "fn.Coalesce(%s, %s)" % (self.num(d - 1), self.num(d - 1))
        if self.allow_case:
            n = r.randint(1, 2)
            s = "Case()" + "".join(".when(%s, %s)" % (self.crit(d - 1), self.num(d - 1)) for _ in range(n))
            if r.random() < 0.6:
                s += ".else_(%s)" % self.num(d - 1)
            return s
        return self.num_leaf()

    # ---- criteria
    def crit(self, d):
        r = self.r
        x = r.random()
        if d <= 0 or x < 0.45:
            y = r.random()
            if y < 0.55:
                rhs = self.num(max(d - 1, 0)) if r.random() < 0.6 else self.pynum()
                if r.random() < 0.12:
                    # the named forms of the comparison operators
                    return "%s.%s(%s)" % (self.num(max(d - 1, 0)), r.choice(["eq", "ne", "gt", "gte", "lt", "lte"]), rhs)
                return "(%s %s %s)" % (self.num(max(d - 1, 0)), r.choice(CMP), rhs)
            if y < 0.65:
                m = r.choice(["like", "like", "not_like", "ilike", "not_ilike", "rlike", "regex", "regexp", "glob", "bin_regex"]) \
                    if self.allow_matchers else "like"
                return "%s.%s(%s)" % (self.field(), m, self.string())
            if y < 0.75:
                n = r.choice([0, 1, 1, 2, 2, 3, 3])      # the empty list is legal: x IN ()
                items = ", ".join(self.pynum() if r.random() < 0.7 else self.string() for _ in range(n))
                return "%s.%s([%s])" % (self.num(max(d - 1, 0)), r.choice(["isin", "notin"]), items)
            if y < 0.85:
                return "%s.between(%s, %s)" % (self.num(max(d - 1, 0)), self.pynum(), self.num(max(d - 1, 0)))
            if y < 0.93:
                return "%s.%s()" % (self.num(max(d - 1, 0)), r.choice(["isnull", "notnull", "isnotnull"]))
            return "(%s == %s)" % (self.field(), self.string())
        if x < 0.60:
            return "(~%s)" % self.crit(d - 1) if r.random() < 0.5 else "%s.negate()" % self.crit(d - 1)
        op = r.choice(["&", "|", "^"] if r.random() < 0.9 else ["&"])
        return "(%s %s %s)" % (self.crit(d - 1), op, self.crit(d - 1))

    def any_expr(self, d):
        return self.num(d) if self.r.random() < 0.5 else self.crit(d)


def rng_for(seed, pid, stream=0):
    return random.Random("%s/%s/%s" % (seed, pid, stream))
