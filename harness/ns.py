"""Namespace in which generated recipes (Python source strings) are evaluated.

A recipe is a Python expression over the public pypika API; replays store the source, so a
failing case can be pasted into a Python prompt against the real library.
"""
import datetime
import decimal
import uuid

from harness import common  # noqa: F401  (puts /repo on sys.path)

import pypika
from pypika import (
    AliasedQuery, Case, ClickHouseQuery, Criterion, Database, EmptyCriterion, Field, Interval, JSON, MSSQLQuery,
    MySQLQuery, Not, NullValue, OracleQuery, Order, Parameter, PostgreSQLQuery, Query, RedshiftQuery, SQLLiteQuery,
    Schema, Table, Tuple, Array, VerticaQuery, JoinType, CustomFunction, Tables,
    QmarkParameter, NumericParameter, FormatParameter, NamedParameter, PyformatParameter, SystemTimeValue,
)
from pypika.dialects import SnowflakeQuery
from pypika import analytics as an
from pypika import functions as fn
from pypika import terms
from pypika import queries
from pypika import dialects
from pypika.enums import Dialects, SqlTypes, DatePart, ReferenceOption
from pypika.terms import (
    ValueWrapper, LiteralValue, Negative, ExistsCriterion, All, Bracket, PseudoColumn, AtTimezone, Values, Index,
    Function, AggregateFunction, AnalyticFunction, Rollup,
)
from pypika.queries import Column

QUERY_CLASSES = {
    "generic": Query, "mysql": MySQLQuery, "postgresql": PostgreSQLQuery, "redshift": RedshiftQuery,
    "oracle": OracleQuery, "mssql": MSSQLQuery, "sqlite": SQLLiteQuery, "vertica": VerticaQuery,
    "clickhouse": ClickHouseQuery, "snowflake": SnowflakeQuery,
}
QNAMES = {
    "generic": "Query", "mysql": "MySQLQuery", "postgresql": "PostgreSQLQuery", "redshift": "RedshiftQuery",
    "oracle": "OracleQuery", "mssql": "MSSQLQuery", "sqlite": "SQLLiteQuery", "vertica": "VerticaQuery",
    "clickhouse": "ClickHouseQuery", "snowflake": "SnowflakeQuery",
}

F = Field
T = Table
VW = ValueWrapper
LV = LiteralValue
D = decimal.Decimal
date = datetime.date
dt = datetime.datetime
UUID = uuid.UUID

import enum as _enum


class EN(_enum.Enum):
    """plain Enum members used as data values: rendered (and collected) as their value"""
    NEG5 = -5
    POS7 = 7
    NEGF = -0.5
    TXT = "txt"
    QUO = "it's"


class IE(int, _enum.Enum):
    """numeric mix-in Enum: a member IS a number, and is rendered as its value"""
    HIGH = 3
    NEG2 = -2


NS = dict(globals())


def ev(src, extra=None):
    env = dict(NS)
    if extra:
        env.update(extra)
    return eval(src, env)


def ex(src, extra=None):
    """execute a multi-statement script; returns its namespace"""
    env = dict(NS)
    if extra:
        env.update(extra)
    exec(src, env)
    return env
