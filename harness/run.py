"""Entry point of every check:  python -m harness.run C07 --tier quick|thorough | --replay FILE

Verdict logic (DESIGN.md §2.5):
  1. regenerate tables from /repo, build the property's Lean modules + Agree + driver;
  2. audit: forbidden tokens in sources, `#print axioms` of every listed theorem;
  3. corpus + generated cases: (a) model vs implementation (correspondence),
     (b) the property oracle evaluated on the implementation — always, not only after a break;
  4. exit 0 / VIOLATION lines / KNOWN-FINDING lines; evidence/<id>.json is rewritten every run.
"""
import argparse
import glob
import importlib
import json
import os
import sys
import time
import traceback

from harness import common
from harness.common import HarnessError


class Result:
    """what examining one case produced"""

    def __init__(self):
        self.findings = []      # property failures on the implementation: dict(sig=…, what=…)
        self.requests = []      # (driver request, expected answer from the implementation, label)
        self.nontrivial = False
        self.key = None         # structural key for distinct counting
        self.tags = []          # distribution tags
        self.skipped = None     # reason the model side was skipped (Unsupported)


def load_corpus(pid):
    out = []
    for p in sorted(glob.glob(os.path.join(common.VERIF, "corpus", pid, "*.json"))):
        try:
            c = json.load(open(p))
        except Exception as e:  # a broken corpus file is a harness error
            raise HarnessError("corpus file %s: %s" % (p, e))
        c["_corpus"] = os.path.relpath(p, common.VERIF)
        out.append(c)
    return out


def write_replay(pid, seed, n, payload):
    os.makedirs(common.REPLAYS, exist_ok=True)
    path = os.path.join(common.REPLAYS, "%s-%d-%d.json" % (pid, seed, n))
    with open(path, "w") as f:
        json.dump(payload, f, indent=1, ensure_ascii=False, default=str)
    return os.path.relpath(path, common.VERIF)


def run_cases(mod, cases, driver, stats):
    """examine cases; returns (findings, disagreements)"""
    findings, pending = [], []
    for case in cases:
        rec = None
        try:
            if getattr(mod, "TRACE_BUILDER", False):
                # every @builder call the check makes on a real query is also run through the Lean model of the method
                from harness import trace
                with trace.recording() as rec:
                    res = mod.examine(case)
            else:
                res = mod.examine(case)
        except HarnessError:
            raise
        except Exception as e:
            # an exception raised inside the library (not in the harness) is behaviour of the code under check
            tb = traceback.extract_tb(e.__traceback__)
            if tb and os.path.abspath(tb[-1].filename).startswith(os.path.join(common.REPO, "pypika")):
                res = Result()
                res.findings.append({"sig": {"kind": "unexpected-exception", "exc": type(e).__name__,
                                             "where": "%s:%s" % (os.path.basename(tb[-1].filename), tb[-1].name)},
                                     "what": "the library raised %s: %s while examining %r" % (type(e).__name__, str(e)[:200], case.get("recipe", case))})
            else:
                raise HarnessError("examine crashed on %r:\n%s" % (case.get("recipe", case), traceback.format_exc()))
        stats["evaluations"] += 1
        if rec is not None and stats.get("bsteps", 0) < stats.get("bstep_cap", 4000):
            extra = rec.requests(stats["dist"])
            k = stats.get("bstep_per_case")
            if k and len(extra) > k:
                # an evenly spread sample of the case's calls (first and last included)
                step = (len(extra) - 1) / float(k - 1)
                extra = [extra[int(round(i * step))] for i in range(k)]
            stats["bsteps"] = stats.get("bsteps", 0) + len(extra)
            res.requests = list(res.requests) + extra
        for t in res.tags:
            stats["dist"][t] = stats["dist"].get(t, 0) + 1
        if res.skipped:
            stats["model_skipped"][res.skipped] = stats["model_skipped"].get(res.skipped, 0) + 1
        if res.nontrivial and res.key is not None:
            stats["keys"].add(res.key)
        if len(stats["samples"]) < 5 and res.nontrivial:
            stats["samples"].append(mod.sample_of(case, res) if hasattr(mod, "sample_of") else case.get("recipe"))
        for f in res.findings:
            f = dict(f)
            f["case"] = {k: v for k, v in case.items() if not k.startswith("_obj")}
            findings.append(f)
        for req, expected, label in res.requests:
            pending.append((req, expected, label, case))
    disagreements = []
    if pending:
        answers = driver.ask([p[0] for p in pending])
        stats["model_evals"] += len(pending)
        for (req, expected, label, case), got in zip(pending, answers):
            if "bad" in got:
                raise HarnessError("driver rejected a request (%s): %s" % (label, got["bad"]))
            if req.get("op") in ("bstep", "cstep", "sstep", "tstep"):
                # `_select_star_tables` is a set: compare as sorted lists; the generic comparison applies
                if "star_tables" in got:
                    got["star_tables"].sort(key=lambda x: json.dumps(x, sort_keys=True))
                if expected != got:
                    disagreements.append({"label": label, "case": {k: v for k, v in case.items() if not k.startswith("_obj")},
                                          "implementation": expected, "model": got, "call": req.get("calls")})
                continue
            if not mod.same(expected, got) if hasattr(mod, "same") else expected != got:
                disagreements.append({"label": label, "case": {k: v for k, v in case.items() if not k.startswith("_obj")},
                                      "implementation": expected, "model": got})
    return findings, disagreements


def main(argv=None):
    ap = argparse.ArgumentParser()
    ap.add_argument("pid")
    ap.add_argument("--tier", default=os.environ.get("VERIF_TIER", "quick"), choices=["quick", "thorough"])
    ap.add_argument("--replay")
    args = ap.parse_args(argv)
    pid = args.pid.upper()
    t0 = time.time()
    try:
        mod = importlib.import_module("harness.props.%s" % pid.lower())
    except ImportError as e:
        print("no check for %s: %s" % (pid, e))
        return 2
    seed = common.seed()
    try:
        if args.replay:
            return replay(mod, pid, args.replay)
        return check(mod, pid, args.tier, seed, t0)
    except HarnessError as e:
        print("HARNESS-ERROR property=%s %s" % (pid, str(e)[:2000]))
        return 2
    except Exception:
        print("HARNESS-ERROR property=%s unexpected:\n%s" % (pid, traceback.format_exc()))
        return 2


def replay(mod, pid, path):
    payload = json.load(open(path))
    case = payload.get("case", payload)
    driver = common.Driver() if os.path.exists(common.DRIVER) else None
    stats = new_stats()
    findings, dis = run_cases(mod, [case], driver, stats)
    kf = {common.sig_key(e["signature"]) for e in common.load_kf(pid) if e.get("status") == "finding"}
    bad = [f for f in findings if common.sig_key(f["sig"]) not in kf]
    for f in findings:
        print(("KNOWN-FINDING: " if common.sig_key(f["sig"]) in kf else "FAILS: ") + "property=%s %s" % (pid, f["what"]))
    for d in dis:
        print("MODEL-DISAGREES: %s\n  implementation: %s\n  model:          %s" % (d["label"], d["implementation"], d["model"]))
    if bad or dis:
        print("VIOLATION property=%s replay=%s" % (pid, path))
        return 1
    print("replay passes")
    return 0


def new_stats():
    return {"evaluations": 0, "model_evals": 0, "keys": set(), "samples": [], "dist": {}, "model_skipped": {}}


def check(mod, pid, tier, seed, t0):
    import random
    # ---- 1/2: build + audit
    # only the table-agreement modules this property rests on: a change to an unrelated table must not touch it
    modules = list(getattr(mod, "LEAN_MODULES", []))
    for name in getattr(mod, "AGREE", []):
        m = common.AGREE_MODULE[name.split(".")[-1]]
        if m not in modules:
            modules.append(m)
    build = common.lean_build(modules, need_driver=True, clean=(tier == "thorough" and os.environ.get("VERIF_CLEAN") == "1"))
    theorems = list(getattr(mod, "THEOREMS", []))
    agree = list(getattr(mod, "AGREE", []))
    obligations = theorems + agree
    undischarged = []   # (name, reason)
    axioms = {}
    if build.ok:
        axioms = common.collect_axioms(obligations, modules)
        for name in obligations:
            ax = axioms.get(name)
            if ax is None:
                undischarged.append((name, "theorem not found in the built modules"))
            elif not set(ax) <= common.ALLOWED_AXIOMS:
                undischarged.append((name, "depends on axioms %s" % sorted(set(ax) - common.ALLOWED_AXIOMS)))
    else:
        # which obligations are lost?  try to build module by module and ask for what survives
        lost = build.failed_modules or modules
        for name in obligations:
            undischarged.append((name, "lake build failed (%s)" % ", ".join(lost)[:200]))
        # retry: the driver + Agree may be what broke; find the obligations that still check
        ok_mods = []
        for m in modules:
            rc, _ = common.run(["lake", "build", m], cwd=common.LEAN, timeout=3000)
            if rc == 0:
                ok_mods.append(m)
        if ok_mods:
            ax2 = common.collect_axioms(obligations, ok_mods)
            undischarged = []
            for name in obligations:
                ax = ax2.get(name)
                if ax is None:
                    undischarged.append((name, "no longer checks: lake build failed for %s" % ", ".join(lost)[:200]))
                elif not set(ax) <= common.ALLOWED_AXIOMS:
                    undischarged.append((name, "depends on axioms %s" % sorted(set(ax) - common.ALLOWED_AXIOMS)))
            axioms = ax2
    # thorough tier: the compiled files of the property's modules are re-checked by leanchecker (an independent replay of
    # every declaration through the kernel)
    leancheck = None
    if tier == "thorough" and build.ok:
        t1 = time.time()
        rc, out = common.run(["lake", "env", "leanchecker"] + modules, cwd=common.LEAN, timeout=3000)
        bad = rc != 0 or "uncaught exception" in out or "error" in out.lower()
        leancheck = "%s (%d modules, %.0f s)" % ("rejected: " + out[-300:] if bad else "ok", len(modules), time.time() - t1)
        if bad:
            undischarged.append(("leanchecker", out[-300:]))
    for flag in build.source_flags:
        undischarged.append(("source-audit", flag))
    driver_ok = os.path.exists(common.DRIVER)
    if not build.ok:
        # is the driver usable (built from model files that still compile)?
        rc, _ = common.run(["lake", "build", "driver"], cwd=common.LEAN, timeout=3000)
        driver_ok = rc == 0 and os.path.exists(common.DRIVER)
    driver = common.Driver() if driver_ok else None

    # ---- 3: corpus, then generated cases
    stats = new_stats()
    stats["bstep_cap"] = 20000 if tier == "quick" else 100000   # builder calls run through the model per check
    stats["bstep_per_case"] = 8 if tier == "quick" else 40     # … and per case, so that every generated stream is reached
    rng = random.Random("%s/%s" % (seed, pid))
    kf_entries = common.load_kf(pid)
    kf_open = {common.sig_key(e["signature"]): e for e in kf_entries if e.get("status") == "finding"}

    class NullDriver:
        def ask(self, reqs):
            return [{"_nodriver": True} for _ in reqs]
    drv = driver or NullDriver()
    corpus = load_corpus(pid)
    n = mod.counts(tier)
    findings, dis = run_cases(mod, corpus, drv, stats)
    f2, d2 = run_cases(mod, mod.generate(rng, n, tier), drv, stats)
    findings += f2
    dis += d2
    if driver is None:
        dis = []
    if hasattr(mod, "extra_checks"):
        findings += mod.extra_checks(rng, tier, stats)

    new = [f for f in findings if common.sig_key(f["sig"]) not in kf_open]
    broken = bool(undischarged) or bool(dis) or driver is None
    # a broken obligation / correspondence triggers a wider search for a failing input
    if broken and not new:
        extra = mod.counts("thorough" if tier == "quick" else "thorough") * (1 if tier == "quick" else 2)
        rng2 = random.Random("%s/%s/search" % (seed, pid))
        budget_t = time.time() + (120 if tier == "quick" else 600)
        gen2 = mod.generate(rng2, extra, "thorough")
        batch = []
        for case in gen2:
            batch.append(case)
            if len(batch) >= 500:
                f3, _ = run_cases(mod, batch, NullDriver(), stats)
                new += [f for f in f3 if common.sig_key(f["sig"]) not in kf_open]
                batch = []
                if new or time.time() > budget_t:
                    break
        if batch and not new:
            f3, _ = run_cases(mod, batch, NullDriver(), stats)
            new += [f for f in f3 if common.sig_key(f["sig"]) not in kf_open]

    # ---- 4: outcome
    lines = []
    confirmed = {}
    for f in findings:
        k = common.sig_key(f["sig"])
        if k in kf_open and k not in confirmed:
            confirmed[k] = f
    for k, f in confirmed.items():
        lines.append("KNOWN-FINDING: property=%s %s" % (pid, kf_open[k].get("what", f["what"])))
    violations = 0
    nrep = 0
    seen = set()
    for f in new:
        k = common.sig_key(f["sig"])
        if k in seen:
            continue
        seen.add(k)
        if hasattr(mod, "shrink"):
            try:
                f = mod.shrink(f)
            except Exception:
                pass
        nrep += 1
        path = write_replay(pid, seed, nrep, {"property": pid, "kind": "oracle", "what": f["what"], "signature": f["sig"],
                                              "case": f["case"], "detail": f.get("detail")})
        lines.append("VIOLATION property=%s replay=%s" % (pid, path))
        violations += 1
        if violations >= 5:
            break
    if not new and broken:
        nrep += 1
        payload = {"property": pid, "kind": "proof-obligation-or-correspondence",
                   "undischarged": [{"theorem": a, "reason": b} for a, b in undischarged],
                   "disagreements": dis[:5],
                   "build_log_tail": build.log[-3000:] if not build.ok else None,
                   "note": "no input was found on which the implementation violates the property; "
                           "the property is no longer shown to hold"}
        if dis:
            payload["case"] = dis[0]["case"]
        path = write_replay(pid, seed, nrep, payload)
        lines.append("VIOLATION property=%s replay=%s no-failing-input-found" % (pid, path))
        violations += 1

    wall = time.time() - t0
    discharged = len(obligations) - len({a for a, _ in undischarged if a != "source-audit"})
    ev = {
        "property_id": pid, "tier": tier, "seed": seed, "level": "proof",
        "coverage": {
            "obligations": max(len(obligations), 1),
            "discharged": max(discharged, 0) if obligations else 0,
            "checker_cmd": "cd lean && lake build %s && lake env lean <#print axioms of each theorem>" % " ".join(modules),
            "trusted_base": list(getattr(mod, "TRUSTED", [])) + [
                "Lean 4.33 kernel; axioms allowed: propext, Classical.choice, Quot.sound",
                "harness/extract.py (tables from /repo) and harness/describe.py (objects -> model input)",
            ],
            "theorems": {t: axioms.get(t) for t in obligations},
            "undischarged": [{"theorem": a, "reason": b} for a, b in undischarged],
            "evaluations": stats["evaluations"],
            "model_evaluations": stats["model_evals"],
            "distinct_nontrivial": len(stats["keys"]),
            "rule": getattr(mod, "RULE", ""),
            "samples": stats["samples"] or ["(none)"],
            "distribution": dict(sorted(stats["dist"].items())),
            "model_skipped": stats["model_skipped"],
            "correspondence_disagreements": len(dis),
            "corpus_cases": len(corpus),
            "known_findings_reconfirmed": [kf_open[k].get("what") for k in confirmed],
            "lean_build_s": round(build.wall, 1),
            "leanchecker": leancheck,
        },
        "assumptions": list(getattr(mod, "ASSUMPTIONS", [])),
        "wall_s": round(wall, 2),
        "violations": violations,
    }
    os.makedirs(common.EVIDENCE, exist_ok=True)
    with open(os.path.join(common.EVIDENCE, "%s.json" % pid), "w") as f:
        json.dump(ev, f, indent=1, ensure_ascii=False, default=str)
    for l in lines:
        print(l)
    print("%s %s: %d cases (%d distinct non-trivial), %d model comparisons, %d/%d obligations discharged, %d disagreements, %.1fs"
          % (pid, tier, stats["evaluations"], len(stats["keys"]), stats["model_evals"], max(discharged, 0), len(obligations),
             len(dis), wall))
    return 1 if violations else 0


if __name__ == "__main__":
    sys.exit(main())
