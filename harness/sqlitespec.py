"""Specification-level SELECT / DML descriptions for the SQLite-executed properties (C04, C05).

A specification is plain data (nested tuples).  Two emitters read it:
  * to_py  : Python source over the pypika API (what a user would write, in a chosen call order);
  * to_sql : the maximally explicit reference SQL — every sub-expression parenthesised, every column
             qualified, clauses in standard order — written from the specification, not from builder state.
"""
import random
import sqlite3

TABLES = {"t": ["a", "b", "c", "s"], "u": ["a", "b", "c", "s"], "v": ["a", "b", "c", "s"]}


def make_db(seed):
    r = random.Random(seed)
    con = sqlite3.connect(":memory:")
    for t, cols in TABLES.items():
        con.execute("create table %s (%s)" % (t, ", ".join(cols)))
        rows = []
        for _ in range(r.randint(4, 9)):
            rows.append((r.choice([None, 0, 1, 2, 3, 3]), r.choice([None, 1, 2, -1, 5]), r.choice([0, 1, 1, 2, 7, None]),
                         r.choice(["x", "y", "Xy", "it's", None, "", "10"])))
        rows += rows[:2]     # duplicates
        con.executemany("insert into %s values (?,?,?,?)" % t, rows)
    con.commit()
    return con


def sqlite_int_const(e):
    """what SQLite's resolver reads as an integer constant in ORDER BY (a literal integer under any number of unary
    signs and parentheses — it then means the K-th result column, not the value): never an ORDER BY key of a specification"""
    if e[0] == "lit":
        return True
    if e[0] == "neg":
        return sqlite_int_const(e[1])
    return False


class Src:
    """a FROM / JOIN item: a base table, a derived table (sub = its specification, alias required) or a WITH name"""

    def __init__(self, table, alias, sub=None, cte=None):
        self.table, self.alias, self.sub, self.cte = table, alias, sub, cte

    @property
    def name(self):
        return self.alias or self.table


class SpecGen:
    def __init__(self, rng, depth=0):
        self.r = rng
        self.depth = depth
        self.nsub = 0

    # ---------- expressions: ("kind", ...)
    def col(self, srcs):
        s = self.r.choice(srcs)
        return ("col", s.name, self.r.choice(["a", "b", "c"]), s)

    def num(self, srcs, d):
        r = self.r
        x = r.random()
        if d <= 0 or x < 0.35:
            return self.col(srcs) if r.random() < 0.7 else ("lit", r.choice([0, 1, 2, -1, 5, 2.5, -3]))
        if x < 0.65:
            return ("bin", r.choice(["+", "-", "*"]), self.num(srcs, d - 1), self.num(srcs, d - 1))
        if x < 0.72:
            return ("neg", self.num(srcs, d - 1))
        if x < 0.85:
            if r.random() < 0.5:
                return ("func", "Abs", [self.num(srcs, d - 1)])
            return ("func", "Coalesce", [self.num(srcs, d - 1), ("lit", r.choice([0, 7]))])
        if x < 0.93:
            return ("case", [(self.crit(srcs, d - 1), self.num(srcs, d - 1))], self.num(srcs, d - 1) if r.random() < 0.7 else None)
        return ("bin", "/", self.num(srcs, d - 1), ("lit", r.choice([1, 2, 4])))

    def crit(self, srcs, d):
        r = self.r
        x = r.random()
        if d <= 0 or x < 0.5:
            y = r.random()
            if y < 0.5:
                return ("cmp", r.choice(["=", "<>", "<", "<=", ">", ">="]), self.num(srcs, max(d - 1, 0)), self.num(srcs, max(d - 1, 0)))
            if y < 0.62:
                return ("in", self.num(srcs, 0), [("lit", r.choice([0, 1, 2, 3, 5])) for _ in range(r.choice([0, 1, 1, 2, 2, 3]))], r.random() < 0.3)
            if y < 0.74:
                return ("between", self.num(srcs, 0), ("lit", r.choice([0, 1])), ("lit", r.choice([2, 3, 5])))
            if y < 0.86:
                return ("isnull", self.col(srcs), r.random() < 0.5)
            s = r.choice(srcs)
            return ("like", ("col", s.name, "s", s), r.choice(["x%", "%y", "it's", "_", "%"]))
        if x < 0.62:
            return ("not", self.crit(srcs, d - 1))
        return (r.choice(["and", "or"]), self.crit(srcs, d - 1), self.crit(srcs, d - 1))

    # ---------- statements
    def select(self, allow_sub=True):
        r = self.r
        names = list(TABLES)
        nsrc = r.choice([1, 1, 2, 2, 3])
        srcs, froms, joins = [], [], []
        used = set()
        for i in range(nsrc):
            t = r.choice(names)
            alias = None
            if t in used or r.random() < 0.3:
                alias = "%s%d" % (t, len(srcs) + 1 + 10 * self.depth)
            used.add(t)
            s = Src(t, alias)
            x = r.random()
            if allow_sub and self.depth < 1 and x < 0.12:
                s = Src(None, "sq%d" % (len(srcs) + 1), sub=SpecGen(r, self.depth + 1).derived())
            elif allow_sub and self.depth < 1 and x < 0.2 and not any(q.cte for q in srcs):
                s = Src("w1", None, cte=SpecGen(r, self.depth + 1).derived())
            if i == 0 or r.random() < 0.3:
                froms.append(s)
            else:
                how = r.choice(["inner", "left", "cross", "inner", "left", "right", "outer"])
                on = None
                if how != "cross":
                    prev = r.choice(srcs)
                    on = ("cmp", "=", ("col", prev.name, r.choice(["a", "b"]), prev), ("col", s.name, r.choice(["a", "b"]), s))
                    if r.random() < 0.25:
                        on = ("and", on, self.crit(srcs + [s], 1))
                joins.append((s, how, on))
            srcs.append(s)
        # FROM items must all precede joins in pypika's rendering; keep the spec in that normal form
        spec = {"from": froms, "joins": joins, "srcs": srcs}
        agg = r.random() < 0.35
        sel = []
        group = []
        if agg:
            gcols = [self.col(srcs) for _ in range(r.choice([0, 1, 1, 2]))]
            group = gcols
            for g in gcols:
                sel.append((g, None))
            for _ in range(r.randint(1, 2)):
                sel.append((("agg", r.choice(["Sum", "Count", "Max", "Min"]), self.num(srcs, 1)), "ag%d" % len(sel) if r.random() < 0.6 else None))
            spec["having"] = ("cmp", r.choice([">", ">=", "<>"]), ("agg", r.choice(["Count", "Sum"]), self.col(srcs)), ("lit", r.choice([0, 1, 2]))) \
                if r.random() < 0.4 else None
            if spec["having"] is not None and allow_sub and self.depth < 1 and r.random() < 0.3:
                # the aggregate compared with a scalar sub-query (its own statement, in parentheses)
                spec["having"] = spec["having"][:3] + (("scalar", SpecGen(r, self.depth + 1).scalar_sub(srcs)),)
        else:
            for i in range(r.randint(1, 3)):
                e = self.num(srcs, 2)
                sel.append((e, "al%d" % i if r.random() < 0.4 else None))
            if allow_sub and self.depth < 1 and r.random() < 0.15:
                sub = SpecGen(r, self.depth + 1).scalar_sub(srcs)
                sel.append((("scalar", sub), "sc"))
            if r.random() < 0.2:
                s = r.choice(srcs)
                c_ = lambda n: ("col", s.name, n, s)
                if len(srcs) == 1:
                    # one source: a total order (up to identical rows) makes every window function deterministic
                    order = [c_(n) for n in r.sample(["a", "b", "c", "s"], 4)]
                    fnm = r.choice(["Rank", "Sum", "RowNumber", "Sum"])
                    frame = r.choice([None, 0, 1, 2, "unbounded"]) if fnm == "Sum" else None
                else:
                    # several sources: only functions whose value is the same for peers
                    order = [c_("c")]
                    fnm = r.choice(["Rank", "Sum", "DenseRank"])
                    frame = None
                sel.append((("win", fnm, c_("a"), c_("b"), order, frame), "w"))
            spec["having"] = None
        spec["select"] = sel
        spec["group"] = group
        spec["distinct"] = r.random() < 0.2 and not any(e[0][0] == "win" for e in sel)
        w = None
        if r.random() < 0.7:
            w = self.crit(srcs, 2)
            if allow_sub and self.depth < 1 and r.random() < 0.25:
                sub = SpecGen(r, self.depth + 1)
                if r.random() < 0.5:
                    w = ("and", w, ("insub", self.col(srcs), sub.simple_sub(), r.random() < 0.3))
                else:
                    w = ("and", w, ("exists", sub.correlated_sub(r.choice(srcs)), r.random() < 0.3))
        spec["where"] = w
        spec["order"] = []
        if r.random() < 0.5:
            cand = [i for i, (e, _) in enumerate(sel) if not sqlite_int_const(e)]
            for _ in range(r.randint(1, 2)):
                if cand:
                    spec["order"].append((r.choice(cand), r.choice([None, "asc", "desc"])))
        spec["limit"], spec["offset"] = None, None
        if r.random() < 0.3:
            spec["limit"] = r.randint(0, 6)
            if r.random() < 0.5:
                spec["offset"] = r.randint(0, 3)
        spec["with"] = None
        return spec

    def derived(self):
        """a sub-select exposing columns a, b, c, s (usable wherever a table is)"""
        r = self.r
        t = r.choice(list(TABLES))
        s = Src(t, None if r.random() < 0.6 else "d" + t)
        bexpr = r.choice([("col", s.name, "b", s), ("bin", "+", ("col", s.name, "b", s), ("lit", 1)), ("neg", ("col", s.name, "b", s))])
        return {"from": [s], "joins": [], "srcs": [s],
                "select": [(("col", s.name, "a", s), None), (bexpr, "b"), (("col", s.name, "c", s), None), (("col", s.name, "s", s), None)],
                "group": [], "having": None, "distinct": r.random() < 0.2, "where": self.crit([s], 1) if r.random() < 0.6 else None,
                "order": [], "limit": None, "offset": None, "with": None}

    def simple_sub(self):
        t = self.r.choice(list(TABLES))
        s = Src(t, None)
        return {"from": [s], "joins": [], "srcs": [s], "select": [(("col", s.name, "a", s), None)], "group": [], "having": None,
                "distinct": False, "where": self.crit([s], 1) if self.r.random() < 0.6 else None, "order": [], "limit": None, "offset": None, "with": None}

    def correlated_sub(self, outer):
        # another table, or an aliased second copy of the outer table itself (keep-the-first-per-group shapes)
        t = self.r.choice(list(TABLES)) if (outer.alias is None and outer.sub is None and outer.cte is None and self.r.random() < 0.25) \
            else self.r.choice([x for x in TABLES if x != outer.name] or list(TABLES))
        s = Src(t, "i%s" % t if (t == outer.name or self.r.random() < 0.4) else None)
        w = ("cmp", "=", ("col", s.name, "a", s), ("col", outer.name, "a", outer))
        if self.r.random() < 0.5:
            w = ("and", w, self.crit([s], 1))
        return {"from": [s], "joins": [], "srcs": [s], "select": [(("col", s.name, "b", s), None)], "group": [], "having": None,
                "distinct": False, "where": w, "order": [], "limit": None, "offset": None, "with": None, "split_where": self.r.random() < 0.6}

    def scalar_sub(self, outer_srcs):
        t = self.r.choice(list(TABLES))
        s = Src(t, "s%s" % t)
        return {"from": [s], "joins": [], "srcs": [s], "select": [(("agg", self.r.choice(["Max", "Count", "Sum"]), ("col", s.name, "b", s)), None)],
                "group": [], "having": None, "distinct": False, "where": self.crit([s], 1) if self.r.random() < 0.5 else None, "order": [],
                "limit": None, "offset": None, "with": None}


# ------------------------------------------------------------------ emitters

def src_var(s):
    return "T_%s" % s.name


def py_lit(v):
    import datetime
    import decimal
    if isinstance(v, decimal.Decimal):
        return "D(%r)" % str(v)
    if isinstance(v, datetime.date):
        return "date(%d, %d, %d)" % (v.year, v.month, v.day)
    return repr(v)


def bind_value(v):
    """the Python value the engine should end up storing for a literal"""
    import datetime
    import decimal
    if isinstance(v, bool):
        return int(v)
    if isinstance(v, decimal.Decimal):
        return float(v) if ("." in str(v) or "E" in str(v)) else int(v)
    if isinstance(v, datetime.date):
        return v.isoformat()
    return v


def make_db2(seed):
    """tables with a key (REPLACE / conflicts are observable)"""
    r = random.Random(seed)
    con = sqlite3.connect(":memory:")
    for t in TABLES:
        con.execute("create table %s (id integer primary key, a, b, c, s)" % t)
        rows = []
        for i in range(r.randint(3, 8)):
            rows.append((i + 1, r.choice([None, 0, 1, 2, 3, 3]), r.choice([None, 1, 2, -1, 5]), r.choice([0, 1, 1, 2, 7, None]),
                         r.choice(["x", "y", "Xy", "it's", None, "", "10"])))
        con.executemany("insert into %s values (?,?,?,?,?)" % t, rows)
    con.commit()
    return con


def py_expr(e, Q):
    k = e[0]
    if k == "col":
        return "%s.%s" % (src_var(e[3]), e[2])
    if k == "lit":
        return "VW(%s)" % py_lit(e[1])
    if k == "bin":
        return "(%s %s %s)" % (py_expr(e[2], Q), e[1], py_expr(e[3], Q))
    if k == "neg":
        return "(-%s)" % py_expr(e[1], Q)
    if k == "func":
        return "fn.%s(%s)" % (e[1], ", ".join(py_expr(a, Q) for a in e[2]))
    if k == "agg":
        return "fn.%s(%s)" % (e[1], py_expr(e[2], Q))
    if k == "case":
        s = "Case()" + "".join(".when(%s, %s)" % (py_expr(c, Q), py_expr(v, Q)) for c, v in e[1])
        return s + (".else_(%s)" % py_expr(e[2], Q) if e[2] is not None else "")
    if k == "cmp":
        op = {"=": "==", "<>": "!="}.get(e[1], e[1])
        return "(%s %s %s)" % (py_expr(e[2], Q), op, py_expr(e[3], Q))
    if k == "in":
        return "%s.%s([%s])" % (py_expr(e[1], Q), "notin" if e[3] else "isin", ", ".join(repr(v[1]) for v in e[2]))
    if k == "between":
        return "%s.between(%r, %r)" % (py_expr(e[1], Q), e[2][1], e[3][1])
    if k == "isnull":
        return "%s.%s()" % (py_expr(e[1], Q), "notnull" if e[2] else "isnull")
    if k == "like":
        return "%s.like(%r)" % (py_expr(e[1], Q), e[2])
    if k == "not":
        return "(~%s)" % py_expr(e[1], Q)
    if k in ("and", "or"):
        return "(%s %s %s)" % (py_expr(e[1], Q), "&" if k == "and" else "|", py_expr(e[2], Q))
    if k == "insub":
        return "%s.%s(%s)" % (py_expr(e[1], Q), "notin" if e[3] else "isin", py_select(e[2], Q, nested=True))
    if k == "exists":
        return "ExistsCriterion(%s)%s" % (py_select(e[1], Q, nested=True), ".negate()" if e[2] else "")
    if k == "scalar":
        return py_select(e[1], Q, nested=True)
    if k == "win":
        fnm, arg, part, order, frame = e[1], e[2], e[3], e[4], e[5]
        s = "an.%s(%s)" % (fnm, py_expr(arg, Q) if fnm == "Sum" else "")
        s += ".over(%s).orderby(%s)" % (py_expr(part, Q), ", ".join(py_expr(o, Q) for o in order))
        if frame == "unbounded":
            s += ".rows(an.Preceding(), an.CURRENT_ROW)"
        elif frame is not None:
            s += ".rows(an.Preceding(%d), an.CURRENT_ROW)" % frame
        return s
    raise ValueError(k)


def py_select(spec, Q, nested=False, order_seed=None, parts_out=None):
    """builder source; with order_seed the clause-adding calls are issued in a shuffled (legal) order"""
    if nested and order_seed is None and NESTED_ORDER[0] is not None:
        order_seed = NESTED_ORDER[0].getrandbits(32)
    calls = []
    head = Q
    for x in spec["srcs"]:
        if x.cte is not None:
            head += ".with_(%s, 'w1')" % py_select(x.cte, Q, nested=True)
            break
    select_first = False
    if order_seed is not None and head == Q and random.Random(order_seed ^ 0x5EED).random() < 0.4:
        # Query.select(...) is a legal first call too: the first from_() then joins the shuffled calls (before the joins)
        select_first = True
        pre = [".from_(%s)" % src_var(s) for s in spec["from"]]
    else:
        head += ".from_(%s)" % src_var(spec["from"][0])
        pre = [".from_(%s)" % src_var(s) for s in spec["from"][1:]]
    for s, how, on in spec["joins"]:
        how_py = {"inner": "inner", "left": "left", "cross": "cross", "right": "right", "outer": "outer"}[how]
        if on is None:
            pre.append(".join(%s, JoinType.cross).cross()" % src_var(s))
        else:
            pre.append(".join(%s, JoinType.%s).on(%s)" % (src_var(s), how_py, py_expr(on, Q)))
    sel = []
    for e, al in spec["select"]:
        p = py_expr(e, Q)
        sel.append("%s.as_(%r)" % (p, al) if al else p)
    if select_first:
        head += ".select(%s)" % ", ".join(sel)
    else:
        calls.append(".select(%s)" % ", ".join(sel))
    if spec["where"] is not None:
        if spec.get("split_where") and spec["where"][0] == "and":
            calls.append(".where(%s)" % py_expr(spec["where"][1], Q))
            calls.append(".where(%s)" % py_expr(spec["where"][2], Q))
        else:
            calls.append(".where(%s)" % py_expr(spec["where"], Q))
    if spec["group"]:
        calls.append(".groupby(%s)" % ", ".join(py_expr(g, Q) for g in spec["group"]))
    if spec["having"] is not None:
        calls.append(".having(%s)" % py_expr(spec["having"], Q))
    # keys with one direction that follow each other go into ONE orderby(k1, k2, order=…) call in every other statement
    # (decided by the specification's content, so that the canonical and the shuffled build agree)
    grouped = []
    for i, o in spec["order"]:
        e, al = spec["select"][i]
        p = py_expr(e, Q)
        p = "%s.as_(%r)" % (p, al) if al else p
        if grouped and grouped[-1][1] == o and (len(spec["order"]) + len(spec["select"])) % 2 == 0:
            grouped[-1][0].append(p)
        else:
            grouped.append(([p], o))
    for ps, o in grouped:
        calls.append(".orderby(%s%s)" % (", ".join(ps), ", order=Order.%s" % o if o else ""))
    if spec["distinct"]:
        calls.append(".distinct()")
    if spec["limit"] is not None:
        calls.append(".limit(%d)" % spec["limit"])
    if spec["offset"] is not None:
        calls.append(".offset(%d)" % spec["offset"])
    if order_seed is not None:
        r = random.Random(order_seed)
        # keep same-kind order (orderby / where); interleave the rest, joins may come after select / where
        queues = {}
        for c in pre:
            queues.setdefault("pre", []).append(c)
        for c in calls:
            queues.setdefault(c.split("(")[0], []).append(c)
        keys = list(queues)
        out = []
        while keys:
            k = r.choice(keys)
            out.append(queues[k].pop(0))
            if not queues[k]:
                keys.remove(k)
        body = "".join(out)
        if parts_out is not None:
            parts_out.append((head, list(out)))
    else:
        body = "".join(pre + calls)
        if parts_out is not None:
            parts_out.append((head, pre + calls))
    return head + body


COMPENSATE_MUL_DIV = [False]
NESTED_ORDER = [None]   # a random.Random: nested statements (IN / EXISTS / scalar / FROM sub-queries, WITH bodies) are built in shuffled legal orders too
BIND = [None]     # a list: literals of the reference statement are bound parameters collected here (C05)


def has_mul_div(e):
    """x * (y / z): rendered x*y/z by pypika (pinned by its own test-suite), which integer division tells apart"""
    if isinstance(e, tuple) and len(e) == 4 and e[0] == "bin" and e[1] == "*" and e[3][0] == "bin" and e[3][1] == "/":
        return True
    if isinstance(e, dict):
        return any(has_mul_div(v) for v in e.values())
    if isinstance(e, Src):
        return has_mul_div(e.sub) or has_mul_div(e.cte)
    if isinstance(e, (tuple, list)):
        return any(has_mul_div(x) for x in e)
    return False


def sql_expr(e):
    k = e[0]
    if COMPENSATE_MUL_DIV[0] and k == "bin" and e[1] == "*" and e[3][0] == "bin" and e[3][1] == "/":
        return "((%s * %s) / %s)" % (sql_expr(e[2]), sql_expr(e[3][2]), sql_expr(e[3][3]))
    if k == "col":
        return '"%s"."%s"' % (e[1], e[2])
    if k == "lit":
        v = e[1]
        if BIND[0] is not None:
            BIND[0].append(bind_value(v))
            return "?"
        return "(%s)" % v if isinstance(v, (int, float)) else "'%s'" % str(v).replace("'", "''")
    if k == "bin":
        return "(%s %s %s)" % (sql_expr(e[2]), e[1], sql_expr(e[3]))
    if k == "neg":
        return "(- %s)" % sql_expr(e[1])
    if k == "func":
        return "%s(%s)" % (e[1].upper(), ", ".join(sql_expr(a) for a in e[2]))
    if k == "agg":
        return "%s(%s)" % (e[1].upper(), sql_expr(e[2]))
    if k == "case":
        s = "(CASE " + " ".join("WHEN %s THEN %s" % (sql_expr(c), sql_expr(v)) for c, v in e[1])
        return s + (" ELSE %s" % sql_expr(e[2]) if e[2] is not None else "") + " END)"
    if k == "cmp":
        return "(%s %s %s)" % (sql_expr(e[2]), e[1], sql_expr(e[3]))
    if k == "in":
        return "(%s %sIN (%s))" % (sql_expr(e[1]), "NOT " if e[3] else "", ", ".join(sql_expr(v) for v in e[2]))
    if k == "between":
        return "(%s BETWEEN %s AND %s)" % (sql_expr(e[1]), sql_expr(e[2]), sql_expr(e[3]))
    if k == "isnull":
        return "(%s IS %sNULL)" % (sql_expr(e[1]), "NOT " if e[2] else "")
    if k == "like":
        return "(%s LIKE '%s')" % (sql_expr(e[1]), e[2].replace("'", "''"))
    if k == "not":
        return "(NOT %s)" % sql_expr(e[1])
    if k in ("and", "or"):
        return "(%s %s %s)" % (sql_expr(e[1]), k.upper(), sql_expr(e[2]))
    if k == "insub":
        return "(%s %sIN (%s))" % (sql_expr(e[1]), "NOT " if e[3] else "", sql_select(e[2]))
    if k == "exists":
        return "(%sEXISTS (%s))" % ("NOT " if e[2] else "", sql_select(e[1]))
    if k == "scalar":
        return "(%s)" % sql_select(e[1])
    if k == "win":
        fnm, arg, part, order, frame = e[1], e[2], e[3], e[4], e[5]
        name = {"Rank": "RANK", "Sum": "SUM", "RowNumber": "ROW_NUMBER", "DenseRank": "DENSE_RANK"}[fnm]
        s = "%s(%s) OVER (PARTITION BY %s ORDER BY %s" % (name, sql_expr(arg) if fnm == "Sum" else "", sql_expr(part),
                                                        ", ".join(sql_expr(o) for o in order))
        if frame == "unbounded":
            s += " ROWS BETWEEN UNBOUNDED PRECEDING AND CURRENT ROW"
        elif frame is not None:
            s += " ROWS BETWEEN %d PRECEDING AND CURRENT ROW" % frame
        return s + ")"
    raise ValueError(k)


def sql_src(s):
    if s.sub is not None:
        return '(%s) AS "%s"' % (sql_select(s.sub), s.alias)
    return '"%s"' % s.table + (' AS "%s"' % s.alias if s.alias else "")


def sql_select(spec):
    parts = []
    for x in spec["srcs"]:
        if x.cte is not None:
            parts.append('WITH "w1" AS (%s)' % sql_select(x.cte))
            break
    parts += ["SELECT " + ("DISTINCT " if spec["distinct"] else "") +
             ", ".join(sql_expr(e) + (' AS "%s"' % al if al else "") for e, al in spec["select"])]
    f = ", ".join(sql_src(s) for s in spec["from"])
    for s, how, on in spec["joins"]:
        kw = {"inner": "INNER JOIN", "left": "LEFT JOIN", "cross": "CROSS JOIN", "right": "RIGHT JOIN", "outer": "FULL OUTER JOIN"}[how]
        f += " %s %s" % (kw, sql_src(s)) + (" ON %s" % sql_expr(on) if on is not None else "")
    parts.append("FROM " + f)
    if spec["where"] is not None:
        parts.append("WHERE " + sql_expr(spec["where"]))
    if spec["group"]:
        parts.append("GROUP BY " + ", ".join(sql_expr(g) for g in spec["group"]))
    if spec["having"] is not None:
        parts.append("HAVING " + sql_expr(spec["having"]))
    if spec["order"]:
        parts.append("ORDER BY " + ", ".join(sql_expr(spec["select"][i][0]) + (" %s" % o.upper() if o else "") for i, o in spec["order"]))
    if spec["limit"] is not None:
        parts.append("LIMIT %d" % spec["limit"])
        if spec["offset"]:
            parts.append("OFFSET %d" % spec["offset"])
    elif spec["offset"]:
        parts.append("LIMIT -1 OFFSET %d" % spec["offset"])
    return " ".join(parts)


def all_srcs(spec, acc=None):
    acc = acc if acc is not None else []
    for s in spec["srcs"]:
        if s.sub is not None:
            all_srcs(s.sub, acc)
        if s.cte is not None:
            all_srcs(s.cte, acc)
        acc.append(s)

    def walk(e):
        if isinstance(e, tuple):
            if e and e[0] in ("insub", "exists"):
                all_srcs(e[2] if e[0] == "insub" else e[1], acc)
            if e and e[0] == "scalar":
                all_srcs(e[1], acc)
            for x in e:
                walk(x)
        elif isinstance(e, list):
            for x in e:
                walk(x)
    walk(spec["where"])
    walk(spec.get("having"))
    for e, _ in spec["select"]:
        walk(e)
    return acc


def prelude(spec, Q="SQLLiteQuery"):
    lines = []
    seen = set()
    for s in all_srcs(spec):
        if s.name in seen:
            continue
        seen.add(s.name)
        if s.sub is not None:
            lines.append("%s = %s.as_(%r)" % (src_var(s), py_select(s.sub, Q, nested=True), s.alias))
        elif s.cte is not None:
            lines.append("%s = AliasedQuery('w1')%s" % (src_var(s), ".as_(%r)" % s.alias if s.alias else ""))
        else:
            lines.append("%s = T(%r)%s" % (src_var(s), s.table, ".as_(%r)" % s.alias if s.alias else ""))
    return lines
