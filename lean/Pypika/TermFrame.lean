import Pypika.Builder
/-!
# Frame of the term-level builders

A function / aggregate / analytic wrapper has ten components the builder methods may touch (`Part`); `writesT` lists the ones
a call writes; `stepT_frame_func`: an accepted call on a wrapper changes no other component, nor the name, the schema, the
arguments or the extra fields.  `stepT_frame_case` the same for CASE.  `Agree/TermWrites.lean` ties `writesT` to the source.
-/
namespace Pypika.B
open Pypika

inductive Part | alias | cases | else_ | distinct | special | filter | includeOver | partition | orderbys | frame
  deriving DecidableEq, Repr

/-- the Python attributes behind a component (the model keeps `_include_filter` / `_filters` as one optional criterion and the
frame with its bounds as one optional value) -/
def Part.attrs : Part → List String
  | .alias => ["alias"] | .cases => ["_cases"] | .else_ => ["_else"] | .distinct => ["_distinct"]
  | .special => ["_ignore_nulls"] | .filter => ["_include_filter", "_filters"] | .includeOver => ["_include_over"]
  | .partition => ["_partition"] | .orderbys => ["_orderbys"] | .frame => ["frame", "bound"]

def writesT : TCall → List Part
  | .as_ _ => [.alias]
  | .when .. => [.cases]
  | .else_ _ => [.else_]
  | .filter _ => [.filter]
  | .over _ => [.includeOver, .partition]
  | .orderby .. => [.includeOver, .orderbys]
  | .frame .. => [.frame]
  | .ignoreNulls => [.special]
  | .distinct => [.distinct]

/-- **Frame (wrappers).**  An accepted call on a function term keeps the name, schema, arguments and every component it does
not list. -/
theorem stepT_frame_func (n : Str) (sc : Option (List Str)) (args : List Term) (d : Bool) (sp : Option Str) (ef : Option Term)
    (fi : Option Term) (ov : Bool) (pa : List Term) (oo : List (Term × Option Ord)) (fr : Option Frame) (np : Bool)
    (al : Option Str) (c : TCall) (t' : Term)
    (h : stepT (.func n sc args d sp ef fi ov pa oo fr np al) c = .ok t') :
    ∃ d' sp' fi' ov' pa' oo' fr' al', t' = .func n sc args d' sp' ef fi' ov' pa' oo' fr' np al' ∧
      (Part.distinct ∉ writesT c → d' = d) ∧ (Part.special ∉ writesT c → sp' = sp) ∧ (Part.filter ∉ writesT c → fi' = fi) ∧
      (Part.includeOver ∉ writesT c → ov' = ov) ∧ (Part.partition ∉ writesT c → pa' = pa) ∧
      (Part.orderbys ∉ writesT c → oo' = oo) ∧ (Part.frame ∉ writesT c → fr' = fr) ∧ (Part.alias ∉ writesT c → al' = al) := by
  cases c
  all_goals (
    simp only [stepT, Term.withAlias] at h
    first
      | (split at h
         · cases h
         · injection h with h; subst h; exact ⟨_, _, _, _, _, _, _, _, rfl, by simp [writesT]⟩)
      | (injection h with h; subst h; exact ⟨_, _, _, _, _, _, _, _, rfl, by simp [writesT]⟩)
      | (cases h))

/-- **Frame (CASE).**  `when` appends a branch, `else_` sets the default, `as_` the alias; nothing else changes. -/
theorem stepT_frame_case (ws : List (Term × Term)) (e : Option Term) (al : Option Str) (c : TCall) (t' : Term)
    (h : stepT (.case ws e al) c = .ok t') :
    ∃ ws' e' al', t' = .case ws' e' al' ∧ (Part.cases ∉ writesT c → ws' = ws) ∧ (Part.else_ ∉ writesT c → e' = e) ∧
      (Part.alias ∉ writesT c → al' = al) := by
  cases c
  all_goals (
    simp only [stepT, Term.withAlias] at h
    first
      | (injection h with h; subst h; exact ⟨_, _, _, rfl, by simp [writesT]⟩)
      | (cases h))

end Pypika.B
