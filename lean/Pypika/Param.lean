import Pypika.Base
/-!
# Parameterised rendering (model of `ValueWrapper.get_sql(parameter=…)` + the collector classes)

`render` marks every value a collector would take with `coll = true`.  `flattenP` is the text
pypika returns under a collector, together with the collected values, numbering the
placeholders from the number of values collected so far (`len(self._parameters)`).
-/
namespace Pypika

inductive ParamStyle | qmark | numeric | format | named | pyformat
  deriving DecidableEq, Repr, Inhabited

/-- a collected value, as handed to the DB-API: the undecorated payload -/
inductive PVal
  | str (s : Str)     -- strings are collected unquoted and unescaped
  | num (text : Str)  -- numbers / booleans / other texts
  deriving DecidableEq, Repr, Inhabited

def natStr (n : Nat) : Str := (Nat.repr n).toList

def pfxParam : Str := "param".toList
def sfxPy : Str := ")s".toList

/-- `named_placeholder_gen`: `param<n+1>` -/
def paramName (n : Nat) : Str := pfxParam ++ natStr (n + 1)

/-- placeholder text for the value collected when `n` values are already in the collector -/
def placeholder : ParamStyle → Nat → Str
  | .qmark, _ => ['?']
  | .numeric, n => ':' :: natStr (n + 1)
  | .format, _ => ['%', 's']
  | .named, n => ':' :: paramName n
  | .pyformat, n => '%' :: '(' :: (paramName n ++ sfxPy)

/-- `get_param_key`: the dictionary key derived from the placeholder text (dict styles) -/
def paramKey : ParamStyle → Str → Str
  | .named, p => p.drop 1                       -- placeholder[1:]
  | .pyformat, p => (p.drop 2).take (p.length - 4)   -- placeholder[2:-2]
  | _, p => p

def flattenPAux (st : ParamStyle) : Nat → Doc → Str × List PVal
  | _, [] => ([], [])
  | n, .str true _ p :: ps =>
      let (t, vs) := flattenPAux st (n + 1) ps
      (placeholder st n ++ t, .str p :: vs)
  | n, .num true x :: ps =>
      let (t, vs) := flattenPAux st (n + 1) ps
      (placeholder st n ++ t, .num x :: vs)
  | n, p :: ps =>
      let (t, vs) := flattenPAux st n ps
      (p.text ++ t, vs)

def flattenP (st : ParamStyle) (d : Doc) : Str × List PVal := flattenPAux st 0 d

/-- forget that values were collectable: the document an inline rendering produces -/
def uncollect : Doc → Doc
  | [] => []
  | .str _ q p :: ps => .str false q p :: uncollect ps
  | .num _ x :: ps => .num false x :: uncollect ps
  | p :: ps => p :: uncollect ps

end Pypika
