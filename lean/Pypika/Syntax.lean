import Pypika.Base
/-!
# Syntax: the term tree and the builder slot record, mirroring pypika's classes

One constructor per Python class (or per family of classes that share one `get_sql`).
`Query` is the slot record of `QueryBuilder` (+ dialect subclasses), nested with `Term`
through sub-queries, sources and joins.
-/
namespace Pypika

inductive Dialect
  | vertica | clickhouse | oracle | mssql | mysql | postgresql | redshift | sqllite | snowflake
  deriving DecidableEq, Repr, Inhabited

/-- the ten query classes (`Query`, `MySQLQuery`, …) -/
inductive QClass
  | generic | mysql | postgresql | redshift | oracle | mssql | sqlite | vertica | clickhouse | snowflake
  deriving DecidableEq, Repr, Inhabited

inductive Arith | add | sub | mul | div | lshift | rshift
  deriving DecidableEq, Repr, Inhabited

inductive BoolOp | and_ | or_ | xor_
  deriving DecidableEq, Repr, Inhabited

inductive Ord | asc | desc
  deriving DecidableEq, Repr, Inhabited

/-- what a `Field.table` contributes to rendering and identity: `_table_name`, schema chain, alias -/
structure TRef where
  name : Option Str
  schema : List Str := []
  alias : Option Str := none
  /-- the temporal version of the table a field is bound to / a source is: the text of its FOR / FOR PORTION OF criterion
      (`str(table._for)`, which `Table.__eq__` compares); `none` for the table itself.  Identity only — never rendered. -/
  ver : Option Str := none
  deriving DecidableEq, Repr, Inhabited

/-- Python value held by a `ValueWrapper` -/
inductive Val
  | str (s : Str)                    -- str, date/datetime (isoformat), UUID, str-valued Enum
  | num (text : Str)                 -- int / float: `str(value)`; collected as a number
  | other (text : Str)               -- Decimal and anything else: `str(value)`
  | bool (b : Bool) (sqlite : Bool)  -- `true/false`, or `1/0` under `SQLLiteValueWrapper`
  | null                             -- `ValueWrapper(None)`
  deriving DecidableEq, Repr, Inhabited

/-- JSON document of a `JSON` term -/
inductive JVal
  | null | bool (b : Bool) | num (text : Str) | str (s : Str)
  | arr (xs : List JVal) | obj (kvs : List (Str × JVal))
  deriving Repr, Inhabited

/-- window frame edge: `Preceding(n)`, `Following(n)`, or the constant `CURRENT ROW` -/
inductive Edge
  | preceding (n : Option Nat) | following (n : Option Nat) | current
  deriving DecidableEq, Repr, Inhabited

structure Frame where
  kind : Str            -- "ROWS" / "RANGE"
  lo : Edge
  hi : Option Edge
  deriving DecidableEq, Repr, Inhabited

/-- `Interval(...)` constructor arguments -/
structure IntervalArgs where
  years : Int := 0
  months : Int := 0
  days : Int := 0
  hours : Int := 0
  minutes : Int := 0
  seconds : Int := 0
  microseconds : Int := 0
  quarters : Int := 0
  weeks : Int := 0
  dialect : Option Dialect := none
  deriving DecidableEq, Repr, Inhabited

/-- scalar (term-free) slots of a query builder, including the dialect extras -/
structure QFlags where
  cls : QClass := .generic
  dialect : Option Dialect := none
  asKeyword : Bool := false
  wrapSetOps : Bool := true
  alias : Option Str := none
  deleteFrom : Bool := false
  replace_ : Bool := false
  distinct : Bool := false
  ignore : Bool := false
  forUpdate : Bool := false
  withTotals : Bool := false
  mysqlRollup : Bool := false
  selectInto : Bool := false
  foreignTable : Bool := false
  limit : Option Nat := none
  offset : Option Nat := none
  forceIndexes : List Str := []
  useIndexes : List Str := []
  -- MySQL / PostgreSQL
  ignoreDuplicates : Bool := false
  modifiers : List Str := []
  forUpdateNowait : Bool := false
  forUpdateSkipLocked : Bool := false
  forUpdateOf : List Str := []
  onConflict : Bool := false
  onConflictDoNothing : Bool := false
  -- MSSQL
  top : Option Nat := none
  topPercent : Bool := false
  topWithTies : Bool := false
  -- ClickHouse
  final : Bool := false
  sample : Option Nat := none
  sampleOffset : Option Nat := none
  limitBy : Option (Nat × Nat) := none
  -- Vertica / SQLite
  hint : Option Str := none
  insertOrReplace : Bool := false
  deriving Repr, Inhabited

mutual
  inductive Term where
    | field (name : Str) (alias : Option Str) (tbl : Option TRef)
    | star (tbl : Option TRef)
    | val (v : Val) (alias : Option Str)
    | wrapped (t : Term) (alias : Option Str)           -- ValueWrapper holding a Term
    | lit (text : Str) (alias : Option Str)             -- LiteralValue / NullValue / SystemTimeValue
    | neg (t : Term) (alias : Option Str)
    | arith (op : Arith) (l r : Term) (alias : Option Str)
    | basic (cmp : Str) (l r : Term) (alias : Option Str)
    | complex (op : BoolOp) (l r : Term) (alias : Option Str)
    | not (t : Term) (alias : Option Str)
    | isin (t : Term) (container : Term) (negated : Bool) (alias : Option Str)
    | between (t lo hi : Term) (alias : Option Str)
    | period (t lo hi : Term) (alias : Option Str)
    | isnull (t : Term) (alias : Option Str)
    | notnull (t : Term) (alias : Option Str)
    | bitand (t v : Term) (alias : Option Str)
    | exists_ (q : Term) (negated : Bool)
    | all (t : Term) (alias : Option Str)
    | tuple (vs : List Term) (alias : Option Str)
    | array (vs : List Term) (alias : Option Str)
    | case (whens : List (Term × Term)) (els : Option Term) (alias : Option Str)
    /-- every `Function` subclass: `special` = text placed after the arguments (`AS type`, `USING x`,
        `IGNORE NULLS`), `extractFrom` = EXTRACT's source, `filter` = `Some (Criterion.all(_filters))` iff
        `_include_filter`, `over` = `_include_over` with its PARTITION BY / ORDER BY terms,
        `noParens` = CURRENT_TIMESTAMP style -/
    | func (name : Str) (schema : Option (List Str)) (args : List Term) (distinct : Bool)
        (special : Option Str) (extractFrom : Option Term) (filter : Option Term)
        (over : Bool) (partition : List Term) (overOrder : List (Term × Option Ord)) (frame : Option Frame)
        (noParens : Bool) (alias : Option Str)
    | param (text : Str) (alias : Option Str)            -- explicit Parameter placeholder; the alias is never printed
                                                         -- but is looked up by GROUP BY / ORDER BY
    | interval (iv : IntervalArgs)
    | json (j : JVal) (alias : Option Str)
    | pseudo (name : Str)
    | atTz (field : Term) (zone : Str) (interval : Bool) (alias : Option Str)
    | values (field : Term)
    | sub (q : Query)                                     -- QueryBuilder used as a term
    | setop (s : SetOp)
    | empty                                               -- EmptyCriterion
    | index (name : Str)

  /-- a `Selectable` used as a row source -/
  inductive Src where
    | table (t : TRef) (portion : Bool) (temporal : Option Term)   -- FOR / FOR PORTION OF criterion
    | query (q : Query)
    | setop (s : SetOp)
    | aliased (name : Str) (q : Option Src)                -- AliasedQuery

  inductive Join where
    | plain (item : Src) (how : Str)
    | on (item : Src) (how : Str) (crit : Term) (collate : Option Str)
    | usingJ (item : Src) (how : Str) (fields : List Term)

  inductive Query where
    | mk (fl : QFlags)
        (from_ : List Src) (withs : List (Str × Src)) (selects : List Term)
        (insertTable updateTable : Option Src)
        (columns : List Term) (values : List (List Term))
        (wheres prewheres havings : Option Term)
        (groupbys : List Term) (orderbys : List (Term × Option Ord))
        (joins : List Join) (updates : List (Term × Term)) (usingSrcs : List Src)
        -- dialect extras
        (duplicateUpdates : List (Term × Term))
        (returns : List Term) (onConflictFields : List Term)
        (onConflictDoUpdates : List (Term × Option Term))
        (onConflictWheres onConflictDoUpdateWheres : Option Term)
        (distinctOn : List Term) (limitByTerms : List Term)

  inductive SetOp where
    | mk (base : Query) (ops : List (Str × Query)) (orderbys : List (Term × Option Ord))
        (limit offset : Option Nat) (alias : Option Str)
end

instance : Inhabited Term := ⟨.empty⟩

end Pypika
