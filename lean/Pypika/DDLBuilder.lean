import Pypika.DDL
/-!
# The `@builder` methods of `CreateQueryBuilder` / `VerticaCreateQueryBuilder` as a state machine over `CreateD`

`stepC` is the method body: argument dispatch (`str` / `(name, type)` tuple / `Column`), the guards that raise
`AttributeError` / `TypeError`, the slot written.  Tied to `/repo` call by call (`harness/trace.py`, driver op `cstep`).
-/
namespace Pypika.DDLB
open Pypika

/-- a column argument of `columns()` -/
inductive ColArg where
  | name (n : Str)                 -- `str`
  | pair (n : Str) (t : Str)       -- `(name, type)`
  | col (c : ColumnD)              -- a `Column` object

def ColArg.toColumn : ColArg → ColumnD
  | .name n => { name := n }
  | .pair n t => { name := n, type := some t }
  | .col c => c

inductive CCall where
  | createTable (t : TRef)
  | temporary | unlogged | withSystemVersioning | ifNotExists
  | columns (cs : List ColArg)
  | periodFor (name start stop : Str)
  | unique (cols : List Str)
  | primaryKey (cols : List Str)
  | foreignKey (cols : List Str) (ref : TRef) (refCols : List Str) (onDelete onUpdate : Option Str)
  | asSelect (q : Option Query)       -- `none`: the argument is not a QueryBuilder
  | «local» | preserveRows            -- Vertica

/-- `if self._primary_key:` / `if self._foreign_key:` — an empty key list does not count as defined -/
def hasPk (d : CreateD) : Bool := match d.primaryKey with | some pk => !pk.isEmpty | none => false
def hasFk (d : CreateD) : Bool := match d.foreignKey with | some (c, _, _) => !c.isEmpty | none => false

abbrev RC := Except Str CreateD
def raise (cls : String) : RC := .error cls.toList

def stepC (d : CreateD) : CCall → RC
  | .createTable t => if d.table.isSome then raise "AttributeError" else pure { d with table := some t }
  | .temporary => pure { d with temporary := true }
  | .unlogged => pure { d with unlogged := true }
  | .withSystemVersioning => pure { d with systemVersioning := true }
  | .ifNotExists => pure { d with ifNotExists := true }
  | .columns cs =>
    if d.asSelect.isSome then raise "AttributeError"
    else pure { d with columns := d.columns ++ cs.map ColArg.toColumn }
  | .periodFor n a b => pure { d with periodFors := d.periodFors ++ [(n, a, b)] }
  | .unique cols => pure { d with uniques := d.uniques ++ [cols] }
  | .primaryKey cols =>
    if hasPk d then raise "AttributeError"
    else pure { d with primaryKey := some cols }
  | .foreignKey cols ref refCols onDelete onUpdate =>
    if hasFk d then raise "AttributeError"
    else pure { d with foreignKey := some (cols, ref, refCols), onDelete := onDelete, onUpdate := onUpdate }
  | .asSelect q =>
    if !d.columns.isEmpty then raise "AttributeError"
    else match q with
      | none => raise "TypeError"
      | some q => pure { d with asSelect := some q }
  | .local => if !d.temporary then raise "AttributeError" else pure { d with «local» := true }
  | .preserveRows => if !d.temporary then raise "AttributeError" else pure { d with preserveRows := true }

def runC (d : CreateD) : List CCall → RC
  | [] => pure d
  | c :: cs => do runC (← stepC d c) cs

end Pypika.DDLB
