/-!
# Base: text, pieces, flattening

Text inside the model is `Str := List Char` (induction-friendly).  Rendering does not
produce a flat string but a `Doc` of `Piece`s; `flatten` is the only place where
quotes are doubled and aliases are given their `AS`.  All model files are import-free
(core Lean only) so that the driver can be a compiled executable.
-/
namespace Pypika

abbrev Str := List Char

/-- A piece of rendered SQL.  `q` is the quote character in effect (`none` = unquoted). -/
inductive Piece where
  /-- fixed text: keywords, operators, punctuation, blanks -/
  | kw (s : Str)
  /-- identifier with the quote it was rendered with -/
  | ident (q : Option Char) (name : Str)
  /-- a GROUP BY / ORDER BY reference to a select-list alias, with the (alias) quote it was rendered with -/
  | aliasRef (q : Option Char) (name : Str)
  /-- alias definition: blank or ` AS `, then the quoted alias -/
  | aliasDef (q : Option Char) (asKw : Bool) (name : Str)
  /-- string literal; `payload` is the *decoded* content, `flatten` doubles `q` inside it.
      `coll = true` marks a value that a parameter collector takes out of the text. -/
  | str (coll : Bool) (q : Option Char) (payload : Str)
  /-- data-derived text that is not a string literal (numbers, booleans, NULL written by a wrapper) -/
  | num (coll : Bool) (text : Str)
  /-- raw, user-supplied text that pypika copies verbatim (LiteralValue, explicit Parameter, PseudoColumn, hints) -/
  | raw (s : Str)
  /-- the point at which `get_sql` raises the named exception (no text) -/
  | err (exc : Str)
  deriving DecidableEq, Repr, Inhabited

abbrev Doc := List Piece

/-- double every occurrence of the quote character (Python: `value.replace(q, q*2)`) -/
def esc (q : Char) : Str → Str
  | [] => []
  | c :: cs => if c = q then q :: q :: esc q cs else c :: esc q cs

def quoteWith (q : Option Char) (s : Str) : Str :=
  match q with
  | none => s
  | some c => c :: s ++ [c]

def escWith (q : Option Char) (s : Str) : Str :=
  match q with
  | none => s
  | some c => esc c s

def Piece.text : Piece → Str
  | .kw s => s
  | .ident q n => quoteWith q n
  | .aliasRef q n => quoteWith q n
  | .aliasDef q a n => (if a then " AS ".toList else [' ']) ++ quoteWith q n
  | .str _ q p => quoteWith q (escWith q p)
  | .num _ t => t
  | .raw s => s
  | .err _ => []

def flatten : Doc → Str
  | [] => []
  | p :: ps => p.text ++ flatten ps

theorem flatten_append (a b : Doc) : flatten (a ++ b) = flatten a ++ flatten b := by
  induction a with
  | nil => rfl
  | cons p ps ih => simp [flatten, ih, List.append_assoc]

@[simp] theorem flatten_nil : flatten [] = [] := rfl
@[simp] theorem flatten_cons (p : Piece) (ps : Doc) : flatten (p :: ps) = p.text ++ flatten ps := rfl

/-- `sep.join(parts)` on docs -/
def joinDocs (sep : Doc) : List Doc → Doc
  | [] => []
  | [x] => x
  | x :: y :: xs => x ++ sep ++ joinDocs sep (y :: xs)

def kws (s : String) : Piece := .kw s.toList
def K (s : String) : Doc := [.kw s.toList]

/-- Python truthiness of an optional string (`None` and `""` are falsy) -/
def truthyStr : Option Str → Bool
  | none => false
  | some [] => false
  | some _ => true

/-- `a or b` on optional quote characters -/
def orQ (a b : Option Char) : Option Char := match a with | some c => some c | none => b

end Pypika
