import Pypika.BuilderLocal
/-! Locality of the builder calls, part 3 (one theorem per call; the parts build in parallel) -/
namespace Pypika.B
open Pypika
set_option linter.unusedSimpArgs false

set_option maxHeartbeats 1600000 in
theorem local_limit : ∀ a0, LocalAt (.limit a0) := by
  intro a0 s x w hr hw
  cases w
  all_goals first
    | listed [reads, writes] hr
    | listed [reads, writes] hw
    | local_tac [step]

set_option maxHeartbeats 1600000 in
theorem local_offset : ∀ a0, LocalAt (.offset a0) := by
  intro a0 s x w hr hw
  cases w
  all_goals first
    | listed [reads, writes] hr
    | listed [reads, writes] hw
    | local_tac [step]

set_option maxHeartbeats 1600000 in
theorem local_slice : ∀ a0 a1, LocalAt (.slice a0 a1) := by
  intro a0 a1 s x w hr hw
  cases w
  all_goals first
    | listed [reads, writes] hr
    | listed [reads, writes] hw
    | local_tac [step]

set_option maxHeartbeats 1600000 in
theorem local_forUpdateEx : ∀ a0 a1 a2, LocalAt (.forUpdateEx a0 a1 a2) := by
  intro a0 a1 a2 s x w hr hw
  cases w
  all_goals first
    | listed [reads, writes] hr
    | listed [reads, writes] hw
    | local_tac [step]

set_option maxHeartbeats 1600000 in
theorem local_onDuplicateKeyIgnore : ∀ (_ : Unit), LocalAt (.onDuplicateKeyIgnore) := by
  intro _ s x w hr hw
  cases w
  all_goals first
    | listed [reads, writes] hr
    | listed [reads, writes] hw
    | local_tac [step]

set_option maxHeartbeats 1600000 in
theorem local_modifier : ∀ a0, LocalAt (.modifier a0) := by
  intro a0 s x w hr hw
  cases w
  all_goals first
    | listed [reads, writes] hr
    | listed [reads, writes] hw
    | local_tac [step]

set_option maxHeartbeats 1600000 in
theorem local_distinctOn : ∀ a0, LocalAt (.distinctOn a0) := by
  intro a0 s x w hr hw
  cases w
  all_goals first
    | listed [reads, writes] hr
    | listed [reads, writes] hw
    | local_tac [step]

set_option maxHeartbeats 1600000 in
theorem local_onConflict : ∀ a0, LocalAt (.onConflict a0) := by
  intro a0 s x w hr hw
  cases w
  all_goals first
    | listed [reads, writes] hr
    | listed [reads, writes] hw
    | local_tac [step]

end Pypika.B
