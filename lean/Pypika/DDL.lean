import Pypika.RenderTerm
/-!
# DDL builders: CREATE TABLE / CREATE INDEX / DROP (`CreateQueryBuilder`, `CreateIndexBuilder`, `DropQueryBuilder`
and their dialect subclasses)
-/
namespace Pypika

structure ColumnD where
  name : Str
  type : Option Str := none
  nullable : Option Bool := none
  default : Option Term := none

/-- slots of a `CreateQueryBuilder` (Vertica extras included) -/
structure CreateD where
  quote : Option Char
  dialect : Option Dialect := none
  vertica : Bool := false
  table : Option (TRef)
  temporary : Bool := false
  unlogged : Bool := false
  ifNotExists : Bool := false
  systemVersioning : Bool := false
  «local» : Bool := false
  preserveRows : Bool := false
  columns : List ColumnD := []
  periodFors : List (Str × Str × Str) := []
  uniques : List (List Str) := []
  primaryKey : Option (List Str) := none
  foreignKey : Option (List Str × TRef × List Str) := none
  onDelete : Option Str := none
  onUpdate : Option Str := none
  asSelect : Option Query := none

/-- kwargs after `_set_kwargs_defaults` (quote_char, secondary_quote_char, dialect) on top of the caller's -/
def CreateD.ctx (c : Ctx) (d : CreateD) : Ctx :=
  { c with
    quote := (match c.quote with | .absent => .given d.quote | g => g)
    secondary := (match c.secondary with | none => some (some '\'') | s => s)
    dialect := (match c.dialect with | none => some d.dialect | s => s) }

/-- `Column.get_sql` -/
def ColumnD.doc (k : Ctx) (col : ColumnD) : Doc :=
  [.ident k.q col.name] ++
  (match col.type with | some t => if t ≠ [] then [kws " ", .raw t] else [] | none => []) ++
  (match col.nullable with | some true => K " NULL" | some false => K " NOT NULL" | none => []) ++
  (match col.default with | some t => kws " DEFAULT " :: render k t | none => [])

def namesDoc (q : Option Char) (names : List Str) : Doc := joinDocs (K ",") (names.map fun n => [Piece.ident q n])

/-- the clauses of the table body, in order: columns, PERIOD FOR, UNIQUE sets, PRIMARY KEY, FOREIGN KEY -/
def CreateD.bodyClauses (k : Ctx) (d : CreateD) : List Doc :=
  d.columns.map (ColumnD.doc k) ++
  d.periodFors.map (fun p => kws "PERIOD FOR " :: .ident k.q p.1 :: kws " (" :: .ident k.q p.2.1 :: kws "," :: .ident k.q p.2.2 :: K ")") ++
  d.uniques.map (fun u => kws "UNIQUE (" :: namesDoc k.q u ++ K ")") ++
  (match d.primaryKey with
   | some pk => if pk.isEmpty then [] else [kws "PRIMARY KEY (" :: namesDoc k.q pk ++ K ")"]
   | none => []) ++
  (match d.foreignKey with
   | some (cols, ref, refCols) =>
       if cols.isEmpty then [] else
       [kws "FOREIGN KEY (" :: namesDoc k.q cols ++ kws ") REFERENCES " :: (ref.doc k ++ aliasDoc k k.q ref.alias) ++ kws " (" ::
          namesDoc k.q refCols ++ K ")" ++
          (match d.onDelete with | some a => [kws " ON DELETE ", .raw a] | none => []) ++
          (match d.onUpdate with | some a => [kws " ON UPDATE ", .raw a] | none => [])]
   | none => [])

/-- `CreateQueryBuilder.get_sql` (and `VerticaCreateQueryBuilder`) -/
def renderCreate (c : Ctx) (d : CreateD) : Doc :=
  let k := d.ctx c
  match d.table with
  | none => []
  | some t =>
    if d.columns.isEmpty && d.asSelect.isNone then [] else
    let head : Doc :=
      if d.vertica then
        kws "CREATE " :: opt d.local (K "LOCAL ") ++ opt d.temporary (K "TEMPORARY ") ++ kws "TABLE " ::
          opt d.ifNotExists (K "IF NOT EXISTS ") ++ (t.doc k ++ aliasDoc k k.q t.alias)
      else
        kws "CREATE " :: (if d.temporary then K "TEMPORARY " else if d.unlogged then K "UNLOGGED " else []) ++ kws "TABLE " ::
          opt d.ifNotExists (K "IF NOT EXISTS ") ++ (t.doc k ++ aliasDoc k k.q t.alias)
    let preserve : Doc := opt (d.vertica && d.preserveRows) (K " ON COMMIT PRESERVE ROWS")
    match d.asSelect with
    | some q => head ++ (if d.vertica then preserve else []) ++ kws " AS (" :: renderQuery k q ++ K ")"
    | none =>
      head ++ kws " (" :: joinDocs (K ",") (d.bodyClauses k) ++ kws ")" ::
        opt d.systemVersioning (K " WITH SYSTEM VERSIONING") ++ preserve

/-- `CreateIndexBuilder.get_sql` (strings are taken as the caller wrote them / as str() renders them) -/
structure IndexD where
  index : Str
  table : Str
  columns : List Str
  unique : Bool := false
  ifNotExists : Bool := false
  wheres : Option Str := none

def renderCreateIndex (d : IndexD) : Doc :=
  if d.columns.isEmpty then [.err "AttributeError".toList]
  else if d.table.isEmpty then [.err "AttributeError".toList]
  else
    kws "CREATE " :: opt d.unique (K "UNIQUE ") ++ kws "INDEX " :: opt d.ifNotExists (K "IF NOT EXISTS ") ++
      [.raw d.index, kws " ON ", .raw d.table, kws "("] ++ joinDocs (K ", ") (d.columns.map fun n => [Piece.raw n]) ++ K ")" ++
      (match d.wheres with | some w => [kws " WHERE ", .raw w] | none => [])

/-- `DropQueryBuilder.get_sql` (+ ClickHouse ON CLUSTER) -/
structure DropD where
  kind : Str
  ifExists : Bool := false
  quote : Option Char
  target : Doc            -- rendered Database / Table / quoted name, by the harness-independent rules below
  cluster : Option Str := none

def renderDrop (d : DropD) : Doc :=
  kws "DROP " :: .raw d.kind :: kws " " :: opt d.ifExists (K "IF EXISTS ") ++ d.target ++
    (match d.cluster with
     | some cl => if d.kind ≠ "DICTIONARY".toList then [kws " ON CLUSTER ", .ident (some '"') cl] else []
     | none => [])

end Pypika
