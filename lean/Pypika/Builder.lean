import Pypika.Crit
import Pypika.Names
/-!
# Builder: the `@builder` methods of `QueryBuilder` and its dialect subclasses as a state machine

`Build.lean` (C08) abstracts payloads to identifiers.  This file is the concrete layer: the state is the
statement syntax `Query` of `Syntax.lean` (what `get_sql` reads) plus the bookkeeping attributes that only later
calls read (`_select_star`, `_select_star_tables`, `_subquery_count`, PostgreSQL `_return_star`); a call carries real
terms and sources; `step` is the method body — argument dispatch (`isinstance(term, str)` …), `wrap_constant`, the
guards that raise, the call-time flags.  The `@builder` wrapper itself (copy, then run the body on the copy) is
`Heap.lean`'s business; here a step maps the receiver's state to the result's state.

Tie to `/repo`: the driver operation `bstep` runs `step` on the state read from a real receiver and the described
arguments of a real call; the harness compares the rendering of the model's post-state, the bookkeeping attributes and
the exception class with what the real call produced (`harness/trace.py`).
-/
namespace Pypika

def Val.withWrapper (sqlite : Bool) : Val → Val
  | .bool b _ => .bool b sqlite
  | v => v

def Join.item : Join → Src
  | .plain i _ => i | .on i _ _ _ => i | .usingJ i _ _ => i

def Src.withAlias (a : Str) : Src → Src
  | .query (.mk fl f w se it ut c v wh pw hv gb ob j u us du rt ocf ocu ocw ocuw don lbt) =>
      .query (.mk { fl with alias := some a } f w se it ut c v wh pw hv gb ob j u us du rt ocf ocu ocw ocuw don lbt)
  | .setop (.mk b ops ob l o _) => .setop (.mk b ops ob l o (some a))
  | .table t p tmp => .table { t with alias := some a } p tmp
  | s => s

def Src.alias? : Src → Option Str
  | .query q => q.fl.alias
  | .setop (.mk _ _ _ _ _ a) => a
  | .table t _ _ => t.alias
  | .aliased n _ => some n

def Src.isSub : Src → Bool | .query _ => true | .setop _ => true | _ => false
def Src.isQuery : Src → Bool | .query _ => true | _ => false
def Src.isTable : Src → Bool | .table .. => true | _ => false

end Pypika

namespace Pypika.B
open Pypika

/-- the statement slots as a plain record (`Query.mk` has 24 positional arguments) -/
structure QR where
  fl : QFlags := {}
  from_ : List Src := []
  withs : List (Str × Src) := []
  selects : List Term := []
  insertTable : Option Src := none
  updateTable : Option Src := none
  columns : List Term := []
  values : List (List Term) := []
  wheres : Option Term := none
  prewheres : Option Term := none
  havings : Option Term := none
  groupbys : List Term := []
  orderbys : List (Term × Option Ord) := []
  joins : List Join := []
  updates : List (Term × Term) := []
  usingSrcs : List Src := []
  duplicateUpdates : List (Term × Term) := []
  returns : List Term := []
  onConflictFields : List Term := []
  onConflictDoUpdates : List (Term × Option Term) := []
  onConflictWheres : Option Term := none
  onConflictDoUpdateWheres : Option Term := none
  distinctOn : List Term := []
  limitByTerms : List Term := []

def QR.toQ (r : QR) : Query :=
  .mk r.fl r.from_ r.withs r.selects r.insertTable r.updateTable r.columns r.values r.wheres r.prewheres r.havings
    r.groupbys r.orderbys r.joins r.updates r.usingSrcs r.duplicateUpdates r.returns r.onConflictFields
    r.onConflictDoUpdates r.onConflictWheres r.onConflictDoUpdateWheres r.distinctOn r.limitByTerms

def QR.ofQ : Query → QR
  | .mk fl from_ withs selects insertTable updateTable columns values wheres prewheres havings groupbys orderbys joins
      updates usingSrcs duplicateUpdates returns onConflictFields onConflictDoUpdates onConflictWheres
      onConflictDoUpdateWheres distinctOn limitByTerms =>
    { fl, from_, withs, selects, insertTable, updateTable, columns, values, wheres, prewheres, havings, groupbys,
      orderbys, joins, updates, usingSrcs, duplicateUpdates, returns, onConflictFields, onConflictDoUpdates,
      onConflictWheres, onConflictDoUpdateWheres, distinctOn, limitByTerms }

theorem QR.toQ_ofQ (q : Query) : (QR.ofQ q).toQ = q := by cases q; rfl
theorem QR.ofQ_toQ (r : QR) : QR.ofQ r.toQ = r := by cases r; rfl

/-- builder state: the slots plus the attributes only later *calls* read -/
structure St where
  r : QR := {}
  selectStar : Bool := false                 -- `_select_star`
  starTables : List (Option TRef) := []      -- `_select_star_tables`
  subCount : Nat := 0                        -- `_subquery_count`
  returnStar : Bool := false                 -- PostgreSQL `_return_star`

/-- a Python argument at a position where pypika dispatches on its type -/
inductive Arg where
  | term (t : Term)            -- a `Term` / `Node` instance (Field, Star, Function, criterion, sub-query, Interval …)
  | str (s : Str)              -- `str`
  | const (v : Val)            -- any other plain value: number, bool, None, date, Decimal …
  | list (xs : List Arg)       -- `list`
  | tuple (xs : List Arg)      -- `tuple`

mutual
  /-- `Term.wrap_constant(val, wrapper_cls)`; `sqlite` = the wrapper class is `SQLLiteValueWrapper`.  Elements of a
      list / tuple are wrapped by `Tuple.__init__` with the default wrapper. -/
  def wrapConst (sqlite : Bool) : Arg → Term
    | .term t => t
    | .const .null => .lit "NULL".toList none
    | .const v => .val (Val.withWrapper sqlite v) none
    | .str s => .val (.str s) none
    | .list xs => .array (wrapConstL xs) none
    | .tuple xs => .tuple (wrapConstL xs) none
  def wrapConstL : List Arg → List Term
    | [] => []
    | a :: as => wrapConst false a :: wrapConstL as
end

/-- an `int` given where GROUP BY / ORDER BY take a position: `LiteralValue(str(n))` (never a bound parameter); the text of
    an int has neither a point nor an exponent -/
def isIntText (t : Str) : Bool := !t.isEmpty && t.all (fun ch => ch.isDigit || ch = '-')

def positionOrConst (wrap : Arg → Term) : Arg → Term
  | .const (.num t) => if isIntText t then .lit t none else wrap (.const (.num t))
  | a => wrap a

/-- `wrapper_cls(value)`: the wrapper applied directly (`set()`, `on_duplicate_key_update()`, `do_update()`), which
    wraps a term as well -/
def wrapDirect (sqlite : Bool) : Arg → Option Term
  | .term t => some (.wrapped t none)
  | .const v => some (.val (Val.withWrapper sqlite v) none)
  | .str s => some (.val (.str s) none)
  | _ => none

/-! ## identity: what `==` / `in` see of the objects the syntax stands for -/

/-- the table object a `Field(name, table=<source>)` refers to -/
def srcRef : Src → TRef
  | .table t _ _ => t
  | .query q => { name := none, schema := [], alias := q.fl.alias }
  | .setop (.mk _ _ _ _ _ a) => { name := none, schema := [], alias := a }
  | .aliased n _ => { name := none, schema := [], alias := some n }

/-- `source == field.table` for a non-`None` field table (`Table.__eq__`, `QueryBuilder.__eq__`,
    `AliasedQuery.__eq__`): a table equals a table with the same name, schema chain and alias; a sub-query equals a
    non-table with the same alias; a named query one with its name -/
def srcIsRef (s : Src) (r : TRef) : Bool :=
  match s with
  | .table t _ _ => r.name.isSome && decide (t = r)
  | .query q => r.name.isNone && decide (q.fl.alias = r.alias)
  | .setop (.mk _ _ _ _ _ a) => r.name.isNone && decide (a = r.alias)
  | .aliased n _ => r.name.isNone && decide (r.alias = some n)

def refIn (srcs : List Src) (r : TRef) : Bool := srcs.any (fun s => srcIsRef s r)

mutual
  /-- tables of the `Field`s reached by `nodes_()`: the descent of each class's `nodes_` (wrappers, unary minus,
      EXISTS, AT TIME ZONE, filters / OVER parts of functions and sub-queries are not descended into) -/
  def fieldTabs : Term → List (Option TRef)
    | .field _ _ tbl => [tbl]
    | .star tbl => [tbl]
    | .arith _ l r _ => fieldTabs l ++ fieldTabs r
    | .basic _ l r _ => fieldTabs r ++ fieldTabs l
    | .complex _ l r _ => fieldTabs r ++ fieldTabs l
    | .not t _ => fieldTabs t
    | .isin t c _ _ => fieldTabs t ++ fieldTabs c
    | .between t lo hi _ => fieldTabs t ++ fieldTabs lo ++ fieldTabs hi
    | .period t lo hi _ => fieldTabs t ++ fieldTabs lo ++ fieldTabs hi
    | .isnull t _ => fieldTabs t
    | .notnull t _ => fieldTabs t
    | .bitand t v _ => fieldTabs t ++ fieldTabs v
    | .all t _ => fieldTabs t
    | .tuple vs _ => fieldTabsL vs
    | .array vs _ => fieldTabsL vs
    | .case ws e _ => fieldTabsW ws ++ (match e with | some t => fieldTabs t | none => [])
    | .func _ _ args _ _ _ _ _ _ _ _ _ _ => fieldTabsL args
    | _ => []
  def fieldTabsL : List Term → List (Option TRef)
    | [] => []
    | t :: ts => fieldTabs t ++ fieldTabsL ts
  def fieldTabsW : List (Term × Term) → List (Option TRef)
    | [] => []
    | (a, b) :: ws => fieldTabs a ++ fieldTabs b ++ fieldTabsW ws
end

def optSrcs : Option Src → List Src | some s => [s] | none => []

/-- `QueryBuilder._validate_table(term)` -/
def validateTable (r : QR) (t : Term) : Bool :=
  (fieldTabs t).all fun ft =>
    match ft with
    | none => true
    | some ref => refIn (r.from_ ++ optSrcs r.updateTable) ref || refIn (r.joins.map Join.item) ref

/-! ## calls -/

inductive JoinKind where
  | on (crit : Option Term) (collate : Option Str)
  | onField (names : List Str)
  | using (names : List Str)
  | cross

inductive Call where
  | from_ (src : Src) (subCount : Nat)        -- `subCount` = the argument's own `_subquery_count` (0 unless a QueryBuilder)
  | fromStr (name : Str)
  | with_ (src : Src) (name : Str)
  | into (tbl : Src)
  | select (args : List Arg)
  | delete
  | update (tbl : Src)
  | columns (args : List Arg)
  | insert (args : List Arg)
  | replace (args : List Arg)
  | insertOrReplace (args : List Arg)          -- SQLite
  | forceIndex (names : List Str)
  | useIndex (names : List Str)
  | distinct | forUpdate | ignore | withTotals
  | prewhere (c : Term) | where_ (c : Term) | having (c : Term)
  | groupby (args : List Arg)
  | rollup (args : List Arg) (mysql : Bool)
  | orderby (args : List Arg) (order : Option Ord)
  | join (item : Src) (how : Str) (kind : JoinKind)
  | limit (n : Nat) | offset (n : Nat)
  | slice (start stop : Option Nat)
  | set (field : Arg) (value : Arg)
  -- MySQL / PostgreSQL
  | forUpdateEx (nowait skipLocked : Bool) (ofNames : List Str)
  | onDuplicateKeyUpdate (field : Arg) (value : Arg)
  | onDuplicateKeyIgnore
  | modifier (m : Str)
  | distinctOn (args : List Arg)
  | onConflict (args : List Arg)
  | doNothing
  | doUpdate (field : Arg) (value : Option Arg)
  | using (src : Src)
  | returning (args : List (Arg × Bool))       -- PostgreSQL; the flag: `term.is_aggregate` is truthy
  -- MSSQL
  | top (value : Option Int) (percent withTies : Bool)   -- `none`: `int(value)` raised `ValueError`
  -- ClickHouse
  | final
  | sample (n : Nat) (offset : Option Nat)
  | limitBy (n offset : Nat) (by_ : List Arg)
  -- Vertica
  | hint (label : Str)

abbrev R := Except Str St

def raise (cls : String) : R := .error cls.toList

def isSqlite (s : St) : Bool := s.r.fl.cls = .sqlite

def mkField (name : Str) (tbl : Option TRef) : Term := .field name none tbl

def dedup : List Str → List Str
  | [] => []
  | x :: xs => x :: (dedup xs).filter (· ≠ x)

/-- `_select_field(term)` -/
def selectField (s : St) (t : Term) (tbl : Option TRef) (isStar : Bool) : St :=
  if s.selectStar then s
  else if s.starTables.contains tbl then s
  else if isStar then
    { s with
      r := { s.r with selects := (s.r.selects.filter fun x =>
               match x with
               | .field _ _ xt => decide (tbl ≠ xt)
               | .star xt => decide (tbl ≠ xt)
               | _ => true) ++ [t] }
      starTables := s.starTables ++ [tbl] }
  else { s with r := { s.r with selects := s.r.selects ++ [t] } }

def selectOne (s : St) : Arg → R
  | .term (.field n a tbl) => pure (selectField s (.field n a tbl) tbl false)
  | .term (.star tbl) => pure (selectField s (.star tbl) tbl true)
  | .term t => pure { s with r := { s.r with selects := s.r.selects ++ [t] } }
  | .str name =>
    match s.r.from_ with
    | [] => raise "QueryException"
    | f :: _ =>
      if name = ['*'] then pure { s with selectStar := true, r := { s.r with selects := [.star none] } }
      else pure (selectField s (mkField name (some (srcRef f))) (some (srcRef f)) false)
  | a => pure { s with r := { s.r with selects := s.r.selects ++ [wrapConst (isSqlite s) a] } }

def selectAll (s : St) : List Arg → R
  | [] => pure s
  | a :: as => do selectAll (← selectOne s a) as

/-- `_apply_terms(*terms)` -/
def applyTerms (s : St) (args : List Arg) : R :=
  if s.r.insertTable.isNone then raise "AttributeError"
  else
    match args with
    | [] => pure s
    | .list _ :: _ | .tuple _ :: _ =>
      let row (a : Arg) : Option (List Term) :=
        match a with | .list xs => some (wrapConstL xs) | .tuple xs => some (wrapConstL xs) | _ => none
      match args.mapM row with
      | some rows => pure { s with r := { s.r with values := s.r.values ++ rows } }
      | none => raise "TypeError"
    | _ => pure { s with r := { s.r with values := s.r.values ++ [wrapConstL args] } }

/-- names of fields given as `str` or `Field` where the code writes `Field(x) if isinstance(x, str) else x` -/
def fieldOrTerm (tbl : Option TRef) : Arg → Option Term
  | .str n => some (mkField n tbl)
  | .term t => some t
  | _ => none

/-- `JoinOn.validate`: criterion tables that are neither a base table, an earlier join item nor the joined item -/
def joinMissing (r : QR) (item : Src) (crit : Term) : Bool :=
  (fieldTabs crit).any fun ft =>
    match ft with
    | none => false
    | some ref => !(refIn (r.from_ ++ optSrcs r.updateTable ++ r.withs.map (fun w => Src.aliased w.1 (some w.2))) ref ||
                    refIn (r.joins.map Join.item) ref || srcIsRef item ref)

/-- `item in base_tables` for a table item (`do_join`): only tables compare equal to a table -/
def tableInBase (r : QR) (t : TRef) : Bool :=
  (r.from_ ++ optSrcs r.updateTable).any fun s =>
    match s with | .table t' _ none => decide (t' = t) | _ => false

def andAll : List Term → Option Term
  | [] => none
  | c :: cs => some (cs.foldl (fun acc x => combine .and_ acc x) c)

/-- `term.tables_`: the `Table` objects among the tables of the fields reached by `nodes_()` -/
def tablesOf (t : Term) : List TRef :=
  (fieldTabs t).filterMap fun ft => match ft with
    | some r => if r.name.isSome then some r else none
    | none => none

/-- PostgreSQL `_validate_returning_term`: `true` = raises `QueryException` -/
def returnRejects (r : QR) (t : Term) : Bool :=
  (fieldTabs t).any fun ft =>
    !(r.insertTable.isSome || r.updateTable.isSome || r.fl.deleteFrom) ||
    (!(match ft with
        | none => r.insertTable.isNone || r.updateTable.isNone
        | some ref => refIn (optSrcs r.insertTable ++ optSrcs r.updateTable) ref) &&
     (tablesOf t).any fun tr =>
       !(refIn (r.from_ ++ r.joins.map Join.item ++ optSrcs r.insertTable ++ optSrcs r.updateTable) tr ||
         r.joins.any fun j => match j with
           | .on _ _ c _ => (tablesOf c).contains tr
           | _ => false))

/-- `_return_field` -/
def returnField (s : St) (t : Term) (isStar : Bool) : R :=
  if s.returnStar then pure s
  else if returnRejects s.r t then raise "QueryException"
  else
    let kept := if isStar then s.r.returns.filter (fun x => match x with | .field .. => false | .star _ => false | _ => true)
                else s.r.returns
    pure { s with returnStar := s.returnStar || isStar, r := { s.r with returns := kept ++ [t] } }

def returnOther (s : St) (t : Term) : R :=
  if returnRejects s.r t then raise "QueryException"
  else pure { s with r := { s.r with returns := s.r.returns ++ [t] } }

def returnOne (s : St) : Arg × Bool → R
  | (.term (.field n a tbl), _) => returnField s (.field n a tbl) false
  | (.term (.star tbl), _) => returnField s (.star tbl) true
  | (.str name, _) =>
    if name = ['*'] then
      pure { s with returnStar := true
                    r := { s.r with returns := (s.r.returns.filter fun x => match x with | .field .. => false | .star _ => false | _ => true) ++ [.star none] } }
    else
      match s.r.insertTable, s.r.updateTable with
      | some it, _ => returnField s (mkField name (some (srcRef it))) false
      | none, some ut => returnField s (mkField name (some (srcRef ut))) false
      | none, none =>
        if s.r.fl.deleteFrom then
          match s.r.from_ with
          | f :: _ => returnField s (mkField name (some (srcRef f))) false
          | [] => raise "IndexError"
        else raise "QueryException"
  | (.term t, agg) =>
    -- every other Term: an aggregate one (`is_aggregate` truthy) is rejected, whatever its class
    if agg then raise "QueryException" else returnOther s t
  | (a, _) => returnOther s (wrapConst (isSqlite s) a)

def returnAll (s : St) : List (Arg × Bool) → R
  | [] => pure s
  | a :: as => do returnAll (← returnOne s a) as

/-- which branch of `where()` (generic, or PostgreSQL's override on the ON CONFLICT path) a call takes -/
inductive WherePath | skip | pgReject | pgDoUpdate | pgConflict | generic
  deriving DecidableEq, Repr

def wherePath (s : St) (c : Term) : WherePath :=
  if c.isEmpty then .skip
  else if s.r.fl.cls = .postgresql && s.r.fl.onConflict then
    -- PostgreSQLQueryBuilder.where on the ON CONFLICT path
    if s.r.fl.onConflictDoNothing then .pgReject
    else if !s.r.onConflictFields.isEmpty && !s.r.onConflictDoUpdates.isEmpty then .pgDoUpdate
    else if !s.r.onConflictFields.isEmpty then .pgConflict
    else .pgReject
  else .generic

def whereApply (s : St) (c : Term) : WherePath → R
  | .skip => pure s
  | .pgReject => raise "QueryException"
  | .pgDoUpdate => pure { s with r := { s.r with onConflictDoUpdateWheres := whereStep s.r.onConflictDoUpdateWheres c } }
  | .pgConflict => pure { s with r := { s.r with onConflictWheres := whereStep s.r.onConflictWheres c } }
  | .generic =>
      pure { s with r := { s.r with
        fl := { s.r.fl with foreignTable := s.r.fl.foreignTable || !validateTable s.r c }
        wheres := whereStep s.r.wheres c } }

def step (s : St) : Call → R
  | .from_ src sub =>
    if src.isSub && src.alias?.isNone then
      let n := max s.subCount (if src.isQuery then sub else 0)
      pure { s with r := { s.r with from_ := s.r.from_ ++ [src.withAlias (C10.sqName n)] }, subCount := n + 1 }
    else pure { s with r := { s.r with from_ := s.r.from_ ++ [src] } }
  | .fromStr name =>
    pure { s with r := { s.r with from_ := s.r.from_ ++ [.table { name := some name } false none] } }
  | .with_ src name => pure { s with r := { s.r with withs := s.r.withs ++ [(name, src)] } }
  | .into tbl =>
    if s.r.insertTable.isSome then raise "AttributeError"
    else pure { s with r := { s.r with insertTable := some tbl,
                                       fl := { s.r.fl with selectInto := s.r.fl.selectInto || !s.r.selects.isEmpty } } }
  | .select args => selectAll s args
  | .delete =>
    if s.r.fl.deleteFrom || !s.r.selects.isEmpty || s.r.updateTable.isSome then raise "AttributeError"
    else pure { s with r := { s.r with fl := { s.r.fl with deleteFrom := true } } }
  | .update tbl =>
    if s.r.updateTable.isSome || !s.r.selects.isEmpty || s.r.fl.deleteFrom then raise "AttributeError"
    else pure { s with r := { s.r with updateTable := some tbl } }
  | .columns args =>
    match s.r.insertTable with
    | none => raise "AttributeError"
    | some it =>
      let args' := match args with | .list xs :: _ => xs | .tuple xs :: _ => xs | _ => args
      match args'.mapM (fieldOrTerm (some (srcRef it))) with
      | some ts => pure { s with r := { s.r with columns := s.r.columns ++ ts } }
      | none => raise "Unsupported"
  | .insert args => do
    let s' ← applyTerms s args
    pure { s' with r := { s'.r with fl := { s'.r.fl with replace_ := false } } }
  | .replace args => do
    let s' ← applyTerms s args
    pure { s' with r := { s'.r with fl := { s'.r.fl with replace_ := true } } }
  | .insertOrReplace args => do
    let s' ← applyTerms s args
    pure { s' with r := { s'.r with fl := { s'.r.fl with replace_ := true, insertOrReplace := true } } }
  | .forceIndex names => pure { s with r := { s.r with fl := { s.r.fl with forceIndexes := s.r.fl.forceIndexes ++ names } } }
  | .useIndex names => pure { s with r := { s.r with fl := { s.r.fl with useIndexes := s.r.fl.useIndexes ++ names } } }
  | .distinct => pure { s with r := { s.r with fl := { s.r.fl with distinct := true } } }
  | .forUpdate => pure { s with r := { s.r with fl := { s.r.fl with forUpdate := true } } }
  | .ignore => pure { s with r := { s.r with fl := { s.r.fl with ignore := true } } }
  | .withTotals => pure { s with r := { s.r with fl := { s.r.fl with withTotals := true } } }
  | .prewhere c =>
    pure { s with r := { s.r with
      fl := { s.r.fl with foreignTable := s.r.fl.foreignTable || !validateTable s.r c }
      prewheres := match s.r.prewheres with | none => some c | some x => some (combine .and_ x c) } }
  | .where_ c => whereApply s c (wherePath s c)
  | .having c =>
    if c.isEmpty then pure s else pure { s with r := { s.r with havings := whereStep s.r.havings c } }
  | .groupby args =>
    let one (a : Arg) : Except Str Term :=
      match a with
      | .str n => (match s.r.from_ with | f :: _ => pure (mkField n (some (srcRef f))) | [] => .error "IndexError".toList)
      | .const (.num t) =>
          if isIntText t then pure (.lit t none)
          else (match s.r.from_ with | _ :: _ => pure (.val (.num t) none) | [] => .error "IndexError".toList)
      | .const v => (match s.r.from_ with | _ :: _ => pure (.val v none) | [] => .error "IndexError".toList)
      | .term t => pure t
      | _ => .error "Unsupported".toList
    match args.mapM one with
    | .ok ts => pure { s with r := { s.r with groupbys := s.r.groupbys ++ ts } }
    | .error e => .error e
  | .rollup args mysql =>
    if s.r.fl.mysqlRollup then raise "AttributeError"
    else
      let terms := args.map fun a =>
        match a with | .list xs => Term.tuple (wrapConstL xs) none | .tuple xs => .tuple (wrapConstL xs) none | a => wrapConst false a
      let rollupOf (ts : List Term) : Term := .func "ROLLUP".toList none ts false none none none false [] [] none false none
      if mysql then
        if terms.isEmpty && s.r.groupbys.isEmpty then raise "RollupException"
        else pure { s with r := { s.r with fl := { s.r.fl with mysqlRollup := true }, groupbys := s.r.groupbys ++ terms } }
      else
        match s.r.groupbys.getLast? with
        | some (.func name none prev false none none none false [] [] none false none) =>
          if name = "ROLLUP".toList then
            pure { s with r := { s.r with groupbys := s.r.groupbys.dropLast ++ [rollupOf (prev ++ terms)] } }
          else pure { s with r := { s.r with groupbys := s.r.groupbys ++ [rollupOf terms] } }
        | _ => pure { s with r := { s.r with groupbys := s.r.groupbys ++ [rollupOf terms] } }
  | .orderby args order =>
    let one (a : Arg) : Except Str (Term × Option Ord) :=
      match a with
      | .str n => (match s.r.from_ with | f :: _ => pure (mkField n (some (srcRef f)), order) | [] => .error "IndexError".toList)
      | a => pure (positionOrConst (wrapConst false) a, order)
    match args.mapM one with
    | .ok ts => pure { s with r := { s.r with orderbys := s.r.orderbys ++ ts } }
    | .error e => .error e
  | .join item how kind =>
    -- `join()`: an un-aliased QueryBuilder item is tagged with the statement's counter
    let tagged := item.isQuery && item.alias?.isNone
    let item1 := if tagged then item.withAlias (C10.sqName s.subCount) else item
    let s1 := if tagged then { s with subCount := s.subCount + 1 } else s
    -- `do_join`: a table already among the base tables, joined without an alias, is renamed `<name>2`
    let rename (i : Src) : Src :=
      match i with
      | .table t p tmp =>
        if t.alias.isNone && tmp.isNone && tableInBase s.r t then
          .table { t with alias := some ((t.name.getD []) ++ ['2']) } p tmp
        else i
      | i => i
    let add (j : Join) : R := pure { s1 with r := { s.r with joins := s.r.joins ++ [j] } }
    match kind with
    | .on none _ => raise "JoinException"
    | .on (some c) collate =>
      if joinMissing s.r item1 c then raise "JoinException" else add (.on (rename item1) how c collate)
    | .onField [] => raise "JoinException"
    | .onField names =>
      match s.r.from_ with
      | [] => raise "IndexError"
      | f :: _ =>
        let cs := names.map fun n => Term.basic ['='] (mkField n (some (srcRef f))) (mkField n (some (srcRef item1))) none
        match andAll cs with
        | some c => if joinMissing s.r item1 c then raise "JoinException" else add (.on (rename item1) how c none)
        | none => raise "JoinException"
    | .using [] => raise "JoinException"
    | .using names => add (.usingJ (rename item1) how (names.map fun n => mkField n none))
    | .cross => add (.plain (rename item1) "CROSS".toList)
  | .limit n => pure { s with r := { s.r with fl := { s.r.fl with limit := some n } } }
  | .offset n => pure { s with r := { s.r with fl := { s.r.fl with offset := some n } } }
  | .slice start stop => pure { s with r := { s.r with fl := { s.r.fl with offset := start, limit := stop } } }
  | .set field value =>
    match fieldOrTerm none field, wrapDirect (isSqlite s) value with
    | some f, some v => pure { s with r := { s.r with updates := s.r.updates ++ [(f, v)] } }
    | _, _ => raise "Unsupported"
  | .forUpdateEx nowait skipLocked ofNames =>
    let fl' : QFlags := { s.r.fl with forUpdate := true, forUpdateNowait := nowait, forUpdateSkipLocked := skipLocked }
    pure { s with r := { s.r with fl := { fl' with forUpdateOf := dedup ofNames } } }
  | .onDuplicateKeyUpdate field value =>
    if s.r.fl.ignoreDuplicates then raise "QueryException"
    else match fieldOrTerm none field, wrapDirect false value with
      | some f, some v => pure { s with r := { s.r with duplicateUpdates := s.r.duplicateUpdates ++ [(f, v)] } }
      | _, _ => raise "Unsupported"
  | .onDuplicateKeyIgnore =>
    if !s.r.duplicateUpdates.isEmpty then raise "QueryException"
    else pure { s with r := { s.r with fl := { s.r.fl with ignoreDuplicates := true } } }
  | .modifier m => pure { s with r := { s.r with fl := { s.r.fl with modifiers := s.r.fl.modifiers ++ [m] } } }
  | .distinctOn args =>
    pure { s with r := { s.r with distinctOn := s.r.distinctOn ++ args.filterMap (fieldOrTerm none) } }
  | .onConflict args =>
    match s.r.insertTable with
    | none => raise "QueryException"
    | some it =>
      pure { s with r := { s.r with fl := { s.r.fl with onConflict := true }
                                    onConflictFields := s.r.onConflictFields ++ args.filterMap (fieldOrTerm (some (srcRef it))) } }
  | .doNothing =>
    if !s.r.onConflictDoUpdates.isEmpty then raise "QueryException"
    else pure { s with r := { s.r with fl := { s.r.fl with onConflictDoNothing := true } } }
  | .doUpdate field value =>
    if s.r.fl.onConflictDoNothing then raise "QueryException"
    else
      let f : Option Term :=
        match field with
        | .str n => (match s.r.insertTable with | some it => some (mkField n (some (srcRef it))) | none => none)
        | .term (.field n a t) => some (.field n a t)
        | .term (.star t) => some (.star t)
        | _ => none
      match f with
      | none => raise (match field with | .str _ => "Unsupported" | _ => "QueryException")
      | some f =>
        match value with
        | none => pure { s with r := { s.r with onConflictDoUpdates := s.r.onConflictDoUpdates ++ [(f, none)] } }
        | some v =>
          match wrapDirect false v with
          | some w => pure { s with r := { s.r with onConflictDoUpdates := s.r.onConflictDoUpdates ++ [(f, some w)] } }
          | none => raise "Unsupported"
  | .using src => pure { s with r := { s.r with usingSrcs := s.r.usingSrcs ++ [src] } }
  | .returning args => returnAll s args
  | .top value percent withTies =>
    match value with
    | none => raise "QueryException"
    | some v =>
      if percent && !(0 ≤ v && v ≤ 100) then raise "QueryException"
      else if v < 0 then raise "Unsupported"
      else pure { s with r := { s.r with fl := { s.r.fl with top := some v.toNat, topPercent := percent, topWithTies := withTies } } }
  | .final => pure { s with r := { s.r with fl := { s.r.fl with final := true } } }
  | .sample n off => pure { s with r := { s.r with fl := { s.r.fl with sample := some n, sampleOffset := off } } }
  | .limitBy n off by_ =>
    match by_.mapM (fieldOrTerm none) with
    | some ts => pure { s with r := { s.r with fl := { s.r.fl with limitBy := some (n, off) }, limitByTerms := ts } }
    | none => raise "Unsupported"
  | .hint label => pure { s with r := { s.r with fl := { s.r.fl with hint := some label } } }

/-- a chain of calls; the first exception ends it -/
def run (s : St) : List Call → R
  | [] => pure s
  | c :: cs => do run (← step s c) cs

/-- `Query._builder()` of a query class -/
def init (fl : QFlags) : St := { r := { fl := fl } }


/-! ## `_SetOperation`: its own builder methods, and the constructors on `QueryBuilder` (`union`, `intersect`, …) -/

inductive SCall where
  | orderby (args : List Arg) (order : Option Ord)
  | limit (n : Nat) | offset (n : Nat)
  | op (name : Str) (other : Query)            -- union / union_all / intersect / except_of / minus (and `+ * -`)

def SetOp.baseFrom : SetOp → List Src
  | .mk base _ _ _ _ _ => (QR.ofQ base).from_

def stepS : SetOp → SCall → Except Str SetOp
  | .mk base ops obs l o a, .orderby args order =>
    let one (x : Arg) : Except Str (Term × Option Ord) :=
      match x with
      | .str n => (match (QR.ofQ base).from_ with
                   | f :: _ => pure (mkField n (some (srcRef f)), order)
                   | [] => .error "IndexError".toList)
      | x => pure (positionOrConst (wrapConst false) x, order)
    match args.mapM one with
    | .ok ts => pure (.mk base ops (obs ++ ts) l o a)
    | .error e => .error e
  | .mk base ops obs _ o a, .limit n => pure (.mk base ops obs (some n) o a)
  | .mk base ops obs l _ a, .offset n => pure (.mk base ops obs l (some n) a)
  | .mk base ops obs l o a, .op name other => pure (.mk base (ops ++ [(name, other)]) obs l o a)

def runS (s : SetOp) : List SCall → Except Str SetOp
  | [] => pure s
  | c :: cs => do runS (← stepS s c) cs

/-- `QueryBuilder.union(other)` etc.: a new set operation whose base is the receiver -/
def mkSetOp (s : St) (name : Str) (other : Query) : SetOp := .mk s.r.toQ [(name, other)] [] none none none


/-! ## term-level builders: `Term.as_`, `Case.when / else_`, `AggregateFunction.filter`, `AnalyticFunction.over / orderby`,
`WindowFrameAnalyticFunction.rows / range`, `ignore_nulls`, `DistinctOptionFunction.distinct` -/

inductive TCall where
  | as_ (alias : Option Str)
  | when (crit : Term) (val : Arg)
  | else_ (val : Arg)
  | filter (cs : List Term)
  | over (terms : List Term)
  | orderby (terms : List Term) (order : Option Ord)
  | frame (kind : Str) (lo : Edge) (hi : Option Edge)
  | ignoreNulls
  | distinct

def Term.withAlias (a : Option Str) : Term → Term
  | .field n _ t => .field n a t
  | .val v _ => .val v a
  | .wrapped t _ => .wrapped t a
  | .lit s _ => .lit s a
  | .neg t _ => .neg t a
  | .arith op l r _ => .arith op l r a
  | .basic c l r _ => .basic c l r a
  | .complex op l r _ => .complex op l r a
  | .not t _ => .not t a
  | .isin t c n _ => .isin t c n a
  | .between t lo hi _ => .between t lo hi a
  | .period t lo hi _ => .period t lo hi a
  | .isnull t _ => .isnull t a
  | .notnull t _ => .notnull t a
  | .bitand t v _ => .bitand t v a
  | .all t _ => .all t a
  | .tuple vs _ => .tuple vs a
  | .array vs _ => .array vs a
  | .case ws e _ => .case ws e a
  | .func n s args d sp ef fi ov pa oo fr np _ => .func n s args d sp ef fi ov pa oo fr np a
  | .param s _ => .param s a
  | .json j _ => .json j a
  | .atTz f z i _ => .atTz f z i a
  | t => t

def stepT : Term → TCall → Except Str Term
  | t, .as_ a => pure (Term.withAlias a t)
  | .case ws e al, .when c v => pure (.case (ws ++ [(c, wrapConst false v)]) e al)
  | .case ws _ al, .else_ v => pure (.case ws (some (wrapConst false v)) al)
  | .func n s args d sp ef fi ov pa oo fr np al, .filter cs =>
      pure (.func n s args d sp ef (some (cs.foldl (combine .and_) (fi.getD .empty))) ov pa oo fr np al)
  | .func n s args d sp ef fi _ pa oo fr np al, .over ts => pure (.func n s args d sp ef fi true (pa ++ ts) oo fr np al)
  | .func n s args d sp ef fi _ pa oo fr np al, .orderby ts order =>
      pure (.func n s args d sp ef fi true pa (oo ++ ts.map (fun t => (t, order))) fr np al)
  | .func n s args d sp ef fi ov pa oo fr np al, .frame kind lo hi =>
      if fr.isSome then .error "AttributeError".toList
      else pure (.func n s args d sp ef fi ov pa oo (some { kind := kind, lo := lo, hi := hi }) np al)
  | .func n s args d _ ef fi ov pa oo fr np al, .ignoreNulls =>
      pure (.func n s args d (some "IGNORE NULLS".toList) ef fi ov pa oo fr np al)
  | .func n s args _ sp ef fi ov pa oo fr np al, .distinct => pure (.func n s args true sp ef fi ov pa oo fr np al)
  | _, _ => .error "Unsupported".toList

end Pypika.B
