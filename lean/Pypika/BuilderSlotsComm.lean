import Pypika.BuilderSlots
/-! Algebra of slot replacement: replacing two different slots commutes (56 × 56 cases, each by reflexivity), replacing one
slot twice keeps the last, replacing a slot by itself changes nothing, erasing = replacing by the blank state's value. -/
namespace Pypika.B
open Pypika

set_option maxHeartbeats 4000000 in
theorem copySlot_comm (w1 w2 : Slot) (h : w1 ≠ w2) (x y s : St) :
    copySlot w1 x (copySlot w2 y s) = copySlot w2 y (copySlot w1 x s) := by
  cases w1 <;> cases w2 <;> first | rfl | exact absurd rfl h

theorem copySlot_over (w : Slot) (x y s : St) : copySlot w x (copySlot w y s) = copySlot w x s := by
  cases w <;> rfl

theorem copySlot_self (w : Slot) (s : St) : copySlot w s s = s := by
  cases w <;> rfl

/-- a state with every slot at its initial value -/
def blank : St := { r := { fl := {} } }

theorem eraseSlot_eq (w : Slot) (s : St) : eraseSlot w s = copySlot w blank s := by
  cases w <;> rfl

theorem eraseAll_eq (ws : List Slot) (s : St) : eraseAll ws s = copyAll ws blank s := by
  induction ws generalizing s with
  | nil => rfl
  | cons w ws ih =>
    simp only [eraseAll, copyAll, List.foldl_cons] at ih ⊢
    rw [eraseSlot_eq, ih]

theorem copySlot_cls (w : Slot) (x s : St) : (copySlot w x s).r.fl.cls = s.r.fl.cls := by cases w <;> rfl

theorem copyAll_cls (ws : List Slot) (x s : St) : (copyAll ws x s).r.fl.cls = s.r.fl.cls := by
  induction ws generalizing s with
  | nil => rfl
  | cons w ws ih =>
    simp only [copyAll, List.foldl_cons] at ih ⊢
    rw [ih, copySlot_cls]

theorem copyAll_cons (w : Slot) (ws : List Slot) (x s : St) : copyAll (w :: ws) x s = copyAll ws x (copySlot w x s) := rfl

/-- a single replacement moves inside a block of replacements of other slots -/
theorem copySlot_copyAll (w : Slot) (ws : List Slot) (hw : w ∉ ws) (x y s : St) :
    copySlot w x (copyAll ws y s) = copyAll ws y (copySlot w x s) := by
  induction ws generalizing s with
  | nil => rfl
  | cons v vs ih =>
    have hv : w ≠ v := fun h => hw (h ▸ List.mem_cons_self)
    rw [copyAll_cons, copyAll_cons, ih (fun h => hw (List.mem_cons_of_mem _ h)), copySlot_comm w v hv]

/-- replacing a duplicate-free block twice keeps the last -/
theorem copyAll_over (ws : List Slot) (hn : ws.Nodup) (x y s : St) : copyAll ws x (copyAll ws y s) = copyAll ws x s := by
  induction ws generalizing s with
  | nil => rfl
  | cons w ws ih =>
    have hw : w ∉ ws := (List.nodup_cons.mp hn).1
    rw [copyAll_cons, copyAll_cons, copyAll_cons, copySlot_copyAll w ws hw, copySlot_over, ih (List.nodup_cons.mp hn).2]

theorem copyAll_self (ws : List Slot) (s : St) : copyAll ws s s = s := by
  induction ws with
  | nil => rfl
  | cons w ws ih => rw [copyAll_cons, copySlot_self, ih]

/-- blocks over disjoint slots commute -/
theorem copyAll_comm (ws vs : List Slot) (hd : ∀ w ∈ ws, w ∉ vs) (x y s : St) :
    copyAll ws x (copyAll vs y s) = copyAll vs y (copyAll ws x s) := by
  induction ws generalizing s with
  | nil => rfl
  | cons w ws ih =>
    rw [copyAll_cons, copyAll_cons, copySlot_copyAll w vs (hd w List.mem_cons_self),
      ih (fun u hu => hd u (List.mem_cons_of_mem _ hu))]

/-- two states that agree off a duplicate-free block: the one is the other with the block replaced -/
theorem copyAll_of_sameOff (ws : List Slot) (hn : ws.Nodup) (a b : St) (h : eraseAll ws a = eraseAll ws b) :
    copyAll ws a b = a := by
  rw [eraseAll_eq, eraseAll_eq] at h
  have := congrArg (copyAll ws a) h
  rw [copyAll_over ws hn, copyAll_over ws hn, copyAll_self] at this
  exact this.symm

end Pypika.B
