import Pypika.Syntax
/-!
# replace_table: rewriting table references through the whole syntax

`mapT p f` rewrites every table reference of a term with `f`.  The *policy* `p` says which
positions are descended into:

* `Pol.spec` — the specification: every occurrence at any depth (what "building the same object
  with the other table" does);
* `Pol.code` — what `/repo`'s `replace_table` methods do today: a sub-query used as FROM / JOIN /
  USING item is compared with the table to replace but not descended into, a set operation
  inherits the no-op `Term.replace_table`, a table given as the body of a WITH entry is kept
  (`isinstance(alias_query.query, Term)`), and the temporal criterion of a table is not a term slot
  of any `replace_table`.

The property theorem (`Props/C15.lean`) is: on syntax without those listed shapes the two
policies coincide, and the specification policy is a functor (`mapT f ∘ mapT g = mapT (f ∘ g)`),
from which "replace(build A) = build B" follows for every builder context.
-/
namespace Pypika

structure Pol where
  /-- descend into sub-queries used as FROM / JOIN / USING items -/
  srcQuery : Bool
  /-- rewrite inside set operations -/
  setop : Bool
  /-- rewrite a table used as the body of a WITH entry -/
  withTable : Bool
  /-- rewrite the temporal criterion (`FOR …`) attached to a table source -/
  temporal : Bool
  deriving DecidableEq, Repr

def Pol.spec : Pol := ⟨true, true, true, true⟩
def Pol.code : Pol := ⟨false, false, false, false⟩

mutual
  def mapT (p : Pol) (f : TRef → TRef) : Term → Term
    | .field n a tbl => .field n a (match tbl with | some t => some (f t) | none => none)
    | .star tbl => .star (match tbl with | some t => some (f t) | none => none)
    | .val v a => .val v a
    | .wrapped t a => .wrapped (mapT p f t) a
    | .lit s a => .lit s a
    | .neg t a => .neg (mapT p f t) a
    | .arith op l r a => .arith op (mapT p f l) (mapT p f r) a
    | .basic cmp l r a => .basic cmp (mapT p f l) (mapT p f r) a
    | .complex op l r a => .complex op (mapT p f l) (mapT p f r) a
    | .not t a => .not (mapT p f t) a
    | .isin t c n a => .isin (mapT p f t) (mapT p f c) n a
    | .between t lo hi a => .between (mapT p f t) (mapT p f lo) (mapT p f hi) a
    | .period t lo hi a => .period (mapT p f t) (mapT p f lo) (mapT p f hi) a
    | .isnull t a => .isnull (mapT p f t) a
    | .notnull t a => .notnull (mapT p f t) a
    | .bitand t v a => .bitand (mapT p f t) (mapT p f v) a
    | .exists_ q n => .exists_ (mapT p f q) n
    | .all t a => .all (mapT p f t) a
    | .tuple vs a => .tuple (mapTL p f vs) a
    | .array vs a => .array (mapTL p f vs) a
    | .case ws e a => .case (mapPairs p f ws) (mapTO p f e) a
    | .func name schema args distinct special extractFrom filter over partition overOrder frame noParens alias =>
        .func name schema (mapTL p f args) distinct special (mapTO p f extractFrom) (mapTO p f filter) over
          (mapTL p f partition) (mapOrd p f overOrder) frame noParens alias
    | .param s a => .param s a
    | .interval iv => .interval iv
    | .json j a => .json j a
    | .pseudo n => .pseudo n
    | .atTz fld z i a => .atTz (mapT p f fld) z i a
    | .values fld => .values (mapT p f fld)
    | .sub q => .sub (mapQ p f q)
    | .setop s => .setop (if p.setop then mapS p f s else s)
    | .empty => .empty
    | .index n => .index n

  def mapTL (p : Pol) (f : TRef → TRef) : List Term → List Term
    | [] => []
    | t :: ts => mapT p f t :: mapTL p f ts

  def mapTO (p : Pol) (f : TRef → TRef) : Option Term → Option Term
    | none => none
    | some t => some (mapT p f t)

  def mapPairs (p : Pol) (f : TRef → TRef) : List (Term × Term) → List (Term × Term)
    | [] => []
    | (a, b) :: ps => (mapT p f a, mapT p f b) :: mapPairs p f ps

  def mapOrd (p : Pol) (f : TRef → TRef) : List (Term × Option Ord) → List (Term × Option Ord)
    | [] => []
    | (t, o) :: ts => (mapT p f t, o) :: mapOrd p f ts

  def mapCU (p : Pol) (f : TRef → TRef) : List (Term × Option Term) → List (Term × Option Term)
    | [] => []
    | (a, b) :: ps => (mapT p f a, mapTO p f b) :: mapCU p f ps

  def mapRows (p : Pol) (f : TRef → TRef) : List (List Term) → List (List Term)
    | [] => []
    | r :: rs => mapTL p f r :: mapRows p f rs

  /-- a row source in FROM / JOIN / USING / INSERT / UPDATE position: `new if item == current else item` -/
  def mapSrc (p : Pol) (f : TRef → TRef) : Src → Src
    | .table t portion none => .table (f t) portion none
    | .table t portion (some c) =>
        -- a table carrying FOR … is not equal to the plain table to replace (`Table.__eq__`), and no
        -- `replace_table` rewrites the temporal criterion
        if p.temporal then .table (f t) portion (some (mapT p f c)) else .table t portion (some c)
    | .query q => .query (if p.srcQuery then mapQ p f q else q)
    | .setop s => .setop (if p.setop then mapS p f s else s)
    | .aliased n q => .aliased n (if p.srcQuery then mapOS p f q else q)

  def mapOS (p : Pol) (f : TRef → TRef) : Option Src → Option Src
    | none => none
    | some s => some (mapSrc p f s)

  def mapSrcL (p : Pol) (f : TRef → TRef) : List Src → List Src
    | [] => []
    | s :: ss => mapSrc p f s :: mapSrcL p f ss

  /-- the body of a WITH entry: a query is rewritten (always descended), a set operation by policy -/
  def mapWithBody (p : Pol) (f : TRef → TRef) : Src → Src
    | .table t portion none => if p.withTable then .table (f t) portion none else .table t portion none
    | .table t portion (some c) =>
        if p.withTable && p.temporal then .table (f t) portion (some (mapT p f c)) else .table t portion (some c)
    | .query q => .query (mapQ p f q)
    | .setop s => .setop (if p.setop then mapS p f s else s)
    | .aliased n q => .aliased n (if p.srcQuery then mapOS p f q else q)

  def mapWiths (p : Pol) (f : TRef → TRef) : List (Str × Src) → List (Str × Src)
    | [] => []
    | (n, s) :: ws => (n, mapWithBody p f s) :: mapWiths p f ws

  def mapJoin (p : Pol) (f : TRef → TRef) : Join → Join
    | .plain item how => .plain (mapSrc p f item) how
    | .on item how crit collate => .on (mapSrc p f item) how (mapT p f crit) collate
    | .usingJ item how fields => .usingJ (mapSrc p f item) how (mapTL p f fields)

  def mapJoins (p : Pol) (f : TRef → TRef) : List Join → List Join
    | [] => []
    | j :: js => mapJoin p f j :: mapJoins p f js

  def mapQ (p : Pol) (f : TRef → TRef) : Query → Query
    | .mk fl from_ withs selects insertTable updateTable columns values wheres prewheres havings
          groupbys orderbys joins updates usingSrcs duplicateUpdates returns onConflictFields
          onConflictDoUpdates onConflictWheres onConflictDoUpdateWheres distinctOn limitByTerms =>
        .mk fl (mapSrcL p f from_) (mapWiths p f withs) (mapTL p f selects) (mapOS p f insertTable) (mapOS p f updateTable)
          (mapTL p f columns) (mapRows p f values) (mapTO p f wheres) (mapTO p f prewheres) (mapTO p f havings)
          (mapTL p f groupbys) (mapOrd p f orderbys) (mapJoins p f joins) (mapPairs p f updates) (mapSrcL p f usingSrcs)
          (mapPairs p f duplicateUpdates) (mapTL p f returns) (mapTL p f onConflictFields) (mapCU p f onConflictDoUpdates)
          (mapTO p f onConflictWheres) (mapTO p f onConflictDoUpdateWheres) (mapTL p f distinctOn) (mapTL p f limitByTerms)

  def mapS (p : Pol) (f : TRef → TRef) : SetOp → SetOp
    | .mk base ops orderbys limit offset alias =>
        .mk (mapQ p f base) (mapOps p f ops) (mapOrd p f orderbys) limit offset alias

  def mapOps (p : Pol) (f : TRef → TRef) : List (Str × Query) → List (Str × Query)
    | [] => []
    | (o, q) :: rest => (o, mapQ p f q) :: mapOps p f rest
end

/-- `new_table if table == current_table else table` -/
def swapRef (a b : TRef) (t : TRef) : TRef := if t = a then b else t

/-- the model of `x.replace_table(a, b)` as `/repo` implements it -/
def replaceT (a b : TRef) : Term → Term := mapT Pol.code (swapRef a b)
def replaceQ (a b : TRef) : Query → Query := mapQ Pol.code (swapRef a b)
/-- the specification: the same object with `b` wherever `a` stood -/
def substT (a b : TRef) : Term → Term := mapT Pol.spec (swapRef a b)
def substQ (a b : TRef) : Query → Query := mapQ Pol.spec (swapRef a b)

end Pypika

namespace Pypika

/-- `chk p P x`: every table reference of `x` satisfies `P`, and `x` contains none of the shapes that
    policy `p` does not descend into.  `chk Pol.code (fun _ => true)` = "no listed gap shape occurs";
    `chk Pol.spec P` = "all references, at any depth, satisfy `P`". -/
def chkRef (P : TRef → Bool) : Option TRef → Bool
  | none => true
  | some t => P t

mutual
  def chkT (p : Pol) (P : TRef → Bool) : Term → Bool
    | .field _ _ tbl => chkRef P tbl
    | .star tbl => chkRef P tbl
    | .val _ _ => true
    | .wrapped t _ => chkT p P t
    | .lit _ _ => true
    | .neg t _ => chkT p P t
    | .arith _ l r _ => chkT p P l && chkT p P r
    | .basic _ l r _ => chkT p P l && chkT p P r
    | .complex _ l r _ => chkT p P l && chkT p P r
    | .not t _ => chkT p P t
    | .isin t c _ _ => chkT p P t && chkT p P c
    | .between t lo hi _ => chkT p P t && chkT p P lo && chkT p P hi
    | .period t lo hi _ => chkT p P t && chkT p P lo && chkT p P hi
    | .isnull t _ => chkT p P t
    | .notnull t _ => chkT p P t
    | .bitand t v _ => chkT p P t && chkT p P v
    | .exists_ q _ => chkT p P q
    | .all t _ => chkT p P t
    | .tuple vs _ => chkTL p P vs
    | .array vs _ => chkTL p P vs
    | .case ws e _ => chkPairs p P ws && chkTO p P e
    | .func _ _ args _ _ extractFrom filter _ partition overOrder _ _ _ =>
        chkTL p P args && chkTO p P extractFrom && chkTO p P filter && chkTL p P partition && chkOrd p P overOrder
    | .param _ _ => true
    | .interval _ => true
    | .json _ _ => true
    | .pseudo _ => true
    | .atTz fld _ _ _ => chkT p P fld
    | .values fld => chkT p P fld
    | .sub q => chkQ p P q
    | .setop s => p.setop && chkS p P s
    | .empty => true
    | .index _ => true

  def chkTL (p : Pol) (P : TRef → Bool) : List Term → Bool
    | [] => true
    | t :: ts => chkT p P t && chkTL p P ts

  def chkTO (p : Pol) (P : TRef → Bool) : Option Term → Bool
    | none => true
    | some t => chkT p P t

  def chkPairs (p : Pol) (P : TRef → Bool) : List (Term × Term) → Bool
    | [] => true
    | (a, b) :: ps => chkT p P a && chkT p P b && chkPairs p P ps

  def chkOrd (p : Pol) (P : TRef → Bool) : List (Term × Option Ord) → Bool
    | [] => true
    | (t, _) :: ts => chkT p P t && chkOrd p P ts

  def chkCU (p : Pol) (P : TRef → Bool) : List (Term × Option Term) → Bool
    | [] => true
    | (a, b) :: ps => chkT p P a && chkTO p P b && chkCU p P ps

  def chkRows (p : Pol) (P : TRef → Bool) : List (List Term) → Bool
    | [] => true
    | r :: rs => chkTL p P r && chkRows p P rs

  def chkSrc (p : Pol) (P : TRef → Bool) : Src → Bool
    | .table t _ none => P t
    | .table t _ (some c) => p.temporal && P t && chkT p P c
    | .query q => p.srcQuery && chkQ p P q
    | .setop s => p.setop && chkS p P s
    | .aliased _ q => p.srcQuery && chkOS p P q

  def chkOS (p : Pol) (P : TRef → Bool) : Option Src → Bool
    | none => true
    | some s => chkSrc p P s

  def chkSrcL (p : Pol) (P : TRef → Bool) : List Src → Bool
    | [] => true
    | s :: ss => chkSrc p P s && chkSrcL p P ss

  def chkWithBody (p : Pol) (P : TRef → Bool) : Src → Bool
    | .table t _ none => p.withTable && P t
    | .table t _ (some c) => p.withTable && p.temporal && P t && chkT p P c
    | .query q => chkQ p P q
    | .setop s => p.setop && chkS p P s
    | .aliased _ q => p.srcQuery && chkOS p P q

  def chkWiths (p : Pol) (P : TRef → Bool) : List (Str × Src) → Bool
    | [] => true
    | (_, s) :: ws => chkWithBody p P s && chkWiths p P ws

  def chkJoin (p : Pol) (P : TRef → Bool) : Join → Bool
    | .plain item _ => chkSrc p P item
    | .on item _ crit _ => chkSrc p P item && chkT p P crit
    | .usingJ item _ fields => chkSrc p P item && chkTL p P fields

  def chkJoins (p : Pol) (P : TRef → Bool) : List Join → Bool
    | [] => true
    | j :: js => chkJoin p P j && chkJoins p P js

  def chkQ (p : Pol) (P : TRef → Bool) : Query → Bool
    | .mk _ from_ withs selects insertTable updateTable columns values wheres prewheres havings
          groupbys orderbys joins updates usingSrcs duplicateUpdates returns onConflictFields
          onConflictDoUpdates onConflictWheres onConflictDoUpdateWheres distinctOn limitByTerms =>
        chkSrcL p P from_ && chkWiths p P withs && chkTL p P selects && chkOS p P insertTable && chkOS p P updateTable &&
          chkTL p P columns && chkRows p P values && chkTO p P wheres && chkTO p P prewheres && chkTO p P havings &&
          chkTL p P groupbys && chkOrd p P orderbys && chkJoins p P joins && chkPairs p P updates && chkSrcL p P usingSrcs &&
          chkPairs p P duplicateUpdates && chkTL p P returns && chkTL p P onConflictFields && chkCU p P onConflictDoUpdates &&
          chkTO p P onConflictWheres && chkTO p P onConflictDoUpdateWheres && chkTL p P distinctOn && chkTL p P limitByTerms

  def chkS (p : Pol) (P : TRef → Bool) : SetOp → Bool
    | .mk base ops orderbys _ _ _ => chkQ p P base && chkOps p P ops && chkOrd p P orderbys

  def chkOps (p : Pol) (P : TRef → Bool) : List (Str × Query) → Bool
    | [] => true
    | (_, q) :: rest => chkQ p P q && chkOps p P rest
end

end Pypika
