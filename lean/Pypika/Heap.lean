/-!
# Heap: objects with shared container cells — the model of `copy.copy` + `@builder`

Objects hold scalars, references and *cells* (lists / sets / dicts).  `copy.copy` is shallow: the
copy's attributes point to the same cells, except those a `__copy__` re-copies.  A builder call is
`copyObj` followed by the method body's effects applied to the copy.
-/
namespace Pypika.Heap

abbrev Obj := Nat
abbrev Cell := Nat
abbrev Attr := Nat

inductive Val | scalar (n : Nat) | ref (o : Obj) | cell (c : Cell)
  deriving DecidableEq, Repr

structure Heap where
  nObj : Nat
  nCell : Nat
  attrs : Obj → Attr → Option Val
  cells : Cell → List Val

/-- `h'` extends `h`: every object and cell that existed is unchanged -/
structure Ext (h h' : Heap) : Prop where
  objs : h.nObj ≤ h'.nObj
  cls : h.nCell ≤ h'.nCell
  attrs_eq : ∀ o, o < h.nObj → h'.attrs o = h.attrs o
  cells_eq : ∀ c, c < h.nCell → h'.cells c = h.cells c

theorem Ext.refl (h : Heap) : Ext h h := ⟨Nat.le_refl _, Nat.le_refl _, fun _ _ => rfl, fun _ _ => rfl⟩
theorem Ext.trans {a b c : Heap} (h1 : Ext a b) (h2 : Ext b c) : Ext a c :=
  ⟨Nat.le_trans h1.objs h2.objs, Nat.le_trans h1.cls h2.cls,
   fun o ho => by rw [h2.attrs_eq o (Nat.lt_of_lt_of_le ho h1.objs), h1.attrs_eq o ho],
   fun c hc => by rw [h2.cells_eq c (Nat.lt_of_lt_of_le hc h1.cls), h1.cells_eq c hc]⟩

/-- what a builder body can do -/
inductive Eff
  | rebind (a : Attr) (v : Val)                  -- self.a = v
  | rebindFresh (a : Attr) (items : List Val)    -- self.a = self.a + items   (a new list)
  | inplace (a : Attr) (items : List Val)        -- self.a.append(..) / self.a += [..] on a container
  | argwrite (o : Obj) (a : Attr) (v : Val)      -- param.a = v
  | nested (o : Obj) (a : Attr) (items : List Val)  -- write through an object held by self

def setAttr (h : Heap) (o : Obj) (a : Attr) (v : Val) : Heap :=
  { h with attrs := fun o' a' => if o' = o ∧ a' = a then some v else h.attrs o' a' }

def newCell (h : Heap) (content : List Val) : Heap × Cell :=
  ({ h with nCell := h.nCell + 1, cells := fun c => if c = h.nCell then content else h.cells c }, h.nCell)

def cellOf (h : Heap) (o : Obj) (a : Attr) : Option Cell :=
  match h.attrs o a with | some (.cell c) => some c | _ => none

def appendCell (h : Heap) (c : Cell) (items : List Val) : Heap :=
  { h with cells := fun c' => if c' = c then h.cells c ++ items else h.cells c' }

def applyEff (h : Heap) (s : Obj) : Eff → Heap
  | .rebind a v => setAttr h s a v
  | .rebindFresh a items =>
      match cellOf h s a with
      | some c => setAttr (newCell h (h.cells c ++ items)).1 s a (.cell (newCell h (h.cells c ++ items)).2)
      | none => h
  | .inplace a items =>
      match cellOf h s a with
      | some c => appendCell h c items
      | none => h
  | .argwrite o a v => setAttr h o a v
  | .nested o a items =>
      match cellOf h o a with
      | some c => appendCell h c items
      | none => h

/-- `copy.copy` with a `__copy__` that re-copies (one level) the attributes in `rc` -/
def recopy (h : Heap) (src dst : Obj) : List Attr → Heap
  | [] => h
  | a :: as =>
      match cellOf h src a with
      | some c => recopy (setAttr (newCell h (h.cells c)).1 dst a (.cell (newCell h (h.cells c)).2)) src dst as
      | none => recopy h src dst as

def copyObj (h : Heap) (src : Obj) (rc : List Attr) : Heap × Obj :=
  (recopy { h with nObj := h.nObj + 1, attrs := fun o a => if o = h.nObj then h.attrs src a else h.attrs o a } src h.nObj rc,
   h.nObj)

/-- an effect is safe on a fresh copy whose attributes `rc` were re-copied -/
def Eff.safe (rc : List Attr) : Eff → Bool
  | .rebind _ _ => true
  | .rebindFresh _ _ => true
  | .inplace a _ => rc.contains a
  | .argwrite _ _ _ => false
  | .nested _ _ _ => false

end Pypika.Heap
