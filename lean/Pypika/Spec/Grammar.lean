import Pypika.Render
/-!
# Spec: the layered expression grammar shared by the supported engines (arithmetic core)

Levels (loosest first): 0 = `<< >>`, 1 = `+ -`, 2 = `* /`, 3 = unary minus / atoms / parentheses.
Binary levels are left-associative.  `G n ts t` : the token list `ts` derives tree `t` at level `n`.
The meaning of a tree is taken in *any* algebra satisfying only the re-association identities
pypika relies on; shifts and negation are uninterpreted.
-/
namespace Pypika.Spec
open Pypika

def lvl : Arith → Nat
  | .lshift | .rshift => 0 | .add | .sub => 1 | .mul | .div => 2

inductive Tree
  | leaf (a : Nat)
  | neg (t : Tree)
  | bin (o : Arith) (l r : Tree)
  deriving Repr, DecidableEq

inductive Tok | atom (a : Nat) | op (o : Arith) | lp | rp
  deriving DecidableEq, Repr

inductive G : Nat → List Tok → Tree → Prop
  | atom (a) : G 3 [.atom a] (.leaf a)
  | paren {ts t} : G 0 ts t → G 3 (.lp :: ts ++ [.rp]) t
  | neg {ts t} : G 3 ts t → G 3 (.op .sub :: ts) (.neg t)
  | up {n ts t} : n < 3 → G (n+1) ts t → G n ts t
  | bin {n o l r tl tr} : lvl o = n → G n l tl → G (n+1) r tr → G n (l ++ .op o :: r) (.bin o tl tr)

theorem G.lift {m ts t} (h : G m ts t) (hm : m ≤ 3) : ∀ k, k ≤ m → G (m - k) ts t := by
  intro k
  induction k with
  | zero => intro _; simpa using h
  | succ k ih =>
    intro hk
    have h1 := ih (by omega)
    have : m - k = (m - (k+1)) + 1 := by omega
    rw [this] at h1
    exact G.up (by omega) h1

theorem G.to {n m ts t} (h : G m ts t) (hnm : n ≤ m) (hm : m ≤ 3) : G n ts t := by
  have := G.lift h hm (m - n) (by omega)
  have e : m - (m - n) = n := by omega
  rwa [e] at this

/-- the algebra in which expressions are read: only the re-association identities pypika relies on -/
structure Alg (α : Type) where
  add : α → α → α
  sub : α → α → α
  mul : α → α → α
  div : α → α → α
  shl : α → α → α
  shr : α → α → α
  neg : α → α
  add_add : ∀ a b c, add a (add b c) = add (add a b) c
  add_sub : ∀ a b c, add a (sub b c) = sub (add a b) c
  mul_mul : ∀ a b c, mul a (mul b c) = mul (mul a b) c
  mul_div : ∀ a b c, mul a (div b c) = div (mul a b) c

def Alg.ap {α} (A : Alg α) : Arith → α → α → α
  | .add => A.add | .sub => A.sub | .mul => A.mul | .div => A.div | .lshift => A.shl | .rshift => A.shr

def eval {α} (A : Alg α) (env : Nat → α) : Tree → α
  | .leaf a => env a
  | .neg t => A.neg (eval A env t)
  | .bin o l r => A.ap o (eval A env l) (eval A env r)

end Pypika.Spec
