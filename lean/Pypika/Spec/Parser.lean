import Pypika.Spec.Grammar
/-!
# Spec: the layered arithmetic grammar `G` is unambiguous

A deterministic precedence parser (`parse`, fuel-bounded so that it is structurally recursive) and
its completeness for `G`: every derivation `G n ts t` is the one the parser finds.  Hence a token
list has at most one tree at each level (`G_unambiguous`) — the "textbook fact" that
`C02.render_sound` relied on is a theorem: the tree of equal value whose existence `render_sound`
proves is THE reading of the rendered tokens.
-/
namespace Pypika.Spec
open Pypika

abbrev PRes := Option (Tree × List Tok)

/-- level 3: an atom, a parenthesised expression (read by `p0`), or a unary minus over a level-3 expression (`p3`) -/
def atomCase (p0 p3 : List Tok → PRes) : List Tok → PRes
  | .atom a :: r => some (.leaf a, r)
  | .lp :: r =>
    (match p0 r with
     | some (t, .rp :: r') => some (t, r')
     | _ => none)
  | .op o :: r =>
    if o = .sub then
      (match p3 r with
       | some (t, r') => some (.neg t, r')
       | none => none)
    else none
  | _ => none

/-- one step of a left-associative chain of level-`n` operators: `pn1` reads the next operand, `k` continues -/
def loopCase (n : Nat) (acc : Tree) (pn1 : List Tok → PRes) (k : Tree → List Tok → PRes) : List Tok → PRes
  | .op o :: r =>
    if lvl o = n then
      (match pn1 r with
       | some (t2, r2) => k (.bin o acc t2) r2
       | none => none)
    else some (acc, .op o :: r)
  | ts => some (acc, ts)

mutual
  /-- `parse f n ts`: read one expression of level `n` from the front of `ts` (`f` = fuel) -/
  def parse : Nat → Nat → List Tok → PRes
    | 0, _, _ => none
    | f + 1, n, ts =>
      if 3 ≤ n then atomCase (parse f 0) (parse f 3) ts
      else
        match parse f (n + 1) ts with
        | some (t, r) => loop f n t r
        | none => none
  /-- continue a left-associative chain of level-`n` operators with accumulated left operand `acc` -/
  def loop : Nat → Nat → Tree → List Tok → PRes
    | 0, _, _, _ => none
    | f + 1, n, acc, ts => loopCase n acc (parse f (n + 1)) (loop f n) ts
end

theorem atomCase_mono {p0 p3 q0 q3 : List Tok → PRes} (h0 : ∀ ts res, p0 ts = some res → q0 ts = some res)
    (h3 : ∀ ts res, p3 ts = some res → q3 ts = some res) (ts : List Tok) (res) (h : atomCase p0 p3 ts = some res) :
    atomCase q0 q3 ts = some res := by
  match ts, h with
  | .atom a :: r, h => simpa [atomCase] using h
  | .lp :: r, h =>
    simp only [atomCase] at h ⊢
    cases hp : p0 r with
    | none => simp [hp] at h
    | some x => rw [h0 _ _ hp]; rw [hp] at h; exact h
  | .op o :: r, h =>
    simp only [atomCase] at h ⊢
    by_cases ho : o = .sub
    · simp only [ho, if_true] at h ⊢
      cases hp : p3 r with
      | none => simp [hp] at h
      | some x => rw [h3 _ _ hp]; rw [hp] at h; exact h
    · simp [ho] at h
  | .rp :: r, h => simp [atomCase] at h
  | [], h => simp [atomCase] at h

theorem loopCase_mono {n acc} {p q : List Tok → PRes} {k k' : Tree → List Tok → PRes}
    (hp : ∀ ts res, p ts = some res → q ts = some res) (hk : ∀ a ts res, k a ts = some res → k' a ts = some res)
    (ts : List Tok) (res) (h : loopCase n acc p k ts = some res) : loopCase n acc q k' ts = some res := by
  match ts, h with
  | [], h => simpa [loopCase] using h
  | .atom a :: r, h => simpa [loopCase] using h
  | .lp :: r, h => simpa [loopCase] using h
  | .rp :: r, h => simpa [loopCase] using h
  | .op o :: r, h =>
    simp only [loopCase] at h ⊢
    by_cases ho : lvl o = n
    · simp only [ho, if_true] at h ⊢
      cases hx : p r with
      | none => simp [hx] at h
      | some x =>
        obtain ⟨t2, r2⟩ := x
        rw [hp _ _ hx]; rw [hx] at h
        exact hk _ _ _ h
    · simpa [ho] using h

/-- more fuel never changes an answer -/
theorem fuel_mono : ∀ f,
    (∀ n ts res, parse f n ts = some res → parse (f + 1) n ts = some res) ∧
    (∀ n acc ts res, loop f n acc ts = some res → loop (f + 1) n acc ts = some res) := by
  intro f
  induction f with
  | zero => exact ⟨fun n ts res h => by simp [parse] at h, fun n acc ts res h => by simp [loop] at h⟩
  | succ f ih =>
    obtain ⟨ihp, ihl⟩ := ih
    constructor
    · intro n ts res h
      rw [parse] at h ⊢
      by_cases hn : 3 ≤ n
      · simp only [hn, if_true] at h ⊢
        exact atomCase_mono (ihp 0) (ihp 3) ts res h
      · simp only [hn, if_false] at h ⊢
        cases hp : parse f (n + 1) ts with
        | none => simp [hp] at h
        | some x =>
          obtain ⟨t, r⟩ := x
          rw [ihp _ _ _ hp]
          rw [hp] at h
          exact ihl _ _ _ _ h
    · intro n acc ts res h
      rw [loop] at h ⊢
      exact loopCase_mono (ihp (n + 1)) (ihl n) ts res h

theorem parse_mono {f g n ts res} (h : parse f n ts = some res) (hfg : f ≤ g) : parse g n ts = some res := by
  induction hfg with
  | refl => exact h
  | step _ ih => exact (fuel_mono _).1 _ _ _ ih

theorem loop_mono {f g n acc ts res} (h : loop f n acc ts = some res) (hfg : f ≤ g) : loop g n acc ts = some res := by
  induction hfg with
  | refl => exact h
  | step _ ih => exact (fuel_mono _).2 _ _ _ _ ih

/-- what may follow an expression of level `n`: anything but an operator that binds tighter than `n` -/
def Follow (n : Nat) (rest : List Tok) : Prop := ∀ o r, rest = .op o :: r → lvl o ≤ n

theorem lvl_lt3 (o : Arith) : lvl o < 3 := by cases o <;> simp [lvl]

/-- with nothing of its own level ahead, the loop stops at once -/
theorem loop_stop (n : Nat) (acc : Tree) (rest : List Tok) (h : ∀ o r, rest = .op o :: r → lvl o ≠ n) :
    loop 1 n acc rest = some (acc, rest) := by
  match rest, h with
  | [], _ => simp [loop, loopCase]
  | .atom a :: r, _ => simp [loop, loopCase]
  | .lp :: r, _ => simp [loop, loopCase]
  | .rp :: r, _ => simp [loop, loopCase]
  | .op o :: r, h => simp [loop, loopCase, h o r rfl]

/-- **completeness**: whatever the loop makes of `(t, rest)`, the parser makes of `ts ++ rest` -/
theorem parse_complete {n ts t} (g : G n ts t) : ∀ rest res, Follow n rest →
    (∃ f, loop f n t rest = some res) → ∃ f, parse f n (ts ++ rest) = some res := by
  induction g with
  | atom a =>
    intro rest res _ ⟨f, hf⟩
    have : loop f 3 (.leaf a) rest = some (.leaf a, rest) := by
      have h1 := loop_stop 3 (.leaf a) rest (fun o r _ => by have := lvl_lt3 o; omega)
      cases f with
      | zero => simp [loop, loopCase] at hf
      | succ f => exact loop_mono h1 (by omega)
    rw [this] at hf; cases hf
    exact ⟨1, by simp [parse, atomCase]⟩
  | @paren ts t _ ih =>
    intro rest res _ ⟨f, hf⟩
    have h3 : loop f 3 t rest = some (t, rest) := by
      have h1 := loop_stop 3 t rest (fun o r _ => by have := lvl_lt3 o; omega)
      cases f with
      | zero => simp [loop, loopCase] at hf
      | succ f => exact loop_mono h1 (by omega)
    rw [h3] at hf; cases hf
    obtain ⟨f', hf'⟩ := ih (.rp :: rest) (t, .rp :: rest) (by intro o r h; cases h) ⟨1, by simp [loop, loopCase]⟩
    refine ⟨f' + 1, ?_⟩
    have e : (Tok.lp :: ts ++ [Tok.rp]) ++ rest = Tok.lp :: (ts ++ Tok.rp :: rest) := by simp
    rw [e]
    simp [parse, atomCase, hf']
  | @neg ts t _ ih =>
    intro rest res hfo ⟨f, hf⟩
    have h3 : loop f 3 (.neg t) rest = some (.neg t, rest) := by
      have h1 := loop_stop 3 (.neg t) rest (fun o r _ => by have := lvl_lt3 o; omega)
      cases f with
      | zero => simp [loop, loopCase] at hf
      | succ f => exact loop_mono h1 (by omega)
    rw [h3] at hf; cases hf
    obtain ⟨f', hf'⟩ := ih rest (t, rest) hfo
      ⟨1, loop_stop 3 t rest (fun o r _ => by have := lvl_lt3 o; omega)⟩
    exact ⟨f' + 1, by simp [parse, atomCase, hf']⟩
  | @up n ts t hn _ ih =>
    intro rest res hfo ⟨f, hf⟩
    have hstop : loop 1 (n + 1) t rest = some (t, rest) :=
      loop_stop (n + 1) t rest (fun o r h => by have := hfo o r h; omega)
    obtain ⟨f1, hf1⟩ := ih rest (t, rest) (fun o r h => by have := hfo o r h; omega) ⟨1, hstop⟩
    refine ⟨max f1 f + 1, ?_⟩
    have hn' : ¬ (3 ≤ n) := by omega
    rw [parse]
    simp only [hn', if_false]
    rw [parse_mono hf1 (Nat.le_max_left _ _)]
    exact loop_mono hf (Nat.le_max_right _ _)
  | @bin n o l r tl tr ho _ _ ihl ihr =>
    intro rest res hfo ⟨f, hf⟩
    have hstop : loop 1 (n + 1) tr rest = some (tr, rest) :=
      loop_stop (n + 1) tr rest (fun o r h => by have := hfo o r h; omega)
    obtain ⟨f1, hf1⟩ := ihr rest (tr, rest) (fun o r h => by have := hfo o r h; omega) ⟨1, hstop⟩
    have hloop : loop (max f1 f + 1) n tl (.op o :: (r ++ rest)) = some res := by
      rw [loop]
      simp only [loopCase, ho, if_true]
      rw [parse_mono hf1 (Nat.le_max_left _ _)]
      exact loop_mono hf (Nat.le_max_right _ _)
    obtain ⟨f2, hf2⟩ := ihl (.op o :: (r ++ rest)) res (by intro o' r' h; cases h; omega) ⟨_, hloop⟩
    refine ⟨f2, ?_⟩
    have e : (l ++ Tok.op o :: r) ++ rest = l ++ Tok.op o :: (r ++ rest) := by simp
    rw [e]; exact hf2

/-- a derivation is what the parser returns on the whole token list -/
theorem parse_of_G {n ts t} (g : G n ts t) : ∃ f, parse f n ts = some (t, []) := by
  have := parse_complete g [] (t, []) (by intro o r h; cases h) ⟨1, by simp [loop, loopCase]⟩
  simpa using this

/-- **`G` is unambiguous**: a token list derives at most one tree at each level -/
theorem G_unambiguous {n ts t t'} (g : G n ts t) (g' : G n ts t') : t = t' := by
  obtain ⟨f, hf⟩ := parse_of_G g
  obtain ⟨f', hf'⟩ := parse_of_G g'
  have h1 := parse_mono hf (Nat.le_max_left f f')
  have h2 := parse_mono hf' (Nat.le_max_right f f')
  rw [h1] at h2
  cases h2; rfl

/-- non-vacuity: the parser reads `a - ( - b ) * c << d` as `(a - ((-b) * c)) << d` -/
example : parse 20 0 [.atom 0, .op .sub, .lp, .op .sub, .atom 1, .rp, .op .mul, .atom 2, .op .lshift, .atom 3] =
    some (.bin .lshift (.bin .sub (.leaf 0) (.bin .mul (.neg (.leaf 1)) (.leaf 2))) (.leaf 3), []) := by decide

end Pypika.Spec
