import Pypika.Render
/-!
# Spec: the boolean level of the shared expression grammar

Above the comparison family the supported engines differ in the relative precedence they give
`AND`, `XOR` and `OR`; what they all agree on is

* `NOT` binds tighter than any of the three and looser than a comparison / predicate,
* a chain `x op y op … op z` of ONE operator associates to the left,
* parentheses.

The grammar below contains nothing else: two different boolean operators never meet without
parentheses (a text that relied on their relative precedence is simply not derivable).  Atoms are
everything below the boolean level — comparisons, `IS NULL`, `IN`, `BETWEEN`, `LIKE`, `EXISTS`,
boolean-valued functions — and are opaque here (their inner structure is the arithmetic grammar `G`).
-/
namespace Pypika.Spec
open Pypika

inductive BTree
  | atom (a : Nat)
  | not (t : BTree)
  | bin (o : BoolOp) (l r : BTree)
  deriving Repr, DecidableEq

inductive BTok | atom (a : Nat) | not | op (o : BoolOp) | lp | rp
  deriving DecidableEq, Repr

/-- grammar levels: a whole criterion, a chain of one operator, the NOT level, atoms / parentheses -/
inductive Lv | top | chain (o : BoolOp) | nt | at
  deriving DecidableEq, Repr

/-- `GB lv ts t`: the token list `ts` derives the tree `t` at level `lv`.
    A chain is two or more NOT-level operands joined by ONE operator, associated to the left. -/
inductive GB : Lv → List BTok → BTree → Prop
  | atom (a) : GB .at [.atom a] (.atom a)
  | paren {ts t} : GB .top ts t → GB .at (.lp :: ts ++ [.rp]) t
  | not {ts t} : GB .nt ts t → GB .nt (.not :: ts) (.not t)
  | up1 {ts t} : GB .at ts t → GB .nt ts t
  | up0 {ts t} : GB .nt ts t → GB .top ts t
  | chainTop {o ts t} : GB (.chain o) ts t → GB .top ts t
  | two {o l r tl tr} : GB .nt l tl → GB .nt r tr → GB (.chain o) (l ++ .op o :: r) (.bin o tl tr)
  | more {o l r tl tr} : GB (.chain o) l tl → GB .nt r tr → GB (.chain o) (l ++ .op o :: r) (.bin o tl tr)

/-- the algebra in which criteria are read: each connective is associative, nothing else is assumed -/
structure BAlg (α : Type) where
  and_ : α → α → α
  or_ : α → α → α
  xor_ : α → α → α
  not : α → α
  and_assoc : ∀ a b c, and_ a (and_ b c) = and_ (and_ a b) c
  or_assoc : ∀ a b c, or_ a (or_ b c) = or_ (or_ a b) c
  xor_assoc : ∀ a b c, xor_ a (xor_ b c) = xor_ (xor_ a b) c

def BAlg.ap {α} (A : BAlg α) : BoolOp → α → α → α
  | .and_ => A.and_ | .or_ => A.or_ | .xor_ => A.xor_

theorem BAlg.ap_assoc {α} (A : BAlg α) (o : BoolOp) (a b c : α) : A.ap o a (A.ap o b c) = A.ap o (A.ap o a b) c := by
  cases o <;> simp [BAlg.ap, A.and_assoc, A.or_assoc, A.xor_assoc]

def evalB {α} (A : BAlg α) (env : Nat → α) : BTree → α
  | .atom a => env a
  | .not t => A.not (evalB A env t)
  | .bin o l r => A.ap o (evalB A env l) (evalB A env r)

/-- Boolean truth values are an instance (non-vacuity of `BAlg`) -/
def boolAlg : BAlg Bool where
  and_ := (· && ·)
  or_ := (· || ·)
  xor_ := fun a b => a != b
  not := (!·)
  and_assoc := by intro a b c; cases a <;> cases b <;> cases c <;> rfl
  or_assoc := by intro a b c; cases a <;> cases b <;> cases c <;> rfl
  xor_assoc := by intro a b c; cases a <;> cases b <;> cases c <;> rfl

end Pypika.Spec
