import Pypika.RenderTerm
/-!
# Criterion algebra: `&`, `|`, `^`, `~`, `Criterion.all/any`, and the `where()`/`having()` accumulation
-/
namespace Pypika

def Term.isEmpty : Term → Bool | .empty => true | _ => false

/-- `a <op> b` on criteria: `EmptyCriterion.__and__` returns the other side; `Criterion.__and__`
    returns self when the other side is empty; otherwise a `ComplexCriterion` -/
def combine (op : BoolOp) (a b : Term) : Term :=
  if a.isEmpty then b else if b.isEmpty then a else .complex op a b none

/-- `~c`: `EmptyCriterion.__invert__` returns self, `Term.__invert__` wraps in `Not` -/
def invert (a : Term) : Term := if a.isEmpty then a else .not a none

/-- `Criterion.all(cs)`: `crit = EmptyCriterion(); for t in cs: crit &= t` -/
def allOf (cs : List Term) : Term := cs.foldl (combine .and_) .empty
/-- `Criterion.any(cs)` -/
def anyOf (cs : List Term) : Term := cs.foldl (combine .or_) .empty

/-- `QueryBuilder.where(c)` / `having(c)` on the slot: empty criteria are ignored,
    later criteria are AND-ed on the right -/
def whereStep (w : Option Term) (c : Term) : Option Term :=
  if c.isEmpty then w
  else match w with
    | none => some c
    | some x => some (combine .and_ x c)

end Pypika
