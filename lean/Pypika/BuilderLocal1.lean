import Pypika.BuilderLocal
/-! Locality of the builder calls, part 1 (one theorem per call; the parts build in parallel) -/
namespace Pypika.B
open Pypika
set_option linter.unusedSimpArgs false

set_option maxHeartbeats 1600000 in
theorem local_from : ∀ a0 a1, LocalAt (.from_ a0 a1) := by
  intro a0 a1 s x w hr hw
  cases w
  all_goals first
    | listed [reads, writes] hr
    | listed [reads, writes] hw
    | local_tac [step]

set_option maxHeartbeats 1600000 in
theorem local_fromStr : ∀ a0, LocalAt (.fromStr a0) := by
  intro a0 s x w hr hw
  cases w
  all_goals first
    | listed [reads, writes] hr
    | listed [reads, writes] hw
    | local_tac [step]

set_option maxHeartbeats 1600000 in
theorem local_with : ∀ a0 a1, LocalAt (.with_ a0 a1) := by
  intro a0 a1 s x w hr hw
  cases w
  all_goals first
    | listed [reads, writes] hr
    | listed [reads, writes] hw
    | local_tac [step]

set_option maxHeartbeats 1600000 in
theorem local_into : ∀ a0, LocalAt (.into a0) := by
  intro a0 s x w hr hw
  cases w
  all_goals first
    | listed [reads, writes] hr
    | listed [reads, writes] hw
    | local_tac [step]

set_option maxHeartbeats 1600000 in
theorem local_delete : ∀ (_ : Unit), LocalAt (.delete) := by
  intro _ s x w hr hw
  cases w
  all_goals first
    | listed [reads, writes] hr
    | listed [reads, writes] hw
    | local_tac [step]

set_option maxHeartbeats 1600000 in
theorem local_update : ∀ a0, LocalAt (.update a0) := by
  intro a0 s x w hr hw
  cases w
  all_goals first
    | listed [reads, writes] hr
    | listed [reads, writes] hw
    | local_tac [step]

set_option maxHeartbeats 1600000 in
theorem local_columns : ∀ a0, LocalAt (.columns a0) := by
  intro a0 s x w hr hw
  cases w
  all_goals first
    | listed [reads, writes] hr
    | listed [reads, writes] hw
    | local_tac [step]

set_option maxHeartbeats 1600000 in
theorem local_forceIndex : ∀ a0, LocalAt (.forceIndex a0) := by
  intro a0 s x w hr hw
  cases w
  all_goals first
    | listed [reads, writes] hr
    | listed [reads, writes] hw
    | local_tac [step]

set_option maxHeartbeats 1600000 in
theorem local_useIndex : ∀ a0, LocalAt (.useIndex a0) := by
  intro a0 s x w hr hw
  cases w
  all_goals first
    | listed [reads, writes] hr
    | listed [reads, writes] hw
    | local_tac [step]

end Pypika.B
