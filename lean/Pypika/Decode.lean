import Lean.Data.Json
import Pypika.RenderTerm
import Pypika.Param
import Pypika.Ident
import Pypika.Crit
import Pypika.Build
import Pypika.Guards
import Pypika.DDL
import Pypika.Replace
import Pypika.Names
import Pypika.Builder
import Pypika.DDLBuilder
/-!
# JSON → model values (driver side only; no theorem depends on this file)
-/
namespace Pypika
open Lean

abbrev D := Except String

def jStr (j : Json) : D Str := do let s ← j.getStr?; pure s.toList
def jOpt {α} (f : Json → D α) (j : Json) : D (Option α) := if j.isNull then pure none else some <$> f j
def fld (j : Json) (k : String) : Json := (j.getObjVal? k).toOption.getD Json.null
def fStr (j : Json) (k : String) : D Str := jStr (fld j k) |>.mapError (s!"{k}: " ++ ·)
def fOptStr (j : Json) (k : String) : D (Option Str) := jOpt jStr (fld j k)
def fBool (j : Json) (k : String) (dflt := false) : D Bool :=
  let v := fld j k; if v.isNull then pure dflt else v.getBool?
def fNat (j : Json) (k : String) : D Nat := (fld j k).getNat? |>.mapError (s!"{k}: " ++ ·)
def fOptNat (j : Json) (k : String) : D (Option Nat) := jOpt (·.getNat?) (fld j k)
def fInt (j : Json) (k : String) : D Int := let v := fld j k; if v.isNull then pure 0 else v.getInt?
def fArr (j : Json) (k : String) : D (List Json) :=
  let v := fld j k; if v.isNull then pure [] else do let a ← v.getArr?; pure a.toList
def jChar (j : Json) : D (Option Char) := do
  if j.isNull then pure none else
  let s ← j.getStr?
  match s.toList with
  | [ch] => pure (some ch)
  | [] => pure none
  | _ => throw s!"quote char must be one character: {s}"

def dDialect (s : String) : D Dialect :=
  match s with
  | "vertica" => pure .vertica | "clickhouse" => pure .clickhouse | "oracle" => pure .oracle
  | "mssql" => pure .mssql | "mysql" => pure .mysql | "postgresql" => pure .postgresql
  | "redshift" => pure .redshift | "sqllite" => pure .sqllite | "snowflake" => pure .snowflake
  | _ => throw s!"dialect {s}"
def jOptDialect (j : Json) : D (Option Dialect) := jOpt (fun x => do dDialect (← x.getStr?)) j

def dQClass (s : String) : D QClass :=
  match s with
  | "generic" => pure .generic | "mysql" => pure .mysql | "postgresql" => pure .postgresql
  | "redshift" => pure .redshift | "oracle" => pure .oracle | "mssql" => pure .mssql
  | "sqlite" => pure .sqlite | "vertica" => pure .vertica | "clickhouse" => pure .clickhouse
  | "snowflake" => pure .snowflake
  | _ => throw s!"qclass {s}"

def dArith (s : String) : D Arith :=
  match s with
  | "add" => pure .add | "sub" => pure .sub | "mul" => pure .mul | "div" => pure .div
  | "lshift" => pure .lshift | "rshift" => pure .rshift | _ => throw s!"arith {s}"
def dBoolOp (s : String) : D BoolOp :=
  match s with
  | "and_" => pure .and_ | "or_" => pure .or_ | "xor_" => pure .xor_ | _ => throw s!"boolop {s}"
def jOptOrd (j : Json) : D (Option Ord) :=
  jOpt (fun x => do match (← x.getStr?) with | "asc" => pure Ord.asc | "desc" => pure Ord.desc | s => throw s!"ord {s}") j

def dCtx (j : Json) : D Ctx := do
  let q := fld j "quote_char"
  let quote ← if (fld j "has_quote_char").getBool?.toOption.getD (!q.isNull) then (QuoteArg.given <$> jChar q) else pure QuoteArg.absent
  let sec := fld j "secondary_quote_char"
  let secondary ← if (fld j "has_secondary").getBool?.toOption.getD (!sec.isNull) then (some <$> jChar sec) else pure none
  let aq := fld j "alias_quote_char"
  let aliasQuote ← if (fld j "has_alias_quote_char").getBool?.toOption.getD (!aq.isNull) then (some <$> jChar aq) else pure none
  let ak := fld j "as_keyword"
  let asKeyword ← if ak.isNull then pure none else some <$> ak.getBool?
  let di := fld j "dialect"
  let dialect ← if (fld j "has_dialect").getBool?.toOption.getD (!di.isNull) then (some <$> jOptDialect di) else pure none
  pure { quote, secondary, aliasQuote, asKeyword, dialect,
         withAlias := ← fBool j "with_alias", withNamespace := ← fBool j "with_namespace",
         subquery := ← fBool j "subquery", subcriterion := ← fBool j "subcriterion",
         groupbyAlias := ← fBool j "groupby_alias" true, groupbyAliasSet := !(fld j "groupby_alias").isNull,
         param := ← fBool j "param" }

def dTRef (j : Json) : D TRef := do
  let sch ← (← fArr j "schema").mapM jStr
  pure { name := ← fOptStr j "name", schema := sch, alias := ← fOptStr j "alias",
         ver := ← fOptStr j "ver" }

def dVal (j : Json) : D Val := do
  match (← (fld j "t").getStr?) with
  | "str" => pure (.str (← fStr j "v"))
  | "num" => pure (.num (← fStr j "v"))
  | "other" => pure (.other (← fStr j "v"))
  | "bool" => pure (.bool (← fBool j "v") (← fBool j "sqlite"))
  | "null" => pure .null
  | s => throw s!"val {s}"

partial def dJVal (j : Json) : D JVal := do
  match (← (fld j "t").getStr?) with
  | "null" => pure .null
  | "bool" => pure (.bool (← fBool j "v"))
  | "num" => pure (.num (← fStr j "v"))
  | "str" => pure (.str (← fStr j "v"))
  | "arr" => do pure (.arr (← (← fArr j "v").mapM dJVal))
  | "obj" => do
      let kvs ← (← fArr j "v").mapM fun kv => do
        let a ← kv.getArr?
        pure ((← jStr a[0]!), (← dJVal a[1]!))
      pure (.obj kvs)
  | s => throw s!"jval {s}"

def dEdge (j : Json) : D Edge := do
  match (← (fld j "t").getStr?) with
  | "preceding" => pure (.preceding (← fOptNat j "n"))
  | "following" => pure (.following (← fOptNat j "n"))
  | "current" => pure .current
  | s => throw s!"edge {s}"

def dFrame (j : Json) : D Frame := do
  pure { kind := ← fStr j "kind", lo := ← dEdge (fld j "lo"), hi := ← jOpt dEdge (fld j "hi") }

def dInterval (j : Json) : D IntervalArgs := do
  pure { years := ← fInt j "years", months := ← fInt j "months", days := ← fInt j "days", hours := ← fInt j "hours",
         minutes := ← fInt j "minutes", seconds := ← fInt j "seconds", microseconds := ← fInt j "microseconds",
         quarters := ← fInt j "quarters", weeks := ← fInt j "weeks", dialect := ← jOptDialect (fld j "dialect") }

def dFlags (j : Json) : D QFlags := do
  let strs (k : String) : D (List Str) := do (← fArr j k).mapM jStr
  let lb := fld j "limit_by"
  let limitBy ← if lb.isNull then pure none else do
    let a ← lb.getArr?; pure (some ((← a[0]!.getNat?), (← a[1]!.getNat?)))
  pure { cls := ← dQClass (← (fld j "cls").getStr?), dialect := ← jOptDialect (fld j "dialect"),
         asKeyword := ← fBool j "as_keyword", wrapSetOps := ← fBool j "wrap_set_ops" true,
         alias := ← fOptStr j "alias", deleteFrom := ← fBool j "delete_from", replace_ := ← fBool j "replace",
         distinct := ← fBool j "distinct", ignore := ← fBool j "ignore", forUpdate := ← fBool j "for_update",
         withTotals := ← fBool j "with_totals", mysqlRollup := ← fBool j "mysql_rollup",
         selectInto := ← fBool j "select_into", foreignTable := ← fBool j "foreign_table",
         limit := ← fOptNat j "limit", offset := ← fOptNat j "offset",
         forceIndexes := ← strs "force_indexes", useIndexes := ← strs "use_indexes",
         ignoreDuplicates := ← fBool j "ignore_duplicates", modifiers := ← strs "modifiers",
         forUpdateNowait := ← fBool j "for_update_nowait", forUpdateSkipLocked := ← fBool j "for_update_skip_locked",
         forUpdateOf := ← strs "for_update_of", onConflict := ← fBool j "on_conflict",
         onConflictDoNothing := ← fBool j "on_conflict_do_nothing",
         top := ← fOptNat j "top", topPercent := ← fBool j "top_percent", topWithTies := ← fBool j "top_with_ties",
         final := ← fBool j "final", sample := ← fOptNat j "sample", sampleOffset := ← fOptNat j "sample_offset",
         limitBy, hint := ← fOptStr j "hint", insertOrReplace := ← fBool j "insert_or_replace" }

mutual
  partial def dTerm (j : Json) : D Term := do
    let k ← (fld j "k").getStr?
    let al ← fOptStr j "alias"
    let t (key : String) : D Term := dTerm (fld j key)
    let ts (key : String) : D (List Term) := do (← fArr j key).mapM dTerm
    match k with
    | "field" => pure (.field (← fStr j "name") al (← jOpt dTRef (fld j "tbl")))
    | "star" => pure (.star (← jOpt dTRef (fld j "tbl")))
    | "val" => pure (.val (← dVal (fld j "v")) al)
    | "wrapped" => pure (.wrapped (← t "t") al)
    | "lit" => pure (.lit (← fStr j "text") al)
    | "neg" => pure (.neg (← t "t") al)
    | "arith" => pure (.arith (← dArith (← (fld j "op").getStr?)) (← t "l") (← t "r") al)
    | "basic" => pure (.basic (← fStr j "cmp") (← t "l") (← t "r") al)
    | "complex" => pure (.complex (← dBoolOp (← (fld j "op").getStr?)) (← t "l") (← t "r") al)
    | "not" => pure (.not (← t "t") al)
    | "isin" => pure (.isin (← t "t") (← t "container") (← fBool j "negated") al)
    | "between" => pure (.between (← t "t") (← t "lo") (← t "hi") al)
    | "period" => pure (.period (← t "t") (← t "lo") (← t "hi") al)
    | "isnull" => pure (.isnull (← t "t") al)
    | "notnull" => pure (.notnull (← t "t") al)
    | "bitand" => pure (.bitand (← t "t") (← t "v") al)
    | "exists" => pure (.exists_ (← t "q") (← fBool j "negated"))
    | "all" => pure (.all (← t "t") al)
    | "tuple" => pure (.tuple (← ts "vs") al)
    | "array" => pure (.array (← ts "vs") al)
    | "case" => do
        let ws ← (← fArr j "whens").mapM fun w => do
          let a ← w.getArr?; pure ((← dTerm a[0]!), (← dTerm a[1]!))
        pure (.case ws (← jOpt dTerm (fld j "else")) al)
    | "func" => do
        let schema ← jOpt (fun x => do (← x.getArr?).toList.mapM jStr) (fld j "schema")
        pure (.func (← fStr j "name") schema (← ts "args") (← fBool j "distinct") (← fOptStr j "special")
          (← jOpt dTerm (fld j "extract_from")) (← jOpt dTerm (fld j "filter")) (← fBool j "over")
          (← ts "partition") (← (← fArr j "over_order").mapM dOrdItem) (← jOpt dFrame (fld j "frame"))
          (← fBool j "no_parens") al)
    | "param" => pure (.param (← fStr j "text") (← fOptStr j "alias"))
    | "interval" => pure (.interval (← dInterval (fld j "iv")))
    | "json" => pure (.json (← dJVal (fld j "j")) al)
    | "pseudo" => pure (.pseudo (← fStr j "name"))
    | "attz" => pure (.atTz (← t "field") (← fStr j "zone") (← fBool j "interval") al)
    | "values" => pure (.values (← t "field"))
    | "sub" => pure (.sub (← dQuery (fld j "q")))
    | "setop" => pure (.setop (← dSetOp (fld j "s")))
    | "empty" => pure .empty
    | "index" => pure (.index (← fStr j "name"))
    | s => throw s!"term kind {s}"

  partial def dOrdItem (j : Json) : D (Term × Option Ord) := do
    let a ← j.getArr?; pure ((← dTerm a[0]!), (← jOptOrd a[1]!))

  partial def dSrc (j : Json) : D Src := do
    match (← (fld j "k").getStr?) with
    | "table" => pure (.table (← dTRef (fld j "t")) (← fBool j "portion") (← jOpt dTerm (fld j "temporal")))
    | "query" => pure (.query (← dQuery (fld j "q")))
    | "setop" => pure (.setop (← dSetOp (fld j "s")))
    | "aliased" => pure (.aliased (← fStr j "name") (← jOpt dSrc (fld j "q")))
    | s => throw s!"src kind {s}"

  partial def dJoin (j : Json) : D Join := do
    let item ← dSrc (fld j "item")
    let how ← fStr j "how"
    match (← (fld j "k").getStr?) with
    | "plain" => pure (.plain item how)
    | "on" => pure (.on item how (← dTerm (fld j "crit")) (← fOptStr j "collate"))
    | "using" => pure (.usingJ item how (← (← fArr j "fields").mapM dTerm))
    | s => throw s!"join kind {s}"

  partial def dQuery (j : Json) : D Query := do
    let ts (key : String) : D (List Term) := do (← fArr j key).mapM dTerm
    let ot (key : String) : D (Option Term) := jOpt dTerm (fld j key)
    let pairs (key : String) : D (List (Term × Term)) := do
      (← fArr j key).mapM fun w => do let a ← w.getArr?; pure ((← dTerm a[0]!), (← dTerm a[1]!))
    let withs ← (← fArr j "with").mapM fun w => do let a ← w.getArr?; pure ((← jStr a[0]!), (← dSrc a[1]!))
    let values ← (← fArr j "values").mapM fun r => do (← r.getArr?).toList.mapM dTerm
    let cu ← (← fArr j "on_conflict_do_updates").mapM fun w => do
      let a ← w.getArr?; pure ((← dTerm a[0]!), (← jOpt dTerm a[1]!))
    pure (.mk (← dFlags (fld j "fl")) (← (← fArr j "from").mapM dSrc) withs (← ts "selects")
      (← jOpt dSrc (fld j "insert_table")) (← jOpt dSrc (fld j "update_table")) (← ts "columns") values
      (← ot "wheres") (← ot "prewheres") (← ot "havings") (← ts "groupbys")
      (← (← fArr j "orderbys").mapM dOrdItem) (← (← fArr j "joins").mapM dJoin) (← pairs "updates")
      (← (← fArr j "using").mapM dSrc) (← pairs "duplicate_updates") (← ts "returns")
      (← ts "on_conflict_fields") cu (← ot "on_conflict_wheres") (← ot "on_conflict_do_update_wheres")
      (← ts "distinct_on") (← ts "limit_by_terms"))

  partial def dSetOp (j : Json) : D SetOp := do
    let ops ← (← fArr j "ops").mapM fun w => do let a ← w.getArr?; pure ((← jStr a[0]!), (← dQuery a[1]!))
    pure (.mk (← dQuery (fld j "base")) ops (← (← fArr j "orderbys").mapM dOrdItem)
      (← fOptNat j "limit") (← fOptNat j "offset") (← fOptStr j "alias"))
end


/-! builder calls (`Builder.lean`) -/

partial def dArg (j : Json) : D B.Arg := do
  match (← (fld j "k").getStr?) with
  | "term" => pure (.term (← dTerm (fld j "t")))
  | "str" => pure (.str (← fStr j "s"))
  | "const" => pure (.const (← dVal (fld j "v")))
  | "list" => pure (.list (← (← fArr j "xs").mapM dArg))
  | "tuple" => pure (.tuple (← (← fArr j "xs").mapM dArg))
  | s => throw s!"arg kind {s}"

def dArgs (j : Json) (k : String) : D (List B.Arg) := do (← fArr j k).mapM dArg

def dBSt (j : Json) : D B.St := do
  let q ← dQuery (fld j "q")
  let stars ← (← fArr j "star_tables").mapM (jOpt dTRef)
  pure { r := B.QR.ofQ q, selectStar := ← fBool j "select_star", starTables := stars,
         subCount := ← fNat j "sub_count", returnStar := ← fBool j "return_star" }

def dBCall (j : Json) : D B.Call := do
  let strs (k : String) : D (List Str) := do (← fArr j k).mapM jStr
  match (← (fld j "m").getStr?) with
  | "from_" => pure (.from_ (← dSrc (fld j "src")) (← fNat j "sub_count"))
  | "from_str" => pure (.fromStr (← fStr j "name"))
  | "with_" => pure (.with_ (← dSrc (fld j "src")) (← fStr j "name"))
  | "into" => pure (.into (← dSrc (fld j "src")))
  | "select" => pure (.select (← dArgs j "args"))
  | "delete" => pure .delete
  | "update" => pure (.update (← dSrc (fld j "src")))
  | "columns" => pure (.columns (← dArgs j "args"))
  | "insert" => pure (.insert (← dArgs j "args"))
  | "replace" => pure (.replace (← dArgs j "args"))
  | "insert_or_replace" => pure (.insertOrReplace (← dArgs j "args"))
  | "force_index" => pure (.forceIndex (← strs "names"))
  | "use_index" => pure (.useIndex (← strs "names"))
  | "distinct" => pure .distinct
  | "for_update" => pure .forUpdate
  | "ignore" => pure .ignore
  | "with_totals" => pure .withTotals
  | "prewhere" => pure (.prewhere (← dTerm (fld j "c")))
  | "where" => pure (.where_ (← dTerm (fld j "c")))
  | "having" => pure (.having (← dTerm (fld j "c")))
  | "groupby" => pure (.groupby (← dArgs j "args"))
  | "rollup" => pure (.rollup (← dArgs j "args") (← fBool j "mysql"))
  | "orderby" => pure (.orderby (← dArgs j "args") (← jOptOrd (fld j "order")))
  | "join" => do
    let kind : B.JoinKind ← match (← (fld j "kind").getStr?) with
      | "on" => pure (.on (← jOpt dTerm (fld j "crit")) (← fOptStr j "collate"))
      | "on_field" => pure (.onField (← strs "names"))
      | "using" => pure (.using (← strs "names"))
      | "cross" => pure .cross
      | s => throw s!"join kind {s}"
    pure (.join (← dSrc (fld j "item")) (← fStr j "how") kind)
  | "limit" => pure (.limit (← fNat j "n"))
  | "offset" => pure (.offset (← fNat j "n"))
  | "slice" => pure (.slice (← fOptNat j "start") (← fOptNat j "stop"))
  | "set" => pure (.set (← dArg (fld j "field")) (← dArg (fld j "value")))
  | "for_update_ex" => pure (.forUpdateEx (← fBool j "nowait") (← fBool j "skip_locked") (← strs "of"))
  | "on_duplicate_key_update" => pure (.onDuplicateKeyUpdate (← dArg (fld j "field")) (← dArg (fld j "value")))
  | "on_duplicate_key_ignore" => pure .onDuplicateKeyIgnore
  | "modifier" => pure (.modifier (← fStr j "value"))
  | "distinct_on" => pure (.distinctOn (← dArgs j "args"))
  | "on_conflict" => pure (.onConflict (← dArgs j "args"))
  | "do_nothing" => pure .doNothing
  | "do_update" => pure (.doUpdate (← dArg (fld j "field")) (← jOpt dArg (fld j "value")))
  | "using" => pure (.using (← dSrc (fld j "src")))
  | "returning" => do
    let xs ← (← fArr j "args").mapM fun a => do pure ((← dArg (fld a "a")), (← fBool a "agg"))
    pure (.returning xs)
  | "top" => pure (.top (← jOpt (·.getInt?) (fld j "value")) (← fBool j "percent") (← fBool j "with_ties"))
  | "final" => pure .final
  | "sample" => pure (.sample (← fNat j "n") (← fOptNat j "offset"))
  | "limit_by" => pure (.limitBy (← fNat j "n") (← fNat j "offset") (← dArgs j "by"))
  | "hint" => pure (.hint (← fStr j "label"))
  | s => throw s!"builder call {s}"

/-- schema chain given outermost first -/
def schOfChain : List Str → Option Sch
  | [] => none
  | n :: rest => some (rest.foldl (fun acc x => Sch.mk x (some acc)) (Sch.mk n none))

def dTbl (j : Json) : D Tbl := do
  let chain ← (← fArr j "schema").mapM jStr
  pure { name := ← fStr j "name", schema := schOfChain chain, alias := ← fOptStr j "alias",
         for_ := ← fOptStr j "for", forPortion := ← fOptStr j "for_portion" }

def dCall (j : Json) : D C08.Call := do
  let k ← (fld j "k").getStr?
  let n (key : String) : D Nat := (fld j key).getNat?
  let tabs : D (List Nat) := do (← fArr j "tabs").mapM (·.getNat?)
  match k with
  | "select" => pure (.select (← n "id")) | "from_" => pure (.from_ (← n "id"))
  | "join" => pure (.join (← n "id") (← n "tbl"))
  | "where" => pure (.where_ (← n "id") (← tabs)) | "prewhere" => pure (.prewhere (← n "id") (← tabs))
  | "having" => pure (.having (← n "id")) | "groupby" => pure (.groupby (← n "id")) | "orderby" => pure (.orderby (← n "id"))
  | "limit" => pure (.limit (← n "id")) | "offset" => pure (.offset (← n "id"))
  | "distinct" => pure .distinct | "for_update" => pure .forUpdate | "with_" => pure (.with_ (← n "id"))
  | "force_index" => pure (.forceIndex (← n "id")) | "use_index" => pure (.useIndex (← n "id"))
  | "set" => pure (.set (← n "id")) | "columns" => pure (.columns (← n "id")) | "insert" => pure (.insert (← n "id"))
  | s => throw s!"call kind {s}"

def dColumn (j : Json) : D ColumnD := do
  let nl := fld j "nullable"
  pure { name := ← fStr j "name", type := ← fOptStr j "type", nullable := (← if nl.isNull then pure none else some <$> nl.getBool?),
         default := ← jOpt dTerm (fld j "default") }

def dStrs (j : Json) : D (List Str) := do (← j.getArr?).toList.mapM jStr

def dCreate (j : Json) : D CreateD := do
  let pf ← (← fArr j "period_fors").mapM fun p => do let a ← p.getArr?; pure ((← jStr a[0]!), (← jStr a[1]!), (← jStr a[2]!))
  let fk ← jOpt (fun x => do pure ((← dStrs (fld x "columns")), (← dTRef (fld x "table")), (← dStrs (fld x "ref_columns")))) (fld j "foreign_key")
  pure { quote := ← jChar (fld j "quote"), dialect := ← jOptDialect (fld j "dialect"), vertica := ← fBool j "vertica",
         table := ← jOpt dTRef (fld j "table"), temporary := ← fBool j "temporary", unlogged := ← fBool j "unlogged",
         ifNotExists := ← fBool j "if_not_exists", systemVersioning := ← fBool j "system_versioning",
         «local» := ← fBool j "local", preserveRows := ← fBool j "preserve_rows",
         columns := ← (← fArr j "columns").mapM dColumn, periodFors := pf,
         uniques := ← (← fArr j "uniques").mapM dStrs, primaryKey := ← jOpt dStrs (fld j "primary_key"),
         foreignKey := fk, onDelete := ← fOptStr j "on_delete", onUpdate := ← fOptStr j "on_update",
         asSelect := ← jOpt dQuery (fld j "as_select") }



def dSCall (j : Json) : D B.SCall := do
  match (← (fld j "m").getStr?) with
  | "orderby" => pure (.orderby (← dArgs j "args") (← jOptOrd (fld j "order")))
  | "limit" => pure (.limit (← fNat j "n"))
  | "offset" => pure (.offset (← fNat j "n"))
  | "op" => pure (.op (← fStr j "name") (← dQuery (fld j "other")))
  | s => throw s!"set-operation call {s}"


def dTCall (j : Json) : D B.TCall := do
  match (← (fld j "m").getStr?) with
  | "as_" => pure (.as_ (← fOptStr j "alias"))
  | "when" => pure (.when (← dTerm (fld j "crit")) (← dArg (fld j "val")))
  | "else_" => pure (.else_ (← dArg (fld j "val")))
  | "filter" => pure (.filter (← (← fArr j "cs").mapM dTerm))
  | "over" => pure (.over (← (← fArr j "terms").mapM dTerm))
  | "orderby" => pure (.orderby (← (← fArr j "terms").mapM dTerm) (← jOptOrd (fld j "order")))
  | "frame" => pure (.frame (← fStr j "kind") (← dEdge (fld j "lo")) (← jOpt dEdge (fld j "hi")))
  | "ignore_nulls" => pure .ignoreNulls
  | "distinct" => pure .distinct
  | s => throw s!"term-builder call {s}"

/-! DDL builder calls (`DDLBuilder.lean`) -/
def dColArg (j : Json) : D DDLB.ColArg := do
  match (← (fld j "k").getStr?) with
  | "name" => pure (.name (← fStr j "n"))
  | "pair" => pure (.pair (← fStr j "n") (← fStr j "t"))
  | "col" => pure (.col (← dColumn (fld j "c")))
  | s => throw s!"column argument {s}"

def dCCall (j : Json) : D DDLB.CCall := do
  match (← (fld j "m").getStr?) with
  | "create_table" => pure (.createTable (← dTRef (fld j "t")))
  | "temporary" => pure .temporary
  | "unlogged" => pure .unlogged
  | "with_system_versioning" => pure .withSystemVersioning
  | "if_not_exists" => pure .ifNotExists
  | "columns" => pure (.columns (← (← fArr j "cs").mapM dColArg))
  | "period_for" => pure (.periodFor (← fStr j "name") (← fStr j "start") (← fStr j "stop"))
  | "unique" => pure (.unique (← dStrs (fld j "cols")))
  | "primary_key" => pure (.primaryKey (← dStrs (fld j "cols")))
  | "foreign_key" => pure (.foreignKey (← dStrs (fld j "cols")) (← dTRef (fld j "ref")) (← dStrs (fld j "ref_cols"))
                            (← fOptStr j "on_delete") (← fOptStr j "on_update"))
  | "as_select" => pure (.asSelect (← jOpt dQuery (fld j "q")))
  | "local" => pure .local
  | "preserve_rows" => pure .preserveRows
  | s => throw s!"create-builder call {s}"

def dIndex (j : Json) : D IndexD := do
  pure { index := ← fStr j "index", table := ← fStr j "table", columns := ← dStrs (fld j "columns"), unique := ← fBool j "unique",
         ifNotExists := ← fBool j "if_not_exists", wheres := ← fOptStr j "wheres" }

def dDrop (j : Json) : D DropD := do
  let q ← jChar (fld j "quote")
  let t := fld j "target"
  let target : Doc ← match (← (fld t "t").getStr?) with
    | "table" => do let r ← dTRef (fld t "ref"); pure (r.doc { quote := .given q } ++ aliasDoc {} q r.alias)
    | "schema" => do pure (schemaDoc q (← dStrs (fld t "chain")))
    | "name" => do pure [Piece.ident q (← fStr t "name")]
    | s => throw s!"drop target {s}"
  pure { kind := ← fStr j "kind", ifExists := ← fBool j "if_exists", quote := q, target, cluster := ← fOptStr j "cluster" }

def dStyle (s : String) : D ParamStyle :=
  match s with
  | "qmark" => pure .qmark | "numeric" => pure .numeric | "format" => pure .format
  | "named" => pure .named | "pyformat" => pure .pyformat | _ => throw s!"style {s}"

end Pypika
