import Pypika.Agree.Classes
import Pypika.Agree.Ops
import Pypika.Agree.Pagination
import Pypika.Agree.Edges
import Pypika.Agree.FormatAlias
import Pypika.Agree.Placeholders
import Pypika.Agree.Interval
/-!
# Agree: the hand-written model equals the tables regenerated from `/repo` on every run

Every theorem in the `Agree/*` modules (one module per table family, so that a change to one behaviour
breaks only the obligations of the properties that rest on it) is closed by `decide` over the *whole* finite domain of a table that
`harness/extract.py` obtained by calling the real code.  When the code changes one of these
behaviours, the regenerated table differs, the `decide` fails and the build names the theorem.
-/
