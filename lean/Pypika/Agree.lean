import Pypika.RenderTerm
import Pypika.Param
import Pypika.Generated.Tables
/-!
# Agree: the hand-written model equals the tables regenerated from `/repo` on every run

Every theorem here is closed by `decide` over the *whole* finite domain of a table that
`harness/extract.py` obtained by calling the real code.  When the code changes one of these
behaviours, the regenerated table differs, the `decide` fails and the build names the theorem.
-/
namespace Pypika.Agree
open Pypika

def allClasses : List QClass :=
  [.generic, .mysql, .postgresql, .redshift, .oracle, .mssql, .sqlite, .vertica, .clickhouse, .snowflake]

/-- G2: the table lists exactly the ten query classes, in order -/
theorem classes_complete : Gen.classes.map (·.1) = allClasses := by decide

/-- G2: QUOTE_CHAR / ALIAS_QUOTE_CHAR / query-alias quote per class -/
theorem class_quotes :
    Gen.classes.all (fun (c, q, aq, qaq, _) =>
      decide (c.quoteChar = q) && decide (c.aliasQuoteChar = aq) && decide (c.queryAliasQuoteChar = qaq)) = true := by
  decide

/-- G2: every class uses `'` for literals (the model's `setDefaults` hard-codes it) -/
theorem secondary_quote : Gen.secondaryQuotes.all (fun q => decide (q = some '\'')) = true := by decide

/-- G1: operator spellings -/
theorem arith_text : Gen.arithText.all (fun (o, t) => decide (o.text = t)) = true ∧ Gen.arithText.length = 6 := by decide
theorem bool_text : Gen.boolText.all (fun (o, t) => decide (o.text = t)) = true ∧ Gen.boolText.length = 3 := by decide
theorem order_text : Gen.orderText.all (fun (o, t) => decide (o.text = t)) = true ∧ Gen.orderText.length = 2 := by decide

def topOf : Option Arith → TopOp | none => .none | some a => .op a

/-- G3: `left_needs_parens` on its whole 6 × 7 domain -/
theorem left_parens :
    Gen.leftParens.all (fun (c, l, b) => decide (leftNeedsParens c (topOf l) = b)) = true ∧ Gen.leftParens.length = 42 := by
  decide

/-- G3: `right_needs_parens` on its whole 6 × 7 domain -/
theorem right_parens :
    Gen.rightParens.all (fun (c, l, b) => decide (rightNeedsParens c (topOf l) = b)) = true ∧ Gen.rightParens.length = 42 := by
  decide

def complexOf (o : Option BoolOp) : Term :=
  match o with
  | none => .basic ['='] (.field ['a'] none none) (.val (.num ['1']) none) none
  | some op => .complex op (.field ['a'] none none) (.field ['a'] none none) none

/-- G3: `ComplexCriterion.needs_brackets` on its whole 3 × 4 domain -/
theorem needs_brackets :
    Gen.needsBrackets.all (fun (s, c, b) => decide (needsBrackets s (complexOf c) = b)) = true ∧
      Gen.needsBrackets.length = 12 := by
  decide

/-- G3: pagination tail of every dialect on the grid {None,0,1,7}² -/
theorem pagination :
    Gen.pagination.all (fun (c, l, o, t) => decide (flatten (paginate c l o) = t)) = true ∧
      Gen.pagination.length = 160 := by
  decide +kernel

/-- G3: pagination tail of set operations on the same grid -/
theorem setop_pagination :
    Gen.setopPagination.all (fun (l, o, t) => decide (flatten (setopPaginate l o) = t)) = true ∧
      Gen.setopPagination.length = 16 := by
  decide +kernel

/-- G3: `Edge.__str__` -/
theorem edges : Gen.edges.all (fun (e, t) => decide (e.text = t)) = true ∧ Gen.edges.length = 10 := by decide +kernel

/-- G3: `format_alias_sql` on all flag combinations -/
theorem format_alias :
    Gen.formatAlias.all (fun (a, q, aq, ak, t) =>
      decide (flatten ([Piece.kw ['S']] ++ aliasDoc { aliasQuote := some aq, asKeyword := some ak } q a) = t)) = true ∧
      Gen.formatAlias.length = 16 := by
  decide +kernel

def styleOf (s : Str) : Option ParamStyle :=
  if s = "qmark".toList then some .qmark else if s = "numeric".toList then some .numeric
  else if s = "format".toList then some .format else if s = "named".toList then some .named
  else if s = "pyformat".toList then some .pyformat else none

/-- placeholder generators and key slicing of the five collector classes -/
theorem placeholders :
    Gen.placeholders.all (fun (st, n, sql, key) =>
      match styleOf st with
      | some s => decide (placeholder s n = sql) && decide (paramKey s sql = key)
      | none => false) = true ∧ Gen.placeholders.length = 30 := by
  decide +kernel

/-- G2: the interval templates: which dialects put the unit outside the quotes -/
theorem interval_templates :
    Gen.intervalTemplates.all (fun (d, t) =>
      decide (t = if Dialect.intervalQuotesUnit (some d) then "INTERVAL '{expr} {unit}'".toList
                  else "INTERVAL '{expr}' {unit}".toList)) = true ∧
    ([Dialect.clickhouse, .mssql, .sqllite, .snowflake].all (fun d =>
        Dialect.intervalQuotesUnit (some d) && !(Gen.intervalTemplates.map (·.1)).contains d)) = true := by
  decide +kernel

theorem interval_labels : Gen.intervalLabels = labels := by decide +kernel

/-- G2: the trimming regular expression is still the one `intervalTrim` was written for -/
theorem interval_pattern : Gen.intervalPattern = trimPatternText := by decide +kernel

def ivOf (xs : List Nat) : IntervalArgs :=
  { years := xs.getD 0 0, months := xs.getD 1 0, days := xs.getD 2 0, hours := xs.getD 3 0,
    minutes := xs.getD 4 0, seconds := xs.getD 5 0, microseconds := xs.getD 6 0 }

/-- the real `Interval.__str__` on every 7-tuple over {0,1,10,101} with ≤ 2 non-zero fields -/
theorem interval_grid :
    Gen.intervalGrid.all (fun (xs, t) => decide (intervalText none (ivOf xs) = t)) = true ∧
      Gen.intervalGrid.length = 211 := by
  decide +kernel

end Pypika.Agree
