import Pypika.Render
/-!
# Names invented for un-aliased sub-queries (`sq0`, `sq1`, …)

`QueryBuilder.from_` continues numbering after the sub-query's own counter (`max`); `join` (`_tag_subquery`) uses the
statement's counter alone.  Model file (import-free apart from the model): the driver runs `tagCalls` against the names
the real calls give; the distinctness theorems are in `Props/C10.lean`.
-/
namespace Pypika.C10
open Pypika

/-- the name invented for the k-th un-aliased sub-query of a statement -/
def sqName (k : Nat) : Str := 's' :: 'q' :: natText k

/-- `from_` on a statement whose counter is `count`, for a sub-query carrying its own counter `sub`:
    the name given and the new counter -/
def tag (count sub : Nat) : Str × Nat := (sqName (max count sub), max count sub + 1)

def tagAll : Nat → List Nat → List Str
  | _, [] => []
  | count, sub :: rest => (tag count sub).1 :: tagAll (tag count sub).2 rest

inductive TagCall
  | from_ (sub : Nat)
  | join
  deriving DecidableEq, Repr

def tagStep (count : Nat) : TagCall → Str × Nat
  | .from_ sub => tag count sub
  | .join => (sqName count, count + 1)

def tagCalls : Nat → List TagCall → List Str
  | _, [] => []
  | count, c :: rest => (tagStep count c).1 :: tagCalls (tagStep count c).2 rest

end Pypika.C10
