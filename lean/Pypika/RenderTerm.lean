import Pypika.Render
/-!
# The mutual `render` family: one function per Python class family

`render c t` mirrors `t.get_sql(**c)`; `renderQuery` mirrors `QueryBuilder.get_sql` and its
dialect overrides; `renderSetOp` mirrors `_SetOperation.get_sql`.
-/
namespace Pypika

/-! ## class constants (tied to `/repo` by `Generated/Tables.lean` + `Agree.lean`) -/

def QClass.quoteChar : QClass → Option Char
  | .mysql => some '`'
  | .oracle | .snowflake => none
  | _ => some '"'

def QClass.aliasQuoteChar : QClass → Option Char
  | .postgresql | .snowflake => some '"'
  | _ => none

/-- `ALIAS_QUOTE_CHAR if QUERY_ALIAS_QUOTE_CHAR is None else QUERY_ALIAS_QUOTE_CHAR`, after the
    `alias_quote_char or quote_char` of `format_alias_sql` (Snowflake's `''` is falsy) -/
def QClass.queryAliasQuoteChar : QClass → Option Char
  | .postgresql => some '"'
  | _ => none

def QClass.fetchFamily : QClass → Bool
  | .oracle | .mssql => true
  | _ => false

/-- `QueryBuilder._set_kwargs_defaults` -/
def setDefaults (c : Ctx) (cls : QClass) (dialect : Option Dialect) (asKw : Bool) : Ctx :=
  { c with
    quote := (match c.quote with | .absent => .given cls.quoteChar | g => g)
    secondary := (match c.secondary with | none => some (some '\'') | s => s)
    aliasQuote := (match c.aliasQuote with | none => some cls.aliasQuoteChar | s => s)
    asKeyword := (match c.asKeyword with | none => some asKw | s => s)
    dialect := (match c.dialect with | none => some dialect | s => s) }

def Term.topOp : Term → TopOp
  | .arith op _ _ _ => .op op
  | .sub _ => .weird
  | .setop _ => .weird
  | _ => .none

def Term.isComplexWith : Term → Option BoolOp
  | .complex op _ _ _ => some op
  | _ => none

/-- `ComplexCriterion.needs_brackets` -/
def needsBrackets (self : BoolOp) (child : Term) : Bool :=
  match child.isComplexWith with
  | some op => op ≠ self
  | none => false

def Term.alias? : Term → Option Str
  | .field _ a _ | .complex _ _ _ a | .val _ a | .wrapped _ a | .lit _ a | .neg _ a | .arith _ _ _ a | .basic _ _ _ a
  | .not _ a | .isin _ _ _ a | .between _ _ _ a | .period _ _ _ a | .isnull _ a | .notnull _ a
  | .bitand _ _ a | .all _ a | .tuple _ a | .array _ a | .case _ _ a
  | .func _ _ _ _ _ _ _ _ _ _ a | .json _ a | .atTz _ _ _ a => a
  | .sub (.mk fl ..) => fl.alias
  | .setop (.mk _ _ _ _ _ a) => a
  | _ => none

def Query.fl : Query → QFlags | .mk fl .. => fl
def Query.selects : Query → List Term | .mk _ _ _ sel .. => sel

/-! pagination keywords (named so that the specification side can match on them) -/
def kwLimit : Str := " LIMIT ".toList
def kwOffset : Str := " OFFSET ".toList
def kwFetchNext : Str := " FETCH NEXT ".toList
def kwRows : Str := " ROWS".toList
def kwRowsOnly : Str := " ROWS ONLY".toList

def limitDoc (fetch : Bool) (n : Nat) : Doc :=
  if fetch then [.kw kwFetchNext, .num false (natText n), .kw kwRowsOnly]
  else [.kw kwLimit, .num false (natText n)]

def offsetDoc (fetch : Bool) (n : Nat) : Doc :=
  if fetch then [.kw kwOffset, .num false (natText n), .kw kwRows]
  else [.kw kwOffset, .num false (natText n)]

/-- pagination tail of one dialect family (`_apply_pagination` and overrides), without LIMIT BY -/
def paginate (cls : QClass) (limit offset : Option Nat) : Doc :=
  let off? : Option Nat := match offset with | some 0 => none | o => o   -- `if self._offset:`
  match cls with
  | .oracle =>
      (match off? with | some m => offsetDoc true m | none => []) ++
      (match limit with | some n => limitDoc true n | none => [])
  | .mssql =>
      (if limit.isSome || off?.isSome then offsetDoc true (off?.getD 0) else []) ++
      (match limit with | some n => limitDoc true n | none => [])
  | _ =>
      (match limit with | some n => limitDoc false n | none => []) ++
      (match off? with | some m => offsetDoc false m | none => [])

/-- `_SetOperation.get_sql` tail: always the generic LIMIT / OFFSET forms -/
def setopPaginate (limit offset : Option Nat) : Doc :=
  (match limit with | some n => limitDoc false n | none => []) ++
  (match offset with | some 0 => [] | some m => offsetDoc false m | none => [])

/-- Vertica's hint splice on the finished text: `sql[:7] + hint + sql[6:]` -/
def verticaSplice (hint : Str) (sql : Str) : Str :=
  sql.take 7 ++ "/*+label(".toList ++ hint ++ ")*/".toList ++ sql.drop 6

def optDoc {α} (o : Option α) (f : α → Doc) : Doc := match o with | some a => f a | none => []

def selectedAliases (sel : List Term) : List (Option Str) := sel.map Term.alias?

/-- `field.alias and field.alias in selected_aliases` -/
def aliasSelected (sel : List Term) (a : Option Str) : Bool :=
  truthyStr a && (selectedAliases sel).contains a

def TRef.doc (c : Ctx) (t : TRef) : Doc :=
  (match t.schema with | [] => [] | s => schemaDoc c.q s ++ K ".") ++ [.ident c.q (t.name.getD "None".toList)]

mutual
  def render (c : Ctx) : Term → Doc
    | .field name alias tbl =>
        let body : Doc := (match tbl with
          | some t => if needsNs c tbl then [.ident c.q t.nsName, kws "."] else []
          | none => []) ++ [.ident c.q name]
        body ++ (if c.withAlias then aliasDoc c c.q alias else [])
    | .star tbl =>
        (match tbl with
          | some t => if needsNs c tbl
              then [.ident c.q (if truthyStr t.alias then t.alias.getD [] else t.name.getD "None".toList), kws ".*"]
              else K "*"
          | none => K "*")
    | .val v alias => v.doc c ++ aliasDoc c c.q alias
    | .wrapped t alias =>
        render { c with quote := .given c.q, secondary := some c.sq } t ++ aliasDoc c c.q alias
    | .lit text alias => .raw text :: aliasDoc c c.q alias
    | .neg t alias =>
        let d := render { c with withAlias := false } t
        let inner := parensIf ((match t.topOp with | .op _ => true | _ => false) || startsMinus d) d
        kws "-" :: inner ++ (if c.withAlias then aliasDoc c c.q alias else [])
    | .arith op l r alias =>
        let k := { c with withAlias := false }
        let dl := render k l
        let dr := render k r
        parensIf (leftNeedsParens op l.topOp) dl ++ .kw op.text ::
          parensIf (rightNeedsParens op r.topOp || (op = .sub && startsMinus dr)) dr ++
          (if c.withAlias then aliasDoc c c.q alias else [])
    | .basic cmp l r alias =>
        let qc : Option Char := match c.quote with | .absent => some '"' | .given x => x
        let k := { c with quote := .given qc, withAlias := false }
        render k l ++ .kw cmp :: render k r ++ (if c.withAlias then aliasDoc c qc alias else [])
    | .complex op l r alias =>
        let k := { c with withAlias := false }
        let d := render { k with subcriterion := needsBrackets op l } l ++ kws " " :: .kw op.text :: kws " " ::
                 render { k with subcriterion := needsBrackets op r } r
        parensIf c.subcriterion d ++ (if c.withAlias then aliasDoc { k with subcriterion := false } c.q alias else [])
    | .not t alias =>
        kws "NOT " :: render { c with subcriterion := true } t ++ aliasDoc { c with subcriterion := true } c.q alias
    | .isin t container negated alias =>
        let k := { c with subquery := false }
        render k t ++ kws (if negated then " NOT IN " else " IN ") ::
          render { c with subquery := true } container ++ aliasDoc k c.q alias
    | .between t lo hi alias =>
        render c t ++ kws " BETWEEN " :: render c lo ++ kws " AND " :: render c hi ++ aliasDoc c c.q alias
    | .period t lo hi alias =>
        render c t ++ kws " FROM " :: render c lo ++ kws " TO " :: render c hi ++ aliasDoc c c.q alias
    | .isnull t alias =>
        let k := { c with withAlias := false }
        render k t ++ kws " IS NULL" :: aliasDoc k c.q alias
    | .notnull t alias =>
        let k := { c with withAlias := false }
        render k t ++ kws " IS NOT NULL" :: aliasDoc k c.q alias
    | .bitand t v alias =>
        kws "(" :: render c t ++ kws " & " :: render c v ++ kws ")" :: aliasDoc c c.q alias
    | .exists_ q negated =>
        kws (if negated then "NOT EXISTS " else "EXISTS ") :: render { c with subquery := true } q
    | .all t alias => render c t ++ kws " ALL" :: aliasDoc c c.q alias
    | .tuple vs alias =>
        kws "(" :: joinDocs (K ",") (renderL c vs) ++ kws ")" :: aliasDoc c c.q alias
    | .array vs alias =>
        let inner := joinDocs (K ",") (renderL c vs)
        let pg := c.dia = some .postgresql || c.dia = some .redshift
        (if pg then (if flatten inner ≠ [] then kws "ARRAY[" :: inner ++ K "]" else K "'{}'")
         else kws "[" :: inner ++ K "]") ++ aliasDoc c c.q alias
    | .case whens els alias =>
        let k := { c with withAlias := false }
        (match whens with | [] => [Piece.err "CaseException".toList] | _ => []) ++
        kws "CASE " :: joinDocs (K " ") (renderWhens k whens) ++
          (match els with | some e => kws " ELSE " :: render k e | none => []) ++ kws " END" ::
          (if c.withAlias then aliasDoc k c.q alias else [])
    | .func name schema args distinct special extractFrom filters over frame noParens alias =>
        let b := c.fnBase
        -- get_special_params_sql(**kwargs) is evaluated first but has no collectable content
        let specialDoc : Doc :=
          (match special with | some s => [kws " ", .raw s] | none => []) ++
          (match extractFrom with | some t => kws " FROM " :: render b t | none => [])
        let core : Doc :=
          if noParens then [.raw name]
          else .raw name :: kws "(" :: (if distinct then K "DISTINCT " else []) ++
                 joinDocs (K ",") (renderL c.fnArg args) ++ specialDoc ++ K ")"
        let filterDoc : Doc := match filters with
          | some fs => kws " FILTER(WHERE " :: renderAll b fs ++ K ")"
          | none => []
        let overDoc : Doc := match over with
          | some (part, obs) =>
              let p : List Doc :=
                (match part with | [] => [] | _ => [kws "PARTITION BY " :: joinDocs (K ",") (renderL b part)]) ++
                (match obs with | [] => [] | _ => [kws "ORDER BY " :: joinDocs (K ",") (renderOrd b obs)])
              let body := joinDocs (K " ") p
              kws " OVER(" :: body ++ (match frame with | some f => [kws " ", .raw f.text] | none => []) ++ K ")"
          | none => []
        let rest : Ctx := { c with withAlias := false, withNamespace := false, quote := .absent, dialect := none }
        (match schema with | some s => schemaDoc c.q s ++ K "." | none => []) ++
          core ++ filterDoc ++ overDoc ++ (if c.withAlias then aliasDoc rest c.q alias else [])
    | .param text => [.raw text]
    | .interval iv => [.raw (intervalText c.dia iv)]
    | .json j alias => .str false c.sq j.text :: aliasDoc c c.q alias
    | .pseudo name => [.raw name]
    | .atTz field zone interval alias =>
        render c field ++ kws " AT TIME ZONE " :: (if interval then K "INTERVAL " else []) ++
          [.raw ('\'' :: zone ++ ['\''])] ++ aliasDoc c c.q alias
    | .values field => kws "VALUES(" :: render { c with quote := .given c.q } field ++ K ")"
    | .sub q => renderQuery c q
    | .setop s => renderSetOp c s
    | .empty => [.err "TypeError".toList]
    | .index name => [.ident c.q name]

  def renderL (c : Ctx) : List Term → List Doc
    | [] => []
    | t :: ts => render c t :: renderL c ts

  /-- `Criterion.all(filters).get_sql(**kwargs)`: left fold with `&`, empty criteria dropped -/
  def renderAll (c : Ctx) : List Term → Doc
    | [] => [.err "TypeError".toList]
    | [t] => render c t
    | t :: u :: ts =>
        -- ComplexCriterion(and, ComplexCriterion(and, t, u), ...) renders as a flat chain
        render c t ++ kws " AND " :: renderAll c (u :: ts)

  def renderWhens (c : Ctx) : List (Term × Term) → List Doc
    | [] => []
    | (w, t) :: ws => (kws "WHEN " :: render c w ++ kws " THEN " :: render c t) :: renderWhens c ws

  def renderOrd (c : Ctx) : List (Term × Option Ord) → List Doc
    | [] => []
    | (t, o) :: ts =>
        (render c t ++ (match o with | some o => [kws " ", .kw o.text] | none => [])) :: renderOrd c ts

  /-- ORDER BY items of a query: alias reference when the alias is selected -/
  def renderOrderBy (c : Ctx) (sel : List Term) (aq : Option Char) : List (Term × Option Ord) → List Doc
    | [] => []
    | (t, o) :: ts =>
        ((if aliasSelected sel t.alias? then [Piece.ident (orQ aq c.q) (t.alias?.getD [])]
          else render c t) ++ (match o with | some o => [kws " ", .kw o.text] | none => [])) ::
        renderOrderBy c sel aq ts

  def renderGroupBy (c : Ctx) (sel : List Term) (useAlias : Bool) (aq : Option Char) : List Term → List Doc
    | [] => []
    | t :: ts =>
        (if useAlias && aliasSelected sel t.alias? then [Piece.ident (orQ aq c.q) (t.alias?.getD [])]
         else render c t) :: renderGroupBy c sel useAlias aq ts

  def renderRows (c : Ctx) : List (List Term) → List Doc
    | [] => []
    | r :: rs => joinDocs (K ",") (renderL c r) :: renderRows c rs

  def renderPairs (cf cv : Ctx) : List (Term × Term) → List Doc
    | [] => []
    | (f, v) :: ps => (render cf f ++ kws "=" :: render cv v) :: renderPairs cf cv ps

  def renderConflictUpdates (c : Ctx) : List (Term × Option Term) → List Doc
    | [] => []
    | (f, some v) :: ps =>
        (render c f ++ kws "=" :: render { c with withNamespace := true } v) :: renderConflictUpdates c ps
    | (f, none) :: ps =>
        (render c f ++ kws "=EXCLUDED." :: render c f) :: renderConflictUpdates c ps

  /-- `Selectable.get_sql(**c)` for row sources -/
  def renderSrc (c : Ctx) : Src → Doc
    | .table t temporal =>
        t.doc c ++
          (match temporal with
           | some (false, crit) => kws " FOR " :: render c crit
           | some (true, crit) => kws " FOR PORTION OF " :: render c crit
           | none => []) ++ aliasDoc c c.q t.alias
    | .query q => renderQuery c q
    | .setop s => renderSetOp c s
    | .aliased name q =>
        (match q with | none => [.raw name] | some s => renderSrc c s)

  def renderSrcL (c : Ctx) : List Src → List Doc
    | [] => []
    | s :: ss => renderSrc c s :: renderSrcL c ss

  def renderWiths (c : Ctx) : List (Str × Src) → List Doc
    | [] => []
    | (name, s) :: ws =>
        (.raw name :: kws " AS (" :: renderSrc { c with subquery := false, withAlias := false } s ++ K ") ") ::
        renderWiths c ws

  def renderJoins (c : Ctx) : List Join → List Doc
    | [] => []
    | j :: js =>
        (match j with
         | .plain item how =>
             (if how ≠ [] then [.kw how, kws " "] else []) ++ kws "JOIN " ::
               renderSrc { c with subquery := true, withAlias := true } item
         | .on item how crit collate =>
             (if how ≠ [] then [.kw how, kws " "] else []) ++ kws "JOIN " ::
               renderSrc { c with subquery := true, withAlias := true } item ++ kws " ON " ::
               render { c with subquery := true } crit ++
               (match collate with | some co => if co ≠ [] then [kws " COLLATE ", .raw co] else [] | none => [])
         | .usingJ item how fields =>
             (if how ≠ [] then [.kw how, kws " "] else []) ++ kws "JOIN " ::
               renderSrc { c with subquery := true, withAlias := true } item ++ kws " USING (" ::
               joinDocs (K ",") (renderL c fields) ++ K ")") :: renderJoins c js

  /-- `QueryBuilder.get_sql(with_alias=c.withAlias, subquery=c.subquery, **rest)` and its overrides -/
  def renderQuery (c : Ctx) : Query → Doc
    | .mk fl from_ withs selects insertTable updateTable columns values wheres prewheres havings
          groupbys orderbys joins updates usingSrcs duplicateUpdates returns onConflictFields
          onConflictDoUpdates onConflictWheres onConflictDoUpdateWheres distinctOn limitByTerms =>
      -- Oracle / MSSQL force groupby_alias=False for everything below
      let c0 : Ctx := if fl.cls.fetchFamily then { c with groupbyAlias := false } else c
      -- kwargs as seen by the dialect-level get_sql (MySQL / PostgreSQL keep with_alias, subquery)
      let kd : Ctx := setDefaults c0 fl.cls fl.dialect fl.asKeyword
      -- kwargs inside QueryBuilder.get_sql: with_alias / subquery are named parameters
      let k0 : Ctx := { kd with withAlias := false, subquery := false }
      let empty1 := selects.isEmpty && insertTable.isNone && !fl.deleteFrom && updateTable.isNone
      let empty2 := insertTable.isSome && selects.isEmpty && values.isEmpty
      let empty3 := updateTable.isSome && updates.isEmpty
      if empty1 || empty2 || empty3 then [] else
      let fromIsQuery := match from_ with | .query _ :: _ => true | _ => false
      let ns := !joins.isEmpty || from_.length > 1 || fromIsQuery || fl.foreignTable ||
                (updateTable.isSome && !from_.isEmpty)
      let k : Ctx := { k0 with withNamespace := ns }
      let kq : Ctx := { k with quote := .given k.q }         -- clause renderers that re-pass quote_char
      let srcCtx : Ctx := { k with withNamespace := false, subquery := true, withAlias := true }
      let withDoc : Doc := match withs with
        | [] => []
        | _ => kws "WITH " :: joinDocs (K ",") (renderWiths k withs)
      let selTerms := joinDocs (K ",") (renderL { k with withAlias := true, subquery := true } selects)
      let distinctDoc : Doc :=
        if (fl.cls = .postgresql || fl.cls = .clickhouse) && !distinctOn.isEmpty then
          kws "DISTINCT ON(" :: joinDocs (K ",") (renderL { k with withAlias := true } distinctOn) ++ K ") "
        else if fl.distinct then K "DISTINCT " else []
      let selectDoc : Doc :=
        match fl.cls with
        | .mysql => kws "SELECT " :: (if fl.distinct then K "DISTINCT " else []) ++
            (match fl.modifiers with | [] => [] | ms => [Piece.raw (" ".toList.intercalate ms), kws " "]) ++ selTerms
        | .mssql => kws "SELECT " :: (if fl.distinct then K "DISTINCT " else []) ++
            (match fl.top with
             | some n => [kws "TOP (", .num false (natText n), kws ") "] ++
                 (if fl.topPercent then K "PERCENT " else []) ++ (if fl.topWithTies then K "WITH TIES " else [])
             | none => []) ++ selTerms
        | _ => kws "SELECT " :: distinctDoc ++ selTerms
      let fromList := joinDocs (K ",") (renderSrcL srcCtx from_)
      let fromDoc : Doc :=
        match from_ with
        | [] => []
        | _ =>
          if fl.cls = .clickhouse then
            if fl.deleteFrom then kws " " :: fromList ++ K " DELETE"
            else kws " FROM " :: fromList ++ (if fl.final then K " FINAL" else []) ++
              (match fl.sample with | some n => [kws " SAMPLE ", .num false (natText n)] | none => []) ++
              (match fl.sampleOffset with | some n => [kws " OFFSET ", .num false (natText n)] | none => [])
          else kws " FROM " :: fromList
      let joinsDoc : Doc := match joins with
        | [] => []
        | _ => kws " " :: joinDocs (K " ") (renderJoins k joins)
      let whereDoc : Doc := match wheres with
        | some w => kws " WHERE " :: render { kq with subquery := true } w
        | none => []
      let limitOnly : Doc := match fl.limit with | some n => limitDoc fl.cls.fetchFamily n | none => []
      let setKw := if fl.cls = .clickhouse then " UPDATE " else " SET "
      let setDoc : Doc := kws setKw :: joinDocs (K ",") (renderPairs { k with withNamespace := false } k updates)
      let core : Doc :=
        match updateTable with
        | some ut =>
            withDoc ++ kws (if fl.cls = .clickhouse then "ALTER TABLE " else "UPDATE ") :: renderSrc k ut ++
              joinsDoc ++ setDoc ++ fromDoc ++ whereDoc ++ limitOnly
        | none =>
          let head : Doc × Bool :=      -- (text, finished?)
            if fl.deleteFrom then (K (if fl.cls = .clickhouse then "ALTER TABLE" else "DELETE"), false)
            else match insertTable with
              | some it =>
                if !fl.selectInto then
                  let ins : Doc :=
                    if fl.replace_ then
                      (if fl.cls = .sqlite && fl.insertOrReplace then K "INSERT OR " else []) ++
                        kws "REPLACE INTO " :: renderSrc k it
                    else kws (if fl.ignore then "INSERT IGNORE INTO " else "INSERT INTO ") :: renderSrc k it
                  let cols : Doc := match columns with
                    | [] => []
                    | _ => kws " (" :: joinDocs (K ",") (renderL { k with withNamespace := false } columns) ++ K ")"
                  match values with
                  | [] => (withDoc ++ ins ++ cols ++ kws " " :: selectDoc, false)
                  | _ => (withDoc ++ ins ++ cols ++ kws " VALUES (" ::
                            joinDocs (K "),(") (renderRows { k with withAlias := true, subquery := true } values) ++ K ")",
                          true)
                else (withDoc ++ selectDoc ++ kws " INTO " :: renderSrc { k with withAlias := false } it, false)
              | none => (withDoc ++ selectDoc, false)
          if head.2 then head.1 else
          let usingDoc : Doc := match usingSrcs with
            | [] => []
            | _ => kws " USING " :: joinDocs (K ",") (renderSrcL srcCtx usingSrcs)
          let fidx : Doc := match fl.forceIndexes with
            | [] => []
            | xs => kws " FORCE INDEX (" :: joinDocs (K ",") (xs.map fun n => [Piece.ident k.q n]) ++ K ")"
          let uidx : Doc := match fl.useIndexes with
            | [] => []
            | xs => kws " USE INDEX (" :: joinDocs (K ",") (xs.map fun n => [Piece.ident k.q n]) ++ K ")"
          let prewhereDoc : Doc := match prewheres with
            | some w => kws " PREWHERE " :: render { kq with subquery := true } w
            | none => []
          let groupDoc : Doc := match groupbys with
            | [] => []
            | _ => kws " GROUP BY " ::
                joinDocs (K ",") (renderGroupBy { kq with groupbyAlias := true } selects k.groupbyAlias k.aq groupbys) ++
                (if fl.withTotals then K " WITH TOTALS" else []) ++ (if fl.mysqlRollup then K " WITH ROLLUP" else [])
          let havingDoc : Doc := match havings with
            | some w => kws " HAVING " :: render kq w
            | none => []
          let orderDoc : Doc := match orderbys with
            | [] => []
            | _ => kws " ORDER BY " :: joinDocs (K ",") (renderOrderBy kq selects k.aq orderbys)
          let limitByDoc : Doc :=
            if fl.cls = .clickhouse then
              match fl.limitBy with
              | some (n, off) =>
                  kws " LIMIT " :: .num false (natText n) ::
                    (if off ≠ 0 then [kws " OFFSET ", .num false (natText off)] else []) ++ kws " BY (" ::
                    joinDocs (K ",") (renderL { k with withAlias := true } limitByTerms) ++ K ")"
              | none => []
            else []
          let forUpdateDoc : Doc :=
            if fl.forUpdate then
              kws " FOR UPDATE" ::
                (if fl.cls = .mysql || fl.cls = .postgresql then
                  (match fl.forUpdateOf with
                   | [] => []
                   | xs => kws " OF " :: joinDocs (K ", ") (xs.map fun n => [Piece.ident k.q n])) ++
                  (if fl.forUpdateNowait then K " NOWAIT" else if fl.forUpdateSkipLocked then K " SKIP LOCKED" else [])
                 else [])
            else []
          let body := head.1 ++ fromDoc ++ usingDoc ++ fidx ++ uidx ++ joinsDoc ++ prewhereDoc ++ whereDoc ++
            groupDoc ++ havingDoc ++ orderDoc ++ limitByDoc ++ paginate fl.cls fl.limit fl.offset ++ forUpdateDoc
          let body := parensIf c.subquery body
          if c.withAlias then
            body ++ aliasDoc { k with aliasQuote := some fl.cls.queryAliasQuoteChar } k.q fl.alias
          else body
      -- dialect-level suffixes, appended after the generic get_sql has returned
      let core : Doc :=
        match fl.cls with
        | .mysql =>
            if flatten core = [] then core
            else if !duplicateUpdates.isEmpty then
              core ++ kws " ON DUPLICATE KEY UPDATE " :: joinDocs (K ",") (renderPairs kd kd duplicateUpdates)
            else if fl.ignoreDuplicates then core ++ K " ON DUPLICATE KEY IGNORE"
            else core
        | .postgresql =>
            let kp : Ctx := { kd with withAlias := false, subquery := false }   -- named parameters again
            let conflict : Doc :=
              if !fl.onConflictDoNothing && onConflictDoUpdates.isEmpty then
                (if onConflictFields.isEmpty then [] else [Piece.err "QueryException".toList])
              else if !onConflictDoUpdates.isEmpty && onConflictFields.isEmpty then [Piece.err "QueryException".toList]
              else
                kws " ON CONFLICT" ::
                  (match onConflictFields with
                   | [] => []
                   | fs => kws " (" :: joinDocs (K ", ") (renderL { kp with withAlias := true } fs) ++ K ")") ++
                  (match onConflictWheres with
                   | some w => kws " WHERE " :: render { kp with subquery := true } w
                   | none => [])
            let action : Doc :=
              if fl.onConflictDoNothing then K " DO NOTHING"
              else match onConflictDoUpdates with
                | [] => []
                | ups => kws " DO UPDATE SET " :: joinDocs (K ",") (renderConflictUpdates kp ups) ++
                    (match onConflictDoUpdateWheres with
                     | some w => kws " WHERE " :: render { kp with subquery := true, withNamespace := true } w
                     | none => [])
            let ret : Doc := match returns with
              | [] => []
              | rs => kws " RETURNING " ::
                  joinDocs (K ",") (renderL { kp with withNamespace := updateTable.isSome, withAlias := true } rs)
            core ++ conflict ++ action ++ ret
        | .vertica =>
            (match fl.hint with
             | some h => [Piece.raw (verticaSplice h (flatten core))]
             | none => core)
        | _ => core
      core

  /-- `_SetOperation.get_sql` -/
  def renderSetOp (c : Ctx) : SetOp → Doc
    | .mk base ops orderbys limit offset alias =>
        let fl := base.fl
        let selects := base.selects
        let baseQ := base
        let k : Ctx := { c with
          withAlias := false, subquery := false
          dialect := (match c.dialect with | none => some fl.dialect | s => s)
          quote := (match c.quote with | .absent => .given fl.cls.quoteChar | g => g) }
        let ko : Ctx := { k with subquery := fl.wrapSetOps }
        let body := renderQuery ko baseQ ++ renderOps ko selects.length ops ++
          (match orderbys with
           | [] => []
           | _ => kws " ORDER BY " :: joinDocs (K ",") (renderOrderBy { k with quote := .given k.q } selects none orderbys)) ++
          setopPaginate limit offset
        let body := parensIf c.subquery body
        if c.withAlias then body ++ aliasDoc k k.q alias else body

  def renderOps (c : Ctx) (arity : Nat) : List (Str × Query) → Doc
    | [] => []
    | (op, q) :: rest =>
        let d := renderQuery c q
        let n := q.selects.length
        (if n ≠ arity then d.filter (fun p => match p with | .err _ => true | _ => false) ++ [Piece.err "SetOperationException".toList]
         else kws " " :: .kw op :: kws " " :: d) ++ renderOps c arity rest
end

end Pypika
