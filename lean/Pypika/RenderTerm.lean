import Pypika.Render
/-!
# The mutual `render` family: one function per Python class family

`render c t` mirrors `t.get_sql(**c)`; `renderQuery` mirrors `QueryBuilder.get_sql` and its
dialect overrides; `renderSetOp` mirrors `_SetOperation.get_sql`.
-/
namespace Pypika

/-! ## class constants (tied to `/repo` by `Generated/Tables.lean` + `Agree.lean`) -/

def QClass.quoteChar : QClass → Option Char
  | .mysql => some '`'
  | .oracle | .snowflake => none
  | _ => some '"'

def QClass.aliasQuoteChar : QClass → Option Char
  | .postgresql | .snowflake => some '"'
  | _ => none

/-- `ALIAS_QUOTE_CHAR if QUERY_ALIAS_QUOTE_CHAR is None else QUERY_ALIAS_QUOTE_CHAR`, after the
    `alias_quote_char or quote_char` of `format_alias_sql` (Snowflake's `''` is falsy) -/
def QClass.queryAliasQuoteChar : QClass → Option Char
  | .postgresql => some '"'
  | _ => none

def QClass.fetchFamily : QClass → Bool
  | .oracle | .mssql => true
  | _ => false

/-- `QueryBuilder._set_kwargs_defaults` -/
def setDefaults (c : Ctx) (cls : QClass) (dialect : Option Dialect) (asKw : Bool) : Ctx :=
  { c with
    quote := (match c.quote with | .absent => .given cls.quoteChar | g => g)
    secondary := (match c.secondary with | none => some (some '\'') | s => s)
    aliasQuote := (match c.aliasQuote with | none => some cls.aliasQuoteChar | s => s)
    asKeyword := (match c.asKeyword with | none => some asKw | s => s)
    dialect := (match c.dialect with | none => some dialect | s => s) }

def Term.topOp : Term → TopOp
  | .arith op _ _ _ => .op op
  | .sub _ => .weird
  | .setop _ => .weird
  | _ => .none

def Term.isComplexWith : Term → Option BoolOp
  | .complex op _ _ _ => some op
  | _ => none

/-- `ComplexCriterion.needs_brackets` -/
def needsBrackets (self : BoolOp) (child : Term) : Bool :=
  match child.isComplexWith with
  | some op => op ≠ self
  | none => false

def Term.alias? : Term → Option Str
  | .field _ a _ | .complex _ _ _ a | .val _ a | .wrapped _ a | .lit _ a | .neg _ a | .arith _ _ _ a | .basic _ _ _ a
  | .not _ a | .isin _ _ _ a | .between _ _ _ a | .period _ _ _ a | .isnull _ a | .notnull _ a
  | .bitand _ _ a | .all _ a | .tuple _ a | .array _ a | .case _ _ a
  | .func _ _ _ _ _ _ _ _ _ _ _ _ a | .json _ a | .atTz _ _ _ a | .param _ a => a
  | .sub (.mk fl ..) => fl.alias
  | .setop (.mk _ _ _ _ _ a) => a
  | _ => none

def Query.fl : Query → QFlags | .mk fl .. => fl
def Query.selects : Query → List Term | .mk _ _ _ sel .. => sel

/-! pagination keywords (named so that the specification side can match on them) -/
def kwLimit : Str := " LIMIT ".toList
def kwOffset : Str := " OFFSET ".toList
def kwFetchNext : Str := " FETCH NEXT ".toList
def kwRows : Str := " ROWS".toList
def kwRowsOnly : Str := " ROWS ONLY".toList

def limitDoc (fetch : Bool) (n : Nat) : Doc :=
  if fetch then [.kw kwFetchNext, .num false (natText n), .kw kwRowsOnly]
  else [.kw kwLimit, .num false (natText n)]

def offsetDoc (fetch : Bool) (n : Nat) : Doc :=
  if fetch then [.kw kwOffset, .num false (natText n), .kw kwRows]
  else [.kw kwOffset, .num false (natText n)]

/-- pagination tail of one dialect family (`_apply_pagination` and overrides), without LIMIT BY -/
def paginate (cls : QClass) (limit offset : Option Nat) : Doc :=
  let off? : Option Nat := match offset with | some 0 => none | o => o   -- `if self._offset:`
  match cls with
  | .oracle =>
      (match off? with | some m => offsetDoc true m | none => []) ++
      (match limit with | some n => limitDoc true n | none => [])
  | .mssql =>
      (if limit.isSome || off?.isSome then offsetDoc true (off?.getD 0) else []) ++
      (match limit with | some n => limitDoc true n | none => [])
  | _ =>
      (match limit with | some n => limitDoc false n | none => []) ++
      (match off? with | some m => offsetDoc false m | none => [])

/-- `_SetOperation.get_sql` tail: always the generic LIMIT / OFFSET forms -/
def setopPaginate (limit offset : Option Nat) : Doc :=
  (match limit with | some n => limitDoc false n | none => []) ++
  (match offset with | some 0 => [] | some m => offsetDoc false m | none => [])

/-- split a document after `n` characters of its text (a piece cut in two becomes raw text) -/
def splitDoc : Nat → Doc → Doc × Doc
  | _, [] => ([], [])
  | n, p :: ps =>
      if n = 0 then ([], p :: ps)
      else if p.text.length ≤ n then ((p :: (splitDoc (n - p.text.length) ps).1), (splitDoc (n - p.text.length) ps).2)
      else ([.raw (p.text.take n)], .raw (p.text.drop n) :: ps)

/-- Vertica's hint after the statement's own keyword (`VerticaQueryBuilder._hinted`): the text of the keyword part is split at
its first blank, `KEYWORD rest` → `KEYWORD /*+label(h)*/ rest` -/
def verticaSplice (hint : Str) (d : Doc) : Doc :=
  let n := ((flatten d).takeWhile (· ≠ ' ')).length
  (splitDoc n d).1 ++ [.raw (" /*+label(".toList ++ hint ++ ")*/".toList)] ++ (splitDoc n d).2

def hinted (fl : QFlags) (d : Doc) : Doc :=
  if fl.cls = .vertica then
    match fl.hint with
    | some h => verticaSplice h d
    | none => d
  else d

def optDoc {α} (o : Option α) (f : α → Doc) : Doc := match o with | some a => f a | none => []

def selectedAliases (sel : List Term) : List (Option Str) := sel.map Term.alias?

/-- `field.alias and field.alias in selected_aliases` -/
def aliasSelected (sel : List Term) (a : Option Str) : Bool :=
  truthyStr a && (selectedAliases sel).contains a

def TRef.doc (c : Ctx) (t : TRef) : Doc :=
  (match t.schema with | [] => [] | s => schemaDoc c.q s ++ K ".") ++ [.ident c.q (t.name.getD "None".toList)]

def opt (b : Bool) (d : Doc) : Doc := if b then d else []
def Ctx.basicQ (c : Ctx) : Option Char := match c.quote with | .absent => some '"' | .given x => x
def opt' (b : Bool) (d : Doc) : List Doc := if b then [d] else []

/-- the three early `return ""` of `QueryBuilder.get_sql` -/
def queryIsEmpty (noSelects hasInsert deleteFrom hasUpdate noValues noUpdates : Bool) : Bool :=
  (noSelects && !hasInsert && !deleteFrom && !hasUpdate) || (hasInsert && noSelects && noValues) ||
    (hasUpdate && noUpdates)

def fromIsQuery : List Src → Bool | .query _ :: _ => true | _ => false

/-- the five disjuncts of `kwargs["with_namespace"]` -/
def wantsNamespace (fl : QFlags) (hasJoins : Bool) (nFrom : Nat) (fromQ : Bool) (hasUpdate : Bool) : Bool :=
  hasJoins || nFrom > 1 || fromQ || fl.foreignTable || (hasUpdate && nFrom > 0)

/-- kwargs as seen by the dialect-level `get_sql`: `groupby_alias` is set by the outermost statement — Oracle / MSSQL
    `setdefault` it to `False`, every `QueryBuilder.get_sql` then `setdefault`s it to `True` — and kept below it
    (MySQL / PostgreSQL keep `with_alias` and `subquery` in kwargs) -/
def dialectCtx (c : Ctx) (fl : QFlags) : Ctx :=
  setDefaults (if c.groupbyAliasSet then c else { c with groupbyAlias := !fl.cls.fetchFamily, groupbyAliasSet := true })
    fl.cls fl.dialect fl.asKeyword

/-- kwargs inside `QueryBuilder.get_sql`: `with_alias` / `subquery` are named parameters,
    `with_namespace` is assigned -/
def queryCtx (c : Ctx) (fl : QFlags) (ns : Bool) : Ctx :=
  { (dialectCtx c fl) with withAlias := false, subquery := false, withNamespace := ns }

/-- what follows `SELECT ` before the select list (`_distinct_sql`, MySQL modifiers, MSSQL TOP) -/
def selectPrefix (fl : QFlags) (hasDistinctOn : Bool) (distinctOnDoc : Doc) : Doc :=
  match fl.cls with
  | .mysql => opt fl.distinct (K "DISTINCT ") ++
      (match fl.modifiers with | [] => [] | ms => [Piece.raw (" ".toList.intercalate ms), kws " "])
  | .mssql => opt fl.distinct (K "DISTINCT ") ++
      (match fl.top with
       | some n => [kws "TOP (", .num false (natText n), kws ") "] ++
           opt fl.topPercent (K "PERCENT ") ++ opt fl.topWithTies (K "WITH TIES ")
       | none => [])
  | _ => if (fl.cls = .postgresql || fl.cls = .clickhouse) && hasDistinctOn then distinctOnDoc
         else opt fl.distinct (K "DISTINCT ")

/-- `_from_sql` and the ClickHouse override -/
def fromClause (fl : QFlags) (fromList : Doc) : Doc :=
  if fl.cls = .clickhouse then
    if fl.deleteFrom then kws " " :: fromList ++ K " DELETE"
    else kws " FROM " :: fromList ++ opt fl.final (K " FINAL") ++
      (match fl.sample with | some n => [kws " SAMPLE ", .num false (natText n)] | none => []) ++
      (match fl.sampleOffset with | some n => [kws " OFFSET ", .num false (natText n)] | none => [])
  else kws " FROM " :: fromList

/-- `_insert_sql` / `_replace_sql` up to the table -/
def insertHead (fl : QFlags) : Doc :=
  if fl.replace_ then opt (fl.cls = .sqlite && fl.insertOrReplace) (K "INSERT OR ") ++ K "REPLACE INTO "
  else K (if fl.ignore then "INSERT IGNORE INTO " else "INSERT INTO ")

def indexDoc (pre : String) (q : Option Char) (names : List Str) : Doc :=
  match names with
  | [] => []
  | xs => kws pre :: joinDocs (K ",") (xs.map fun n => [Piece.ident q n]) ++ K ")"

def limitByDoc (fl : QFlags) (byDoc : Doc) : Doc :=
  match fl.limitBy with
  | some (n, off) =>
      kws " LIMIT " :: .num false (natText n) ::
        (if off ≠ 0 then [kws " OFFSET ", .num false (natText off)] else []) ++ kws " BY (" :: byDoc ++ K ")"
  | none => []

def forUpdateDoc (fl : QFlags) (q : Option Char) : Doc :=
  if fl.forUpdate then
    kws " FOR UPDATE" ::
      (if fl.cls = .mysql || fl.cls = .postgresql then
        (match fl.forUpdateOf with
         | [] => []
         | xs => kws " OF " :: joinDocs (K ", ") (xs.map fun n => [Piece.ident q n])) ++
        (if fl.forUpdateNowait then K " NOWAIT" else if fl.forUpdateSkipLocked then K " SKIP LOCKED" else [])
       else [])
  else []

/-- the guards of `PostgreSQLQueryBuilder._on_conflict_sql` -/
def conflictGuard (doNothing noUpdates noFields : Bool) (body : Doc) : Doc :=
  if !doNothing && noUpdates then (if noFields then [] else [Piece.err "QueryException".toList])
  else if !noUpdates && noFields then [Piece.err "QueryException".toList]
  else body

/-- kwargs inside `_SetOperation.get_sql`: `base_query._set_kwargs_defaults(kwargs)`; `with_alias` / `subquery`
    are named parameters -/
def setopCtx (c : Ctx) (fl : QFlags) : Ctx :=
  { (setDefaults c fl.cls fl.dialect fl.asKeyword) with withAlias := false, subquery := false }

def howDoc (how : Str) : Doc := if how ≠ [] then [.kw how, kws " "] else []

mutual
  def render (c : Ctx) : Term → Doc
    | .field name alias tbl =>
        (if needsNs c tbl then [.ident c.q ((tbl.getD default).nsName), kws "."] else []) ++ [.ident c.q name] ++
          opt c.withAlias (aliasDoc c c.q alias)
    | .star tbl =>
        if needsNs c tbl then
          [.ident c.q (if truthyStr (tbl.getD default).alias then (tbl.getD default).alias.getD []
                       else (tbl.getD default).name.getD "None".toList), kws ".*"]
        else K "*"
    | .val v alias => v.doc c ++ aliasDoc c c.q alias
    | .wrapped t alias =>
        render { c with quote := .given c.q, secondary := some c.sq } t ++ aliasDoc c c.q alias
    | .lit text alias => .raw text :: aliasDoc c c.q alias
    | .neg t alias =>
        kws "-" :: parensIf ((match t.topOp with | .op _ => true | _ => false) ||
            startsMinus (render { c with withAlias := false } t)) (render { c with withAlias := false } t) ++
          opt c.withAlias (aliasDoc c c.q alias)
    | .arith op l r alias =>
        parensIf (leftNeedsParens op l.topOp) (render { c with withAlias := false } l) ++ .kw op.text ::
          parensIf (rightNeedsParens op r.topOp || (op = .sub && startsMinus (render { c with withAlias := false } r)))
            (render { c with withAlias := false } r) ++
          opt c.withAlias (aliasDoc c c.q alias)
    | .basic cmp l r alias =>
        render { c with quote := .given c.basicQ, withAlias := false } l ++ .kw cmp ::
          render { c with quote := .given c.basicQ, withAlias := false } r ++
          opt c.withAlias (aliasDoc c c.basicQ alias)
    | .complex op l r alias =>
        parensIf c.subcriterion
          (render { c with withAlias := false, subcriterion := needsBrackets op l } l ++ kws " " :: .kw op.text :: kws " " ::
           render { c with withAlias := false, subcriterion := needsBrackets op r } r) ++
          opt c.withAlias (aliasDoc { c with withAlias := false, subcriterion := false } c.q alias)
    | .not t alias =>
        kws "NOT " :: render { c with subcriterion := true } t ++ aliasDoc { c with subcriterion := true } c.q alias
    | .isin t container negated alias =>
        render { c with subquery := false } t ++ kws (if negated then " NOT IN " else " IN ") ::
          render { c with subquery := true } container ++ aliasDoc { c with subquery := false } c.q alias
    | .between t lo hi alias =>
        render c t ++ kws " BETWEEN " :: render c lo ++ kws " AND " :: render c hi ++ aliasDoc c c.q alias
    | .period t lo hi alias =>
        render c t ++ kws " FROM " :: render c lo ++ kws " TO " :: render c hi ++ aliasDoc c c.q alias
    | .isnull t alias =>
        render { c with withAlias := false } t ++ kws " IS NULL" :: aliasDoc { c with withAlias := false } c.q alias
    | .notnull t alias =>
        render { c with withAlias := false } t ++ kws " IS NOT NULL" :: aliasDoc { c with withAlias := false } c.q alias
    | .bitand t v alias =>
        kws "(" :: render c t ++ kws " & " :: render c v ++ kws ")" :: aliasDoc c c.q alias
    | .exists_ q negated =>
        kws (if negated then "NOT EXISTS " else "EXISTS ") :: render { c with subquery := true } q
    | .all t alias => render c t ++ kws " ALL" :: aliasDoc c c.q alias
    | .tuple vs alias =>
        kws "(" :: joinDocs (K ",") (renderL c vs) ++ kws ")" :: aliasDoc c c.q alias
    | .array vs alias =>
        (if c.dia = some .postgresql || c.dia = some .redshift then
           (if flatten (joinDocs (K ",") (renderL c vs)) ≠ [] then kws "ARRAY[" :: joinDocs (K ",") (renderL c vs) ++ K "]"
            else K "'{}'")
         else kws "[" :: joinDocs (K ",") (renderL c vs) ++ K "]") ++ aliasDoc c c.q alias
    | .case whens els alias =>
        opt whens.isEmpty [Piece.err "CaseException".toList] ++
        kws "CASE " :: joinDocs (K " ") (renderWhens { c with withAlias := false } whens) ++
          opt els.isSome (K " ELSE ") ++ renderOpt { c with withAlias := false } els ++ kws " END" ::
          opt c.withAlias (aliasDoc { c with withAlias := false } c.q alias)
    | .func name schema args distinct special extractFrom filter over partition overOrder frame noParens alias =>
        -- get_special_params_sql(**kwargs) is evaluated first but has no collectable content
        (match schema with | some s => schemaDoc c.q s ++ K "." | none => []) ++
          (if noParens then [.raw name]
           else .raw name :: kws "(" :: opt distinct (K "DISTINCT ") ++
                  joinDocs (K ",") (renderL c.fnArg args) ++
                  (match special with | some s => [kws " ", .raw s] | none => []) ++
                  opt extractFrom.isSome (K " FROM ") ++ renderOpt c.fnBase extractFrom ++ K ")") ++
          opt filter.isSome (K " FILTER(WHERE ") ++ renderOpt c.fnBase filter ++ opt filter.isSome (K ")") ++
          opt over (kws " OVER(" ::
            joinDocs (K " ")
              (opt' (!partition.isEmpty) (kws "PARTITION BY " :: joinDocs (K ",") (renderL c.fnBase partition)) ++
               opt' (!overOrder.isEmpty) (kws "ORDER BY " :: joinDocs (K ",") (renderOrd c.fnBase overOrder))) ++
            (match frame with | some f => kws " " :: f.doc | none => []) ++ K ")") ++
          opt c.withAlias
            (aliasDoc { c with withAlias := false, withNamespace := false, quote := .absent, dialect := none } c.q alias)
    | .param text alias => [.raw text]
    | .interval iv => [.raw (intervalText c.dia iv)]
    | .json j alias => .str false c.sq j.text :: aliasDoc c c.q alias
    | .pseudo name => [.raw name]
    | .atTz field zone interval alias =>
        render c field ++ kws " AT TIME ZONE " :: opt interval (K "INTERVAL ") ++
          [.raw ('\'' :: zone ++ ['\''])] ++ aliasDoc c c.q alias
    | .values field => kws "VALUES(" :: render { c with quote := .given c.q } field ++ K ")"
    | .sub q => renderQuery c q
    | .setop s => renderSetOp c s
    | .empty => [.err "TypeError".toList]
    | .index name => [.ident c.q name]

  def renderL (c : Ctx) : List Term → List Doc
    | [] => []
    | t :: ts => render c t :: renderL c ts

  def renderOpt (c : Ctx) : Option Term → Doc
    | none => []
    | some t => render c t

  def renderWhens (c : Ctx) : List (Term × Term) → List Doc
    | [] => []
    | (w, t) :: ws => (kws "WHEN " :: render c w ++ kws " THEN " :: render c t) :: renderWhens c ws

  def renderOrd (c : Ctx) : List (Term × Option Ord) → List Doc
    | [] => []
    | (t, o) :: ts =>
        (render c t ++ (match o with | some o => [kws " ", .kw o.text] | none => [])) :: renderOrd c ts

  /-- ORDER BY items of a query: alias reference when the alias is selected -/
  def renderOrderBy (c : Ctx) (sel : List Term) (aq : Option Char) : List (Term × Option Ord) → List Doc
    | [] => []
    | (t, o) :: ts =>
        ((if aliasSelected sel t.alias? then [Piece.aliasRef (orQ aq c.q) (t.alias?.getD [])]
          else render c t) ++ (match o with | some o => [kws " ", .kw o.text] | none => [])) ::
        renderOrderBy c sel aq ts

  def renderGroupBy (c : Ctx) (sel : List Term) (useAlias : Bool) (aq : Option Char) : List Term → List Doc
    | [] => []
    | t :: ts =>
        (if useAlias && aliasSelected sel t.alias? then [Piece.aliasRef (orQ aq c.q) (t.alias?.getD [])]
         else render c t) :: renderGroupBy c sel useAlias aq ts

  def renderRows (c : Ctx) : List (List Term) → List Doc
    | [] => []
    | r :: rs => joinDocs (K ",") (renderL c r) :: renderRows c rs

  def renderPairs (cf cv : Ctx) : List (Term × Term) → List Doc
    | [] => []
    | (f, v) :: ps => (render cf f ++ kws "=" :: render cv v) :: renderPairs cf cv ps

  def renderConflictUpdates (c : Ctx) : List (Term × Option Term) → List Doc
    | [] => []
    | (f, some v) :: ps =>
        (render c f ++ kws "=" :: render { c with withNamespace := true } v) :: renderConflictUpdates c ps
    | (f, none) :: ps =>
        (render c f ++ kws "=EXCLUDED." :: render c f) :: renderConflictUpdates c ps

  /-- `Selectable.get_sql(**c)` for row sources -/
  def renderSrc (c : Ctx) : Src → Doc
    | .table t portion temporal =>
        t.doc c ++ opt temporal.isSome (K (if portion then " FOR PORTION OF " else " FOR ")) ++ renderOpt c temporal ++
          aliasDoc c c.q t.alias
    | .query q => renderQuery c q
    | .setop s => renderSetOp c s
    | .aliased name q => opt q.isNone [.raw name] ++ renderOptSrc c q

  def renderOptSrc (c : Ctx) : Option Src → Doc
    | none => []
    | some s => renderSrc c s

  def renderSrcL (c : Ctx) : List Src → List Doc
    | [] => []
    | s :: ss => renderSrc c s :: renderSrcL c ss

  def renderWiths (c : Ctx) : List (Str × Src) → List Doc
    | [] => []
    | (name, s) :: ws =>
        (.raw name :: kws " AS (" :: renderSrc { c with subquery := false, withAlias := false } s ++ K ") ") ::
        renderWiths c ws

  def renderJoin (c : Ctx) : Join → Doc
    | .plain item how =>
        howDoc how ++ kws "JOIN " :: renderSrc { c with subquery := true, withAlias := true } item
    | .on item how crit collate =>
        howDoc how ++ kws "JOIN " :: renderSrc { c with subquery := true, withAlias := true } item ++ kws " ON " ::
          render { c with subquery := true } crit ++
          (match collate with | some co => if co ≠ [] then [kws " COLLATE ", .raw co] else [] | none => [])
    | .usingJ item how fields =>
        howDoc how ++ kws "JOIN " :: renderSrc { c with subquery := true, withAlias := true } item ++ kws " USING (" ::
          joinDocs (K ",") (renderL c fields) ++ K ")"

  def renderJoins (c : Ctx) : List Join → List Doc
    | [] => []
    | j :: js => renderJoin c j :: renderJoins c js

  /-- `QueryBuilder.get_sql(with_alias=c.withAlias, subquery=c.subquery, **rest)` and its overrides -/
  def renderQuery (c : Ctx) : Query → Doc
    | .mk fl from_ withs selects insertTable updateTable columns values wheres prewheres havings
          groupbys orderbys joins updates usingSrcs duplicateUpdates returns onConflictFields
          onConflictDoUpdates onConflictWheres onConflictDoUpdateWheres distinctOn limitByTerms =>
      let k : Ctx := queryCtx c fl (wantsNamespace fl (!joins.isEmpty) from_.length (fromIsQuery from_) updateTable.isSome)
      let kd : Ctx := dialectCtx c fl
      let withDoc : Doc := opt (!withs.isEmpty) (kws "WITH " :: joinDocs (K ",") (renderWiths k withs))
      let selTerms := joinDocs (K ",") (renderL { k with withAlias := true, subquery := true } selects)
      let selectDoc : Doc := kws "SELECT " ::
        selectPrefix fl (!distinctOn.isEmpty)
          (kws "DISTINCT ON(" :: joinDocs (K ",") (renderL { k with withAlias := false } distinctOn) ++ K ") ") ++ selTerms
      let fromDoc : Doc := opt (!from_.isEmpty)
        (fromClause fl (joinDocs (K ",") (renderSrcL { k with withNamespace := false, subquery := true, withAlias := true } from_)))
      let joinsDoc : Doc := opt (!joins.isEmpty) (kws " " :: joinDocs (K " ") (renderJoins k joins))
      let whereDoc : Doc := opt wheres.isSome (K " WHERE ") ++ renderOpt { k with quote := .given k.q, subquery := true } wheres
      -- the three early `return ""` end the generic get_sql only: the dialect overrides still append to the empty text
      let core : Doc :=
        if queryIsEmpty selects.isEmpty insertTable.isSome fl.deleteFrom updateTable.isSome values.isEmpty updates.isEmpty
        then []
        else if updateTable.isSome then
          withDoc ++ hinted fl (kws (if fl.cls = .clickhouse then "ALTER TABLE " else "UPDATE ") :: renderOptSrc k updateTable) ++
            joinsDoc ++ kws (if fl.cls = .clickhouse then " UPDATE " else " SET ") ::
            joinDocs (K ",") (renderPairs { k with withNamespace := false } k updates) ++ fromDoc ++ whereDoc ++
            (match fl.limit with | some n => limitDoc fl.cls.fetchFamily n | none => [])
        else if !fl.deleteFrom && insertTable.isSome && !fl.selectInto && !values.isEmpty then
          withDoc ++ hinted fl (insertHead fl ++ renderOptSrc k insertTable) ++
            opt (!columns.isEmpty) (kws " (" :: joinDocs (K ",") (renderL { k with withNamespace := false } columns) ++ K ")") ++
            kws " VALUES (" :: joinDocs (K "),(") (renderRows { k with withAlias := true, subquery := true } values) ++ K ")"
        else
          let head : Doc :=
            if fl.deleteFrom then hinted fl (K (if fl.cls = .clickhouse then "ALTER TABLE" else "DELETE"))
            else if insertTable.isSome && !fl.selectInto then
              withDoc ++ hinted fl (insertHead fl ++ renderOptSrc k insertTable) ++
                opt (!columns.isEmpty) (kws " (" :: joinDocs (K ",") (renderL { k with withNamespace := false } columns) ++ K ")") ++
                kws " " :: selectDoc
            else if insertTable.isSome then
              withDoc ++ hinted fl selectDoc ++ kws " INTO " :: renderOptSrc { k with withAlias := false } insertTable
            else withDoc ++ hinted fl selectDoc
          let body := head ++ fromDoc ++
            opt (!usingSrcs.isEmpty) (kws " USING " ::
              joinDocs (K ",") (renderSrcL { k with withNamespace := false, subquery := true, withAlias := true } usingSrcs)) ++
            indexDoc " FORCE INDEX (" k.q fl.forceIndexes ++ indexDoc " USE INDEX (" k.q fl.useIndexes ++ joinsDoc ++
            opt prewheres.isSome (K " PREWHERE ") ++ renderOpt { k with quote := .given k.q, subquery := true } prewheres ++
            whereDoc ++
            opt (!groupbys.isEmpty) (kws " GROUP BY " ::
                joinDocs (K ",") (renderGroupBy { k with quote := .given k.q, groupbyAlias := true, subquery := true } selects k.groupbyAlias k.aq groupbys) ++
                opt fl.withTotals (K " WITH TOTALS") ++ opt fl.mysqlRollup (K " WITH ROLLUP")) ++
            opt havings.isSome (K " HAVING ") ++ renderOpt { k with quote := .given k.q, subquery := true } havings ++
            opt (!orderbys.isEmpty) (kws " ORDER BY " ::
                joinDocs (K ",") (renderOrderBy { k with quote := .given k.q, subquery := true } selects k.aq orderbys)) ++
            opt (fl.cls = .clickhouse && fl.limitBy.isSome) (limitByDoc fl
                (joinDocs (K ",") (renderL { k with withAlias := false } limitByTerms))) ++
            paginate fl.cls fl.limit fl.offset ++ forUpdateDoc fl k.q
          parensIf c.subquery body ++
            opt c.withAlias (aliasDoc { k with aliasQuote := some fl.cls.queryAliasQuoteChar } k.q fl.alias)
      -- dialect-level suffixes, appended after the generic get_sql has returned (bound by `let` before the
      -- class dispatch: the model is pure, and the functional induction principle then provides the
      -- hypotheses for these parts in every branch)
      let dupDoc : Doc := joinDocs (K ",") (renderPairs kd kd duplicateUpdates)
      let conflictDoc : Doc :=
        conflictGuard fl.onConflictDoNothing onConflictDoUpdates.isEmpty onConflictFields.isEmpty
          (kws " ON CONFLICT" ::
            opt (!onConflictFields.isEmpty)
              (kws " (" :: joinDocs (K ", ") (renderL { kd with withAlias := false, subquery := false } onConflictFields) ++ K ")") ++
            opt onConflictWheres.isSome (K " WHERE ") ++
            renderOpt { kd with withAlias := false, subquery := true } onConflictWheres) ++
        (if fl.onConflictDoNothing then K " DO NOTHING"
         else opt (!onConflictDoUpdates.isEmpty)
           (kws " DO UPDATE SET " ::
             joinDocs (K ",") (renderConflictUpdates { kd with withAlias := false, subquery := false } onConflictDoUpdates) ++
             opt onConflictDoUpdateWheres.isSome (K " WHERE ") ++
             renderOpt { kd with withAlias := false, subquery := true, withNamespace := true } onConflictDoUpdateWheres))
      let returningDoc : Doc := opt (!returns.isEmpty) (kws " RETURNING " ::
        joinDocs (K ",") (renderL { kd with subquery := false, withNamespace := updateTable.isSome, withAlias := true } returns))
      if fl.cls = .mysql then
        (if flatten core = [] then core
         else if !duplicateUpdates.isEmpty then core ++ kws " ON DUPLICATE KEY UPDATE " :: dupDoc
         else if fl.ignoreDuplicates then core ++ K " ON DUPLICATE KEY IGNORE"
         else core)
      else if fl.cls = .postgresql then core ++ conflictDoc ++ returningDoc
      else if fl.cls = .vertica then
        -- (the hint is placed by `hinted` at the statement's keyword; the dispatch on it is kept so that the case
        -- numbering of `render.mutual_induct`, which the whole-tree proofs refer to, does not move)
        (match fl.hint with
         | some _ => core
         | none => core)
      else core

  /-- `_SetOperation.get_sql` -/
  def renderSetOp (c : Ctx) : SetOp → Doc
    | .mk base ops orderbys limit offset alias =>
        parensIf c.subquery
          (renderQuery { (setopCtx c base.fl) with subquery := base.fl.wrapSetOps } base ++
           renderOps { (setopCtx c base.fl) with subquery := base.fl.wrapSetOps } base.selects.length ops ++
           opt (!orderbys.isEmpty) (kws " ORDER BY " ::
             joinDocs (K ",") (renderOrderBy { (setopCtx c base.fl) with quote := .given (setopCtx c base.fl).q } base.selects (setopCtx c base.fl).aq orderbys)) ++
           setopPaginate limit offset) ++
        opt c.withAlias (aliasDoc (setopCtx c base.fl) (setopCtx c base.fl).q alias)

  def renderOps (c : Ctx) (arity : Nat) : List (Str × Query) → Doc
    | [] => []
    | (op, q) :: rest =>
        (if q.selects.length ≠ arity then
           (renderQuery c q).filter (fun p => match p with | .err _ => true | _ => false) ++
             [Piece.err "SetOperationException".toList]
         else kws " " :: .kw op :: kws " " :: renderQuery c q) ++ renderOps c arity rest
end

end Pypika
