import Pypika.BuilderLocal
/-! Locality of the builder calls, part 6 -/
namespace Pypika.B
open Pypika
set_option linter.unusedSimpArgs false

set_option maxHeartbeats 1600000 in
theorem local_prewhere : ∀ c, LocalAt (.prewhere c) := by
  intro c s x w hr hw
  have hv : validateTable (copySlot w x s).r c = validateTable s.r c :=
    validateTable_local s x c w (by simp only [reads, writes, List.mem_cons, not_or] at hr hw ⊢; simp_all)
  simp only [step, hv]
  cases w
  all_goals first
    | listed [reads, writes] hr
    | listed [reads, writes] hw
    | local_tac [copySlot]

end Pypika.B
