import Pypika.DDLBuilder
/-!
# Frame and locality of the CREATE TABLE builder

One slot per attribute of `CreateD` the builder methods touch; `writesC` / `readsC` per call; `stepC_frame` (an accepted call
changes only its write set), `stepC_local` (replacing a slot the call neither reads nor writes commutes with it),
`ddl_calls_commute` for independent calls.  `Agree/DDLWrites.lean` ties the two tables to the source of the methods.
-/
namespace Pypika.DDLB
open Pypika

inductive CSlot where
  | table | temporary | unlogged | ifNotExists | systemVersioning | «local» | preserveRows
  | columns | periodFors | uniques | primaryKey | foreignKey | onDelete | onUpdate | asSelect
  deriving DecidableEq, Repr

/-- the Python attributes behind a slot (`foreignKey` bundles the key columns, the referenced table and its columns) -/
def CSlot.attrs : CSlot → List String
  | .table => ["_create_table"] | .temporary => ["_temporary"] | .unlogged => ["_unlogged"]
  | .ifNotExists => ["_if_not_exists"] | .systemVersioning => ["_with_system_versioning"]
  | .local => ["_local"] | .preserveRows => ["_preserve_rows"] | .columns => ["_columns"]
  | .periodFors => ["_period_fors"] | .uniques => ["_uniques"] | .primaryKey => ["_primary_key"]
  | .foreignKey => ["_foreign_key", "_foreign_key_reference_table", "_foreign_key_reference"]
  | .onDelete => ["_foreign_key_on_delete"] | .onUpdate => ["_foreign_key_on_update"] | .asSelect => ["_as_select"]

def allCSlots : List CSlot :=
  [.table, .temporary, .unlogged, .ifNotExists, .systemVersioning, .local, .preserveRows, .columns, .periodFors, .uniques,
   .primaryKey, .foreignKey, .onDelete, .onUpdate, .asSelect]

/-- `copyC w x d`: `d` with slot `w` taken from `x` -/
def copyC : CSlot → CreateD → CreateD → CreateD
  | .table, x, d => { d with table := x.table }
  | .temporary, x, d => { d with temporary := x.temporary }
  | .unlogged, x, d => { d with unlogged := x.unlogged }
  | .ifNotExists, x, d => { d with ifNotExists := x.ifNotExists }
  | .systemVersioning, x, d => { d with systemVersioning := x.systemVersioning }
  | .local, x, d => { d with «local» := x.local }
  | .preserveRows, x, d => { d with preserveRows := x.preserveRows }
  | .columns, x, d => { d with columns := x.columns }
  | .periodFors, x, d => { d with periodFors := x.periodFors }
  | .uniques, x, d => { d with uniques := x.uniques }
  | .primaryKey, x, d => { d with primaryKey := x.primaryKey }
  | .foreignKey, x, d => { d with foreignKey := x.foreignKey }
  | .onDelete, x, d => { d with onDelete := x.onDelete }
  | .onUpdate, x, d => { d with onUpdate := x.onUpdate }
  | .asSelect, x, d => { d with asSelect := x.asSelect }

def copyAllC (ws : List CSlot) (x d : CreateD) : CreateD := ws.foldl (fun acc w => copyC w x acc) d

def writesC : CCall → List CSlot
  | .createTable _ => [.table]
  | .temporary => [.temporary] | .unlogged => [.unlogged] | .withSystemVersioning => [.systemVersioning]
  | .ifNotExists => [.ifNotExists]
  | .columns _ => [.columns]
  | .periodFor .. => [.periodFors]
  | .unique _ => [.uniques]
  | .primaryKey _ => [.primaryKey]
  | .foreignKey .. => [.foreignKey, .onDelete, .onUpdate]
  | .asSelect _ => [.asSelect]
  | .local => [.local]
  | .preserveRows => [.preserveRows]

/-- slots a call looks at besides the ones it writes -/
def readsC : CCall → List CSlot
  | .columns _ => [.asSelect]
  | .asSelect _ => [.columns]
  | .local | .preserveRows => [.temporary]
  | _ => []

theorem okC_inj {a b : CreateD} (h : (Except.ok a : RC) = .ok b) : a = b := by injection h

/-- **Frame.**  After an accepted call, the old state with the call's write set taken from the new state *is* the new state. -/
theorem stepC_frame (d d' : CreateD) (c : CCall) (h : stepC d c = .ok d') : copyAllC (writesC c) d' d = d' := by
  cases c
  all_goals
    simp only [stepC] at h
    repeat' (first | split at h | (dsimp only at h; split at h))
    all_goals first | (cases okC_inj h; rfl) | (simp [raise] at h; done)

@[simp] theorem mapC_pure (f : CreateD → CreateD) (y : CreateD) : Except.map f (pure y : RC) = pure (f y) := rfl
@[simp] theorem mapC_raise (f : CreateD → CreateD) (e : String) : Except.map f (raise e) = raise e := rfl

set_option linter.unusedSimpArgs false in
/-- **Locality.**  Replacing a slot the call neither reads nor writes commutes with the call. -/
theorem stepC_local (d x : CreateD) (c : CCall) (w : CSlot) (hr : w ∉ readsC c) (hw : w ∉ writesC c) :
    stepC (copyC w x d) c = (stepC d c).map (copyC w x) := by
  cases c <;> cases w
  all_goals first
    | (exfalso; simp [readsC, writesC] at hr hw; done)
    | (simp only [stepC, copyC, apply_ite (Except.map _), mapC_pure, mapC_raise]
       repeat' (first
         | rfl
         | (refine ite_congr rfl (fun _ => ?_) (fun _ => ?_))
         | (split <;> try simp only [apply_ite (Except.map _), mapC_pure, mapC_raise])))

/-! the algebra of slot replacement, as for the query builder -/

theorem copyC_comm (w1 w2 : CSlot) (h : w1 ≠ w2) (x y d : CreateD) :
    copyC w1 x (copyC w2 y d) = copyC w2 y (copyC w1 x d) := by
  cases w1 <;> cases w2 <;> first | rfl | exact absurd rfl h

theorem copyAllC_cons (w : CSlot) (ws : List CSlot) (x d : CreateD) : copyAllC (w :: ws) x d = copyAllC ws x (copyC w x d) := rfl

theorem copyC_copyAllC (w : CSlot) (ws : List CSlot) (hw : w ∉ ws) (x y d : CreateD) :
    copyC w x (copyAllC ws y d) = copyAllC ws y (copyC w x d) := by
  induction ws generalizing d with
  | nil => rfl
  | cons v vs ih =>
    have hv : w ≠ v := fun h => hw (h ▸ List.mem_cons_self)
    rw [copyAllC_cons, copyAllC_cons, ih (fun h => hw (List.mem_cons_of_mem _ h)), copyC_comm w v hv]

theorem copyAllC_comm (ws vs : List CSlot) (hd : ∀ w ∈ ws, w ∉ vs) (x y d : CreateD) :
    copyAllC ws x (copyAllC vs y d) = copyAllC vs y (copyAllC ws x d) := by
  induction ws generalizing d with
  | nil => rfl
  | cons w ws ih =>
    rw [copyAllC_cons, copyAllC_cons, copyC_copyAllC w vs (hd w List.mem_cons_self),
      ih (fun u hu => hd u (List.mem_cons_of_mem _ hu))]

theorem stepC_local_all (ws : List CSlot) (x : CreateD) (c : CCall) (h : ∀ w ∈ ws, w ∉ readsC c ∧ w ∉ writesC c) :
    ∀ d : CreateD, stepC (copyAllC ws x d) c = (stepC d c).map (copyAllC ws x) := by
  induction ws with
  | nil => intro d; simp only [copyAllC, List.foldl_nil]; cases stepC d c <;> rfl
  | cons w ws ih =>
    intro d
    have hw := h w List.mem_cons_self
    rw [copyAllC_cons, ih (fun u hu => h u (List.mem_cons_of_mem _ hu)), stepC_local d x c w hw.1 hw.2]
    cases stepC d c <;> rfl

def IndepC (c1 c2 : CCall) : Prop :=
  (∀ w ∈ writesC c1, w ∉ readsC c2 ∧ w ∉ writesC c2) ∧ (∀ w ∈ writesC c2, w ∉ readsC c1 ∧ w ∉ writesC c1)

instance (c1 c2 : CCall) : Decidable (IndepC c1 c2) := by unfold IndepC; infer_instance

/-- **Independent CREATE TABLE builder calls commute** (accepted chains), for all arguments. -/
theorem ddl_calls_commute (d t : CreateD) (c1 c2 : CCall) (hi : IndepC c1 c2)
    (h : (stepC d c1 >>= fun d1 => stepC d1 c2) = .ok t) : (stepC d c2 >>= fun d2 => stepC d2 c1) = .ok t := by
  cases h1 : stepC d c1 with
  | error e => simp [h1, bind, Except.bind] at h
  | ok d1 =>
    simp only [h1, bind, Except.bind] at h
    have e1 := stepC_frame d d1 c1 h1
    have l2 := stepC_local_all (writesC c1) d1 c2 hi.1 d
    rw [e1, h] at l2
    cases h2 : stepC d c2 with
    | error e => rw [h2] at l2; cases l2
    | ok d2 =>
      rw [h2] at l2
      have ht : t = copyAllC (writesC c1) d1 d2 := by injection l2
      have e2 := stepC_frame d d2 c2 h2
      have l1 := stepC_local_all (writesC c2) d2 c1 hi.2 d
      rw [e2, h1] at l1
      simp only [bind, Except.bind]
      rw [l1, ht]
      show Except.ok (copyAllC (writesC c2) d2 d1) = Except.ok (copyAllC (writesC c1) d1 d2)
      congr 1
      calc copyAllC (writesC c2) d2 d1
          = copyAllC (writesC c2) d2 (copyAllC (writesC c1) d1 d) := by rw [e1]
        _ = copyAllC (writesC c1) d1 (copyAllC (writesC c2) d2 d) :=
            (copyAllC_comm _ _ (fun w hw => (hi.1 w hw).2) d1 d2 d).symm
        _ = copyAllC (writesC c1) d1 d2 := by rw [e2]

/-- the table flags, the constraint lists and the column list are pairwise independent: e.g. `unique` and `temporary` -/
example (cols : List Str) : IndepC (.unique cols) .temporary := by simp [IndepC, writesC, readsC]
/-- `columns` and `as_select` are not: each looks at the other's slot -/
example (cs : List ColArg) (q : Option Query) : ¬ IndepC (.columns cs) (.asSelect q) := by simp [IndepC, writesC, readsC]

end Pypika.DDLB
