/-!
# Build: the builder as a state machine over its clause slots (used by C08)

Payloads are abstract identifiers; `where()` / `prewhere()` compute the `_foreign_table` flag at call time.
-/
namespace Pypika.C08

inductive Kind
  | select | from_ | join | where_ | prewhere | having | groupby | orderby | limit | offset | distinct
  | forUpdate | with_ | forceIndex | useIndex | set | columns | insert
  deriving DecidableEq, Repr

inductive Call
  | select (t : Nat) | from_ (tbl : Nat) | join (j : Nat) (tbl : Nat)
  | where_ (c : Nat) (tabs : List Nat) | prewhere (c : Nat) (tabs : List Nat) | having (c : Nat)
  | groupby (t : Nat) | orderby (t : Nat) | limit (n : Nat) | offset (n : Nat) | distinct | forUpdate
  | with_ (w : Nat) | forceIndex (i : Nat) | useIndex (i : Nat) | set (p : Nat) | columns (t : Nat) | insert (row : Nat)
  deriving Repr

def Call.kind : Call → Kind
  | .select _ => .select | .from_ _ => .from_ | .join _ _ => .join | .where_ _ _ => .where_
  | .prewhere _ _ => .prewhere | .having _ => .having | .groupby _ => .groupby | .orderby _ => .orderby
  | .limit _ => .limit | .offset _ => .offset | .distinct => .distinct | .forUpdate => .forUpdate
  | .with_ _ => .with_ | .forceIndex _ => .forceIndex | .useIndex _ => .useIndex | .set _ => .set
  | .columns _ => .columns | .insert _ => .insert

structure BS where
  selects : List Nat := []
  froms : List Nat := []
  joins : List (Nat × Nat) := []
  wheres : List Nat := []
  prewheres : List Nat := []
  havings : List Nat := []
  groupbys : List Nat := []
  orderbys : List Nat := []
  limit : Option Nat := none
  offset : Option Nat := none
  distinct : Bool := false
  forUpdate : Bool := false
  withs : List Nat := []
  forceIdx : List Nat := []
  useIdx : List Nat := []
  updates : List Nat := []
  columns : List Nat := []
  values : List Nat := []
  updateTable : Option Nat := none
  foreign : Bool := false
  deriving DecidableEq, Repr

/-- `_validate_table`: every table of the criterion is a FROM item, the UPDATE target or a joined item -/
def valid (s : BS) (tabs : List Nat) : Bool :=
  tabs.all (fun t => s.froms.contains t || s.updateTable = some t || (s.joins.map (·.2)).contains t)

def step (s : BS) : Call → BS
  | .select t => { s with selects := s.selects ++ [t] }
  | .from_ t => { s with froms := s.froms ++ [t] }
  | .join j t => { s with joins := s.joins ++ [(j, t)] }
  | .where_ c tabs => { s with wheres := s.wheres ++ [c], foreign := s.foreign || !valid s tabs }
  | .prewhere c tabs => { s with prewheres := s.prewheres ++ [c], foreign := s.foreign || !valid s tabs }
  | .having c => { s with havings := s.havings ++ [c] }
  | .groupby t => { s with groupbys := s.groupbys ++ [t] }
  | .orderby t => { s with orderbys := s.orderbys ++ [t] }
  | .limit n => { s with limit := some n }
  | .offset n => { s with offset := some n }
  | .distinct => { s with distinct := true }
  | .forUpdate => { s with forUpdate := true }
  | .with_ w => { s with withs := s.withs ++ [w] }
  | .forceIndex i => { s with forceIdx := s.forceIdx ++ [i] }
  | .useIndex i => { s with useIdx := s.useIdx ++ [i] }
  | .set p => { s with updates := s.updates ++ [p] }
  | .columns t => { s with columns := s.columns ++ [t] }
  | .insert r => { s with values := s.values ++ [r] }

/-- `kwargs["with_namespace"]` (the sub-query disjunct depends on `froms` only) -/
def wantsNs (s : BS) : Bool :=
  !s.joins.isEmpty || s.froms.length > 1 || s.foreign || (s.updateTable.isSome && !s.froms.isEmpty)


def run (s : BS) (l : List Call) : BS := l.foldl step s

end Pypika.C08
