import Pypika.BuilderLocal
/-! Locality of the builder calls, part 4 (one theorem per call; the parts build in parallel) -/
namespace Pypika.B
open Pypika
set_option linter.unusedSimpArgs false

set_option maxHeartbeats 1600000 in
theorem local_doNothing : ∀ (_ : Unit), LocalAt (.doNothing) := by
  intro _ s x w hr hw
  cases w
  all_goals first
    | listed [reads, writes] hr
    | listed [reads, writes] hw
    | local_tac [step]

set_option maxHeartbeats 1600000 in
theorem local_doUpdate : ∀ a0 a1, LocalAt (.doUpdate a0 a1) := by
  intro a0 a1 s x w hr hw
  cases w
  all_goals first
    | listed [reads, writes] hr
    | listed [reads, writes] hw
    | local_tac [step]

set_option maxHeartbeats 1600000 in
theorem local_using : ∀ a0, LocalAt (.using a0) := by
  intro a0 s x w hr hw
  cases w
  all_goals first
    | listed [reads, writes] hr
    | listed [reads, writes] hw
    | local_tac [step]

set_option maxHeartbeats 1600000 in
theorem local_top : ∀ a0 a1 a2, LocalAt (.top a0 a1 a2) := by
  intro a0 a1 a2 s x w hr hw
  cases w
  all_goals first
    | listed [reads, writes] hr
    | listed [reads, writes] hw
    | local_tac [step]

set_option maxHeartbeats 1600000 in
theorem local_final : ∀ (_ : Unit), LocalAt (.final) := by
  intro _ s x w hr hw
  cases w
  all_goals first
    | listed [reads, writes] hr
    | listed [reads, writes] hw
    | local_tac [step]

set_option maxHeartbeats 1600000 in
theorem local_sample : ∀ a0 a1, LocalAt (.sample a0 a1) := by
  intro a0 a1 s x w hr hw
  cases w
  all_goals first
    | listed [reads, writes] hr
    | listed [reads, writes] hw
    | local_tac [step]

set_option maxHeartbeats 1600000 in
theorem local_limitBy : ∀ a0 a1 a2, LocalAt (.limitBy a0 a1 a2) := by
  intro a0 a1 a2 s x w hr hw
  cases w
  all_goals first
    | listed [reads, writes] hr
    | listed [reads, writes] hw
    | local_tac [step]

set_option maxHeartbeats 1600000 in
theorem local_hint : ∀ a0, LocalAt (.hint a0) := by
  intro a0 s x w hr hw
  cases w
  all_goals first
    | listed [reads, writes] hr
    | listed [reads, writes] hw
    | local_tac [step]

end Pypika.B
