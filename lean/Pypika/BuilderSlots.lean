import Pypika.Builder
/-!
# Frame of the builder methods: which slots a call may write  (the slot list, one constructor per attribute of `B.St`; the
`writes` table and the theorems below it are hand-written)

`Slot` enumerates the attributes of a query builder the model carries; `eraseSlot` resets one to its initial value.  The frame
theorem `step_frame` says: a call changes nothing outside `writes cls call` — after erasing those slots the state before and
after the call are equal.  `Agree/BuilderWrites.lean` ties `writes` to the attribute write sets extracted from the source of
the real methods (`harness/effects.py`).
-/
namespace Pypika.B
open Pypika

inductive Slot where
  | f_deleteFrom | f_replace_ | f_distinct | f_ignore | f_forUpdate | f_withTotals | f_mysqlRollup | f_selectInto | f_foreignTable | f_limit | f_offset | f_forceIndexes | f_useIndexes | f_ignoreDuplicates | f_modifiers | f_forUpdateNowait | f_forUpdateSkipLocked | f_forUpdateOf | f_onConflict | f_onConflictDoNothing | f_top | f_topPercent | f_topWithTies | f_final | f_sample | f_sampleOffset | f_limitBy | f_hint | f_insertOrReplace | r_from_ | r_withs | r_selects | r_insertTable | r_updateTable | r_columns | r_values | r_wheres | r_prewheres | r_havings | r_groupbys | r_orderbys | r_joins | r_updates | r_usingSrcs | r_duplicateUpdates | r_returns | r_onConflictFields | r_onConflictDoUpdates | r_onConflictWheres | r_onConflictDoUpdateWheres | r_distinctOn | r_limitByTerms | h_selectStar | h_starTables | h_subCount | h_returnStar
  deriving DecidableEq, Repr

/-- the Python attribute behind a slot -/
def Slot.attr : Slot → String
  | .f_deleteFrom => "_delete_from"
  | .f_replace_ => "_replace"
  | .f_distinct => "_distinct"
  | .f_ignore => "_ignore"
  | .f_forUpdate => "_for_update"
  | .f_withTotals => "_with_totals"
  | .f_mysqlRollup => "_mysql_rollup"
  | .f_selectInto => "_select_into"
  | .f_foreignTable => "_foreign_table"
  | .f_limit => "_limit"
  | .f_offset => "_offset"
  | .f_forceIndexes => "_force_indexes"
  | .f_useIndexes => "_use_indexes"
  | .f_ignoreDuplicates => "_ignore_duplicates"
  | .f_modifiers => "_modifiers"
  | .f_forUpdateNowait => "_for_update_nowait"
  | .f_forUpdateSkipLocked => "_for_update_skip_locked"
  | .f_forUpdateOf => "_for_update_of"
  | .f_onConflict => "_on_conflict"
  | .f_onConflictDoNothing => "_on_conflict_do_nothing"
  | .f_top => "_top"
  | .f_topPercent => "_top_percent"
  | .f_topWithTies => "_top_with_ties"
  | .f_final => "_final"
  | .f_sample => "_sample"
  | .f_sampleOffset => "_sample_offset"
  | .f_limitBy => "_limit_by"
  | .f_hint => "_hint"
  | .f_insertOrReplace => "_insert_or_replace"
  | .r_from_ => "_from"
  | .r_withs => "_with"
  | .r_selects => "_selects"
  | .r_insertTable => "_insert_table"
  | .r_updateTable => "_update_table"
  | .r_columns => "_columns"
  | .r_values => "_values"
  | .r_wheres => "_wheres"
  | .r_prewheres => "_prewheres"
  | .r_havings => "_havings"
  | .r_groupbys => "_groupbys"
  | .r_orderbys => "_orderbys"
  | .r_joins => "_joins"
  | .r_updates => "_updates"
  | .r_usingSrcs => "_using"
  | .r_duplicateUpdates => "_duplicate_updates"
  | .r_returns => "_returns"
  | .r_onConflictFields => "_on_conflict_fields"
  | .r_onConflictDoUpdates => "_on_conflict_do_updates"
  | .r_onConflictWheres => "_on_conflict_wheres"
  | .r_onConflictDoUpdateWheres => "_on_conflict_do_update_wheres"
  | .r_distinctOn => "_distinct_on"
  | .r_limitByTerms => "_limit_by"
  | .h_selectStar => "_select_star"
  | .h_starTables => "_select_star_tables"
  | .h_subCount => "_subquery_count"
  | .h_returnStar => "_return_star"

def eraseSlot : Slot → St → St
  | .f_deleteFrom, s => { s with r := { s.r with fl := { s.r.fl with deleteFrom := false } } }
  | .f_replace_, s => { s with r := { s.r with fl := { s.r.fl with replace_ := false } } }
  | .f_distinct, s => { s with r := { s.r with fl := { s.r.fl with distinct := false } } }
  | .f_ignore, s => { s with r := { s.r with fl := { s.r.fl with ignore := false } } }
  | .f_forUpdate, s => { s with r := { s.r with fl := { s.r.fl with forUpdate := false } } }
  | .f_withTotals, s => { s with r := { s.r with fl := { s.r.fl with withTotals := false } } }
  | .f_mysqlRollup, s => { s with r := { s.r with fl := { s.r.fl with mysqlRollup := false } } }
  | .f_selectInto, s => { s with r := { s.r with fl := { s.r.fl with selectInto := false } } }
  | .f_foreignTable, s => { s with r := { s.r with fl := { s.r.fl with foreignTable := false } } }
  | .f_limit, s => { s with r := { s.r with fl := { s.r.fl with limit := none } } }
  | .f_offset, s => { s with r := { s.r with fl := { s.r.fl with offset := none } } }
  | .f_forceIndexes, s => { s with r := { s.r with fl := { s.r.fl with forceIndexes := [] } } }
  | .f_useIndexes, s => { s with r := { s.r with fl := { s.r.fl with useIndexes := [] } } }
  | .f_ignoreDuplicates, s => { s with r := { s.r with fl := { s.r.fl with ignoreDuplicates := false } } }
  | .f_modifiers, s => { s with r := { s.r with fl := { s.r.fl with modifiers := [] } } }
  | .f_forUpdateNowait, s => { s with r := { s.r with fl := { s.r.fl with forUpdateNowait := false } } }
  | .f_forUpdateSkipLocked, s => { s with r := { s.r with fl := { s.r.fl with forUpdateSkipLocked := false } } }
  | .f_forUpdateOf, s => { s with r := { s.r with fl := { s.r.fl with forUpdateOf := [] } } }
  | .f_onConflict, s => { s with r := { s.r with fl := { s.r.fl with onConflict := false } } }
  | .f_onConflictDoNothing, s => { s with r := { s.r with fl := { s.r.fl with onConflictDoNothing := false } } }
  | .f_top, s => { s with r := { s.r with fl := { s.r.fl with top := none } } }
  | .f_topPercent, s => { s with r := { s.r with fl := { s.r.fl with topPercent := false } } }
  | .f_topWithTies, s => { s with r := { s.r with fl := { s.r.fl with topWithTies := false } } }
  | .f_final, s => { s with r := { s.r with fl := { s.r.fl with final := false } } }
  | .f_sample, s => { s with r := { s.r with fl := { s.r.fl with sample := none } } }
  | .f_sampleOffset, s => { s with r := { s.r with fl := { s.r.fl with sampleOffset := none } } }
  | .f_limitBy, s => { s with r := { s.r with fl := { s.r.fl with limitBy := none } } }
  | .f_hint, s => { s with r := { s.r with fl := { s.r.fl with hint := none } } }
  | .f_insertOrReplace, s => { s with r := { s.r with fl := { s.r.fl with insertOrReplace := false } } }
  | .r_from_, s => { s with r := { s.r with from_ := [] } }
  | .r_withs, s => { s with r := { s.r with withs := [] } }
  | .r_selects, s => { s with r := { s.r with selects := [] } }
  | .r_insertTable, s => { s with r := { s.r with insertTable := none } }
  | .r_updateTable, s => { s with r := { s.r with updateTable := none } }
  | .r_columns, s => { s with r := { s.r with columns := [] } }
  | .r_values, s => { s with r := { s.r with values := [] } }
  | .r_wheres, s => { s with r := { s.r with wheres := none } }
  | .r_prewheres, s => { s with r := { s.r with prewheres := none } }
  | .r_havings, s => { s with r := { s.r with havings := none } }
  | .r_groupbys, s => { s with r := { s.r with groupbys := [] } }
  | .r_orderbys, s => { s with r := { s.r with orderbys := [] } }
  | .r_joins, s => { s with r := { s.r with joins := [] } }
  | .r_updates, s => { s with r := { s.r with updates := [] } }
  | .r_usingSrcs, s => { s with r := { s.r with usingSrcs := [] } }
  | .r_duplicateUpdates, s => { s with r := { s.r with duplicateUpdates := [] } }
  | .r_returns, s => { s with r := { s.r with returns := [] } }
  | .r_onConflictFields, s => { s with r := { s.r with onConflictFields := [] } }
  | .r_onConflictDoUpdates, s => { s with r := { s.r with onConflictDoUpdates := [] } }
  | .r_onConflictWheres, s => { s with r := { s.r with onConflictWheres := none } }
  | .r_onConflictDoUpdateWheres, s => { s with r := { s.r with onConflictDoUpdateWheres := none } }
  | .r_distinctOn, s => { s with r := { s.r with distinctOn := [] } }
  | .r_limitByTerms, s => { s with r := { s.r with limitByTerms := [] } }
  | .h_selectStar, s => { s with selectStar := false }
  | .h_starTables, s => { s with starTables := [] }
  | .h_subCount, s => { s with subCount := 0 }
  | .h_returnStar, s => { s with returnStar := false }

def eraseAll (ws : List Slot) (s : St) : St := ws.foldl (fun acc w => eraseSlot w acc) s

/-- `copySlot w x s`: `s` with slot `w` taken from `x` -/
def copySlot : Slot → St → St → St
  | .f_deleteFrom, x, s => { s with r := { s.r with fl := { s.r.fl with deleteFrom := x.r.fl.deleteFrom } } }
  | .f_replace_, x, s => { s with r := { s.r with fl := { s.r.fl with replace_ := x.r.fl.replace_ } } }
  | .f_distinct, x, s => { s with r := { s.r with fl := { s.r.fl with distinct := x.r.fl.distinct } } }
  | .f_ignore, x, s => { s with r := { s.r with fl := { s.r.fl with ignore := x.r.fl.ignore } } }
  | .f_forUpdate, x, s => { s with r := { s.r with fl := { s.r.fl with forUpdate := x.r.fl.forUpdate } } }
  | .f_withTotals, x, s => { s with r := { s.r with fl := { s.r.fl with withTotals := x.r.fl.withTotals } } }
  | .f_mysqlRollup, x, s => { s with r := { s.r with fl := { s.r.fl with mysqlRollup := x.r.fl.mysqlRollup } } }
  | .f_selectInto, x, s => { s with r := { s.r with fl := { s.r.fl with selectInto := x.r.fl.selectInto } } }
  | .f_foreignTable, x, s => { s with r := { s.r with fl := { s.r.fl with foreignTable := x.r.fl.foreignTable } } }
  | .f_limit, x, s => { s with r := { s.r with fl := { s.r.fl with limit := x.r.fl.limit } } }
  | .f_offset, x, s => { s with r := { s.r with fl := { s.r.fl with offset := x.r.fl.offset } } }
  | .f_forceIndexes, x, s => { s with r := { s.r with fl := { s.r.fl with forceIndexes := x.r.fl.forceIndexes } } }
  | .f_useIndexes, x, s => { s with r := { s.r with fl := { s.r.fl with useIndexes := x.r.fl.useIndexes } } }
  | .f_ignoreDuplicates, x, s => { s with r := { s.r with fl := { s.r.fl with ignoreDuplicates := x.r.fl.ignoreDuplicates } } }
  | .f_modifiers, x, s => { s with r := { s.r with fl := { s.r.fl with modifiers := x.r.fl.modifiers } } }
  | .f_forUpdateNowait, x, s => { s with r := { s.r with fl := { s.r.fl with forUpdateNowait := x.r.fl.forUpdateNowait } } }
  | .f_forUpdateSkipLocked, x, s => { s with r := { s.r with fl := { s.r.fl with forUpdateSkipLocked := x.r.fl.forUpdateSkipLocked } } }
  | .f_forUpdateOf, x, s => { s with r := { s.r with fl := { s.r.fl with forUpdateOf := x.r.fl.forUpdateOf } } }
  | .f_onConflict, x, s => { s with r := { s.r with fl := { s.r.fl with onConflict := x.r.fl.onConflict } } }
  | .f_onConflictDoNothing, x, s => { s with r := { s.r with fl := { s.r.fl with onConflictDoNothing := x.r.fl.onConflictDoNothing } } }
  | .f_top, x, s => { s with r := { s.r with fl := { s.r.fl with top := x.r.fl.top } } }
  | .f_topPercent, x, s => { s with r := { s.r with fl := { s.r.fl with topPercent := x.r.fl.topPercent } } }
  | .f_topWithTies, x, s => { s with r := { s.r with fl := { s.r.fl with topWithTies := x.r.fl.topWithTies } } }
  | .f_final, x, s => { s with r := { s.r with fl := { s.r.fl with final := x.r.fl.final } } }
  | .f_sample, x, s => { s with r := { s.r with fl := { s.r.fl with sample := x.r.fl.sample } } }
  | .f_sampleOffset, x, s => { s with r := { s.r with fl := { s.r.fl with sampleOffset := x.r.fl.sampleOffset } } }
  | .f_limitBy, x, s => { s with r := { s.r with fl := { s.r.fl with limitBy := x.r.fl.limitBy } } }
  | .f_hint, x, s => { s with r := { s.r with fl := { s.r.fl with hint := x.r.fl.hint } } }
  | .f_insertOrReplace, x, s => { s with r := { s.r with fl := { s.r.fl with insertOrReplace := x.r.fl.insertOrReplace } } }
  | .r_from_, x, s => { s with r := { s.r with from_ := x.r.from_ } }
  | .r_withs, x, s => { s with r := { s.r with withs := x.r.withs } }
  | .r_selects, x, s => { s with r := { s.r with selects := x.r.selects } }
  | .r_insertTable, x, s => { s with r := { s.r with insertTable := x.r.insertTable } }
  | .r_updateTable, x, s => { s with r := { s.r with updateTable := x.r.updateTable } }
  | .r_columns, x, s => { s with r := { s.r with columns := x.r.columns } }
  | .r_values, x, s => { s with r := { s.r with values := x.r.values } }
  | .r_wheres, x, s => { s with r := { s.r with wheres := x.r.wheres } }
  | .r_prewheres, x, s => { s with r := { s.r with prewheres := x.r.prewheres } }
  | .r_havings, x, s => { s with r := { s.r with havings := x.r.havings } }
  | .r_groupbys, x, s => { s with r := { s.r with groupbys := x.r.groupbys } }
  | .r_orderbys, x, s => { s with r := { s.r with orderbys := x.r.orderbys } }
  | .r_joins, x, s => { s with r := { s.r with joins := x.r.joins } }
  | .r_updates, x, s => { s with r := { s.r with updates := x.r.updates } }
  | .r_usingSrcs, x, s => { s with r := { s.r with usingSrcs := x.r.usingSrcs } }
  | .r_duplicateUpdates, x, s => { s with r := { s.r with duplicateUpdates := x.r.duplicateUpdates } }
  | .r_returns, x, s => { s with r := { s.r with returns := x.r.returns } }
  | .r_onConflictFields, x, s => { s with r := { s.r with onConflictFields := x.r.onConflictFields } }
  | .r_onConflictDoUpdates, x, s => { s with r := { s.r with onConflictDoUpdates := x.r.onConflictDoUpdates } }
  | .r_onConflictWheres, x, s => { s with r := { s.r with onConflictWheres := x.r.onConflictWheres } }
  | .r_onConflictDoUpdateWheres, x, s => { s with r := { s.r with onConflictDoUpdateWheres := x.r.onConflictDoUpdateWheres } }
  | .r_distinctOn, x, s => { s with r := { s.r with distinctOn := x.r.distinctOn } }
  | .r_limitByTerms, x, s => { s with r := { s.r with limitByTerms := x.r.limitByTerms } }
  | .h_selectStar, x, s => { s with selectStar := x.selectStar }
  | .h_starTables, x, s => { s with starTables := x.starTables }
  | .h_subCount, x, s => { s with subCount := x.subCount }
  | .h_returnStar, x, s => { s with returnStar := x.returnStar }

def copyAll (ws : List Slot) (x s : St) : St := ws.foldl (fun acc w => copySlot w x acc) s

def allSlots : List Slot :=
  [.f_deleteFrom, .f_replace_, .f_distinct, .f_ignore, .f_forUpdate, .f_withTotals, .f_mysqlRollup, .f_selectInto, .f_foreignTable, .f_limit, .f_offset, .f_forceIndexes, .f_useIndexes, .f_ignoreDuplicates, .f_modifiers, .f_forUpdateNowait, .f_forUpdateSkipLocked, .f_forUpdateOf, .f_onConflict, .f_onConflictDoNothing, .f_top, .f_topPercent, .f_topWithTies, .f_final, .f_sample, .f_sampleOffset, .f_limitBy, .f_hint, .f_insertOrReplace, .r_from_, .r_withs, .r_selects, .r_insertTable, .r_updateTable, .r_columns, .r_values, .r_wheres, .r_prewheres, .r_havings, .r_groupbys, .r_orderbys, .r_joins, .r_updates, .r_usingSrcs, .r_duplicateUpdates, .r_returns, .r_onConflictFields, .r_onConflictDoUpdates, .r_onConflictWheres, .r_onConflictDoUpdateWheres, .r_distinctOn, .r_limitByTerms, .h_selectStar, .h_starTables, .h_subCount, .h_returnStar]

end Pypika.B
