import Pypika.RenderEqns
/-!
# Whole-tree invariants of `render`

Statements about *every* piece of the rendering of *every* term / statement, proved by the functional
induction principle of the mutual `render` family (`render.mutual_induct`, 19 motives, one case per
match arm).
-/
namespace Pypika.Whole
open Pypika

/-! ## piece-wise invariants and their closure properties -/

/-- all pieces of a document satisfy `P` -/
structure All (P : Piece → Prop) (d : Doc) : Prop where
  h : ∀ p ∈ d, P p
/-- … of a list of documents -/
structure AllL (P : Piece → Prop) (ds : List Doc) : Prop where
  h : ∀ d ∈ ds, All P d

theorem All_iff {P : Piece → Prop} {d : Doc} : All P d ↔ ∀ p ∈ d, P p := ⟨fun h => h.h, fun h => ⟨h⟩⟩
theorem AllL_iff {P : Piece → Prop} {ds : List Doc} : AllL P ds ↔ ∀ d ∈ ds, All P d := ⟨fun h => h.h, fun h => ⟨h⟩⟩

variable {P : Piece → Prop}

@[simp] theorem All_nil : All P [] := by simp [All_iff]
@[simp] theorem All_cons (p : Piece) (d : Doc) : All P (p :: d) ↔ P p ∧ All P d := by simp [All_iff]
@[simp] theorem All_append (a b : Doc) : All P (a ++ b) ↔ All P a ∧ All P b := by
  simp only [All_iff, List.mem_append]; constructor
  · intro h; exact ⟨fun p hp => h p (Or.inl hp), fun p hp => h p (Or.inr hp)⟩
  · rintro ⟨h1, h2⟩ p (hp | hp)
    · exact h1 p hp
    · exact h2 p hp
@[simp] theorem AllL_nil : AllL P [] := by simp [AllL_iff]
@[simp] theorem AllL_cons (d : Doc) (ds : List Doc) : AllL P (d :: ds) ↔ All P d ∧ AllL P ds := by simp [AllL_iff]
@[simp] theorem AllL_append (a b : List Doc) : AllL P (a ++ b) ↔ AllL P a ∧ AllL P b := by
  simp only [AllL_iff, List.mem_append]; constructor
  · intro h; exact ⟨fun p hp => h p (Or.inl hp), fun p hp => h p (Or.inr hp)⟩
  · rintro ⟨h1, h2⟩ p (hp | hp)
    · exact h1 p hp
    · exact h2 p hp

@[simp] theorem All_ite (c : Prop) [Decidable c] (a b : Doc) :
    All P (if c then a else b) ↔ (c → All P a) ∧ (¬c → All P b) := by
  by_cases h : c <;> simp [h]
@[simp] theorem AllL_ite (c : Prop) [Decidable c] (a b : List Doc) :
    AllL P (if c then a else b) ↔ (c → AllL P a) ∧ (¬c → AllL P b) := by
  by_cases h : c <;> simp [h]

@[simp] theorem All_filter (f : Piece → Bool) (d : Doc) (h : All P d) : All P (d.filter f) :=
  ⟨fun p hp => h.h p (List.mem_filter.mp hp).1⟩

theorem All_joinDocs (sep : Doc) (ds : List Doc) (hs : All P sep) (h : AllL P ds) : All P (joinDocs sep ds) := by
  induction ds with
  | nil => simp [joinDocs]
  | cons d ds ih =>
    cases ds with
    | nil => simpa [joinDocs] using (AllL_cons d []).mp h |>.1
    | cons e es =>
      have h' := (AllL_cons d (e :: es)).mp h
      simp only [joinDocs, All_append]
      exact ⟨⟨h'.1, hs⟩, ih h'.2⟩

theorem All_joinDocs_iff (sep : Doc) (ds : List Doc) (hs : All P sep) : All P (joinDocs sep ds) ↔ AllL P ds := by
  refine ⟨?_, All_joinDocs sep ds hs⟩
  induction ds with
  | nil => simp
  | cons d ds ih =>
    cases ds with
    | nil => simp [joinDocs]
    | cons e es =>
      simp only [joinDocs, All_append]
      intro h
      exact (AllL_cons d (e :: es)).mpr ⟨h.1.1, ih h.2⟩

theorem All_opt (b : Bool) (d : Doc) (h : b = true → All P d) : All P (opt b d) := by
  cases b <;> simp [opt] at * <;> exact h

theorem AllL_opt' (b : Bool) (d : Doc) (h : b = true → All P d) : AllL P (opt' b d) := by
  cases b <;> simp [opt'] at * <;> exact h

end Pypika.Whole

namespace Pypika.Whole
open Pypika

/-- an identifier piece carries the quote `q` -/
def identQ (q : Option Char) : Piece → Prop
  | .ident q' _ => q' = q
  | _ => True

/-! ### leaves: documents without identifiers, or with the context's quote -/
section leaves
variable (q : Option Char)

@[simp] theorem identQ_kw (s : Str) : identQ q (.kw s) := trivial
@[simp] theorem identQ_kws (s : String) : identQ q (kws s) := trivial
@[simp] theorem identQ_raw (s : Str) : identQ q (.raw s) := trivial
@[simp] theorem identQ_err (s : Str) : identQ q (.err s) := trivial
@[simp] theorem identQ_num (b : Bool) (s : Str) : identQ q (.num b s) := trivial
@[simp] theorem identQ_str (b : Bool) (x : Option Char) (s : Str) : identQ q (.str b x s) := trivial
@[simp] theorem identQ_aliasDef (x : Option Char) (b : Bool) (s : Str) : identQ q (.aliasDef x b s) := trivial
@[simp] theorem identQ_aliasRef (x : Option Char) (s : Str) : identQ q (.aliasRef x s) := trivial
@[simp] theorem identQ_ident (x : Option Char) (s : Str) : identQ q (.ident x s) ↔ x = q := Iff.rfl

@[simp] theorem All_K (s : String) : All (identQ q) (K s) := by simp [K]
@[simp] theorem All_aliasDoc (c : Ctx) (x : Option Char) (a : Option Str) : All (identQ q) (aliasDoc c x a) := by
  cases a <;> simp [aliasDoc]
@[simp] theorem All_opt_iff (b : Bool) (d : Doc) : All (identQ q) (opt b d) ↔ (b = true → All (identQ q) d) := by
  cases b <;> simp [opt]
@[simp] theorem AllL_opt'_iff (b : Bool) (d : Doc) : AllL (identQ q) (opt' b d) ↔ (b = true → All (identQ q) d) := by
  cases b <;> simp [opt']
@[simp] theorem All_parens (d : Doc) : All (identQ q) (parens d) ↔ All (identQ q) d := by simp [parens]
@[simp] theorem All_parensIf (b : Bool) (d : Doc) : All (identQ q) (parensIf b d) ↔ All (identQ q) d := by
  cases b <;> simp [parensIf]
@[simp] theorem All_valdoc (c : Ctx) (v : Val) : All (identQ q) (v.doc c) := by cases v <;> simp [Val.doc]
@[simp] theorem All_schemaDoc (l : List Str) : All (identQ q) (schemaDoc q l) := by
  induction l with
  | nil => simp [schemaDoc]
  | cons s rest ih => cases rest <;> simp_all [schemaDoc]
@[simp] theorem All_trefdoc (c : Ctx) (t : TRef) (h : c.q = q) : All (identQ q) (t.doc c) := by
  unfold TRef.doc; split <;> simp [h]
@[simp] theorem All_edge (e : Edge) : All (identQ q) e.doc := by cases e with
  | preceding n => cases n <;> simp [Edge.doc]
  | following n => cases n <;> simp [Edge.doc]
  | current => simp [Edge.doc]
@[simp] theorem All_frame (f : Frame) : All (identQ q) f.doc := by unfold Frame.doc; split <;> simp
@[simp] theorem All_limitDoc (b : Bool) (n : Nat) : All (identQ q) (limitDoc b n) := by cases b <;> simp [limitDoc]
@[simp] theorem All_offsetDoc (b : Bool) (n : Nat) : All (identQ q) (offsetDoc b n) := by cases b <;> simp [offsetDoc]
@[simp] theorem All_howDoc (h : Str) : All (identQ q) (howDoc h) := by unfold howDoc; split <;> simp
@[simp] theorem All_insertHead (fl : QFlags) : All (identQ q) (insertHead fl) := by
  unfold insertHead; split <;> (try split) <;> simp
theorem All_names (xs : List Str) : AllL (identQ q) (xs.map fun n => [Piece.ident q n]) := by
  induction xs with
  | nil => simp
  | cons x xs ih => simp [ih]

@[simp] theorem joinOK (sep : String) (ds : List Doc) : All (identQ q) (joinDocs (K sep) ds) ↔ AllL (identQ q) ds :=
  All_joinDocs_iff _ _ (All_K q sep)
@[simp] theorem All_setopPaginate (l o : Option Nat) : All (identQ q) (setopPaginate l o) := by
  unfold setopPaginate; repeat' (split <;> try simp)
@[simp] theorem All_paginate (cls : QClass) (l o : Option Nat) : All (identQ q) (paginate cls l o) := by
  unfold paginate; repeat' (split <;> try simp)
@[simp] theorem All_indexDoc (pre : String) (xs : List Str) : All (identQ q) (indexDoc pre q xs) := by
  unfold indexDoc; split <;> simp [All_names]
@[simp] theorem All_forUpdateDoc (fl : QFlags) : All (identQ q) (forUpdateDoc fl q) := by
  unfold forUpdateDoc; repeat' (split <;> try simp [All_names])
@[simp] theorem All_limitByDoc (fl : QFlags) (d : Doc) (h : All (identQ q) d) : All (identQ q) (limitByDoc fl d) := by
  unfold limitByDoc; repeat' (split <;> try simp [h])
@[simp] theorem All_conflictGuard (a b c : Bool) (d : Doc) (h : All (identQ q) d) : All (identQ q) (conflictGuard a b c d) := by
  unfold conflictGuard
  split
  · split
    · exact All_nil
    · exact (All_cons _ _).mpr ⟨trivial, All_nil⟩
  · split
    · exact (All_cons _ _).mpr ⟨trivial, All_nil⟩
    · exact h
@[simp] theorem All_fromClause (fl : QFlags) (d : Doc) (h : All (identQ q) d) : All (identQ q) (fromClause fl d) := by
  unfold fromClause; repeat' (split <;> try simp [h])
@[simp] theorem All_selectPrefix (fl : QFlags) (b : Bool) (d : Doc) (h : All (identQ q) d) : All (identQ q) (selectPrefix fl b d) := by
  unfold selectPrefix; repeat' (split <;> try simp [h])
theorem All_splitDoc (n : Nat) (d : Doc) (h : All (identQ q) d) :
    All (identQ q) (splitDoc n d).1 ∧ All (identQ q) (splitDoc n d).2 := by
  induction d generalizing n with
  | nil => simp [splitDoc]
  | cons p ps ih =>
    have hp := (All_cons p ps).mp h
    unfold splitDoc
    split
    · simpa using hp
    · split
      · have := ih (n - p.text.length) hp.2
        simp [hp.1, this.1, this.2]
      · simp [hp.2]
@[simp] theorem All_verticaSplice (hint : Str) (d : Doc) (h : All (identQ q) d) : All (identQ q) (verticaSplice hint d) := by
  simp [verticaSplice, (All_splitDoc q _ d h).1, (All_splitDoc q _ d h).2]

@[simp] theorem All_hinted (fl : QFlags) (d : Doc) (h : All (identQ q) d) : All (identQ q) (hinted fl d) := by
  unfold hinted; split
  · split
    · exact All_verticaSplice q _ d h
    · exact h
  · exact h

end leaves

/-! ### the quote survives every context transformation -/
@[simp] theorem fnBase_quote (c : Ctx) : c.fnBase.quote = .given c.q := rfl
@[simp] theorem fnArg_quote (c : Ctx) : c.fnArg.quote = .given c.q := rfl
theorem setDefaults_quote {c : Ctx} {q : Option Char} (h : c.quote = .given q) (cls : QClass) (d : Option Dialect) (a : Bool) :
    (setDefaults c cls d a).quote = .given q := by simp [setDefaults, h]
@[simp] theorem dialectCtx_quote {c : Ctx} {q : Option Char} (h : c.quote = .given q) (fl : QFlags) :
    (dialectCtx c fl).quote = .given q := by
  unfold dialectCtx; split <;> exact setDefaults_quote (by simpa using h) _ _ _
@[simp] theorem queryCtx_quote {c : Ctx} {q : Option Char} (h : c.quote = .given q) (fl : QFlags) (ns : Bool) :
    (queryCtx c fl ns).quote = .given q := by simp [queryCtx, dialectCtx_quote h]
@[simp] theorem setopCtx_quote {c : Ctx} {q : Option Char} (h : c.quote = .given q) (fl : QFlags) :
    (setopCtx c fl).quote = .given q := by simp [setopCtx, setDefaults_quote h]
@[simp] theorem setopCtx_q {c : Ctx} {q : Option Char} (h : c.quote = .given q) (fl : QFlags) :
    (setopCtx c fl).q = q := by simp [Ctx.q, setopCtx_quote h]
@[simp] theorem queryCtx_q {c : Ctx} {q : Option Char} (h : c.quote = .given q) (fl : QFlags) (ns : Bool) :
    (queryCtx c fl ns).q = q := by simp [Ctx.q, queryCtx_quote h]
@[simp] theorem dialectCtx_q {c : Ctx} {q : Option Char} (h : c.quote = .given q) (fl : QFlags) :
    (dialectCtx c fl).q = q := by simp [Ctx.q, dialectCtx_quote h]
theorem q_of_given {c : Ctx} {q : Option Char} (h : c.quote = .given q) : c.q = q := by simp [Ctx.q, h]
theorem basicQ_of_given {c : Ctx} {q : Option Char} (h : c.quote = .given q) : c.basicQ = q := by simp [Ctx.basicQ, h]

/-- the statement carried through the induction: for every context whose identifier quote is `q` -/
def QD (f : Ctx → Doc) : Prop := ∀ k q, k.quote = .given q → All (identQ q) (f k)
def QL (f : Ctx → List Doc) : Prop := ∀ k q, k.quote = .given q → AllL (identQ q) (f k)
def QP (f : Ctx → Ctx → List Doc) : Prop :=
  ∀ kf kv q, kf.quote = .given q → kv.quote = .given q → AllL (identQ q) (f kf kv)

set_option maxHeartbeats 2000000 in
/-- one unfolding of `renderQuery`: if every part satisfies the invariant in every context, so does the statement -/
theorem query_step (fl : QFlags) (from_ : List Src) (withs : List (Str × Src)) (selects : List Term)
    (insertTable updateTable : Option Src) (columns : List Term) (values : List (List Term))
    (wheres prewheres havings : Option Term) (groupbys : List Term) (orderbys : List (Term × Option Ord))
    (joins : List Join) (updates : List (Term × Term)) (usingSrcs : List Src) (dup : List (Term × Term))
    (rets ocf : List Term) (ocdu : List (Term × Option Term)) (ocw ocduw : Option Term) (don lbt : List Term)
    (h_from : QL (renderSrcL · from_)) (h_withs : QL (renderWiths · withs)) (h_sel : QL (renderL · selects))
    (h_ins : QD (renderOptSrc · insertTable)) (h_upd : QD (renderOptSrc · updateTable))
    (h_cols : QL (renderL · columns)) (h_vals : QL (renderRows · values))
    (h_wh : QD (renderOpt · wheres)) (h_pre : QD (renderOpt · prewheres)) (h_hav : QD (renderOpt · havings))
    (h_grp : ∀ sel ua aq, QL (renderGroupBy · sel ua aq groupbys)) (h_ord : ∀ sel aq, QL (renderOrderBy · sel aq orderbys))
    (h_joins : QL (renderJoins · joins)) (h_updates : QP (renderPairs · · updates)) (h_using : QL (renderSrcL · usingSrcs))
    (h_dup : QP (renderPairs · · dup)) (h_rets : QL (renderL · rets)) (h_ocf : QL (renderL · ocf))
    (h_ocdu : QL (renderConflictUpdates · ocdu)) (h_ocw : QD (renderOpt · ocw)) (h_ocduw : QD (renderOpt · ocduw))
    (h_don : QL (renderL · don)) (h_lbt : QL (renderL · lbt)) :
    QD (renderQuery · (.mk fl from_ withs selects insertTable updateTable columns values wheres prewheres havings
      groupbys orderbys joins updates usingSrcs dup rets ocf ocdu ocw ocduw don lbt)) := by
  simp only [QD, QL, QP] at *
  intro k q hq
  rw [renderQuery_eq_1]
  have hk : ∀ ns, (queryCtx k fl ns).quote = .given q := fun ns => queryCtx_quote hq fl ns
  have hkq : ∀ ns, (queryCtx k fl ns).q = q := fun ns => queryCtx_q hq fl ns
  have hd : (dialectCtx k fl).quote = .given q := dialectCtx_quote hq fl
  have hdq : (dialectCtx k fl).q = q := dialectCtx_q hq fl
  · extract_lets k' kd withDoc selTerms selectDoc fromDoc joinsDoc whereDoc head body core dupDoc conflictDoc returningDoc
    have hk' : k'.quote = .given q := hk _
    have hk'q : k'.q = q := hkq _
    have hkd : kd.quote = .given q := hd
    have hkdq : kd.q = q := hdq
    have h1 : All (identQ q) withDoc := by simp_all [withDoc]
    have h2 : All (identQ q) selTerms := by simp_all [selTerms]
    have h3 : All (identQ q) selectDoc := by simp_all [selectDoc]
    have h4 : All (identQ q) fromDoc := by simp_all [fromDoc]
    have h5 : All (identQ q) joinsDoc := by simp_all [joinsDoc]
    have h6 : All (identQ q) whereDoc := by simp_all [whereDoc]
    clear_value withDoc selTerms selectDoc fromDoc joinsDoc whereDoc
    have h7 : All (identQ q) head := by simp_all [head]
    clear_value head
    have h8 : All (identQ q) body := by simp_all [body, -Bool.forall_bool]
    clear_value body
    have h9 : All (identQ q) core := by simp_all [core] <;> (repeat' (split <;> try simp_all))
    clear_value core
    have h10 : All (identQ q) dupDoc := by simp_all [dupDoc]
    have h11 : All (identQ q) conflictDoc := by simp_all [conflictDoc]
    have h12 : All (identQ q) returningDoc := by simp_all [returningDoc]
    clear_value dupDoc conflictDoc returningDoc
    simp_all <;> (repeat' (split <;> try simp_all))

set_option maxHeartbeats 400000 in
theorem quote_uniform_all :
    (∀ (_ : Ctx) t, QD (render · t)) ∧ (∀ (_ : Ctx) s, QD (renderSetOp · s)) ∧
    (∀ (_ : Ctx) (_ : List Term) (_ : Option Char) obs, ∀ sel aq, QL (renderOrderBy · sel aq obs)) ∧
    (∀ (_ : Ctx) (_ : Nat) ops, ∀ n, QD (renderOps · n ops)) ∧
    (∀ (_ : Ctx) qu, QD (renderQuery · qu)) ∧ (∀ (_ : Ctx) l, QL (renderConflictUpdates · l)) ∧
    (∀ (_ : Ctx) (_ : List Term) (_ : Bool) (_ : Option Char) ts, ∀ sel ua aq, QL (renderGroupBy · sel ua aq ts)) ∧
    (∀ (_ : Ctx) rows, QL (renderRows · rows)) ∧
    (∀ (_ : Ctx) l, QL (renderL · l)) ∧
    (∀ (_ _ : Ctx) ps, QP (renderPairs · · ps)) ∧
    (∀ (_ : Ctx) s, QD (renderOptSrc · s)) ∧ (∀ (_ : Ctx) s, QD (renderSrc · s)) ∧ (∀ (_ : Ctx) t, QD (renderOpt · t)) ∧
    (∀ (_ : Ctx) js, QL (renderJoins · js)) ∧ (∀ (_ : Ctx) j, QD (renderJoin · j)) ∧ (∀ (_ : Ctx) l, QL (renderSrcL · l)) ∧
    (∀ (_ : Ctx) ws, QL (renderWiths · ws)) ∧ (∀ (_ : Ctx) obs, QL (renderOrd · obs)) ∧ (∀ (_ : Ctx) ws, QL (renderWhens · ws)) := by
  apply render.mutual_induct
    (motive_1 := fun _ t => QD (render · t))
    (motive_2 := fun _ s => QD (renderSetOp · s))
    (motive_3 := fun _ _ _ obs => ∀ sel aq, QL (renderOrderBy · sel aq obs))
    (motive_4 := fun _ _ ops => ∀ n, QD (renderOps · n ops))
    (motive_5 := fun _ qu => QD (renderQuery · qu))
    (motive_6 := fun _ l => QL (renderConflictUpdates · l))
    (motive_7 := fun _ _ _ _ ts => ∀ sel ua aq, QL (renderGroupBy · sel ua aq ts))
    (motive_8 := fun _ rows => QL (renderRows · rows))
    (motive_9 := fun _ l => QL (renderL · l))
    (motive_10 := fun _ _ ps => QP (renderPairs · · ps))
    (motive_11 := fun _ s => QD (renderOptSrc · s))
    (motive_12 := fun _ s => QD (renderSrc · s))
    (motive_13 := fun _ t => QD (renderOpt · t))
    (motive_14 := fun _ js => QL (renderJoins · js))
    (motive_15 := fun _ j => QD (renderJoin · j))
    (motive_16 := fun _ l => QL (renderSrcL · l))
    (motive_17 := fun _ ws => QL (renderWiths · ws))
    (motive_18 := fun _ obs => QL (renderOrd · obs))
    (motive_19 := fun _ ws => QL (renderWhens · ws))
  case case41 => intros; apply query_step <;> assumption
  case case42 => intros; apply query_step <;> assumption
  case case43 => intros; apply query_step <;> assumption
  case case44 => intros; apply query_step <;> assumption
  case case45 => intros; apply query_step <;> assumption
  case case46 => intros; apply query_step <;> assumption
  case case47 => intros; apply query_step <;> assumption
  case case48 => intros; apply query_step <;> assumption
  all_goals (
    intros
    simp only [QD, QL, QP] at *
    intros
    simp only [render_field, render_star, render_val, render_wrapped, render_lit, render_neg, render_arith, render_basic, render_complex, render_not, render_isin, render_between, render_period, render_isnull, render_notnull, render_bitand, render_exists_, render_all, render_tuple, render_array, render_case, render_func, render_param, render_interval, render_json, render_pseudo, render_atTz, render_values, render_sub, render_setop, render_empty, render_index, renderL_eq_1, renderL_eq_2, renderOpt_eq_1, renderOpt_eq_2, renderWhens_eq_1, renderWhens_eq_2, renderOrd_eq_1, renderOrd_eq_2, renderOrderBy_eq_1, renderOrderBy_eq_2, renderGroupBy_eq_1, renderGroupBy_eq_2, renderRows_eq_1, renderRows_eq_2, renderPairs_eq_1, renderPairs_eq_2, renderConflictUpdates_eq_1, renderConflictUpdates_eq_2, renderConflictUpdates_eq_3, renderSrc_eq_1, renderSrc_eq_2, renderSrc_eq_3, renderSrc_eq_4, renderOptSrc_eq_1, renderOptSrc_eq_2, renderSrcL_eq_1, renderSrcL_eq_2, renderWiths_eq_1, renderWiths_eq_2, renderJoin_eq_1, renderJoin_eq_2, renderJoin_eq_3, renderJoins_eq_1, renderJoins_eq_2, renderQuery_eq_1, renderSetOp_eq_1, renderOps_eq_1, renderOps_eq_2]
    rename_i hq
    have hcq := q_of_given hq
    have hbq := basicQ_of_given hq)
  case case1 => simp_all
  case case2 => simp_all
  case case3 => simp_all
  case case4 => simp_all
  case case5 => simp_all
  case case6 => simp_all
  case case7 => simp_all
  case case8 => simp_all
  case case9 => simp_all
  case case10 => simp_all
  case case11 => simp_all
  case case12 => simp_all
  case case13 => simp_all
  case case14 => simp_all
  case case15 => simp_all
  case case16 => simp_all
  case case17 => simp_all
  case case18 => simp_all
  case case19 => simp_all
  case case20 => simp_all
  case case21 => simp_all
  case case22 => simp_all
  case case24 => simp_all
  case case25 => simp_all
  case case26 => simp_all
  case case27 => simp_all
  case case28 => simp_all
  case case29 => simp_all
  case case30 => simp_all
  case case31 => simp_all
  case case32 => simp_all
  case case33 => simp_all
  case case34 => simp_all
  case case35 => simp_all
  case case36 => simp_all
  case case37 => simp_all
  case case38 => simp_all
  case case40 => simp_all
  case case50 => simp_all
  case case52 => simp_all
  case case53 => simp_all
  case case54 => simp_all
  case case55 => simp_all
  case case56 => simp_all
  case case57 => simp_all
  case case58 => simp_all
  case case59 => simp_all
  case case60 => simp_all
  case case62 => simp_all
  case case64 => simp_all
  case case65 => simp_all
  case case66 => simp_all
  case case67 => simp_all
  case case68 => simp_all
  case case69 => simp_all
  case case70 => simp_all
  case case71 => simp_all
  case case72 => simp_all
  case case73 => simp_all
  case case74 => simp_all
  case case75 => simp_all
  case case76 => simp_all
  case case77 => simp_all
  case case23 => simp_all <;> (repeat' (split <;> try simp_all))
  case case39 => simp_all <;> (repeat' (split <;> try simp_all))
  case case61 => simp_all <;> (repeat' (split <;> try simp_all))
  case case63 => simp_all <;> (repeat' (split <;> try simp_all))
  case case49 => simp_all <;> (repeat' (split <;> try simp_all))
  case case51 => rename_i ua _ _ _ ; cases ua <;> simp_all
  case case78 =>
    rename_i ihq ihr _ _ _
    refine (All_append _ _).mpr ⟨?_, ihr _ _ _ hq⟩
    split
    · exact (All_append _ _).mpr ⟨All_filter _ _ (ihq _ _ hq), (All_cons _ _).mpr ⟨trivial, All_nil⟩⟩
    · exact (All_cons _ _).mpr ⟨trivial, (All_cons _ _).mpr ⟨trivial, (All_cons _ _).mpr ⟨trivial, ihq _ _ hq⟩⟩⟩

end Pypika.Whole

namespace Pypika.Whole
open Pypika

/-- **C07, whole tree.**  When the identifier quote is fixed at the top (`quote_char` passed, or set by the top-level
    statement's defaults), *every* identifier piece in the rendering of *any* term — through functions, CASE, windows,
    criteria, nested statements of any query class, set operations, joins, DML clauses — carries that same quote.
    (Alias definitions and alias references are separate piece kinds with their own quote rule, see C13.) -/
theorem ident_quote_uniform (c : Ctx) (t : Term) (q : Option Char) (h : c.quote = .given q) :
    ∀ p ∈ render c t, ∀ q' n, p = .ident q' n → q' = q := by
  intro p hp q' n e
  have := (quote_uniform_all.1 c t c q h).h p hp
  subst e; exact this

theorem ident_quote_uniform_query (c : Ctx) (qu : Query) (q : Option Char) (h : c.quote = .given q) :
    ∀ p ∈ renderQuery c qu, ∀ q' n, p = .ident q' n → q' = q := by
  intro p hp q' n e
  have := (quote_uniform_all.2.2.2.2.1 c qu c q h).h p hp
  subst e; exact this

theorem ident_quote_uniform_setop (c : Ctx) (s : SetOp) (q : Option Char) (h : c.quote = .given q) :
    ∀ p ∈ renderSetOp c s, ∀ q' n, p = .ident q' n → q' = q := by
  intro p hp q' n e
  have := (quote_uniform_all.2.1 c s c q h).h p hp
  subst e; exact this

/-- … and a top-level statement fixes it to its class's quote character when the caller passed none -/
theorem toplevel_quote (c : Ctx) (fl : QFlags) (ns : Bool) (h : c.quote = .absent) :
    (queryCtx c fl ns).quote = .given fl.cls.quoteChar := by
  show (dialectCtx c fl).quote = _
  unfold dialectCtx
  split <;> simp [setDefaults, h]

end Pypika.Whole
