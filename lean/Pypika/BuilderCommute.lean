import Pypika.BuilderLocalAll
/-!
# Independent builder calls commute

`Indep cls c₁ c₂`: neither call reads or writes a slot the other writes.  `calls_commute`: for independent calls, if calling
c₁ then c₂ is accepted and gives `t`, calling c₂ then c₁ is accepted and gives the same `t` — for every receiver state, every
class, every argument.  The proof uses nothing about the calls but the frame theorem (`step_frame`) and locality
(`step_local`), whose tables `writes` / `reads` are tied to the source (`Agree/BuilderWrites.lean`).
-/
namespace Pypika.B
open Pypika

theorem writes_nodup (cls : QClass) (c : Call) : (writes cls c).Nodup := by
  cases c <;> simp only [writes] <;> first | decide | (split <;> decide)

/-- after an accepted call the new state is the old one with the call's write set replaced -/
theorem step_frame_copy (s s' : St) (c : Call) (h : step s c = .ok s') :
    copyAll (writes s.r.fl.cls c) s' s = s' :=
  copyAll_of_sameOff _ (writes_nodup _ _) s' s (step_frame s s' c h)

/-- locality for a block of slots -/
theorem step_local_all (ws : List Slot) (x : St) (c : Call) :
    ∀ s : St, (∀ w ∈ ws, w ∉ reads s.r.fl.cls c ∧ w ∉ writes s.r.fl.cls c) →
      step (copyAll ws x s) c = (step s c).map (copyAll ws x) := by
  induction ws with
  | nil => intro s _; simp only [copyAll, List.foldl_nil]; cases step s c <;> rfl
  | cons w ws ih =>
    intro s h
    have hw := h w List.mem_cons_self
    rw [copyAll_cons, ih (copySlot w x s) (by
      intro u hu; rw [copySlot_cls]; exact h u (List.mem_cons_of_mem _ hu)),
      step_local s x c w hw.1 hw.2]
    cases step s c <;> rfl

def Indep (cls : QClass) (c1 c2 : Call) : Prop :=
  (∀ w ∈ writes cls c1, w ∉ reads cls c2 ∧ w ∉ writes cls c2) ∧
  (∀ w ∈ writes cls c2, w ∉ reads cls c1 ∧ w ∉ writes cls c1)

instance (cls : QClass) (c1 c2 : Call) : Decidable (Indep cls c1 c2) := by unfold Indep; infer_instance

/-- **Independent calls commute** (accepted chains). -/
theorem calls_commute (s t : St) (c1 c2 : Call) (hi : Indep s.r.fl.cls c1 c2)
    (h : (step s c1 >>= fun s1 => step s1 c2) = .ok t) :
    (step s c2 >>= fun s2 => step s2 c1) = .ok t := by
  cases h1 : step s c1 with
  | error e => simp [h1, bind, Except.bind] at h
  | ok s1 =>
    simp only [h1, bind, Except.bind] at h
    -- s1 is s with c1's block replaced; c2 does not look at that block
    have e1 := step_frame_copy s s1 c1 h1
    have l2 := step_local_all (writes s.r.fl.cls c1) s1 c2 s hi.1
    rw [e1, h] at l2
    cases h2 : step s c2 with
    | error e => rw [h2] at l2; cases l2
    | ok s2 =>
      rw [h2] at l2
      have ht : t = copyAll (writes s.r.fl.cls c1) s1 s2 := by injection l2
      have e2 := step_frame_copy s s2 c2 h2
      have l1 := step_local_all (writes s.r.fl.cls c2) s2 c1 s hi.2
      rw [e2, h1] at l1
      simp only [bind, Except.bind]
      rw [l1, ht]
      show Except.ok (copyAll (writes s.r.fl.cls c2) s2 s1) = Except.ok (copyAll (writes s.r.fl.cls c1) s1 s2)
      congr 1
      -- both are s with the two (disjoint) blocks replaced
      calc copyAll (writes s.r.fl.cls c2) s2 s1
          = copyAll (writes s.r.fl.cls c2) s2 (copyAll (writes s.r.fl.cls c1) s1 s) := by rw [e1]
        _ = copyAll (writes s.r.fl.cls c1) s1 (copyAll (writes s.r.fl.cls c2) s2 s) :=
            (copyAll_comm _ _ (fun w hw => (hi.1 w hw).2) s1 s2 s).symm
        _ = copyAll (writes s.r.fl.cls c1) s1 s2 := by rw [e2]

/-- both orders are accepted together, and then agree -/
theorem calls_commute_iff (s t : St) (c1 c2 : Call) (hi : Indep s.r.fl.cls c1 c2) :
    (step s c1 >>= fun s1 => step s1 c2) = .ok t ↔ (step s c2 >>= fun s2 => step s2 c1) = .ok t :=
  ⟨calls_commute s t c1 c2 hi, calls_commute s t c2 c1 ⟨hi.2, hi.1⟩⟩

/-! ## Chains: reordering adjacent independent calls, any number of times -/

theorem run_append (s : St) (xs ys : List Call) : run s (xs ++ ys) = (run s xs >>= fun s' => run s' ys) := by
  induction xs generalizing s with
  | nil => rfl
  | cons c cs ih =>
    simp only [List.cons_append, run]
    cases step s c with
    | error e => rfl
    | ok s1 => exact ih s1

theorem run_cls (cs : List Call) : ∀ (s s' : St), run s cs = .ok s' → s'.r.fl.cls = s.r.fl.cls := by
  induction cs with
  | nil => intro s s' h; cases ok_inj h; rfl
  | cons c cs ih =>
    intro s s' h
    unfold run at h
    cases h1 : step s c with
    | error e => simp [h1, bind, Except.bind] at h
    | ok s1 =>
      simp only [h1, bind, Except.bind] at h
      rw [ih s1 s' h, step_cls s s1 c h1]

/-- one adjacent swap of independent calls inside a chain -/
theorem run_swap (s t : St) (pre post : List Call) (c1 c2 : Call) (hi : Indep s.r.fl.cls c1 c2)
    (h : run s (pre ++ c1 :: c2 :: post) = .ok t) : run s (pre ++ c2 :: c1 :: post) = .ok t := by
  rw [run_append] at h ⊢
  cases hp : run s pre with
  | error e => simp [hp, bind, Except.bind] at h
  | ok sp =>
    first | rw [hp] at h | skip
    change run sp (c1 :: c2 :: post) = .ok t at h
    change run sp (c2 :: c1 :: post) = .ok t
    have hc : sp.r.fl.cls = s.r.fl.cls := run_cls pre s sp hp
    -- the two calls, then the rest
    have e12 : ∀ a b : Call, run sp (a :: b :: post) = ((step sp a >>= fun s1 => step s1 b) >>= fun s2 => run s2 post) := by
      intro a b
      simp only [run, bind, Except.bind]
      cases step sp a with
      | error e => rfl
      | ok s1 => rfl
    rw [e12] at h ⊢
    cases h12 : (step sp c1 >>= fun s1 => step s1 c2) with
    | error e => rw [h12] at h; cases h
    | ok s2 =>
      rw [calls_commute sp s2 c1 c2 (hc ▸ hi) h12]
      rw [h12] at h
      exact h

/-- chains related by adjacent swaps of independent calls (`cls` is the class of the receiver) -/
inductive TraceEq (cls : QClass) : List Call → List Call → Prop
  | refl (cs) : TraceEq cls cs cs
  | swap (pre post c1 c2) : Indep cls c1 c2 → TraceEq cls (pre ++ c1 :: c2 :: post) (pre ++ c2 :: c1 :: post)
  | trans {a b c} : TraceEq cls a b → TraceEq cls b c → TraceEq cls a c

theorem TraceEq.symm {cls : QClass} {a b : List Call} (h : TraceEq cls a b) : TraceEq cls b a := by
  induction h with
  | refl cs => exact .refl cs
  | swap pre post c1 c2 hi => exact .swap pre post c2 c1 ⟨hi.2, hi.1⟩
  | trans _ _ ih1 ih2 => exact .trans ih2 ih1

/-- **Any reordering by swaps of independent neighbours gives the same accepted result** — the concrete form of "any
interleaving that keeps the relative order of calls of the same kind renders the identical statement": two calls of the same
kind write the same slot and are never independent, so their order is kept by construction. -/
theorem run_traceEq (s t : St) (a b : List Call) (h : TraceEq s.r.fl.cls a b) : run s a = .ok t ↔ run s b = .ok t := by
  induction h with
  | refl cs => exact Iff.rfl
  | swap pre post c1 c2 hi =>
    exact ⟨run_swap s t pre post c1 c2 hi, run_swap s t pre post c2 c1 ⟨hi.2, hi.1⟩⟩
  | trans _ _ ih1 ih2 => exact ih1.trans ih2

/-- … hence the identical statement text, in every rendering context: the property's "any interleaving that keeps the
relative order of calls of the same kind renders the identical statement" on the concrete builder -/
theorem interleavings_render_same (s ta tb : St) (a b : List Call) (h : TraceEq s.r.fl.cls a b)
    (ha : run s a = .ok ta) (hb : run s b = .ok tb) (c : Ctx) :
    renderQuery c ta.r.toQ = renderQuery c tb.r.toQ := by
  have := (run_traceEq s ta a b h).mp ha
  rw [hb] at this
  cases this
  rfl

/-- calls that write a common slot (in particular two calls of one kind) are never independent: `TraceEq` keeps their order -/
theorem not_indep_of_common_write (cls : QClass) (c1 c2 : Call) (w : Slot) (h1 : w ∈ writes cls c1) (h2 : w ∈ writes cls c2) :
    ¬ Indep cls c1 c2 := fun hi => (hi.1 w h1).2 h2

/-! instances: pairs of clause calls that the table declares independent, for every argument (decided on the tables) -/

example (cls : QClass) (a : List Arg) (c : Term) : Indep cls (.groupby a) (.where_ c) := by
  cases cls <;> simp [Indep, writes, reads]
example (cls : QClass) (a : List Arg) (o : Option Ord) (n : Nat) : Indep cls (.orderby a o) (.limit n) := by
  cases cls <;> simp [Indep, writes, reads]
example (cls : QClass) (a : List Arg) (i : Src) (h : Str) (k : JoinKind) : Indep cls (.select a) (.join i h k) := by
  cases cls <;> simp [Indep, writes, reads]
/-- `select` and `into` are *not* independent: `into` reads the select list (INSERT … SELECT vs SELECT … INTO) -/
example (a : List Arg) (tb : Src) : ¬ Indep .generic (.select a) (.into tb) := by simp [Indep, writes, reads]

end Pypika.B
