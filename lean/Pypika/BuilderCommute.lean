import Pypika.BuilderLocalAll
/-!
# Independent builder calls commute

`Indep cls c₁ c₂`: neither call reads or writes a slot the other writes.  `calls_commute`: for independent calls, if calling
c₁ then c₂ is accepted and gives `t`, calling c₂ then c₁ is accepted and gives the same `t` — for every receiver state, every
class, every argument.  The proof uses nothing about the calls but the frame theorem (`step_frame`) and locality
(`step_local`), whose tables `writes` / `reads` are tied to the source (`Agree/BuilderWrites.lean`).
-/
namespace Pypika.B
open Pypika

theorem writes_nodup (cls : QClass) (c : Call) : (writes cls c).Nodup := by
  cases c <;> simp only [writes] <;> first | decide | (split <;> decide)

/-- after an accepted call the new state is the old one with the call's write set replaced -/
theorem step_frame_copy (s s' : St) (c : Call) (h : step s c = .ok s') :
    copyAll (writes s.r.fl.cls c) s' s = s' :=
  copyAll_of_sameOff _ (writes_nodup _ _) s' s (step_frame s s' c h)

/-- locality for a block of slots -/
theorem step_local_all (ws : List Slot) (x : St) (c : Call) :
    ∀ s : St, (∀ w ∈ ws, w ∉ reads s.r.fl.cls c ∧ w ∉ writes s.r.fl.cls c) →
      step (copyAll ws x s) c = (step s c).map (copyAll ws x) := by
  induction ws with
  | nil => intro s _; simp only [copyAll, List.foldl_nil]; cases step s c <;> rfl
  | cons w ws ih =>
    intro s h
    have hw := h w List.mem_cons_self
    rw [copyAll_cons, ih (copySlot w x s) (by
      intro u hu; rw [copySlot_cls]; exact h u (List.mem_cons_of_mem _ hu)),
      step_local s x c w hw.1 hw.2]
    cases step s c <;> rfl

def Indep (cls : QClass) (c1 c2 : Call) : Prop :=
  (∀ w ∈ writes cls c1, w ∉ reads cls c2 ∧ w ∉ writes cls c2) ∧
  (∀ w ∈ writes cls c2, w ∉ reads cls c1 ∧ w ∉ writes cls c1)

instance (cls : QClass) (c1 c2 : Call) : Decidable (Indep cls c1 c2) := by unfold Indep; infer_instance

/-- **Independent calls commute** (accepted chains). -/
theorem calls_commute (s t : St) (c1 c2 : Call) (hi : Indep s.r.fl.cls c1 c2)
    (h : (step s c1 >>= fun s1 => step s1 c2) = .ok t) :
    (step s c2 >>= fun s2 => step s2 c1) = .ok t := by
  cases h1 : step s c1 with
  | error e => simp [h1, bind, Except.bind] at h
  | ok s1 =>
    simp only [h1, bind, Except.bind] at h
    -- s1 is s with c1's block replaced; c2 does not look at that block
    have e1 := step_frame_copy s s1 c1 h1
    have l2 := step_local_all (writes s.r.fl.cls c1) s1 c2 s hi.1
    rw [e1, h] at l2
    cases h2 : step s c2 with
    | error e => rw [h2] at l2; cases l2
    | ok s2 =>
      rw [h2] at l2
      have ht : t = copyAll (writes s.r.fl.cls c1) s1 s2 := by injection l2
      have e2 := step_frame_copy s s2 c2 h2
      have l1 := step_local_all (writes s.r.fl.cls c2) s2 c1 s hi.2
      rw [e2, h1] at l1
      simp only [bind, Except.bind]
      rw [l1, ht]
      show Except.ok (copyAll (writes s.r.fl.cls c2) s2 s1) = Except.ok (copyAll (writes s.r.fl.cls c1) s1 s2)
      congr 1
      -- both are s with the two (disjoint) blocks replaced
      calc copyAll (writes s.r.fl.cls c2) s2 s1
          = copyAll (writes s.r.fl.cls c2) s2 (copyAll (writes s.r.fl.cls c1) s1 s) := by rw [e1]
        _ = copyAll (writes s.r.fl.cls c1) s1 (copyAll (writes s.r.fl.cls c2) s2 s) :=
            (copyAll_comm _ _ (fun w hw => (hi.1 w hw).2) s1 s2 s).symm
        _ = copyAll (writes s.r.fl.cls c1) s1 s2 := by rw [e2]

/-- both orders are accepted together, and then agree -/
theorem calls_commute_iff (s t : St) (c1 c2 : Call) (hi : Indep s.r.fl.cls c1 c2) :
    (step s c1 >>= fun s1 => step s1 c2) = .ok t ↔ (step s c2 >>= fun s2 => step s2 c1) = .ok t :=
  ⟨calls_commute s t c1 c2 hi, calls_commute s t c2 c1 ⟨hi.2, hi.1⟩⟩

/-! instances: pairs of clause calls that the table declares independent, for every argument (decided on the tables) -/

example (cls : QClass) (a : List Arg) (c : Term) : Indep cls (.groupby a) (.where_ c) := by
  cases cls <;> simp [Indep, writes, reads]
example (cls : QClass) (a : List Arg) (o : Option Ord) (n : Nat) : Indep cls (.orderby a o) (.limit n) := by
  cases cls <;> simp [Indep, writes, reads]
example (cls : QClass) (a : List Arg) (i : Src) (h : Str) (k : JoinKind) : Indep cls (.select a) (.join i h k) := by
  cases cls <;> simp [Indep, writes, reads]
/-- `select` and `into` are *not* independent: `into` reads the select list (INSERT … SELECT vs SELECT … INTO) -/
example (a : List Arg) (tb : Src) : ¬ Indep .generic (.select a) (.into tb) := by simp [Indep, writes, reads]

end Pypika.B
