import Pypika.BuilderCommute
/-!
# Which clause kinds are independent

The clause-adding calls the property names (select, join, where, prewhere, groupby, having, orderby, limit, offset, distinct,
for_update, with_, index hints, set, columns, insert): by the `reads` / `writes` tables every two calls of *different* kinds
are independent — so `calls_commute` / `run_traceEq` apply to them with any arguments — except four pairs that share a slot:
join–where and join–prewhere (`_validate_table` looks at the joins: the sticky `_foreign_table` flag depends on whether the
join came first; the rendered text does not — `C08.nsBase_mono`), join–with_ (the join criterion may name a WITH query) and
where–prewhere (both write the `_foreign_table` flag; they commute all the same: `where_prewhere_commute`).
-/
namespace Pypika.B
open Pypika

inductive Kind
  | select | join | where_ | prewhere | groupby | having | orderby | limit | offset | distinct | forUpdate | with_
  | forceIndex | useIndex | set | columns | insert
  deriving DecidableEq, Repr

def kindOf : Call → Option Kind
  | .select _ => some .select | .join .. => some .join | .where_ _ => some .where_ | .prewhere _ => some .prewhere
  | .groupby _ => some .groupby | .having _ => some .having | .orderby .. => some .orderby | .limit _ => some .limit
  | .offset _ => some .offset | .distinct => some .distinct | .forUpdate => some .forUpdate | .with_ .. => some .with_
  | .forceIndex _ => some .forceIndex | .useIndex _ => some .useIndex | .set .. => some .set | .columns _ => some .columns
  | .insert _ => some .insert
  | _ => none

/-- the pairs of kinds that share a slot -/
def dependent (a b : Kind) : Bool :=
  (a, b) ∈ [(Kind.join, Kind.where_), (.where_, .join), (.join, .prewhere), (.prewhere, .join), (.join, .with_), (.with_, .join),
            (.where_, .prewhere), (.prewhere, .where_)]

set_option maxHeartbeats 4000000 in
/-- **calls of different clause kinds are independent** (whatever their arguments, for every class), the four listed pairs apart -/
theorem clause_kinds_independent (cls : QClass) (c1 c2 : Call) (k1 k2 : Kind)
    (h1 : kindOf c1 = some k1) (h2 : kindOf c2 = some k2) (hne : k1 ≠ k2) (hd : dependent k1 k2 = false) :
    Indep cls c1 c2 := by
  cases c1 <;> simp only [kindOf, Option.some.injEq, reduceCtorEq] at h1 <;> subst h1 <;>
  cases c2 <;> simp only [kindOf, Option.some.injEq, reduceCtorEq] at h2 <;> subst h2 <;>
  first
    | (exfalso; exact hne rfl)
    | (exfalso; revert hd; decide)
    | (by_cases hc : cls = .postgresql <;> simp [Indep, writes, reads, hc])

/-- so two chains over these kinds with the same per-kind subsequences, related by swaps that never exchange one of the four
pairs, give the same state and the same text (`run_traceEq`, `interleavings_render_same`) -/
theorem swap_of_kinds (cls : QClass) (pre post : List Call) (c1 c2 : Call) (k1 k2 : Kind)
    (h1 : kindOf c1 = some k1) (h2 : kindOf c2 = some k2) (hne : k1 ≠ k2) (hd : dependent k1 k2 = false) :
    TraceEq cls (pre ++ c1 :: c2 :: post) (pre ++ c2 :: c1 :: post) :=
  .swap pre post c1 c2 (clause_kinds_independent cls c1 c2 k1 k2 h1 h2 hne hd)

end Pypika.B
