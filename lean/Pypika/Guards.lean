import Pypika.Base
/-!
# Guards: the documented rejections as decision functions over the builder state they read
-/
namespace Pypika.Guard

/-- `JoinOn.validate`: tables named by the criterion that are neither a FROM / UPDATE / WITH source,
    an earlier join, nor the joined item (table-less fields name no table) -/
def missingTables (criterionTables base joined : List Nat) (item : Nat) : List Nat :=
  criterionTables.filter (fun t => !(base.contains t || joined.contains t || t = item))

def joinRaises (criterionTables base joined : List Nat) (item : Nat) : Bool :=
  !(missingTables criterionTables base joined item).isEmpty

/-- `Joiner.on(None)`, `on_field()`, `using()` with nothing -/
def joinerRaises (hasCriterion : Bool) : Bool := !hasCriterion

/-- `CustomFunction.__call__` -/
def customFunctionRaises (params : Option Nat) (nargs : Nat) : Bool :=
  match params with | none => false | some n => nargs ≠ n

/-- `select("name")` needs a FROM table -/
def selectStrRaises (nFrom : Nat) : Bool := nFrom = 0

/-- once-only calls -/
def intoRaises (hasInsertTable : Bool) : Bool := hasInsertTable
def updateRaises (hasUpdateTable hasSelects deleteFrom : Bool) : Bool := hasUpdateTable || hasSelects || deleteFrom
def deleteRaises (deleteFrom hasSelects hasUpdateTable : Bool) : Bool := deleteFrom || hasSelects || hasUpdateTable
def createTableRaises (hasTable : Bool) : Bool := hasTable
def primaryKeyRaises (hasPk : Bool) : Bool := hasPk
def foreignKeyRaises (hasFk : Bool) : Bool := hasFk
def dropTargetRaises (hasTarget : Bool) : Bool := hasTarget
def temporalRaises (hasFor hasPortion : Bool) : Bool := hasFor || hasPortion
def frameRaises (hasFrame hasBound : Bool) : Bool := hasFrame || hasBound
def columnsRaises (hasAsSelect : Bool) : Bool := hasAsSelect
def asSelectRaises (hasColumns : Bool) : Bool := hasColumns

/-- MySQL / PostgreSQL conflict handlers exclude each other -/
def duplicateUpdateRaises (ignoreDuplicates : Bool) : Bool := ignoreDuplicates
def duplicateIgnoreRaises (hasUpdates : Bool) : Bool := hasUpdates
def doNothingRaises (hasDoUpdates : Bool) : Bool := hasDoUpdates
def doUpdateRaises (doNothing : Bool) : Bool := doNothing

/-- PostgreSQL `_validate_returning_term` (foreign-table part), per field of the term: the statement must be an
    INSERT / UPDATE / DELETE, and a field that is not on the insert / update target makes the term foreign as soon as the
    term names a table outside FROM ∪ joined items ∪ tables of join criteria ∪ targets.  `0` stands for "no table"
    (a table-less field; `None` is always among the targets). -/
def returningRaises (hasDml : Bool) (targets fieldTables known : List Nat) : Bool :=
  fieldTables.any (fun ft => !hasDml || (!targets.contains ft && fieldTables.any (fun t => !known.contains t)))

/-- Vertica `local()` / `preserve_rows()` need TEMPORARY -/
def verticaLocalRaises (temporary : Bool) : Bool := !temporary

/-- MSSQL `top(value, percent)` -/
def topRaises (isInt : Bool) (value : Int) (percent : Bool) : Bool := !isInt || (percent && !(0 ≤ value && value ≤ 100))

end Pypika.Guard
