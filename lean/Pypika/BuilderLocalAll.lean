import Pypika.BuilderLocal1
import Pypika.BuilderLocal2
import Pypika.BuilderLocal3
import Pypika.BuilderLocal4
import Pypika.BuilderLocal5
import Pypika.BuilderLocal6
import Pypika.BuilderLocal7
/-! Locality of the builder calls: the calls with helpers, and the assembled theorem `step_local` -/
namespace Pypika.B
open Pypika
set_option linter.unusedSimpArgs false

theorem insert_tail_local (x : St) (w : Slot) (g : St → St) (hg : ∀ t, g (copySlot w x t) = copySlot w x (g t)) :
    ∀ t, (pure (g (copySlot w x t)) : R) = (pure (g t) : R).map (copySlot w x) := by
  intro t; rw [hg]; rfl

set_option maxHeartbeats 1600000 in
/-- **Locality.**  Replacing a slot the call neither reads nor writes commutes with the call. -/
theorem step_local (s x : St) (c : Call) (w : Slot)
    (hr : w ∉ reads s.r.fl.cls c) (hw : w ∉ writes s.r.fl.cls c) :
    step (copySlot w x s) c = (step s c).map (copySlot w x) := by
  cases c
  case from_ a0 a1 => exact local_from a0 a1 s x w hr hw
  case fromStr a0 => exact local_fromStr a0 s x w hr hw
  case with_ a0 a1 => exact local_with a0 a1 s x w hr hw
  case into a0 => exact local_into a0 s x w hr hw
  case delete  => exact local_delete () s x w hr hw
  case update a0 => exact local_update a0 s x w hr hw
  case columns a0 => exact local_columns a0 s x w hr hw
  case forceIndex a0 => exact local_forceIndex a0 s x w hr hw
  case useIndex a0 => exact local_useIndex a0 s x w hr hw
  case distinct  => exact local_distinct () s x w hr hw
  case forUpdate  => exact local_forUpdate () s x w hr hw
  case ignore  => exact local_ignore () s x w hr hw
  case withTotals  => exact local_withTotals () s x w hr hw
  case having a0 => exact local_having a0 s x w hr hw
  case groupby a0 => exact local_groupby a0 s x w hr hw
  case rollup a0 a1 => exact local_rollup a0 a1 s x w hr hw
  case orderby a0 a1 => exact local_orderby a0 a1 s x w hr hw
  case limit a0 => exact local_limit a0 s x w hr hw
  case offset a0 => exact local_offset a0 s x w hr hw
  case slice a0 a1 => exact local_slice a0 a1 s x w hr hw
  case forUpdateEx a0 a1 a2 => exact local_forUpdateEx a0 a1 a2 s x w hr hw
  case onDuplicateKeyIgnore  => exact local_onDuplicateKeyIgnore () s x w hr hw
  case modifier a0 => exact local_modifier a0 s x w hr hw
  case distinctOn a0 => exact local_distinctOn a0 s x w hr hw
  case onConflict a0 => exact local_onConflict a0 s x w hr hw
  case doNothing  => exact local_doNothing () s x w hr hw
  case doUpdate a0 a1 => exact local_doUpdate a0 a1 s x w hr hw
  case «using» a0 => exact local_using a0 s x w hr hw
  case top a0 a1 a2 => exact local_top a0 a1 a2 s x w hr hw
  case final  => exact local_final () s x w hr hw
  case sample a0 a1 => exact local_sample a0 a1 s x w hr hw
  case limitBy a0 a1 a2 => exact local_limitBy a0 a1 a2 s x w hr hw
  case hint a0 => exact local_hint a0 s x w hr hw
  case select args =>
    exact selectAll_local args x w (by simp only [reads, writes, List.mem_cons, not_or] at hr hw ⊢; simp_all) s
  case returning args =>
    exact returnAll_local args x w (by simp only [reads, writes, List.mem_cons, not_or] at hr hw ⊢; simp_all) s
  case insert args =>
    simp only [step]
    refine bind_local _ _ _ _ _ (applyTerms_local s x args w
      (by simp only [reads, writes, List.mem_cons, not_or] at hr hw ⊢; simp_all)) ?_
    intro t
    cases w <;> first | listed [reads, writes] hw | rfl
  case replace args =>
    simp only [step]
    refine bind_local _ _ _ _ _ (applyTerms_local s x args w
      (by simp only [reads, writes, List.mem_cons, not_or] at hr hw ⊢; simp_all)) ?_
    intro t
    cases w <;> first | listed [reads, writes] hw | rfl
  case insertOrReplace args =>
    simp only [step]
    refine bind_local _ _ _ _ _ (applyTerms_local s x args w
      (by simp only [reads, writes, List.mem_cons, not_or] at hr hw ⊢; simp_all)) ?_
    intro t
    cases w <;> first | listed [reads, writes] hw | rfl
  case where_ c => exact local_where c s x w hr hw
  case prewhere c => exact local_prewhere c s x w hr hw
  case join item how kind => exact local_join item how kind s x w hr hw
  case set field value =>
    have hs : isSqlite (copySlot w x s) = isSqlite s := by simp only [isSqlite, copySlot_cls]
    simp only [step, hs]
    cases fieldOrTerm none field <;> cases wrapDirect (isSqlite s) value <;>
      (cases w <;> first | listed [reads, writes] hw | rfl)
  case onDuplicateKeyUpdate field value =>
    have hi : (copySlot w x s).r.fl.ignoreDuplicates = s.r.fl.ignoreDuplicates := by
      cases w <;> first | listed [reads, writes] hr | rfl
    simp only [step, hi]
    split
    · rfl
    · cases fieldOrTerm none field <;> cases wrapDirect false value <;>
        (cases w <;> first | listed [reads, writes] hw | rfl)

end Pypika.B
