import Pypika.Builder
/-!
# Frame of the set-operation builder, tied to the source

`_SetOperation` has four things its `@builder` methods write: the operand list (`union` … `minus`), the ORDER BY list, LIMIT and
OFFSET.  `stepS_frame`: an accepted call changes only what `writesS` lists for it (the base query and the alias never change);
`Agree.setop_writes_agree`: `writesS` is the set of attributes the source of each method writes.
-/
namespace Pypika
def SetOp.base : SetOp → Query | .mk b _ _ _ _ _ => b
def SetOp.ops : SetOp → List (Str × Query) | .mk _ o _ _ _ _ => o
def SetOp.orderbys : SetOp → List (Term × Option Ord) | .mk _ _ o _ _ _ => o
def SetOp.limit : SetOp → Option Nat | .mk _ _ _ l _ _ => l
def SetOp.offset : SetOp → Option Nat | .mk _ _ _ _ o _ => o
def SetOp.alias : SetOp → Option Str | .mk _ _ _ _ _ a => a
end Pypika

namespace Pypika.B
open Pypika

inductive SSlot | ops | orderbys | limit | offset
  deriving DecidableEq, Repr

def SSlot.attr : SSlot → String
  | .ops => "_set_operation" | .orderbys => "_orderbys" | .limit => "_limit" | .offset => "_offset"

def writesS : SCall → List SSlot
  | .orderby .. => [.orderbys]
  | .limit _ => [.limit]
  | .offset _ => [.offset]
  | .op .. => [.ops]


/-- **Frame.**  The base query and the alias never change; each of the four slots changes only under a call that lists it. -/
theorem stepS_frame (s s' : SetOp) (c : SCall) (h : stepS s c = .ok s') :
    s'.base = s.base ∧ s'.alias = s.alias ∧
    (SSlot.ops ∉ writesS c → s'.ops = s.ops) ∧ (SSlot.orderbys ∉ writesS c → s'.orderbys = s.orderbys) ∧
    (SSlot.limit ∉ writesS c → s'.limit = s.limit) ∧ (SSlot.offset ∉ writesS c → s'.offset = s.offset) := by
  obtain ⟨base, ops, obs, l, o, a⟩ := s
  cases c with
  | orderby args order =>
    simp only [stepS] at h
    split at h
    · injection h with h; subst h; simp [SetOp.base, SetOp.alias, SetOp.ops, SetOp.orderbys, SetOp.limit, SetOp.offset, writesS]
    · cases h
  | limit n => injection h with h; subst h; simp [SetOp.base, SetOp.alias, SetOp.ops, SetOp.orderbys, SetOp.limit, SetOp.offset, writesS]
  | offset n => injection h with h; subst h; simp [SetOp.base, SetOp.alias, SetOp.ops, SetOp.orderbys, SetOp.limit, SetOp.offset, writesS]
  | op name other => injection h with h; subst h; simp [SetOp.base, SetOp.alias, SetOp.ops, SetOp.orderbys, SetOp.limit, SetOp.offset, writesS]

end Pypika.B
