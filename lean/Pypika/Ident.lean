import Pypika.Base
/-!
# Identity of tables, schemas, databases and named queries (`__eq__` / `__hash__`)
-/
namespace Pypika

/-- `Schema(name, parent)`; `Database` is a `Schema` subclass and compares as one -/
inductive Sch where
  | mk (name : Str) (parent : Option Sch)
  deriving Repr

/-- what `Table.__eq__` / `__hash__` look at.  `for_` / `forPortion` are `str(self._for)` /
    `str(self._for_portion)` (rendered criteria; `none` = not set) -/
structure Tbl where
  name : Str
  schema : Option Sch
  alias : Option Str
  for_ : Option Str
  forPortion : Option Str
  deriving Repr

/-- `Schema.__eq__`: isinstance ∧ name == name ∧ parent == parent (recursively) -/
def Sch.beq : Sch → Sch → Bool
  | .mk n1 p1, .mk n2 p2 =>
    decide (n1 = n2) && (match p1, p2 with
      | none, none => true
      | some a, some b => Sch.beq a b
      | _, _ => false)

def optSchBeq : Option Sch → Option Sch → Bool
  | none, none => true
  | some a, some b => a.beq b
  | _, _ => false

/-- `Table.__eq__`: the sequence of comparisons in the code, in order -/
def Tbl.beq (a b : Tbl) : Bool :=
  decide (a.name = b.name) && optSchBeq a.schema b.schema && decide (a.alias = b.alias) &&
    decide (a.for_ = b.for_) && decide (a.forPortion = b.forPortion)

/-- `Schema.get_sql(quote_char='"')` -/
def Sch.text : Sch → Str
  | .mk n none => quoteWith (some '"') n
  | .mk n (some p) => p.text ++ '.' :: quoteWith (some '"') n

/-- `str(table)`: the text `Table.__hash__` hashes -/
def Tbl.hashKey (t : Tbl) : Str :=
  (match t.schema with | some s => s.text ++ ['.'] | none => []) ++ quoteWith (some '"') t.name ++
  (match t.for_, t.forPortion with
   | some f, _ => " FOR ".toList ++ f
   | none, some p => " FOR PORTION OF ".toList ++ p
   | none, none => []) ++
  (match t.alias with | some a => ' ' :: quoteWith (some '"') a | none => [])

/-- `Schema.__hash__`: hash((name, parent)) — the key is the pair itself -/
def Sch.hashKey : Sch → List Str
  | .mk n none => [n]
  | .mk n (some p) => n :: p.hashKey

end Pypika
