import Pypika.BuilderLocal
/-! Locality of the builder calls, part 7 -/
namespace Pypika.B
open Pypika
set_option linter.unusedSimpArgs false

set_option maxHeartbeats 1600000 in
theorem local_where : ∀ c, LocalAt (.where_ c) := by
  intro c s x w hr hw
  simp only [step]
  by_cases hc : s.r.fl.cls = .postgresql
  · simp only [reads, writes, hc, if_true] at hr hw
    rw [wherePath_local s x c w (by simp only [List.mem_cons, not_or] at hr hw ⊢; simp_all)]
    exact whereApply_local s x c _ w (by simp only [List.mem_cons, not_or] at hr hw ⊢; simp_all)
  · simp only [reads, writes, hc, if_false] at hr hw
    have hc' : (copySlot w x s).r.fl.cls ≠ .postgresql := by rw [copySlot_cls]; exact hc
    rw [wherePath_other _ c hc', wherePath_other _ c hc]
    refine whereApply_local_other s x c _ w ?_ (by simp only [List.mem_cons, not_or] at hr hw ⊢; simp_all)
    split <;> simp

end Pypika.B
