import Pypika.Ctx
/-!
# render: a transcription of every `get_sql`

Each clause of `render` mirrors one Python `get_sql`, including which kwargs it consumes,
defaults, overrides or drops before recursing (see `notes/model-notes.md`).
`render` is total; the (few) exceptions `get_sql` can raise are computed by `firstExc`.
-/
namespace Pypika

/-! ## small helpers (term-free) -/

def Arith.text : Arith → Str
  | .add => ['+'] | .sub => ['-'] | .mul => ['*'] | .div => ['/']
  | .lshift => "<<".toList | .rshift => ">>".toList

def BoolOp.text : BoolOp → Str
  | .and_ => "AND".toList | .or_ => "OR".toList | .xor_ => "XOR".toList

def Ord.text : Ord → Str
  | .asc => "ASC".toList | .desc => "DESC".toList

def Arith.isAdd : Arith → Bool | .add | .sub => true | _ => false
def Arith.isShift : Arith → Bool | .lshift | .rshift => true | _ => false

/-- `getattr(side, "operator", None)`: the operator of an ArithmeticExpression, `none` for
    ordinary terms, `weird` for objects whose `__getattr__` manufactures an attribute
    (sub-queries: the manufactured Field compares "equal" to every operator) -/
inductive TopOp | none | op (a : Arith) | weird
  deriving DecidableEq, Repr

/-- `ArithmeticExpression.left_needs_parens` -/
def leftNeedsParens (curr : Arith) : TopOp → Bool
  | .none => false
  | .weird => !curr.isShift
  | .op l => if l.isShift then !curr.isShift else if curr.isAdd then false else l.isAdd

/-- `ArithmeticExpression.right_needs_parens` -/
def rightNeedsParens (curr : Arith) : TopOp → Bool
  | .none => false
  | .weird => true
  | .op r =>
    if r.isShift then true
    else if curr.isShift then false
    else if curr = .add then false
    else if curr = .div then true
    else r.isAdd

def parens (d : Doc) : Doc := kws "(" :: d ++ K ")"
def parensIf (b : Bool) (d : Doc) : Doc := if b then parens d else d

/-- first character of the rendered text is `-` -/
def startsMinus (d : Doc) : Bool := (flatten d).head? = some '-'

/-- `Table.get_table_name()` / `Selectable.get_table_name()` as used for namespaces -/
def TRef.nsName (t : TRef) : Str :=
  if truthyStr t.alias then t.alias.getD [] else (t.name.getD "None".toList)

/-- `if self.table and (with_namespace or self.table.alias)` -/
def needsNs (c : Ctx) : Option TRef → Bool
  | none => false
  | some t => c.withNamespace || truthyStr t.alias

def Val.doc (c : Ctx) : Val → Doc
  | .str s => [.str c.param c.sq s]
  | .num t => [.num c.param t]
  | .other t => [.num c.param t]
  | .bool b sqlite =>
      [.num c.param (if sqlite then (if b then ['1'] else ['0']) else (if b then "true".toList else "false".toList))]
  | .null => [.num c.param "null".toList]

/-- `Schema.get_sql` for a chain given outermost first -/
def schemaDoc (q : Option Char) : List Str → Doc
  | [] => []
  | [s] => [.ident q s]
  | s :: rest => .ident q s :: kws "." :: schemaDoc q rest

/-! ### JSON text (`json.dumps(..., ensure_ascii=False)` for strings, compact separators) -/

def hexDigit (n : Nat) : Char := if n < 10 then Char.ofNat (48 + n) else Char.ofNat (87 + n)

def jsonEscChar (ch : Char) : Str :=
  if ch = '"' then ['\\', '"']
  else if ch = '\\' then ['\\', '\\']
  else if ch = '\n' then ['\\', 'n']
  else if ch = '\r' then ['\\', 'r']
  else if ch = '\t' then ['\\', 't']
  else if ch.toNat = 8 then ['\\', 'b']
  else if ch.toNat = 12 then ['\\', 'f']
  else if ch.toNat < 32 then
    ['\\', 'u', '0', '0', hexDigit (ch.toNat / 16), hexDigit (ch.toNat % 16)]
  else [ch]

def jsonStr (s : Str) : Str := '"' :: (s.flatMap jsonEscChar) ++ ['"']

mutual
  def JVal.text : JVal → Str
    | .null => "null".toList
    | .bool b => if b then "true".toList else "false".toList
    | .num t => t
    | .str s => jsonStr s
    | .arr xs => '[' :: JVal.textL xs ++ [']']
    | .obj kvs => '{' :: JVal.textO kvs ++ ['}']
  def JVal.textL : List JVal → Str
    | [] => []
    | [x] => x.text
    | x :: y :: xs => x.text ++ ',' :: JVal.textL (y :: xs)
  def JVal.textO : List (Str × JVal) → Str
    | [] => []
    | [(k, v)] => jsonStr k ++ ':' :: v.text
    | (k, v) :: y :: xs => jsonStr k ++ ':' :: v.text ++ ',' :: JVal.textO (y :: xs)
end

/-! ### window frames -/

def natText (n : Nat) : Str := (Nat.repr n).toList

def kwPreceding : Str := " PRECEDING".toList
def kwFollowing : Str := " FOLLOWING".toList
def kwUnboundedPreceding : Str := "UNBOUNDED PRECEDING".toList
def kwUnboundedFollowing : Str := "UNBOUNDED FOLLOWING".toList
def kwCurrentRow : Str := "CURRENT ROW".toList

/-- `Edge.__str__`: the number given, or UNBOUNDED only when no number is given -/
def Edge.doc : Edge → Doc
  | .preceding none => [.kw kwUnboundedPreceding]
  | .preceding (some n) => [.num false (natText n), .kw kwPreceding]
  | .following none => [.kw kwUnboundedFollowing]
  | .following (some n) => [.num false (natText n), .kw kwFollowing]
  | .current => [.kw kwCurrentRow]

def Edge.text (e : Edge) : Str := flatten e.doc

/-- `get_frame_sql` -/
def Frame.doc (f : Frame) : Doc :=
  match f.hi with
  | none => .raw f.kind :: kws " " :: f.lo.doc
  | some hi => .raw f.kind :: kws " BETWEEN " :: f.lo.doc ++ kws " AND " :: hi.doc

def Frame.text (f : Frame) : Str := flatten f.doc

/-! ### intervals -/

def intText (i : Int) : Str := (toString i).toList

def Dialect.intervalQuotesUnit : Option Dialect → Bool
  | some .oracle | some .mysql => false     -- INTERVAL '{expr}' {unit}
  | _ => true                                -- INTERVAL '{expr} {unit}'

/-- `Interval.trim_pattern.pattern`, the regular expression that `intervalTrim` implements -/
def trimPatternText : Str := "(^0+\\.)|(\\.0+$)|(^[0\\-.: ]+[\\-: ])|([\\-:. ][0\\-.: ]+$)".toList

/-- characters removed by `trim_pattern` alternatives 3 and 4 -/
def trimSet (ch : Char) : Bool := ch = '0' || ch = '-' || ch = '.' || ch = ':' || ch = ' '
def sepSet3 (ch : Char) : Bool := ch = '-' || ch = ':' || ch = ' '
def sepSet4 (ch : Char) : Bool := ch = '-' || ch = ':' || ch = '.' || ch = ' '

/-- longest prefix of `s` matching `[0\-.: ]+[\-: ]` (greedy with backtracking): its length, or none -/
def leadTrimLen (s : Str) : Option Nat :=
  let run := s.takeWhile trimSet
  -- last position inside `run` holding a char of sepSet3, with at least one char before it
  let idxs := (List.range run.length).filter (fun i => i ≥ 1 && sepSet3 (run.getD i ' '))
  match idxs.getLast? with
  | some i => some (i + 1)
  | none => none

/-- `^0+\.` -/
def leadZeroDotLen (s : Str) : Option Nat :=
  let z := s.takeWhile (· = '0')
  if z.length ≥ 1 && (s.drop z.length).head? = some '.' then some (z.length + 1) else none

/-- the regex alternation tries, at position 0, `^0+\.` then `^[0\-.: ]+[\-: ]`; at later
    positions `\.0+$` then `[\-:. ][0\-.: ]+$`.  `re.sub` is leftmost, non-overlapping. -/
def trailMatchAt (s : Str) : Bool :=
  -- does `\.0+$` match the whole of s?
  match s with
  | '.' :: rest => rest.length ≥ 1 && rest.all (· = '0')
  | _ => false
def trailMatch4At (s : Str) : Bool :=
  match s with
  | ch :: rest => sepSet4 ch && rest.length ≥ 1 && rest.all trimSet
  | [] => false

/-- remove the leftmost trailing match starting at or after the current position -/
def trimTrail : Str → Str
  | [] => []
  | ch :: rest =>
    if trailMatchAt (ch :: rest) || trailMatch4At (ch :: rest) then [] else ch :: trimTrail rest

def intervalTrim (s : Str) : Str :=
  match leadZeroDotLen s with
  | some n => trimTrail (s.drop n)
  | none =>
    match leadTrimLen s with
    | some n => trimTrail (s.drop n)
    | none => trimTrail s

def labels : List Str :=
  ["YEAR", "MONTH", "DAY", "HOUR", "MINUTE", "SECOND", "MICROSECOND"].map String.toList

/-- `(largest, smallest, is_negative)` as computed by `Interval.__init__` -/
def IntervalArgs.bounds (iv : IntervalArgs) : Option (Nat × Nat × Bool) :=
  let vs := [iv.years, iv.months, iv.days, iv.hours, iv.minutes, iv.seconds, iv.microseconds]
  let nz := (List.range 7).filter (fun i => vs.getD i 0 ≠ 0)
  match nz.head?, nz.getLast? with
  | some lo, some hi => some (lo, hi, vs.getD lo 0 < 0)
  | _, _ => none

def IntervalArgs.exprUnit (iv : IntervalArgs) : Str × Str :=
  if iv.quarters ≠ 0 then (intText iv.quarters, "QUARTER".toList)
  else if iv.weeks ≠ 0 then (intText iv.weeks, "WEEK".toList)
  else
    match iv.bounds with
    | none =>
      -- nothing set: "0-0-0 0:0:0.0" trimmed, unit DAY
      (intervalTrim "0-0-0 0:0:0.0".toList, "DAY".toList)
    | some (lo, hi, neg) =>
      if lo = 6 then
        ((if neg then ['-'] else []) ++ natText iv.microseconds.natAbs, "MICROSECOND".toList)
      else
        let f (i : Int) : Str := natText i.natAbs
        let whole := f iv.years ++ '-' :: f iv.months ++ '-' :: f iv.days ++ ' ' :: f iv.hours ++ ':' ::
          f iv.minutes ++ ':' :: f iv.seconds ++ '.' :: f iv.microseconds
        let e := intervalTrim whole
        let e := if neg then '-' :: e else e
        let unit := if lo = hi then labels.getD lo [] else labels.getD lo [] ++ '_' :: labels.getD hi []
        (e, unit)

def intervalText (ctxDialect : Option Dialect) (iv : IntervalArgs) : Str :=
  let d := match iv.dialect with | some d => some d | none => ctxDialect
  let (e, u) := iv.exprUnit
  if Dialect.intervalQuotesUnit d then "INTERVAL '".toList ++ e ++ ' ' :: u ++ ['\'']
  else "INTERVAL '".toList ++ e ++ "' ".toList ++ u

end Pypika
