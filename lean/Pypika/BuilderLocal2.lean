import Pypika.BuilderLocal
/-! Locality of the builder calls, part 2 (one theorem per call; the parts build in parallel) -/
namespace Pypika.B
open Pypika
set_option linter.unusedSimpArgs false

set_option maxHeartbeats 1600000 in
theorem local_distinct : ∀ (_ : Unit), LocalAt (.distinct) := by
  intro _ s x w hr hw
  cases w
  all_goals first
    | listed [reads, writes] hr
    | listed [reads, writes] hw
    | local_tac [step]

set_option maxHeartbeats 1600000 in
theorem local_forUpdate : ∀ (_ : Unit), LocalAt (.forUpdate) := by
  intro _ s x w hr hw
  cases w
  all_goals first
    | listed [reads, writes] hr
    | listed [reads, writes] hw
    | local_tac [step]

set_option maxHeartbeats 1600000 in
theorem local_ignore : ∀ (_ : Unit), LocalAt (.ignore) := by
  intro _ s x w hr hw
  cases w
  all_goals first
    | listed [reads, writes] hr
    | listed [reads, writes] hw
    | local_tac [step]

set_option maxHeartbeats 1600000 in
theorem local_withTotals : ∀ (_ : Unit), LocalAt (.withTotals) := by
  intro _ s x w hr hw
  cases w
  all_goals first
    | listed [reads, writes] hr
    | listed [reads, writes] hw
    | local_tac [step]

set_option maxHeartbeats 1600000 in
theorem local_having : ∀ a0, LocalAt (.having a0) := by
  intro a0 s x w hr hw
  cases w
  all_goals first
    | listed [reads, writes] hr
    | listed [reads, writes] hw
    | local_tac [step]

set_option maxHeartbeats 1600000 in
theorem local_groupby : ∀ a0, LocalAt (.groupby a0) := by
  intro a0 s x w hr hw
  cases w
  all_goals first
    | listed [reads, writes] hr
    | listed [reads, writes] hw
    | local_tac [step]

set_option maxHeartbeats 1600000 in
theorem local_rollup : ∀ a0 a1, LocalAt (.rollup a0 a1) := by
  intro a0 a1 s x w hr hw
  cases w
  all_goals first
    | listed [reads, writes] hr
    | listed [reads, writes] hw
    | local_tac [step]

set_option maxHeartbeats 1600000 in
theorem local_orderby : ∀ a0 a1, LocalAt (.orderby a0 a1) := by
  intro a0 a1 s x w hr hw
  cases w
  all_goals first
    | listed [reads, writes] hr
    | listed [reads, writes] hw
    | local_tac [step]

end Pypika.B
