import Pypika.RenderEqns
/-!
# C11 — set operations compose operands in order with the documented arity check
-/
namespace Pypika.C11
open Pypika

def isErr : Piece → Bool | .err _ => true | _ => false
def setopErr : Piece := .err "SetOperationException".toList

/-- one operand as it appears in the chain: blank, operator, blank, the operand's own rendering -/
def operandDoc (c : Ctx) (op : Str) (q : Query) : Doc := kws " " :: .kw op :: kws " " :: renderQuery c q

/-- **operands in call order, each operand's own text unchanged**: when every operand has the arity of
    the first, the chain after the base is the concatenation of the operands' renderings, in order -/
theorem ops_in_order (c : Ctx) (n : Nat) (ops : List (Str × Query))
    (h : ∀ p ∈ ops, p.2.selects.length = n) :
    renderOps c n ops = ops.flatMap (fun p => operandDoc c p.1 p.2) := by
  induction ops with
  | nil => rfl
  | cons p ps ih =>
    obtain ⟨o, q⟩ := p
    have hq : q.selects.length = n := h (o, q) (by simp)
    rw [renderOps_eq_2]
    simp only [hq, ne_eq, not_true_eq_false, if_false, List.flatMap_cons, operandDoc]
    rw [ih (fun p hp => h p (by simp [hp]))]
    simp [List.append_assoc, operandDoc]

/-- an arity mismatch at some operand produces the SetOperationException marker -/
theorem arity_mismatch_raises (c : Ctx) (n : Nat) (ops : List (Str × Query))
    (h : ∃ p ∈ ops, p.2.selects.length ≠ n) : setopErr ∈ renderOps c n ops := by
  induction ops with
  | nil => obtain ⟨p, hp, _⟩ := h; cases hp
  | cons p ps ih =>
    obtain ⟨o, q⟩ := p
    rw [renderOps_eq_2]
    by_cases hq : q.selects.length = n
    · obtain ⟨p', hp', hne⟩ := h
      rcases List.mem_cons.mp hp' with e | e
      · subst e; exact absurd hq hne
      · exact List.mem_append_right _ (ih ⟨p', e, hne⟩)
    · simp only [ne_eq, hq, not_false_eq_true, if_true]
      apply List.mem_append_left
      apply List.mem_append_right
      simp [setopErr]

/-- … and when all arities agree and the operands themselves render without error, no exception marker appears -/
theorem arity_ok_no_raise (c : Ctx) (n : Nat) (ops : List (Str × Query))
    (h : ∀ p ∈ ops, p.2.selects.length = n) (hq : ∀ p ∈ ops, ∀ x ∈ renderQuery c p.2, isErr x = false) :
    ∀ x ∈ renderOps c n ops, isErr x = false := by
  rw [ops_in_order c n ops h]
  intro x hx
  simp only [List.mem_flatMap] at hx
  obtain ⟨p, hp, hxp⟩ := hx
  simp only [operandDoc, List.mem_cons] at hxp
  rcases hxp with e | e | e | e
  · subst e; rfl
  · subst e; rfl
  · subst e; rfl
  · exact hq p hp x e

/-- layout of the whole chain: base, operands, then ORDER BY / LIMIT / OFFSET of the chain, all inside the
    parentheses a sub-query use asks for, then the alias; operands are wrapped exactly when the base query says so -/
theorem setop_layout (c : Ctx) (base : Query) (ops : List (Str × Query)) (obs : List (Term × Option Ord))
    (limit offset : Option Nat) (alias : Option Str) :
    renderSetOp c (.mk base ops obs limit offset alias) =
      parensIf c.subquery
        (renderQuery { (setopCtx c base.fl) with subquery := base.fl.wrapSetOps } base ++
         renderOps { (setopCtx c base.fl) with subquery := base.fl.wrapSetOps } base.selects.length ops ++
         opt (!obs.isEmpty) (kws " ORDER BY " :: joinDocs (K ",")
           (renderOrderBy { (setopCtx c base.fl) with quote := .given (setopCtx c base.fl).q } base.selects (setopCtx c base.fl).aq obs)) ++
         setopPaginate limit offset) ++
      opt c.withAlias (aliasDoc (setopCtx c base.fl) (setopCtx c base.fl).q alias) := renderSetOp_eq_1 c

/-- the operand context asks for wrapping exactly when the base query's flag is set -/
theorem operand_wrapped_iff (c : Ctx) (fl : QFlags) :
    ({ (setopCtx c fl) with subquery := fl.wrapSetOps } : Ctx).subquery = fl.wrapSetOps := rfl

end Pypika.C11
