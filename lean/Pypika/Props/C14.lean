import Pypika.Guards
import Pypika.Props.C11
import Pypika.Props.C01
/-!
# C14 — documented rejections fire exactly when specified and change nothing
-/
namespace Pypika.C14
open Pypika Pypika.Guard

/-- **JoinException ⇔ some criterion table is unknown** -/
theorem join_guard_iff (ct base joined : List Nat) (item : Nat) :
    joinRaises ct base joined item = true ↔ ∃ t ∈ ct, t ∉ base ∧ t ∉ joined ∧ t ≠ item := by
  simp only [joinRaises, missingTables, Bool.not_eq_true', List.isEmpty_eq_false_iff_exists_mem, List.mem_filter,
    Bool.not_eq_true', Bool.or_eq_false_iff, List.contains_iff_mem, decide_eq_false_iff_not]
  constructor
  · rintro ⟨t, ht, ⟨h1, h2⟩, h3⟩
    exact ⟨t, ht, by simpa using h1, by simpa using h2, h3⟩
  · rintro ⟨t, ht, h1, h2, h3⟩
    exact ⟨t, ht, ⟨by simpa using h1, by simpa using h2⟩, h3⟩

/-- accepting neighbours: the joined item itself, a FROM source and an earlier join are always allowed -/
theorem join_accepts_known (base joined : List Nat) (item : Nat) (ct : List Nat)
    (h : ∀ t ∈ ct, t ∈ base ∨ t ∈ joined ∨ t = item) : joinRaises ct base joined item = false := by
  cases hr : joinRaises ct base joined item
  · rfl
  · obtain ⟨t, ht, h1, h2, h3⟩ := (join_guard_iff ct base joined item).mp hr
    rcases h t ht with x | x | x
    · exact absurd x h1
    · exact absurd x h2
    · exact absurd x h3

theorem custom_function_iff (n nargs : Nat) : customFunctionRaises (some n) nargs = true ↔ nargs ≠ n := by
  simp [customFunctionRaises]
theorem custom_function_no_params (nargs : Nat) : customFunctionRaises none nargs = false := rfl

/-- CASE without WHEN: the exception marker is emitted exactly for an empty list of cases -/
theorem case_iff (c : Ctx) (ws : List (Term × Term)) (e : Option Term) (a : Option Str) :
    (Piece.err "CaseException".toList ∈ (opt ws.isEmpty [Piece.err "CaseException".toList])) ↔ ws = [] := by
  cases ws <;> simp [opt]

/-- set-operation arity: see `C11.arity_mismatch_raises` / `C11.arity_ok_no_raise` -/
theorem arity_guard (c : Ctx) (n : Nat) (ops : List (Str × Query)) (h : ∃ p ∈ ops, p.2.selects.length ≠ n) :
    C11.setopErr ∈ renderOps c n ops := C11.arity_mismatch_raises c n ops h

/-- once-only calls reject exactly the second application -/
theorem once_only :
    intoRaises false = false ∧ intoRaises true = true ∧ createTableRaises false = false ∧ createTableRaises true = true ∧
    primaryKeyRaises true = true ∧ foreignKeyRaises true = true ∧ dropTargetRaises true = true ∧
    (∀ f p, temporalRaises f p = true ↔ (f = true ∨ p = true)) ∧ (∀ f b, frameRaises f b = true ↔ (f = true ∨ b = true)) := by
  refine ⟨rfl, rfl, rfl, rfl, rfl, rfl, rfl, ?_, ?_⟩ <;> intro a b <;> cases a <;> cases b <;> simp [temporalRaises, frameRaises]

theorem update_delete_iff (u s d : Bool) :
    (updateRaises u s d = true ↔ (u = true ∨ s = true ∨ d = true)) ∧ (deleteRaises d s u = true ↔ (d = true ∨ s = true ∨ u = true)) := by
  cases u <;> cases s <;> cases d <;> simp [updateRaises, deleteRaises]

/-- the two conflict handlers of a dialect exclude each other, symmetrically -/
theorem conflict_handlers (a b : Bool) :
    (duplicateUpdateRaises a = a) ∧ (duplicateIgnoreRaises b = b) ∧ (doNothingRaises a = a) ∧ (doUpdateRaises b = b) := by
  simp [duplicateUpdateRaises, duplicateIgnoreRaises, doNothingRaises, doUpdateRaises]

theorem top_iff (v : Int) (p : Bool) : topRaises true v p = true ↔ (p = true ∧ (v < 0 ∨ 100 < v)) := by
  cases p <;> simp [topRaises] <;> omega

/-- **RETURNING guard**: with the targets among the known tables (they always are), a term is rejected exactly when
    it has fields and either the statement is not an INSERT / UPDATE / DELETE or one of its fields is on a table that is
    neither a target, a FROM item nor a joined table -/
theorem returning_iff (hasDml : Bool) (targets fieldTables known : List Nat) (hsub : ∀ t ∈ targets, t ∈ known) :
    returningRaises hasDml targets fieldTables known = true ↔
      fieldTables ≠ [] ∧ (hasDml = false ∨ ∃ t ∈ fieldTables, t ∉ known) := by
  unfold returningRaises
  rw [List.any_eq_true]
  constructor
  · rintro ⟨ft, hft, h⟩
    refine ⟨List.ne_nil_of_mem hft, ?_⟩
    cases hd : hasDml with
    | false => exact Or.inl rfl
    | true =>
      right
      simp only [hd, Bool.not_true, Bool.false_or, Bool.and_eq_true, List.any_eq_true, Bool.not_eq_true'] at h
      obtain ⟨_, t, ht, hk⟩ := h
      exact ⟨t, ht, by simpa using hk⟩
  · rintro ⟨hne, h⟩
    rcases h with h | ⟨t, ht, hk⟩
    · obtain ⟨ft, hft⟩ := List.exists_mem_of_ne_nil _ hne
      exact ⟨ft, hft, by simp [h]⟩
    · refine ⟨t, ht, ?_⟩
      have hnt : t ∉ targets := fun hm => hk (hsub t hm)
      have h1 : targets.contains t = false := by simpa using hnt
      have h2 : (fieldTables.any fun t => !known.contains t) = true := by
        rw [List.any_eq_true]; exact ⟨t, ht, by simpa using hk⟩
      rw [h1, h2]; simp

/-- a term whose fields are all on known tables is accepted in a DML statement -/
theorem returning_accepts_known (targets fieldTables known : List Nat) (hsub : ∀ t ∈ targets, t ∈ known)
    (h : ∀ t ∈ fieldTables, t ∈ known) : returningRaises true targets fieldTables known = false := by
  cases hr : returningRaises true targets fieldTables known
  · rfl
  · obtain ⟨_, h2⟩ := (returning_iff true targets fieldTables known hsub).mp hr
    rcases h2 with h2 | ⟨t, ht, hk⟩
    · cases h2
    · exact absurd (h t ht) hk

/-- **a rejected call changes nothing**: a @builder method raises on its private copy; as long as the
    effects executed before the raise are safe for that copy (no argument / nested writes), every object
    that existed is unchanged — this is `C01.builder_call_frame` applied to the prefix of effects -/
theorem reject_changes_nothing (h : Heap.Heap) (src : Heap.Obj) (hsrc : src < h.nObj) (rc : List Heap.Attr)
    (executed : List Heap.Eff) (hsafe : C01.safeSeq rc executed = true) :
    Heap.Ext h (C01.applyEffs (Heap.copyObj h src rc).1 (Heap.copyObj h src rc).2 executed) :=
  C01.builder_call_frame h src hsrc rc executed hsafe

end Pypika.C14
