import Pypika.Ident
/-!
# C16 — table / schema / named-query identity is a coherent equality

`Tbl.beq` transcribes `Table.__eq__` comparison by comparison.  `beq_iff_eq` shows that this
sequence of comparisons is exactly structural equality of (name, schema chain, alias, temporal
clause); reflexivity, symmetry, transitivity, agreement with `!=`, "distinguishes every
component" and "equal objects have equal hash keys" are corollaries that hold for all tables.
-/
namespace Pypika.C16
open Pypika

theorem Sch.beq_iff : ∀ (a b : Sch), a.beq b = true ↔ a = b
  | .mk n1 p1, .mk n2 p2 => by
    cases p1 with
    | none => cases p2 <;> simp [Sch.beq]
    | some x =>
      cases p2 with
      | none => simp [Sch.beq]
      | some y =>
        have ih := Sch.beq_iff x y
        simp [Sch.beq, ih]

theorem optSch_iff (a b : Option Sch) : optSchBeq a b = true ↔ a = b := by
  cases a <;> cases b <;> simp [optSchBeq, Sch.beq_iff]

/-- `Table.__eq__` holds exactly when all five components coincide -/
theorem beq_iff_eq (a b : Tbl) : a.beq b = true ↔ a = b := by
  cases a; cases b
  simp [Tbl.beq, optSch_iff, and_assoc]

theorem eq_refl (a : Tbl) : a.beq a = true := (beq_iff_eq a a).mpr rfl
theorem eq_symm (a b : Tbl) : a.beq b = b.beq a := by
  have h1 := beq_iff_eq a b
  have h2 := beq_iff_eq b a
  cases h : a.beq b <;> cases h' : b.beq a <;> try rfl
  · have := h2.mp h'; subst this; rw [eq_refl] at h; cases h
  · have := h1.mp h; subst this; rw [eq_refl] at h'; cases h'
theorem eq_trans (a b c : Tbl) (h1 : a.beq b = true) (h2 : b.beq c = true) : a.beq c = true := by
  rw [beq_iff_eq] at *; exact h1.trans h2

/-- `__ne__` is `not __eq__` -/
def Tbl.bne (a b : Tbl) : Bool := !(a.beq b)
theorem ne_agrees (a b : Tbl) : Tbl.bne a b = true ↔ a ≠ b := by
  simp [Tbl.bne, ← beq_iff_eq]

/-- equal tables hash the same text -/
theorem eq_hash (a b : Tbl) (h : a.beq b = true) : a.hashKey = b.hashKey := by
  rw [beq_iff_eq] at h; rw [h]

/-- equality distinguishes every component -/
theorem distinguishes (a b : Tbl) (h : a.beq b = true) :
    a.name = b.name ∧ a.schema = b.schema ∧ a.alias = b.alias ∧ a.for_ = b.for_ ∧ a.forPortion = b.forPortion := by
  rw [beq_iff_eq] at h; subst h; simp

theorem sch_eq_hash (a b : Sch) (h : a.beq b = true) : a.hashKey = b.hashKey := by
  rw [Sch.beq_iff] at h; rw [h]

/-- the pinned tree compared neither `_for` nor `_for_portion` while hashing them: with that
    `__eq__`, equal tables had different hash keys (witness; repaired by a fix: commit) -/
def beqOld (a b : Tbl) : Bool :=
  decide (a.name = b.name) && optSchBeq a.schema b.schema && decide (a.alias = b.alias)

theorem old_eq_hash_fails :
    ∃ a b : Tbl, beqOld a b = true ∧ a.hashKey ≠ b.hashKey :=
  ⟨⟨['t'], none, none, some ['x'], none⟩, ⟨['t'], none, none, none, none⟩, by decide⟩

/-- non-vacuity: two tables differing only in the schema's parent are unequal -/
example : (Tbl.beq ⟨['t'], some (.mk ['s'] (some (.mk ['d'] none))), none, none, none⟩
                   ⟨['t'], some (.mk ['s'] none), none, none, none⟩) = false := by decide

end Pypika.C16
