import Std.Data.String.ToNat
import Pypika.RenderEqns
/-!
# C18 — function, aggregate and window wrappers render every part, once, in order
-/
namespace Pypika.C18
open Pypika

def readNat (t : Str) : Option Nat := (String.ofList t).toNat?
theorem readNat_natText (n : Nat) : readNat (natText n) = some n := by
  unfold readNat natText; rw [String.ofList_toList]; exact Nat.toNat?_repr n

/-- specification: read a frame bound back from its pieces -/
def readEdge : Doc → Option Edge
  | [.kw k] =>
      if k = kwUnboundedPreceding then some (.preceding none)
      else if k = kwUnboundedFollowing then some (.following none)
      else if k = kwCurrentRow then some .current
      else none
  | [.num _ t, .kw k] =>
      if k = kwPreceding then (readNat t).map (fun n => .preceding (some n))
      else if k = kwFollowing then (readNat t).map (fun n => .following (some n))
      else none
  | _ => none

theorem kw_ne : kwUnboundedPreceding ≠ kwUnboundedFollowing ∧ kwUnboundedPreceding ≠ kwCurrentRow ∧
    kwUnboundedFollowing ≠ kwCurrentRow ∧ kwPreceding ≠ kwFollowing ∧ kwUnboundedFollowing ≠ kwUnboundedPreceding ∧
    kwFollowing ≠ kwPreceding := by decide

/-- **window frame bounds denote the numbers given**: every bound, for every `n ≥ 0`, reads back
    as itself — in particular `0 PRECEDING` is not UNBOUNDED -/
theorem edge_reads_back (e : Edge) : readEdge e.doc = some e := by
  have ⟨h1, h2, h3, h4, h5, h6⟩ := kw_ne
  cases e with
  | preceding n => cases n <;> simp [Edge.doc, readEdge, readNat_natText, h1, h2]
  | following n => cases n <;> simp [Edge.doc, readEdge, readNat_natText, h3, h5, h6]
  | current => simp [Edge.doc, readEdge, h2.symm, h3.symm]

/-- UNBOUNDED only when no number is given: a bound with a number starts with a `num` piece -/
theorem unbounded_iff (e : Edge) :
    (∃ k, e.doc = [.kw k]) ↔ (e = .preceding none ∨ e = .following none ∨ e = .current) := by
  cases e with
  | preceding n => cases n <;> simp [Edge.doc]
  | following n => cases n <;> simp [Edge.doc]
  | current => simp [Edge.doc]

/-- each argument is rendered exactly once, in call order: the helper recursion is `map` -/
theorem renderL_eq_map (c : Ctx) (ts : List Term) : renderL c ts = ts.map (render c) := by
  induction ts with
  | nil => rfl
  | cons t ts ih => rw [renderL_eq_2, ih]; rfl

theorem renderL_length (c : Ctx) (ts : List Term) : (renderL c ts).length = ts.length := by
  simp [renderL_eq_map]

/-- layout of a plain function call: name, one parenthesised list of the arguments -/
theorem plain_layout (c : Ctx) (name : Str) (args : List Term) (h : c.withAlias = false) :
    render c (.func name none args false none none none false [] [] none false none) =
      .raw name :: kws "(" :: joinDocs (K ",") (args.map (render c.fnArg)) ++ K ")" := by
  rw [render_func]
  simp [h, renderL_eq_map, opt, renderOpt_eq_1]

/-- layout with every optional clause present: DISTINCT first inside the parentheses, the special
    clause last inside them, then FILTER, then OVER(partition, order, frame) -/
theorem full_layout (c : Ctx) (name special : Str) (args part : List Term) (flt : Term)
    (obs : List (Term × Option Ord)) (f : Frame) (h : c.withAlias = false)
    (hp : part ≠ []) (ho : obs ≠ []) :
    render c (.func name none args true (some special) none (some flt) true part obs (some f) false none) =
      .raw name :: kws "(" :: (K "DISTINCT " ++ joinDocs (K ",") (args.map (render c.fnArg)) ++
        [kws " ", .raw special] ++ K ")") ++
        (K " FILTER(WHERE " ++ render c.fnBase flt ++ K ")") ++
        (kws " OVER(" :: joinDocs (K " ")
            [kws "PARTITION BY " :: joinDocs (K ",") (part.map (render c.fnBase)),
             kws "ORDER BY " :: joinDocs (K ",") (renderOrd c.fnBase obs)] ++ (kws " " :: f.doc) ++ K ")") := by
  rw [render_func]
  cases part with
  | nil => exact absurd rfl hp
  | cons p ps =>
    cases obs with
    | nil => exact absurd rfl ho
    | cons o os =>
      simp [h, renderL_eq_map, opt, opt', renderOpt_eq_1, renderOpt_eq_2, List.append_assoc]

/-- non-vacuity: `0 PRECEDING` -/
example : flatten (Edge.preceding (some 0)).doc = "0 PRECEDING".toList := by decide

end Pypika.C18
