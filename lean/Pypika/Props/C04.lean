import Pypika.RenderEqns
/-!
# C04 — SELECT statements mean what was built

What the kernel can carry of this property is the *shape* of the text for every statement: which clauses
appear, in which order, with which context each part is rendered, that lists keep call order and that a nested
statement is one parenthesised group.  That this shape means, on SQLite, what the specification means is
decided by executing it (harness/props/c04.py); the engine is not modelled.
-/
namespace Pypika.C04
open Pypika

/-- the kwargs every clause of the statement sees -/
def stmtCtx (c : Ctx) (fl : QFlags) (from_ : List Src) (joins : List Join) : Ctx :=
  queryCtx c fl (wantsNamespace fl (!joins.isEmpty) from_.length (fromIsQuery from_) false)

/-- the clauses of a SELECT, in the order they are written -/
def selectBody (c : Ctx) (fl : QFlags) (from_ : List Src) (withs : List (Str × Src)) (selects : List Term)
    (wheres prewheres havings : Option Term) (groupbys : List Term) (orderbys : List (Term × Option Ord))
    (joins : List Join) (usingSrcs : List Src) : Doc :=
  let k := stmtCtx c fl from_ joins
  opt (!withs.isEmpty) (kws "WITH " :: joinDocs (K ",") (renderWiths k withs)) ++
  kws "SELECT " :: opt fl.distinct (K "DISTINCT ") ++
    joinDocs (K ",") (renderL { k with withAlias := true, subquery := true } selects) ++
  opt (!from_.isEmpty) (kws " FROM " ::
    joinDocs (K ",") (renderSrcL { k with withNamespace := false, subquery := true, withAlias := true } from_)) ++
  opt (!usingSrcs.isEmpty) (kws " USING " ::
    joinDocs (K ",") (renderSrcL { k with withNamespace := false, subquery := true, withAlias := true } usingSrcs)) ++
  indexDoc " FORCE INDEX (" k.q fl.forceIndexes ++ indexDoc " USE INDEX (" k.q fl.useIndexes ++
  opt (!joins.isEmpty) (kws " " :: joinDocs (K " ") (renderJoins k joins)) ++
  opt prewheres.isSome (K " PREWHERE ") ++ renderOpt { k with quote := .given k.q, subquery := true } prewheres ++
  opt wheres.isSome (K " WHERE ") ++ renderOpt { k with quote := .given k.q, subquery := true } wheres ++
  opt (!groupbys.isEmpty) (kws " GROUP BY " ::
    joinDocs (K ",") (renderGroupBy { k with quote := .given k.q, groupbyAlias := true, subquery := true } selects k.groupbyAlias k.aq groupbys) ++
    opt fl.withTotals (K " WITH TOTALS") ++ opt fl.mysqlRollup (K " WITH ROLLUP")) ++
  opt havings.isSome (K " HAVING ") ++ renderOpt { k with quote := .given k.q, subquery := true } havings ++
  opt (!orderbys.isEmpty) (kws " ORDER BY " ::
    joinDocs (K ",") (renderOrderBy { k with quote := .given k.q, subquery := true } selects k.aq orderbys)) ++
  paginate .sqlite fl.limit fl.offset ++ forUpdateDoc fl k.q

/-- **clauses in standard order.**  A SQLite SELECT (no INSERT / UPDATE target, not a DELETE, at least one select
    item) is WITH, SELECT [DISTINCT] items, FROM, joins, WHERE, GROUP BY, HAVING, ORDER BY, LIMIT/OFFSET — in this
    order whatever the order of the builder calls, because the statement value only records *what* was added —
    inside one pair of parentheses exactly when used as a sub-query, followed by its alias when asked for. -/
theorem select_layout (c : Ctx) (fl : QFlags) (from_ : List Src) (withs : List (Str × Src)) (selects : List Term)
    (columns : List Term) (values : List (List Term)) (wheres prewheres havings : Option Term) (groupbys : List Term)
    (orderbys : List (Term × Option Ord)) (joins : List Join) (updates : List (Term × Term)) (usingSrcs : List Src)
    (dup : List (Term × Term)) (rets ocf : List Term) (ocdu : List (Term × Option Term)) (ocw ocduw : Option Term)
    (don lbt : List Term)
    (hcls : fl.cls = .sqlite) (hdel : fl.deleteFrom = false) (hsel : selects ≠ []) :
    renderQuery c (.mk fl from_ withs selects none none columns values wheres prewheres havings groupbys orderbys joins
        updates usingSrcs dup rets ocf ocdu ocw ocduw don lbt) =
      parensIf c.subquery (selectBody c fl from_ withs selects wheres prewheres havings groupbys orderbys joins usingSrcs) ++
        opt c.withAlias (aliasDoc { (stmtCtx c fl from_ joins) with aliasQuote := some fl.cls.queryAliasQuoteChar }
          (stmtCtx c fl from_ joins).q fl.alias) := by
  have hne : selects.isEmpty = false := by cases selects <;> simp_all
  rw [renderQuery_eq_1]
  simp only [hinted, hcls, hdel, hne, queryIsEmpty, Option.isSome_none, Bool.false_and, Bool.and_false, Bool.or_false, Bool.not_false,
    Bool.and_true, Bool.false_or, Bool.false_eq_true, if_false, selectBody, stmtCtx, selectPrefix, fromClause, opt,
    List.append_assoc, reduceCtorEq, Bool.and_self, List.nil_append, List.append_nil, decide_false, Bool.true_and,
    Bool.not_true]

/-- joins are written in the order they were added … -/
theorem joins_in_order (c : Ctx) (js : List Join) : renderJoins c js = js.map (renderJoin c) := by
  induction js with
  | nil => rfl
  | cons j js ih => rw [renderJoins_eq_2, ih]; rfl

/-- … each as `<type> JOIN <item> ON <criterion>`, the joined item with its alias and (if a statement) its own parentheses -/
theorem join_on_layout (c : Ctx) (item : Src) (how : Str) (crit : Term) :
    renderJoin c (.on item how crit none) =
      howDoc how ++ kws "JOIN " :: renderSrc { c with subquery := true, withAlias := true } item ++ kws " ON " ::
        render { c with subquery := true } crit := by
  rw [renderJoin_eq_2]; simp

theorem join_plain_layout (c : Ctx) (item : Src) (how : Str) :
    renderJoin c (.plain item how) =
      howDoc how ++ kws "JOIN " :: renderSrc { c with subquery := true, withAlias := true } item := renderJoin_eq_1 c

/-- FROM items in call order -/
theorem from_items_in_order (c : Ctx) (l : List Src) : renderSrcL c l = l.map (renderSrc c) := by
  induction l with
  | nil => rfl
  | cons s l ih => rw [renderSrcL_eq_2, ih]; rfl

/-- select items in call order -/
theorem select_items_in_order (c : Ctx) (l : List Term) : renderL c l = l.map (render c) := by
  induction l with
  | nil => rfl
  | cons s l ih => rw [renderL_eq_2, ih]; rfl

/-- columns are qualified in exactly these situations (a SELECT: no UPDATE target) -/
theorem namespace_rule (c : Ctx) (fl : QFlags) (from_ : List Src) (joins : List Join) :
    (stmtCtx c fl from_ joins).withNamespace = true ↔
      (joins ≠ [] ∨ 1 < from_.length ∨ fromIsQuery from_ = true ∨ fl.foreignTable = true) := by
  cases joins <;> simp [stmtCtx, queryCtx, wantsNamespace, or_assoc]

/-- used as a sub-query (FROM / JOIN item, IN / EXISTS operand, select-list item: all of these pass `subquery := true`,
    see `join_on_layout`, `selectBody`, `render_exists_`) a SELECT is one parenthesised group, then its alias -/
theorem nested_is_parenthesised (c : Ctx) (fl : QFlags) (from_ : List Src) (withs : List (Str × Src)) (selects : List Term)
    (columns : List Term) (values : List (List Term)) (wheres prewheres havings : Option Term) (groupbys : List Term)
    (orderbys : List (Term × Option Ord)) (joins : List Join) (updates : List (Term × Term)) (usingSrcs : List Src)
    (dup : List (Term × Term)) (rets ocf : List Term) (ocdu : List (Term × Option Term)) (ocw ocduw : Option Term)
    (don lbt : List Term)
    (hcls : fl.cls = .sqlite) (hdel : fl.deleteFrom = false) (hsel : selects ≠ []) (hsub : c.subquery = true) :
    ∃ body tail, renderQuery c (.mk fl from_ withs selects none none columns values wheres prewheres havings groupbys orderbys
        joins updates usingSrcs dup rets ocf ocdu ocw ocduw don lbt) = parens body ++ tail ∧
      (c.withAlias = false → tail = []) := by
  refine ⟨selectBody c fl from_ withs selects wheres prewheres havings groupbys orderbys joins usingSrcs,
    opt c.withAlias (aliasDoc { (stmtCtx c fl from_ joins) with aliasQuote := some fl.cls.queryAliasQuoteChar }
          (stmtCtx c fl from_ joins).q fl.alias), ?_, ?_⟩
  · rw [select_layout c fl from_ withs selects columns values wheres prewheres havings groupbys orderbys joins updates usingSrcs
      dup rets ocf ocdu ocw ocduw don lbt hcls hdel hsel, hsub]
    rfl
  · intro h; simp [h, opt]

/-- the EXISTS operand is rendered as a sub-query -/
theorem exists_operand (c : Ctx) (q : Term) (neg : Bool) :
    render c (.exists_ q neg) = kws (if neg then "NOT EXISTS " else "EXISTS ") :: render { c with subquery := true } q :=
  render_exists_ c

end Pypika.C04
