import Pypika.Builder
import Pypika.Guards
import Pypika.Build
/-!
# Property theorems about the concrete builder model (`Builder.lean`)

Statements about `B.step`, the model of the `@builder` method bodies over real terms and sources, each registered
with the property it belongs to (`harness/props/cXX.py`).  `B.step` is tied to `/repo` call by call
(`harness/trace.py`, driver operation `bstep`).
-/
namespace Pypika.B
open Pypika

/-! ## C19 — an empty criterion passed to `where()` / `having()` changes nothing, in any state -/

theorem where_empty_neutral (s : St) : step s (.where_ .empty) = .ok s := by
  simp [step, wherePath, whereApply, Term.isEmpty, pure, Except.pure]

theorem having_empty_neutral (s : St) : step s (.having .empty) = .ok s := by
  simp [step, Term.isEmpty, pure, Except.pure]

/-- a chain with empty `where` / `having` calls inserted anywhere ends in the same state -/
def isNeutral : Call → Bool
  | .where_ .empty => true
  | .having .empty => true
  | _ => false

theorem neutral_step (s : St) (c : Call) (h : isNeutral c = true) : step s c = .ok s := by
  cases c <;> simp [isNeutral] at h
  · rename_i t; cases t <;> simp at h; exact where_empty_neutral s
  · rename_i t; cases t <;> simp at h; exact having_empty_neutral s

theorem run_drop_neutral (s : St) (cs : List Call) :
    run s (cs.filter (fun c => !isNeutral c)) = run s cs := by
  induction cs generalizing s with
  | nil => rfl
  | cons c cs ih =>
    cases hc : isNeutral c
    · simp only [List.filter, hc, Bool.not_false, run]
      cases step s c with
      | error e => rfl
      | ok s' => exact ih s'
    · simp only [List.filter, hc, Bool.not_true, run, neutral_step s c hc]
      exact ih s

/-- the slot `where()` accumulates is the left-to-right conjunction of the non-empty criteria (generic path); the
    call touches the criterion slot and the foreign-table latch, nothing else -/
theorem where_accumulates (s : St) (c : Term) (hc : c.isEmpty = false)
    (hpg : (s.r.fl.cls = .postgresql && s.r.fl.onConflict) = false) :
    step s (.where_ c) = .ok { s with r := { s.r with
        fl := { s.r.fl with foreignTable := s.r.fl.foreignTable || !validateTable s.r c }
        wheres := whereStep s.r.wheres c } } := by
  simp only [step, wherePath, hc, hpg, whereApply, pure, Except.pure]; rfl

/-! ## C12 — the last `limit` / `offset` wins; slicing is offset + limit -/

theorem limit_last_wins (s : St) (n m : Nat) :
    (step s (.limit n) >>= fun s' => step s' (.limit m)) = step s (.limit m) := by
  simp [step, bind, Except.bind, pure, Except.pure]

theorem offset_last_wins (s : St) (n m : Nat) :
    (step s (.offset n) >>= fun s' => step s' (.offset m)) = step s (.offset m) := by
  simp [step, bind, Except.bind, pure, Except.pure]

theorem slice_is_offset_limit (s : St) (a b : Nat) :
    step s (.slice (some a) (some b)) = (step s (.offset a) >>= fun s' => step s' (.limit b)) := by
  simp [step, bind, Except.bind, pure, Except.pure]

theorem limit_offset_commute (s : St) (n m : Nat) :
    (step s (.limit n) >>= fun s' => step s' (.offset m)) = (step s (.offset m) >>= fun s' => step s' (.limit n)) := by
  simp [step, bind, Except.bind, pure, Except.pure]

/-- pagination calls touch nothing but their own two slots -/
theorem limit_frame (s : St) (n : Nat) :
    ∃ s', step s (.limit n) = .ok s' ∧ s'.r.fl.limit = some n ∧ s'.r.fl.offset = s.r.fl.offset ∧
      s'.r.selects = s.r.selects ∧ s'.r.orderbys = s.r.orderbys ∧ s'.r.wheres = s.r.wheres ∧ s'.r.from_ = s.r.from_ :=
  ⟨_, rfl, rfl, rfl, rfl, rfl, rfl, rfl⟩

/-- a limit of 0 is stored as 0 (the renderer's `is not None` test is `C12.limit_zero_kept`) -/
theorem limit_zero_stored (s : St) : ∃ s', step s (.limit 0) = .ok s' ∧ s'.r.fl.limit = some 0 := ⟨_, rfl, rfl⟩

/-! ## C14 — the once-only guards of the concrete builder are the decision functions of `Guards.lean`;
a rejected call yields no state at all (`Except`), an accepted one yields exactly one -/

def raises (r : R) : Bool := match r with | .error _ => true | .ok _ => false
@[simp] theorem raises_ok (s : St) : raises (.ok s) = false := rfl
@[simp] theorem raises_pure (s : St) : raises (pure s) = false := rfl
@[simp] theorem raises_error (e : Str) : raises (.error e) = true := rfl
@[simp] theorem raises_raise (c : String) : raises (B.raise c) = true := rfl

theorem into_raises_iff (s : St) (t : Src) :
    raises (step s (.into t)) = Guard.intoRaises s.r.insertTable.isSome := by
  simp only [step, Guard.intoRaises]
  cases h : s.r.insertTable.isSome <;> simp

theorem delete_raises_iff (s : St) :
    raises (step s .delete) = Guard.deleteRaises s.r.fl.deleteFrom (!s.r.selects.isEmpty) s.r.updateTable.isSome := by
  simp only [step, Guard.deleteRaises]
  cases h : (s.r.fl.deleteFrom || !s.r.selects.isEmpty || s.r.updateTable.isSome) <;> simp

theorem update_raises_iff (s : St) (t : Src) :
    raises (step s (.update t)) = Guard.updateRaises s.r.updateTable.isSome (!s.r.selects.isEmpty) s.r.fl.deleteFrom := by
  simp only [step, Guard.updateRaises]
  cases h : (s.r.updateTable.isSome || !s.r.selects.isEmpty || s.r.fl.deleteFrom) <;> simp

theorem select_str_raises_iff (s : St) (name : Str) :
    raises (step s (.select [.str name])) = Guard.selectStrRaises s.r.from_.length := by
  simp only [step, Guard.selectStrRaises, selectAll, selectOne]
  cases h : s.r.from_ with
  | nil => simp [bind, Except.bind, B.raise]
  | cons f fs => by_cases hs : name = ['*'] <;> simp [hs, bind, Except.bind, pure, Except.pure, selectAll]

theorem mysql_handlers_exclusive (s : St) (f v : Arg) (h : s.r.fl.ignoreDuplicates = true) :
    raises (step s (.onDuplicateKeyUpdate f v)) = true := by
  simp [step, h]

theorem mysql_handlers_exclusive_rev (s : St) (h : s.r.duplicateUpdates.isEmpty = false) :
    raises (step s .onDuplicateKeyIgnore) = true := by
  simp [step, h]

theorem pg_handlers_exclusive (s : St) (f : Arg) (v : Option Arg) (h : s.r.fl.onConflictDoNothing = true) :
    raises (step s (.doUpdate f v)) = true := by
  simp [step, h]

theorem pg_handlers_exclusive_rev (s : St) (h : s.r.onConflictDoUpdates.isEmpty = false) :
    raises (step s .doNothing) = true := by
  simp [step, h]

/-- `top(value, percent)`: rejected exactly when the value is not an integer or a percentage is out of range
    (non-negative values; a negative non-percentage value is outside the model's `Nat` slot) -/
theorem top_raises_iff (s : St) (v : Option Int) (percent ties : Bool) (hnn : ∀ x, v = some x → 0 ≤ x) :
    raises (step s (.top v percent ties)) = Guard.topRaises v.isSome (v.getD 0) percent := by
  simp only [step, Guard.topRaises]
  cases v with
  | none => simp
  | some x =>
    have hx : ¬ x < 0 := by have := hnn x rfl; omega
    have h0 : 0 ≤ x := hnn x rfl
    cases percent <;> by_cases h100 : x ≤ 100 <;> simp [h0, hx, h100]

/-! ## C10 — the names the concrete `from_` / `join` give un-aliased sub-queries are those of `C10.tagStep` -/

theorem from_tags (s : St) (q : Query) (sub : Nat) (h : q.fl.alias = none) :
    step s (.from_ (.query q) sub) =
      .ok { s with r := { s.r with from_ := s.r.from_ ++ [(Src.query q).withAlias (C10.tagStep s.subCount (.from_ sub)).1] }
                   subCount := (C10.tagStep s.subCount (.from_ sub)).2 } := by
  simp [step, Src.isSub, Src.alias?, h, Src.isQuery, C10.tagStep, C10.tag, pure, Except.pure]

theorem from_keeps_given_alias (s : St) (src : Src) (sub : Nat) (h : src.alias?.isNone = false) :
    step s (.from_ src sub) = .ok { s with r := { s.r with from_ := s.r.from_ ++ [src] } } := by
  simp [step, h, pure, Except.pure]

theorem from_table_no_tag (s : St) (t : TRef) (p : Bool) (tmp : Option Term) (sub : Nat) :
    step s (.from_ (.table t p tmp) sub) = .ok { s with r := { s.r with from_ := s.r.from_ ++ [.table t p tmp] } } := by
  simp [step, Src.isSub, pure, Except.pure]

/-! ## C05 — INSERT rows and SET pairs are stored in call order, after the earlier ones -/

theorem set_appends (s : St) (name : Str) (v : Val) :
    step s (.set (.str name) (.const v)) =
      .ok { s with r := { s.r with updates := s.r.updates ++ [(mkField name none, .val (Val.withWrapper (isSqlite s) v) none)] } } := by
  simp [step, fieldOrTerm, wrapDirect, pure, Except.pure]

theorem insert_needs_target (s : St) (args : List Arg) (h : s.r.insertTable.isNone = true) :
    raises (step s (.insert args)) = true := by
  simp [step, applyTerms, h, bind, Except.bind, B.raise]

/-- one row given as positional values (no list / tuple in first position) is appended as one row, wrapped
    value by value, and the statement is an INSERT (not REPLACE) afterwards -/
theorem insert_row_appends (s : St) (a : Arg) (as : List Arg) (h : s.r.insertTable.isNone = false)
    (ha : ∀ xs, a ≠ .list xs ∧ a ≠ .tuple xs) :
    step s (.insert (a :: as)) =
      .ok { s with r := { s.r with values := s.r.values ++ [wrapConstL (a :: as)], fl := { s.r.fl with replace_ := false } } } := by
  cases a with
  | list xs => exact absurd rfl (ha xs).1
  | tuple xs => exact absurd rfl (ha xs).2
  | term t => simp [step, applyTerms, h, bind, Except.bind, pure, Except.pure]
  | str t => simp [step, applyTerms, h, bind, Except.bind, pure, Except.pure]
  | const t => simp [step, applyTerms, h, bind, Except.bind, pure, Except.pure]

end Pypika.B

namespace Pypika.B
open Pypika

/-! ## C08 — clause calls of different kinds commute in the concrete builder: same final state, whichever comes first.
The family: the calls that write one clause slot and read, at most, the sources (`where` / `prewhere` read FROM, the
UPDATE target and the joins for the foreign-table latch, which both may set). -/

def clauseTag : Call → Option Nat
  | .where_ _ => some 0 | .prewhere _ => some 1 | .having _ => some 2 | .limit _ => some 3 | .offset _ => some 4
  | .distinct => some 5 | .forUpdate => some 6 | .ignore => some 7 | .withTotals => some 8
  | .forceIndex _ => some 9 | .useIndex _ => some 10 | .modifier _ => some 11 | .hint _ => some 12
  | .final => some 13 | .sample _ _ => some 14
  | _ => none

theorem validateTable_congr (r r' : QR) (t : Term) (h1 : r'.from_ = r.from_) (h2 : r'.updateTable = r.updateTable)
    (h3 : r'.joins = r.joins) : validateTable r' t = validateTable r t := by
  simp [validateTable, h1, h2, h3]

def mapFl (g : QFlags → QFlags) (s : St) : St := { s with r := { s.r with fl := g s.r.fl } }
def mapR (f : St → St) : R → R | .ok s => .ok (f s) | .error e => .error e

/-- what the flag-only calls do to the scalar slots -/
def simpleG : Call → Option (QFlags → QFlags)
  | .limit n => some fun fl => { fl with limit := some n }
  | .offset n => some fun fl => { fl with offset := some n }
  | .distinct => some fun fl => { fl with distinct := true }
  | .forUpdate => some fun fl => { fl with forUpdate := true }
  | .ignore => some fun fl => { fl with ignore := true }
  | .withTotals => some fun fl => { fl with withTotals := true }
  | .forceIndex names => some fun fl => { fl with forceIndexes := fl.forceIndexes ++ names }
  | .useIndex names => some fun fl => { fl with useIndexes := fl.useIndexes ++ names }
  | .modifier m => some fun fl => { fl with modifiers := fl.modifiers ++ [m] }
  | .hint l => some fun fl => { fl with hint := some l }
  | .final => some fun fl => { fl with final := true }
  | .sample n off => some fun fl => { fl with sample := some n, sampleOffset := off }
  | _ => none

theorem step_simple (s : St) (c : Call) (g : QFlags → QFlags) (h : simpleG c = some g) :
    step s c = .ok (mapFl g s) := by
  cases c <;> simp [simpleG] at h <;> subst h <;> rfl

theorem wherePath_simple (s : St) (cw : Term) (c : Call) (g : QFlags → QFlags) (h : simpleG c = some g) :
    wherePath (mapFl g s) cw = wherePath s cw := by
  cases c <;> simp [simpleG] at h <;> subst h <;> rfl

theorem whereApply_simple (s : St) (cw : Term) (p : WherePath) (c : Call) (g : QFlags → QFlags)
    (h : simpleG c = some g) : whereApply (mapFl g s) cw p = mapR (mapFl g) (whereApply s cw p) := by
  cases c <;> simp [simpleG] at h <;> subst h <;> cases p <;> rfl

theorem bind_ok (s : St) (f : St → R) : ((Except.ok s : R) >>= f) = f s := rfl
theorem bind_mapR (r : R) (g : St → St) (f : St → R) (h : ∀ s, f (g s) = mapR g (f s)) :
    (mapR g r >>= f) = mapR g (r >>= f) := by
  cases r with
  | error e => rfl
  | ok s => exact h s

/-- `where` commutes with every flag-only call -/
theorem where_simple_commute (s : St) (cw : Term) (c : Call) (g : QFlags → QFlags) (h : simpleG c = some g) :
    (step s c >>= fun s' => step s' (.where_ cw)) = (step s (.where_ cw) >>= fun s' => step s' c) := by
  rw [step_simple s c g h, bind_ok]
  show whereApply (mapFl g s) cw (wherePath (mapFl g s) cw) = (whereApply s cw (wherePath s cw) >>= fun s' => step s' c)
  rw [wherePath_simple s cw c g h, whereApply_simple s cw _ c g h]
  cases whereApply s cw (wherePath s cw) with
  | error e => rfl
  | ok s' => exact (step_simple s' c g h).symm

theorem prewhere_simple_commute (s : St) (cw : Term) (c : Call) (g : QFlags → QFlags) (h : simpleG c = some g) :
    (step s c >>= fun s' => step s' (.prewhere cw)) = (step s (.prewhere cw) >>= fun s' => step s' c) := by
  rw [step_simple s c g h, bind_ok]
  cases c <;> simp [simpleG] at h <;> subst h <;> rfl

theorem having_simple_commute (s : St) (cw : Term) (c : Call) (g : QFlags → QFlags) (h : simpleG c = some g) :
    (step s c >>= fun s' => step s' (.having cw)) = (step s (.having cw) >>= fun s' => step s' c) := by
  rw [step_simple s c g h, bind_ok]
  cases hc : cw.isEmpty
  · cases c <;> simp [simpleG] at h <;> subst h <;> simp only [step, hc] <;> rfl
  · cases c <;> simp [simpleG] at h <;> subst h <;> simp only [step, hc] <;> rfl

/-- two flag-only calls of different kinds commute -/
theorem simple_simple_commute (s : St) (c1 c2 : Call) (g1 g2 : QFlags → QFlags) (t1 t2 : Nat)
    (h1 : simpleG c1 = some g1) (h2 : simpleG c2 = some g2)
    (k1 : clauseTag c1 = some t1) (k2 : clauseTag c2 = some t2) (hne : t1 ≠ t2) :
    (step s c1 >>= fun s' => step s' c2) = (step s c2 >>= fun s' => step s' c1) := by
  rw [step_simple s c1 g1 h1, step_simple s c2 g2 h2, bind_ok, bind_ok, step_simple _ c2 g2 h2, step_simple _ c1 g1 h1]
  cases c1 <;> simp [simpleG] at h1 <;> subst h1 <;> simp [clauseTag] at k1 <;> subst k1 <;>
    cases c2 <;> simp [simpleG] at h2 <;> subst h2 <;> simp [clauseTag] at k2 <;> subst k2 <;>
    first | rfl | exact absurd rfl hne

/-- `prewhere()` and `having()` as total state functions -/
def prewhereF (b : Term) (s : St) : St :=
  { s with r := { s.r with
      fl := { s.r.fl with foreignTable := s.r.fl.foreignTable || !validateTable s.r b }
      prewheres := match s.r.prewheres with | none => some b | some x => some (combine .and_ x b) } }

def havingF (b : Term) (s : St) : St :=
  if b.isEmpty then s else { s with r := { s.r with havings := whereStep s.r.havings b } }

theorem step_prewhere (s : St) (b : Term) : step s (.prewhere b) = .ok (prewhereF b s) := rfl
theorem step_having (s : St) (b : Term) : step s (.having b) = .ok (havingF b s) := by
  simp only [step, havingF, pure, Except.pure]; split <;> rfl

theorem wherePath_prewhereF (s : St) (a b : Term) : wherePath (prewhereF b s) a = wherePath s a := rfl
theorem wherePath_havingF (s : St) (a b : Term) : wherePath (havingF b s) a = wherePath s a := by
  unfold havingF; split <;> rfl

theorem validateTable_prewhereF (s : St) (a b : Term) : validateTable (prewhereF b s).r a = validateTable s.r a := rfl

theorem whereApply_havingF (s : St) (a b : Term) (p : WherePath) :
    whereApply (havingF b s) a p = mapR (havingF b) (whereApply s a p) := by
  unfold havingF; cases hb : b.isEmpty <;> cases p <;> rfl

theorem whereApply_prewhereF (s : St) (a b : Term) (p : WherePath) :
    whereApply (prewhereF b s) a p = mapR (prewhereF b) (whereApply s a p) := by
  cases p
  case generic =>
    have hv : validateTable (prewhereF b s).r a = validateTable s.r a := rfl
    simp only [whereApply, pure, Except.pure, mapR]
    rw [hv]
    simp only [prewhereF]
    congr 3
    show ({ s.r.fl with foreignTable := (s.r.fl.foreignTable || !validateTable s.r b) || !validateTable s.r a } : QFlags) =
      { s.r.fl with foreignTable := (s.r.fl.foreignTable || !validateTable s.r a) || !validateTable s.r b }
    cases s.r.fl.foreignTable <;> cases validateTable s.r a <;> cases validateTable s.r b <;> rfl
  all_goals rfl

/-- `where`, `prewhere`, `having` commute with each other: each writes its own criterion slot; the two that set the
    foreign-table latch read only the sources, which none of them changes -/
theorem where_prewhere_commute (s : St) (a b : Term) :
    (step s (.where_ a) >>= fun s' => step s' (.prewhere b)) = (step s (.prewhere b) >>= fun s' => step s' (.where_ a)) := by
  rw [step_prewhere, bind_ok]
  show (whereApply s a (wherePath s a) >>= fun s' => step s' (.prewhere b)) =
    whereApply (prewhereF b s) a (wherePath (prewhereF b s) a)
  rw [wherePath_prewhereF, whereApply_prewhereF]
  cases whereApply s a (wherePath s a) <;> rfl

theorem where_having_commute (s : St) (a b : Term) :
    (step s (.where_ a) >>= fun s' => step s' (.having b)) = (step s (.having b) >>= fun s' => step s' (.where_ a)) := by
  rw [step_having, bind_ok]
  show (whereApply s a (wherePath s a) >>= fun s' => step s' (.having b)) =
    whereApply (havingF b s) a (wherePath (havingF b s) a)
  rw [wherePath_havingF, whereApply_havingF]
  cases whereApply s a (wherePath s a) with
  | error e => rfl
  | ok s' => exact step_having s' b

theorem prewhere_having_commute (s : St) (a b : Term) :
    (step s (.prewhere a) >>= fun s' => step s' (.having b)) = (step s (.having b) >>= fun s' => step s' (.prewhere a)) := by
  rw [step_prewhere, step_having, bind_ok, bind_ok, step_prewhere, step_having]
  unfold havingF; cases hb : b.isEmpty <;> rfl

/-- **C08, concrete builder**: any two clause calls of different kinds — `where`, `prewhere`, `having`, `limit`, `offset`,
    `distinct`, `for_update`, `ignore`, `with_totals`, `force_index`, `use_index`, MySQL `modifier`, Vertica `hint`,
    ClickHouse `final` / `sample` — commute: same exception or same final state, whichever is called first, for any
    receiver state (any dialect, any sources), with real criteria as payloads -/
theorem clause_calls_commute (s : St) (c1 c2 : Call) (t1 t2 : Nat) (k1 : clauseTag c1 = some t1)
    (k2 : clauseTag c2 = some t2) (hne : t1 ≠ t2) :
    (step s c1 >>= fun s' => step s' c2) = (step s c2 >>= fun s' => step s' c1) := by
  cases h1 : simpleG c1 with
  | some g1 =>
    cases h2 : simpleG c2 with
    | some g2 => exact simple_simple_commute s c1 c2 g1 g2 t1 t2 h1 h2 k1 k2 hne
    | none =>
      cases c2 <;> simp [simpleG] at h2 <;> simp [clauseTag] at k2
      · exact prewhere_simple_commute s _ c1 g1 h1
      · exact where_simple_commute s _ c1 g1 h1
      · exact having_simple_commute s _ c1 g1 h1
  | none =>
    cases h2 : simpleG c2 with
    | some g2 =>
      cases c1 <;> simp [simpleG] at h1 <;> simp [clauseTag] at k1
      · exact (prewhere_simple_commute s _ c2 g2 h2).symm
      · exact (where_simple_commute s _ c2 g2 h2).symm
      · exact (having_simple_commute s _ c2 g2 h2).symm
    | none =>
      cases c1 <;> simp [simpleG] at h1 <;> simp [clauseTag] at k1 <;>
        cases c2 <;> simp [simpleG] at h2 <;> simp [clauseTag] at k2 <;> subst k1 <;> subst k2
      all_goals first
        | exact absurd rfl hne
        | exact where_prewhere_commute s _ _
        | exact (where_prewhere_commute s _ _).symm
        | exact where_having_commute s _ _
        | exact (where_having_commute s _ _).symm
        | exact prewhere_having_commute s _ _
        | exact (prewhere_having_commute s _ _).symm

/-! lifting to whole call sequences (same argument as `C08.interleavings_agree`, now with exact equality of the
concrete result — final state or exception) -/

def tagIs (k : Nat) (c : Call) : Bool := clauseTag c == some k
def ofTag (k : Nat) (l : List Call) : List Call := l.filter (tagIs k)
def AllClause (l : List Call) : Prop := ∀ c ∈ l, ∃ t, clauseTag c = some t

theorem run_cons (s : St) (c : Call) (cs : List Call) : run s (c :: cs) = (step s c >>= fun s' => run s' cs) := rfl

theorem swap_run (s : St) (a b : Call) (rest : List Call) (ta tb : Nat) (ha : clauseTag a = some ta)
    (hb : clauseTag b = some tb) (hne : ta ≠ tb) : run s (a :: b :: rest) = run s (b :: a :: rest) := by
  have h := clause_calls_commute s a b ta tb ha hb hne
  simp only [run_cons]
  have assoc : ∀ (x y : Call), (step s x >>= fun s' => step s' y >>= fun s'' => run s'' rest) =
      ((step s x >>= fun s' => step s' y) >>= fun s'' => run s'' rest) := by
    intro x y; cases step s x <;> rfl
  rw [assoc a b, assoc b a, h]

theorem bubble (s : St) (a : Call) (ta : Nat) (ha : clauseTag a = some ta) (pre post : List Call)
    (h : ∀ x ∈ pre, ∃ t, clauseTag x = some t ∧ t ≠ ta) :
    run s (pre ++ a :: post) = run s (a :: (pre ++ post)) := by
  induction pre generalizing s with
  | nil => rfl
  | cons p ps ih =>
    obtain ⟨tp, hp, hne⟩ := h p (by simp)
    have h1 : run s (p :: (ps ++ a :: post)) = run s (p :: a :: (ps ++ post)) := by
      simp only [run_cons]
      cases step s p with
      | error e => rfl
      | ok s' => exact ih s' (fun x hx => h x (by simp [hx]))
    rw [List.cons_append, h1, swap_run s p a (ps ++ post) tp ta hp ha hne]
    rfl

theorem split_first (k : Nat) (a : Call) (r l : List Call) (h : ofTag k l = a :: r) :
    ∃ pre post, l = pre ++ a :: post ∧ (∀ x ∈ pre, tagIs k x = false) ∧ ofTag k post = r := by
  induction l with
  | nil => simp [ofTag] at h
  | cons c l ih =>
    cases hc : tagIs k c
    · have h' : ofTag k l = a :: r := by simpa [ofTag, List.filter_cons, hc] using h
      obtain ⟨pre, post, e, hp, hr⟩ := ih h'
      refine ⟨c :: pre, post, by simp [e], ?_, hr⟩
      intro x hx
      rcases List.mem_cons.mp hx with e' | e'
      · subst e'; exact hc
      · exact hp x e'
    · simp only [ofTag, List.filter_cons, hc, if_true, List.cons.injEq] at h
      exact ⟨[], l, by simp [h.1], by simp, h.2⟩

/-- **C08, concrete builder, whole sequences**: two sequences of clause calls with the same per-kind subsequences —
    any two interleavings that keep the relative order of the calls of one kind — give the same result from any
    receiver state: the same statement state, or the same exception -/
theorem clause_interleavings_agree (l1 l2 : List Call) (s : St) (h1 : AllClause l1) (h2 : AllClause l2)
    (h : ∀ k, ofTag k l1 = ofTag k l2) : run s l1 = run s l2 := by
  induction l1 generalizing s l2 with
  | nil =>
    cases l2 with
    | nil => rfl
    | cons c cs =>
      obtain ⟨t, ht⟩ := h2 c (by simp)
      have := h t
      simp [ofTag, tagIs, ht] at this
  | cons a t ih =>
    obtain ⟨ta, hta⟩ := h1 a (by simp)
    have ha : ofTag ta l2 = a :: ofTag ta t := by
      rw [← h ta]; simp [ofTag, tagIs, hta]
    obtain ⟨pre, post, e, hp, hr⟩ := split_first ta a _ l2 ha
    subst e
    have hpre : ∀ x ∈ pre, ∃ t, clauseTag x = some t ∧ t ≠ ta := by
      intro x hx
      obtain ⟨tx, htx⟩ := h2 x (by simp [hx])
      refine ⟨tx, htx, ?_⟩
      intro e; subst e
      have := hp x hx
      simp [tagIs, htx] at this
    rw [bubble s a ta hta pre post hpre]
    have hrest : ∀ k, ofTag k t = ofTag k (pre ++ post) := by
      intro k
      have hk := h k
      by_cases hka : ta = k
      · subst hka
        have hpre0 : ofTag ta pre = [] := by
          simp only [ofTag, List.filter_eq_nil_iff]
          intro x hx; simp [hp x hx]
        simp only [ofTag, List.filter_append] at hr hpre0 ⊢
        rw [hpre0, List.nil_append]; exact hr.symm
      · have hak : tagIs k a = false := by
          simp only [tagIs, hta, beq_eq_false_iff_ne, ne_eq, Option.some.injEq]; exact hka
        have e1 : ofTag k (a :: t) = ofTag k t := by simp [ofTag, List.filter_cons, hak]
        have e2 : ofTag k (pre ++ a :: post) = ofTag k (pre ++ post) := by
          simp [ofTag, List.filter_append, List.filter_cons, hak]
        rw [← e1, hk, e2]
    have hall : AllClause (pre ++ post) := by
      intro x hx
      rcases List.mem_append.mp hx with hx | hx
      · exact h2 x (by simp [hx])
      · exact h2 x (by simp [hx])
    simp only [run_cons]
    cases step s a with
    | error e => rfl
    | ok s' => exact ih (pre ++ post) s' (fun c hc => h1 c (by simp [hc])) hall hrest

/-- non-vacuity: real criteria, three orders of five calls -/
example (s : St) (a b c : Term) :
    run s [.where_ a, .limit 3, .having b, .distinct, .prewhere c] = run s [.distinct, .prewhere c, .having b, .where_ a, .limit 3] :=
  clause_interleavings_agree _ _ s
    (by intro x hx; simp at hx; rcases hx with h | h | h | h | h <;> subst h <;> exact ⟨_, rfl⟩)
    (by intro x hx; simp at hx; rcases hx with h | h | h | h | h <;> subst h <;> exact ⟨_, rfl⟩)
    (by intro k
        have hk : ∀ t : Nat, ((some t == some k) = (t == k)) := by intro t; simp
        simp only [ofTag, List.filter, tagIs, clauseTag, hk]
        cases h0 : (0 == k) <;> cases h1 : (1 == k) <;> cases h2 : (2 == k) <;> cases h3 : (3 == k) <;>
          cases h5 : (5 == k) <;> simp_all <;> omega)

end Pypika.B

namespace Pypika.B
open Pypika

/-! ## C11 / C12 — the set-operation builder: operands are appended in call order, the base never changes, the last
`limit` / `offset` wins -/

def SetOp.ops : SetOp → List (Str × Query) | .mk _ ops _ _ _ _ => ops
def SetOp.base : SetOp → Query | .mk b _ _ _ _ _ => b
def SetOp.limit : SetOp → Option Nat | .mk _ _ _ l _ _ => l
def SetOp.offset : SetOp → Option Nat | .mk _ _ _ _ o _ => o

/-- any sequence of union / intersect / … calls adds exactly its operands, in call order, after the existing ones -/
theorem setop_ops_in_call_order (s : SetOp) (calls : List (Str × Query)) :
    ∃ s', runS s (calls.map fun c => SCall.op c.1 c.2) = .ok s' ∧ SetOp.ops s' = SetOp.ops s ++ calls ∧
      SetOp.base s' = SetOp.base s ∧ SetOp.limit s' = SetOp.limit s ∧ SetOp.offset s' = SetOp.offset s := by
  induction calls generalizing s with
  | nil => exact ⟨s, rfl, by simp, rfl, rfl, rfl⟩
  | cons c cs ih =>
    cases s with
    | mk base ops obs l o a =>
      obtain ⟨s', h1, h2, h3, h4, h5⟩ := ih (.mk base (ops ++ [(c.1, c.2)]) obs l o a)
      refine ⟨s', ?_, ?_, h3, h4, h5⟩
      · simpa [runS, stepS, bind, Except.bind, pure, Except.pure] using h1
      · simpa [SetOp.ops, List.append_assoc] using h2

/-- the constructor on a query: the receiver becomes the base, the argument the first operand -/
theorem mkSetOp_shape (s : St) (name : Str) (other : Query) :
    SetOp.base (mkSetOp s name other) = s.r.toQ ∧ SetOp.ops (mkSetOp s name other) = [(name, other)] ∧
      SetOp.limit (mkSetOp s name other) = none ∧ SetOp.offset (mkSetOp s name other) = none := ⟨rfl, rfl, rfl, rfl⟩

theorem setop_limit_last_wins (s : SetOp) (n m : Nat) :
    (stepS s (.limit n) >>= fun x => stepS x (.limit m)) = stepS s (.limit m) := by
  cases s; rfl

theorem setop_offset_last_wins (s : SetOp) (n m : Nat) :
    (stepS s (.offset n) >>= fun x => stepS x (.offset m)) = stepS s (.offset m) := by
  cases s; rfl

theorem setop_limit_zero_stored (s : SetOp) : ∃ s', stepS s (.limit 0) = .ok s' ∧ SetOp.limit s' = some 0 := by
  cases s; exact ⟨_, rfl, rfl⟩

/-- pagination and ordering calls never touch the operand list -/
theorem setop_ops_frame (s s' : SetOp) (c : SCall) (h : stepS s c = .ok s') (hc : ∀ n q, c ≠ .op n q) :
    SetOp.ops s' = SetOp.ops s ∧ SetOp.base s' = SetOp.base s := by
  cases s with
  | mk base ops obs l o a =>
    cases c with
    | op n q => exact absurd rfl (hc n q)
    | limit n => simp [stepS, pure, Except.pure] at h; subst h; exact ⟨rfl, rfl⟩
    | offset n => simp [stepS, pure, Except.pure] at h; subst h; exact ⟨rfl, rfl⟩
    | orderby args order =>
      simp only [stepS] at h
      split at h
      · simp [pure, Except.pure] at h; subst h; exact ⟨rfl, rfl⟩
      · simp at h

end Pypika.B

namespace Pypika.B
open Pypika

/-! ## C18 / C14 / C01 — term-level builders: each call adds its part to the wrapper it was called on, in call order,
and leaves every other part as it was; the frame can be given once -/

def isFunc : Term → Bool | .func .. => true | _ => false
def isCase : Term → Bool | .case .. => true | _ => false

/-- FILTER lists accumulate: two calls are one call with the concatenated list (a conjunction, left to right) -/
theorem filter_filter (n : Str) (s : Option (List Str)) (args : List Term) (d : Bool) (sp : Option Str) (ef fi : Option Term)
    (ov : Bool) (pa : List Term) (oo : List (Term × Option Ord)) (fr : Option Frame) (np : Bool) (al : Option Str)
    (a b : List Term) :
    (stepT (.func n s args d sp ef fi ov pa oo fr np al) (.filter a) >>= fun t => stepT t (.filter b)) =
      stepT (.func n s args d sp ef fi ov pa oo fr np al) (.filter (a ++ b)) := by
  simp [stepT, bind, Except.bind, pure, Except.pure, List.foldl_append]

/-- the filter of a function that had none is `Criterion.all` of the list -/
theorem filter_is_all (n : Str) (s : Option (List Str)) (args : List Term) (d : Bool) (sp : Option Str) (ef : Option Term)
    (ov : Bool) (pa : List Term) (oo : List (Term × Option Ord)) (fr : Option Frame) (np : Bool) (al : Option Str) (cs : List Term) :
    stepT (.func n s args d sp ef none ov pa oo fr np al) (.filter cs) =
      .ok (.func n s args d sp ef (some (allOf cs)) ov pa oo fr np al) := rfl

theorem over_accumulates (n : Str) (s : Option (List Str)) (args : List Term) (d : Bool) (sp : Option Str) (ef fi : Option Term)
    (ov : Bool) (pa : List Term) (oo : List (Term × Option Ord)) (fr : Option Frame) (np : Bool) (al : Option Str)
    (a b : List Term) :
    (stepT (.func n s args d sp ef fi ov pa oo fr np al) (.over a) >>= fun t => stepT t (.over b)) =
      .ok (.func n s args d sp ef fi true (pa ++ a ++ b) oo fr np al) := by
  simp [stepT, bind, Except.bind, pure, Except.pure]

theorem orderby_accumulates (n : Str) (s : Option (List Str)) (args : List Term) (d : Bool) (sp : Option Str) (ef fi : Option Term)
    (ov : Bool) (pa : List Term) (oo : List (Term × Option Ord)) (fr : Option Frame) (np : Bool) (al : Option Str)
    (a b : List Term) (o1 o2 : Option Ord) :
    (stepT (.func n s args d sp ef fi ov pa oo fr np al) (.orderby a o1) >>= fun t => stepT t (.orderby b o2)) =
      .ok (.func n s args d sp ef fi true pa (oo ++ a.map (fun t => (t, o1)) ++ b.map (fun t => (t, o2))) fr np al) := by
  simp [stepT, bind, Except.bind, pure, Except.pure]

/-- `rows()` / `range()`: rejected exactly when a frame is already set (`Guards.frameRaises`), otherwise it sets the frame
    and nothing else -/
theorem frame_once (n : Str) (s : Option (List Str)) (args : List Term) (d : Bool) (sp : Option Str) (ef fi : Option Term)
    (ov : Bool) (pa : List Term) (oo : List (Term × Option Ord)) (fr : Option Frame) (np : Bool) (al : Option Str)
    (kind : Str) (lo : Edge) (hi : Option Edge) :
    (match stepT (.func n s args d sp ef fi ov pa oo fr np al) (.frame kind lo hi) with
     | .error _ => Guard.frameRaises fr.isSome false = true
     | .ok t => Guard.frameRaises fr.isSome false = false ∧
         t = .func n s args d sp ef fi ov pa oo (some { kind := kind, lo := lo, hi := hi }) np al) := by
  cases fr <;> simp [stepT, Guard.frameRaises, pure, Except.pure]

/-- the clauses of a window wrapper can be given in any order: FILTER, OVER terms, ORDER BY terms, the frame, IGNORE NULLS
    each go to their own slot -/
theorem filter_over_commute (t : Term) (cs ps : List Term) :
    (stepT t (.filter cs) >>= fun x => stepT x (.over ps)) = (stepT t (.over ps) >>= fun x => stepT x (.filter cs)) := by
  cases t <;> simp [stepT, bind, Except.bind, pure, Except.pure]

theorem over_orderby_commute (t : Term) (ps os : List Term) (o : Option Ord) :
    (stepT t (.over ps) >>= fun x => stepT x (.orderby os o)) = (stepT t (.orderby os o) >>= fun x => stepT x (.over ps)) := by
  cases t <;> simp [stepT, bind, Except.bind, pure, Except.pure]

/-- CASE branches accumulate in call order; the last `else_` wins -/
theorem when_appends (ws : List (Term × Term)) (e : Option Term) (al : Option Str) (c : Term) (v : Arg) :
    stepT (.case ws e al) (.when c v) = .ok (.case (ws ++ [(c, wrapConst false v)]) e al) := rfl

theorem else_last_wins (ws : List (Term × Term)) (e : Option Term) (al : Option Str) (a b : Arg) :
    (stepT (.case ws e al) (.else_ a) >>= fun t => stepT t (.else_ b)) = stepT (.case ws e al) (.else_ b) := rfl

theorem when_else_commute (ws : List (Term × Term)) (e : Option Term) (al : Option Str) (c : Term) (v x : Arg) :
    (stepT (.case ws e al) (.when c v) >>= fun t => stepT t (.else_ x)) =
      (stepT (.case ws e al) (.else_ x) >>= fun t => stepT t (.when c v)) := rfl

/-- `as_`: the last alias wins, and an alias touches nothing but the alias -/
theorem as_last_wins (t : Term) (a b : Option Str) :
    (stepT t (.as_ a) >>= fun x => stepT x (.as_ b)) = stepT t (.as_ b) := by
  cases t <;> simp [stepT, bind, Except.bind, pure, Except.pure, Term.withAlias]

end Pypika.B

namespace Pypika.B
open Pypika

/-! ## C14 — PostgreSQL RETURNING guard of the concrete builder -/

/-- a term without column references is never rejected -/
theorem returning_no_fields_ok (r : QR) (t : Term) (h : fieldTabs t = []) : returnRejects r t = false := by
  simp [returnRejects, h]

/-- outside INSERT / UPDATE / DELETE every term that references a column is rejected -/
theorem returning_needs_dml (r : QR) (t : Term) (hf : fieldTabs t ≠ [])
    (h : (r.insertTable.isSome || r.updateTable.isSome || r.fl.deleteFrom) = false) : returnRejects r t = true := by
  unfold returnRejects
  cases hft : fieldTabs t with
  | nil => exact absurd hft hf
  | cons a as => simp [List.any, h]

/-- a term all of whose columns are on the statement's target (or name no table) is accepted in a DML statement -/
theorem returning_target_ok (r : QR) (t : Term)
    (hdml : (r.insertTable.isSome || r.updateTable.isSome || r.fl.deleteFrom) = true)
    (hone : (r.insertTable.isNone || r.updateTable.isNone) = true)
    (h : ∀ ref, some ref ∈ fieldTabs t → refIn (optSrcs r.insertTable ++ optSrcs r.updateTable) ref = true) :
    returnRejects r t = false := by
  unfold returnRejects
  rw [List.any_eq_false]
  intro ft hft
  cases ft with
  | none => simp [hdml, hone]
  | some ref => simp [hdml, h ref hft]

/-- a rejected `returning()` yields no state (the receiver's copy is discarded): nothing is half-applied -/
theorem returning_rejects_cleanly (s : St) (t : Term) (isStar : Bool) (hs : s.returnStar = false)
    (h : returnRejects s.r t = true) : returnField s t isStar = .error "QueryException".toList := by
  simp [returnField, hs, h, B.raise]

end Pypika.B

namespace Pypika.B
open Pypika

/-! ## C04 / C13 — the select list keeps its terms in call order -/

def noStar : Term → Bool | .star _ => false | _ => true

theorem selectOne_term_append (s : St) (t : Term) (hs : s.selectStar = false) (ht : s.starTables = []) (hn : noStar t = true) :
    selectOne s (.term t) = .ok { s with r := { s.r with selects := s.r.selects ++ [t] } } := by
  cases t <;> simp [noStar] at hn <;> simp [selectOne, selectField, hs, ht, pure, Except.pure]

/-- **select terms are kept in call order** (C04 / C13): as long as no star has been selected, `select(t1, …, tn)` of
    non-star terms appends exactly those terms, in order, and changes nothing else — for any receiver state -/
theorem select_terms_append (s : St) (ts : List Term) (hs : s.selectStar = false) (ht : s.starTables = [])
    (hn : ∀ t ∈ ts, noStar t = true) :
    step s (.select (ts.map Arg.term)) = .ok { s with r := { s.r with selects := s.r.selects ++ ts } } := by
  simp only [step]
  induction ts generalizing s with
  | nil => simp [selectAll, pure, Except.pure]
  | cons t ts ih =>
    simp only [List.map, selectAll, bind, Except.bind]
    rw [selectOne_term_append s t hs ht (hn t (by simp))]
    refine (ih { s with r := { s.r with selects := s.r.selects ++ [t] } } hs ht (fun x hx => hn x (by simp [hx]))).trans ?_
    simp [List.append_assoc]

/-- after `select('*')` further column selections are ignored (documented: positional by design) -/
theorem select_after_star_ignored (s : St) (n : Str) (a : Option Str) (tbl : Option TRef) (hs : s.selectStar = true) :
    step s (.select [.term (.field n a tbl)]) = .ok s := by
  simp [step, selectAll, selectOne, selectField, hs, bind, Except.bind, pure, Except.pure]

/-- two `select` calls are one call with the concatenated term list -/
theorem select_select (s : St) (ts us : List Term) (hs : s.selectStar = false) (ht : s.starTables = [])
    (hn : ∀ t ∈ ts ++ us, noStar t = true) :
    (step s (.select (ts.map Arg.term)) >>= fun x => step x (.select (us.map Arg.term))) =
      step s (.select ((ts ++ us).map Arg.term)) := by
  rw [select_terms_append s ts hs ht (fun t h => hn t (by simp [h])), select_terms_append s (ts ++ us) hs ht hn]
  simp only [bind, Except.bind]
  refine (select_terms_append { s with r := { s.r with selects := s.r.selects ++ ts } } us hs ht (fun t h => hn t (by simp [h]))).trans ?_
  simp [List.append_assoc]
end Pypika.B
