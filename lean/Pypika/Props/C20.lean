import Pypika.RenderEqns
import Pypika.Props.C03
/-!
# C20 — INTERVAL, JSON and array/tuple literals denote the value they were built from
-/
namespace Pypika.C20
open Pypika

/-! ## JSON: one string literal whose payload is the JSON text; string escaping is invertible -/

/-- a JSON term renders exactly one `str` piece (quoted with the context's literal quote) whose
    payload is the compact JSON text, followed only by its alias -/
theorem json_one_literal (c : Ctx) (j : JVal) (a : Option Str) :
    render c (.json j a) = .str false c.sq j.text :: aliasDoc c c.q a := render_json c

/-- hence (C03) the SQL literal reads back as exactly the JSON text, whatever quotes it contains -/
theorem json_sql_roundtrip (q : Char) (j : JVal) (rest : Str) (h : rest.head? ≠ some q) :
    C03.readLit q ((Piece.str false (some q) j.text).text ++ rest) = some (j.text, rest) :=
  C03.str_piece_roundtrip false q j.text rest h

/-! ## Array / Tuple: every element once, in order, in the dialect's bracket form -/

theorem renderL_eq_map (c : Ctx) (ts : List Term) : renderL c ts = ts.map (render c) := by
  induction ts with
  | nil => rfl
  | cons t ts ih => rw [renderL_eq_2, ih]; rfl

theorem tuple_layout (c : Ctx) (vs : List Term) (a : Option Str) :
    render c (.tuple vs a) = kws "(" :: joinDocs (K ",") (vs.map (render c)) ++ kws ")" :: aliasDoc c c.q a := by
  rw [render_tuple, renderL_eq_map]

/-- PostgreSQL / Redshift: `ARRAY[e1,…,en]` for a non-empty rendering, `'{}'` otherwise -/
theorem array_layout_pg (c : Ctx) (vs : List Term) (a : Option Str)
    (hd : c.dia = some .postgresql ∨ c.dia = some .redshift) (hne : flatten (joinDocs (K ",") (vs.map (render c))) ≠ []) :
    render c (.array vs a) = kws "ARRAY[" :: joinDocs (K ",") (vs.map (render c)) ++ K "]" ++ aliasDoc c c.q a := by
  rw [render_array, renderL_eq_map]
  rcases hd with h | h <;> simp [h, hne]

/-- every other dialect: `[e1,…,en]` -/
theorem array_layout_other (c : Ctx) (vs : List Term) (a : Option Str)
    (h1 : c.dia ≠ some .postgresql) (h2 : c.dia ≠ some .redshift) :
    render c (.array vs a) = kws "[" :: joinDocs (K ",") (vs.map (render c)) ++ K "]" ++ aliasDoc c c.q a := by
  rw [render_array, renderL_eq_map]
  simp [h1, h2]

/-! ## Interval: template by dialect; sign; unit selection -/

/-- the template is chosen by the interval's own dialect if given, else by the rendering context -/
theorem interval_template (ctxD : Option Dialect) (iv : IntervalArgs) :
    intervalText ctxD iv =
      (if Dialect.intervalQuotesUnit (match iv.dialect with | some d => some d | none => ctxD)
       then "INTERVAL '".toList ++ iv.exprUnit.1 ++ ' ' :: iv.exprUnit.2 ++ ['\'']
       else "INTERVAL '".toList ++ iv.exprUnit.1 ++ "' ".toList ++ iv.exprUnit.2) := by
  unfold intervalText; rfl

/-- quarters and weeks are rendered as the (signed) count with their own unit, for every count -/
theorem quarter_week (iv : IntervalArgs) :
    (iv.quarters ≠ 0 → iv.exprUnit = (intText iv.quarters, "QUARTER".toList)) ∧
    (iv.quarters = 0 → iv.weeks ≠ 0 → iv.exprUnit = (intText iv.weeks, "WEEK".toList)) := by
  constructor
  · intro h; unfold IntervalArgs.exprUnit; rw [if_pos h]
  · intro h0 h; unfold IntervalArgs.exprUnit; rw [if_neg (by simp [h0]), if_pos h]

/-- a microseconds-only interval keeps its sign and its value (the repaired defect), for every n > 0 -/
theorem micro_only_pos (n : Nat) :
    ({ microseconds := (n : Int) + 1 } : IntervalArgs).exprUnit = (natText (n + 1), "MICROSECOND".toList) := by
  have hb : ({ microseconds := (n : Int) + 1 } : IntervalArgs).bounds = some (6, 6, false) := by
    have h : ((n : Int) + 1 ≠ 0) := by omega
    have h2 : ¬ ((n : Int) + 1 < 0) := by omega
    simp [IntervalArgs.bounds, List.range, List.range.loop, List.filter, h, h2]
  unfold IntervalArgs.exprUnit
  simp only [hb]
  have e : ((n : Int) + 1).natAbs = n + 1 := by omega
  simp [e]

theorem micro_only_neg (n : Nat) :
    ({ microseconds := -((n : Int) + 1) } : IntervalArgs).exprUnit = ('-' :: natText (n + 1), "MICROSECOND".toList) := by
  have hb : ({ microseconds := -((n : Int) + 1) } : IntervalArgs).bounds = some (6, 6, true) := by
    have h : (-((n : Int) + 1) ≠ 0) := by omega
    have h2 : (-((n : Int) + 1) < 0) := by omega
    simp [IntervalArgs.bounds, List.range, List.range.loop, List.filter, h, h2]
  unfold IntervalArgs.exprUnit
  simp only [hb]
  have e : (-((n : Int) + 1)).natAbs = n + 1 := by omega
  simp [e]

/-- non-vacuity: interior zero fields are kept, outer ones trimmed -/
example : intervalText none { years := 1, days := 5 } = "INTERVAL '1-0-5 YEAR_DAY'".toList := by decide +kernel
example : intervalText (some .mysql) { hours := -10, seconds := 7 } = "INTERVAL '-10:0:7' HOUR_SECOND".toList := by
  decide +kernel

end Pypika.C20
