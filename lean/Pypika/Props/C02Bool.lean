import Pypika.Spec.BoolGrammar
import Pypika.RenderEqns
/-!
# C02 — the boolean level: NOT / AND / OR / XOR keep the structure the user built

`renderB` is pypika's bracketing policy for criteria — `ComplexCriterion.get_sql` wraps itself when
`subcriterion` is set, sets it for an operand exactly when that operand is a `ComplexCriterion` with a
*different* connective (`needs_brackets`), and `Not.get_sql` sets it for its operand — applied to an
abstract tree.  `renderB_sound`: for every tree (any depth, any mix of connectives) the token list
derives, in the grammar that contains only one-operator chains, NOT and parentheses, a tree with the
same value in every algebra whose connectives are associative.  `render_embB` shows that the
model's `render` produces exactly the image of `renderB`.
-/
namespace Pypika.C02
open Pypika Pypika.Spec

/-- `ComplexCriterion.needs_brackets` on abstract trees -/
def needsB (o : BoolOp) : BTree → Bool
  | .bin o' _ _ => o' ≠ o
  | _ => false

def wrapB (b : Bool) (ts : List BTok) : List BTok := if b then .lp :: ts ++ [.rp] else ts

/-- token-level transcription of `ComplexCriterion.get_sql` / `Not.get_sql`; `sub` = the `subcriterion` flag -/
def renderB : Bool → BTree → List BTok
  | _, .atom a => [.atom a]
  | _, .not t => .not :: renderB true t
  | sub, .bin o l r => wrapB sub (renderB (needsB o l) l ++ .op o :: renderB (needsB o r) r)

section
variable {α : Type} (A : BAlg α) (env : Nat → α)

/-- appending a chain of the same operator to the right re-associates to the left -/
theorem absorbB {lv r tr} (hr : GB lv r tr) : ∀ o, lv = .chain o → ∀ l tl, (GB .nt l tl ∨ GB (.chain o) l tl) →
    ∃ t', GB (.chain o) (l ++ .op o :: r) t' ∧ evalB A env t' = A.ap o (evalB A env tl) (evalB A env tr) := by
  induction hr with
  | atom a => intro o h; cases h
  | paren _ _ => intro o h; cases h
  | not _ _ => intro o h; cases h
  | up1 _ _ => intro o h; cases h
  | up0 _ _ => intro o h; cases h
  | chainTop _ _ => intro o h; cases h
  | @two o' r1 r2 t1 t2 h1 h2 _ _ =>
    intro o h l tl hl
    cases h
    have g1 : GB (.chain o') (l ++ .op o' :: r1) (.bin o' tl t1) := by
      rcases hl with hl | hl
      · exact GB.two hl h1
      · exact GB.more hl h1
    refine ⟨.bin o' (.bin o' tl t1) t2, ?_, ?_⟩
    · have := GB.more g1 h2
      simpa [List.append_assoc] using this
    · simp [evalB, A.ap_assoc]
  | @more o' r1 r2 t1 t2 h1 h2 ih1 _ =>
    intro o h l tl hl
    cases h
    obtain ⟨t1', g1, e1⟩ := ih1 o' rfl l tl hl
    refine ⟨.bin o' t1' t2, ?_, ?_⟩
    · have := GB.more g1 h2
      simpa [List.append_assoc] using this
    · simp [evalB, e1, A.ap_assoc]

/-- what the induction carries: an un-bracketed compound is a chain of its own operator; everything rendered with
    `subcriterion` set sits at the NOT level -/
def Good (t : BTree) : Prop :=
  (∀ o l r, t = .bin o l r → ∃ t', GB (.chain o) (renderB false t) t' ∧ evalB A env t' = evalB A env t) ∧
  (∃ t', GB .nt (renderB true t) t' ∧ evalB A env t' = evalB A env t) ∧
  ((∀ o l r, t ≠ .bin o l r) → renderB false t = renderB true t)

/-- an operand as `ComplexCriterion.get_sql` renders it: at the NOT level, or an un-bracketed chain of the same operator -/
theorem operand_ok (o : BoolOp) (x : BTree) (hx : Good A env x) :
    ∃ t', (GB .nt (renderB (needsB o x) x) t' ∨ GB (.chain o) (renderB (needsB o x) x) t') ∧ evalB A env t' = evalB A env x := by
  unfold Good at hx
  obtain ⟨h1, ⟨t2, g2, e2⟩, h3⟩ := hx
  cases x with
  | atom a => exact ⟨t2, Or.inl (by simpa [needsB, renderB] using g2), e2⟩
  | not t => exact ⟨t2, Or.inl (by simpa [needsB, renderB] using g2), e2⟩
  | bin o' l r =>
    by_cases ho : o' = o
    · subst ho
      obtain ⟨t', g, e⟩ := h1 _ _ _ rfl
      exact ⟨t', Or.inr (by simpa [needsB] using g), e⟩
    · have : needsB o (.bin o' l r) = true := by simp [needsB, ho]
      rw [this]
      exact ⟨t2, Or.inl g2, e2⟩

theorem good_all : ∀ t, Good A env t := by
  intro t
  induction t with
  | atom a =>
    unfold Good
    refine ⟨fun o l r h => (by cases h), ⟨.atom a, ?_, rfl⟩, fun _ => rfl⟩
    simpa [renderB] using GB.up1 (GB.atom a)
  | not t ih =>
    unfold Good at ih ⊢
    obtain ⟨_, ⟨t2, g2, e2⟩, _⟩ := ih
    refine ⟨fun o l r h => (by cases h), ⟨.not t2, ?_, by simp [evalB, e2]⟩, fun _ => rfl⟩
    simpa [renderB] using GB.not g2
  | bin o l r ihl ihr =>
    obtain ⟨tl, gl, el⟩ := operand_ok A env o l ihl
    obtain ⟨tr, gr, er⟩ := operand_ok A env o r ihr
    -- the un-bracketed rendering is a chain of `o`
    have hchain : ∃ t', GB (.chain o) (renderB false (.bin o l r)) t' ∧ evalB A env t' = evalB A env (.bin o l r) := by
      simp only [renderB, wrapB]
      rcases gr with gr | gr
      · refine ⟨.bin o tl tr, ?_, by simp [evalB, el, er]⟩
        rcases gl with gl | gl
        · exact GB.two gl gr
        · exact GB.more gl gr
      · obtain ⟨t', g', e'⟩ := absorbB A env gr o rfl _ tl gl
        exact ⟨t', g', by simp [evalB, e', el, er]⟩
    unfold Good
    refine ⟨fun o' l' r' h => ?_, ?_, fun h => absurd rfl (h o l r)⟩
    · cases h; exact hchain
    · obtain ⟨t', g', e'⟩ := hchain
      refine ⟨t', ?_, e'⟩
      have := GB.up1 (GB.paren (GB.chainTop g'))
      simpa [renderB, wrapB] using this

/-- **C02 (boolean level), full strength.**  For every criterion tree the rendered tokens derive a tree with the same
    value in every algebra whose connectives are associative — as a whole criterion when rendered at top level, at the
    NOT level (bracketed if compound) when rendered as a sub-criterion. -/
theorem renderB_sound (t : BTree) :
    (∃ t', GB .top (renderB false t) t' ∧ evalB A env t' = evalB A env t) ∧
    (∃ t', GB .nt (renderB true t) t' ∧ evalB A env t' = evalB A env t) := by
  have hg := good_all A env t
  unfold Good at hg
  obtain ⟨h1, ⟨t2, g2, e2⟩, h3⟩ := hg
  refine ⟨?_, ⟨t2, g2, e2⟩⟩
  cases t with
  | atom a => exact ⟨t2, GB.up0 (by rw [h3 (fun _ _ _ h => by cases h)]; exact g2), e2⟩
  | not t => exact ⟨t2, GB.up0 (by rw [h3 (fun _ _ _ h => by cases h)]; exact g2), e2⟩
  | bin o l r =>
    obtain ⟨t', g, e⟩ := h1 _ _ _ rfl
    exact ⟨t', GB.chainTop g, e⟩
end

/-- non-vacuity: `NOT (a AND b) OR (c AND (d AND e)) XOR …` exercises every rule -/
example : renderB false (.bin .or_ (.not (.bin .and_ (.atom 0) (.atom 1))) (.bin .and_ (.atom 2) (.bin .and_ (.atom 3) (.atom 4)))) =
    [.not, .lp, .atom 0, .op .and_, .atom 1, .rp, .op .or_, .lp, .atom 2, .op .and_, .atom 3, .op .and_, .atom 4, .rp] := by
  decide

/-! ## the bridge to the model's `render` -/

def embB (ρ : Nat → Term) : BTree → Term
  | .atom a => ρ a
  | .not t => .not (embB ρ t) none
  | .bin o l r => .complex o (embB ρ l) (embB ρ r) none

def tokDocB (c : Ctx) (ρ : Nat → Term) : BTok → Doc
  | .atom a => render c (ρ a)
  | .not => K "NOT "
  | .op o => [kws " ", .kw o.text, kws " "]
  | .lp => K "("
  | .rp => K ")"

def docOfB (c : Ctx) (ρ : Nat → Term) : List BTok → Doc
  | [] => []
  | t :: ts => tokDocB c ρ t ++ docOfB c ρ ts

theorem docOfB_append (c : Ctx) (ρ : Nat → Term) (a b : List BTok) : docOfB c ρ (a ++ b) = docOfB c ρ a ++ docOfB c ρ b := by
  induction a with
  | nil => rfl
  | cons t ts ih => simp [docOfB, ih, List.append_assoc]

/-- operands below the boolean level: not themselves AND/OR/XOR terms, and rendered alike whatever the
    `subcriterion` flag (comparisons, IS NULL, IN, BETWEEN, LIKE over fields and values …) -/
structure AtomOKB (c : Ctx) (ρ : Nat → Term) : Prop where
  notComplex : ∀ a, (ρ a).isComplexWith = none
  flagFree : ∀ a s, render { c with subcriterion := s } (ρ a) = render c (ρ a)

theorem embB_needs (ρ : Nat → Term) (c : Ctx) (ok : AtomOKB c ρ) (o : BoolOp) (t : BTree) :
    needsBrackets o (embB ρ t) = needsB o t := by
  cases t with
  | atom a => simp [embB, needsBrackets, needsB, ok.notComplex a]
  | not t => simp [embB, needsBrackets, needsB, Term.isComplexWith]
  | bin o' l r => simp [embB, needsBrackets, needsB, Term.isComplexWith]

theorem docOfB_wrap (c : Ctx) (ρ : Nat → Term) (b : Bool) (ts : List BTok) :
    docOfB c ρ (wrapB b ts) = parensIf b (docOfB c ρ ts) := by
  cases b
  · simp [wrapB, parensIf]
  · simp [wrapB, parensIf, parens, docOfB, docOfB_append, tokDocB, K, kws]

/-- **the bridge (boolean level).**  For every criterion tree over atomic predicates, the model's renderer, called with
    `subcriterion = s`, gives the document of `renderB s`. -/
theorem render_embB (c : Ctx) (hc : c.withAlias = false) (ρ : Nat → Term) (ok : AtomOKB c ρ) :
    ∀ (t : BTree) (s : Bool), render { c with subcriterion := s } (embB ρ t) = docOfB c ρ (renderB s t) := by
  intro t
  induction t with
  | atom a => intro s; simp [embB, renderB, docOfB, tokDocB, ok.flagFree a s]
  | not t ih =>
    intro s
    simp only [embB, render_not, renderB, docOfB, tokDocB, aliasDoc]
    rw [ih true]
    simp [K, kws]
  | bin o l r ihl ihr =>
    intro s
    simp only [embB, render_complex, renderB, aliasDoc, opt]
    rw [embB_needs ρ c ok o l, embB_needs ρ c ok o r]
    have hl := ihl (needsB o l)
    have hr := ihr (needsB o r)
    have e1 : ({ { c with subcriterion := s } with withAlias := false, subcriterion := needsB o l } : Ctx) =
        { c with subcriterion := needsB o l } := by cases c; simp_all
    have e2 : ({ { c with subcriterion := s } with withAlias := false, subcriterion := needsB o r } : Ctx) =
        { c with subcriterion := needsB o r } := by cases c; simp_all
    rw [e1, e2, hl, hr, docOfB_wrap, docOfB_append]
    simp [docOfB, tokDocB, hc]

/-- **C02 for the model's renderer, boolean level.** -/
theorem render_sound_modelB {α : Type} (A : BAlg α) (env : Nat → α) (c : Ctx) (hc : c.withAlias = false)
    (hs : c.subcriterion = false) (ρ : Nat → Term) (ok : AtomOKB c ρ) (t : BTree) :
    ∃ ts t', render c (embB ρ t) = docOfB c ρ ts ∧ GB .top ts t' ∧ evalB A env t' = evalB A env t := by
  obtain ⟨⟨t', g, ev⟩, _⟩ := renderB_sound A env t
  refine ⟨renderB false t, t', ?_, g, ev⟩
  have := render_embB c hc ρ ok t false
  have e : ({ c with subcriterion := false } : Ctx) = c := by cases c; simp_all
  rwa [e] at this

end Pypika.C02
